import MosdnsVerif.Model.C05
import MosdnsVerif.Gen.Facts

/-!
# C05 — cached answers age correctly and expire on time
-/
namespace Props.C05
open Model.C05

/-! ### Admission and lifetimes -/

/-- **Never stored**: truncated replies, rcodes other than NOERROR / NXDOMAIN /
SERVFAIL, and NOERROR replies whose smallest TTL is 0 (or that have no record). -/
theorem never_stored (lazyTtl : Int) (m : Msg) :
    (m.tc = true → admission lazyTtl m = none) ∧
    (m.rcode ≠ 0 → m.rcode ≠ 2 → m.rcode ≠ 3 → admission lazyTtl m = none) ∧
    (m.rcode = 0 → minTTL m = 0 → admission lazyTtl m = none) := by
  refine ⟨?_, ?_, ?_⟩
  · intro h; simp [admission, h]
  · intro h0 h2 h3; simp [admission, lifetimes, h0, h2, h3]
  · intro h0 hz
    unfold admission lifetimes
    split
    · rfl
    · simp only [h0, hz]
      by_cases ha : m.answer.length = 0 <;> simp [ha] <;> omega

/-- **Lifetimes**: NXDOMAIN 30 s, SERVFAIL 5 s, empty NOERROR
min(300 s, smallest TTL) - all three regardless of lazy caching - and NOERROR
with answers: the smallest TTL (kept in the store for `lazy_cache_ttl` when
lazy caching is on). -/
theorem lifetime_bound (lazyTtl : Int) (m : Msg) (a b : Nat) (h : admission lazyTtl m = some (a, b)) :
    m.tc = false ∧
    (m.rcode = 3 → a = 30 ∧ b = 30) ∧
    (m.rcode = 2 → a = 5 ∧ b = 5) ∧
    (m.rcode = 0 → m.answer = [] → a = min (minTTL m).toNat 300 ∧ b = a) ∧
    (m.rcode = 0 → m.answer ≠ [] → a = (minTTL m).toNat ∧ (b = if lazyTtl > 0 then lazyTtl.toNat else a)) := by
  unfold admission at h
  split at h
  · cases h
  · rename_i htc
    simp only [Bool.not_eq_true] at htc
    refine ⟨htc, ?_, ?_, ?_, ?_⟩
    · intro h3
      simp [lifetimes, h3] at h
      omega
    · intro h2
      simp [lifetimes, h2] at h
      omega
    · intro h0 he
      simp only [lifetimes, h0, he, List.length_nil] at h
      simp at h
      obtain ⟨_, h1, h2⟩ := h
      omega
    · intro h0 hne
      have hl : ¬ m.answer.length = 0 := by
        intro hl; exact hne (List.eq_nil_of_length_eq_zero hl)
      simp only [lifetimes, h0, hl] at h
      simp at h
      obtain ⟨_, h1, h2⟩ := h
      constructor
      · omega
      · by_cases hz : lazyTtl > 0
        · simp [hz] at h2 ⊢; omega
        · simp [hz] at h2 ⊢; omega

/-- The stored lifetime really is bounded by every record's TTL. -/
theorem foldl_min_le (ts : List UInt32) : ∀ (t : UInt32),
    (ts.foldl (fun a b => if b < a then b else a) t ≤ t) ∧
    (∀ x ∈ ts, ts.foldl (fun a b => if b < a then b else a) t ≤ x) := by
  induction ts with
  | nil => intro t; exact ⟨UInt32.le_refl _, by intro x hx; cases hx⟩
  | cons y ys ih =>
    intro t
    simp only [List.foldl_cons]
    by_cases h : y < t
    · simp only [h, if_true]
      obtain ⟨h1, h2⟩ := ih y
      refine ⟨UInt32.le_trans h1 (UInt32.le_of_lt h), ?_⟩
      intro x hx
      rcases List.mem_cons.mp hx with rfl | hx
      · exact h1
      · exact h2 x hx
    · simp only [h, if_false]
      obtain ⟨h1, h2⟩ := ih t
      refine ⟨h1, ?_⟩
      intro x hx
      rcases List.mem_cons.mp hx with rfl | hx
      · exact UInt32.le_trans h1 (UInt32.not_lt.mp h)
      · exact h2 x hx

theorem minTTL_le (m : Msg) (r : RR) (hr : r ∈ m.rrs) (ho : r.isOpt = false) : minTTL m ≤ r.ttl := by
  unfold minTTL
  have hmem : r.ttl ∈ (m.rrs.filter (fun r => !r.isOpt)).map (·.ttl) :=
    List.mem_map.mpr ⟨r, List.mem_filter.mpr ⟨hr, by simp [ho]⟩, rfl⟩
  cases hl : (m.rrs.filter (fun r => !r.isOpt)).map (·.ttl) with
  | nil => rw [hl] at hmem; cases hmem
  | cons t ts =>
    rw [hl] at hmem
    simp only
    rcases List.mem_cons.mp hmem with h | h
    · rw [h]; exact (foldl_min_le ts t).1
    · exact (foldl_min_le ts t).2 _ h

/-! ### Ageing of a fresh hit -/

/-- Per record: OPT untouched; otherwise lowered by `delta` when larger,
else 1; always between 1 and max(1, original). -/
theorem subRR_spec (delta : UInt32) (r : RR) :
    (r.isOpt = true → subRR delta r = r) ∧
    (r.isOpt = false →
      (subRR delta r).isOpt = false ∧
      (r.ttl > delta → (subRR delta r).ttl = r.ttl - delta) ∧
      (¬ r.ttl > delta → (subRR delta r).ttl = 1) ∧
      1 ≤ (subRR delta r).ttl ∧
      ((subRR delta r).ttl ≤ r.ttl ∨ (subRR delta r).ttl = 1)) := by
  constructor
  · intro h; simp [subRR, h]
  · intro h
    have e : subRR delta r = if r.ttl > delta then { r with ttl := r.ttl - delta } else { r with ttl := 1 } := by
      simp [subRR, h]
    by_cases hd : r.ttl > delta
    · have e' : subRR delta r = { r with ttl := r.ttl - delta } := by rw [e]; simp [hd]
      have hle : delta ≤ r.ttl := UInt32.le_of_lt hd
      have h1 := UInt32.lt_iff_toNat_lt.mp hd
      have hsub : (r.ttl - delta).toNat = r.ttl.toNat - delta.toNat := UInt32.toNat_sub_of_le _ _ hle
      rw [e']
      refine ⟨h, fun _ => rfl, fun hn => absurd hd hn, ?_, Or.inl ?_⟩
      · show (1 : UInt32) ≤ r.ttl - delta
        rw [UInt32.le_iff_toNat_le, hsub]; simp; omega
      · show r.ttl - delta ≤ r.ttl
        rw [UInt32.le_iff_toNat_le, hsub]; omega
    · have e' : subRR delta r = { r with ttl := 1 } := by rw [e]; simp [hd]
      rw [e']
      exact ⟨h, fun hn => absurd hn hd, fun _ => rfl, (by show (1 : UInt32) ≤ 1; decide), Or.inr rfl⟩

/-- **Fresh hit.** While the entry is in the store (`t1` not after its cache
expiry) and `t2` is before the message expiry, the answer is served with every
non-OPT TTL lowered by the whole seconds elapsed since it was stored. -/
theorem serve_fresh (lazy : Bool) (st : UInt32) (it : Item) (t1 t2 : Nat)
    (h1 : ¬ it.cacheExp < t1) (h2 : t2 < it.msgExp) :
    serve lazy st it t1 t2 = .fresh (it.msg.mapRR (subRR (UInt32.ofNat ((t2 - it.stored) / sec)))) := by
  simp [serve, h1, h2]

/-- **Expiry without lazy caching.** Once the message expiry is reached the
entry is not served any more. -/
theorem not_served_after_expiry (st : UInt32) (it : Item) (t1 t2 : Nat) (h : it.msgExp ≤ t2) :
    serve false st it t1 t2 = .miss := by
  unfold serve
  have : ¬ t2 < it.msgExp := by omega
  simp [this]

/-- ... and for an answer stored at `now`, the message expiry is `now` plus
its smallest TTL (NOERROR with answers), so it is not served once the smallest
TTL has run out. -/
theorem expires_with_smallest_ttl (m : Msg) (now : Nat) (it : Item) (st : UInt32) (t1 t2 : Nat)
    (hs : store 0 m now = some it) (h0 : m.rcode = 0) (hne : m.answer ≠ [])
    (ht : now + (minTTL m).toNat * sec ≤ t2) : serve false st it t1 t2 = .miss := by
  unfold store at hs
  cases ha : admission 0 m with
  | none => simp [ha] at hs
  | some p =>
    obtain ⟨a, b⟩ := p
    simp [ha] at hs
    have hb := (lifetime_bound 0 m a b ha).2.2.2.2 h0 hne
    apply not_served_after_expiry
    rw [← hs]
    simp only
    rw [hb.1]
    exact ht

/-- **Lazy caching.** A stale entry that is still in the store is served
with every non-OPT TTL set to the stale TTL (5), flagged as a lazy hit. -/
theorem lazy_stale (st : UInt32) (it : Item) (t1 t2 : Nat) (h1 : ¬ it.cacheExp < t1) (h2 : it.msgExp ≤ t2) :
    serve true st it t1 t2 = .stale (it.msg.mapRR (setRR st)) := by
  have : ¬ t2 < it.msgExp := by omega
  simp [serve, h1, this]

theorem setRR_spec (t : UInt32) (r : RR) :
    (r.isOpt = true → setRR t r = r) ∧ (r.isOpt = false → (setRR t r).ttl = t ∧ (setRR t r).isOpt = false) := by
  constructor
  · intro h; simp [setRR, h]
  · intro h; simp [setRR, h]

/-- Entries that left the store are never served, lazy or not. -/
theorem gone_is_gone (lazy : Bool) (st : UInt32) (it : Item) (t1 t2 : Nat) (h : it.cacheExp < t1) :
    serve lazy st it t1 t2 = .miss := by
  simp [serve, h]

/-- Stored copies contain no OPT record. -/
theorem stored_no_opt (lazyTtl : Int) (m : Msg) (now : Nat) (it : Item) (h : store lazyTtl m now = some it) :
    ∀ r ∈ it.msg.rrs, r.isOpt = false := by
  unfold store at h
  cases ha : admission lazyTtl m with
  | none => simp [ha] at h
  | some p =>
    simp [ha] at h
    subst h
    intro r hr
    simp only [Msg.rrs, Msg.noOpt, List.mem_append, List.mem_filter] at hr
    rcases hr with (⟨_, h⟩ | ⟨_, h⟩) | ⟨_, h⟩ <;> simpa using h

/-! ### At most one background refresh per question -/

def SFInv (s : SF) : Prop := s.running.Nodup ∧ ∀ k ∈ s.running, k ∈ s.inMap

theorem sf_step_inv (s : SF) (op : SFOp) (h : SFInv s) : SFInv (sfStep false s op) := by
  obtain ⟨hn, hm⟩ := h
  cases op with
  | staleHit k =>
    unfold sfStep
    by_cases hk : k ∈ s.inMap
    · simp only [hk, if_true]; exact ⟨hn, hm⟩
    · simp only [hk, if_false, Bool.false_eq_true]
      refine ⟨List.nodup_cons.mpr ⟨fun hr => hk (hm k hr), hn⟩, ?_⟩
      intro k' hk'
      rcases List.mem_cons.mp hk' with rfl | hk'
      · exact List.mem_cons_self
      · exact List.mem_cons_of_mem _ (hm k' hk')
  | finish k =>
    unfold sfStep
    by_cases hk : k ∈ s.running
    · simp only [hk, if_true]
      refine ⟨hn.erase k, ?_⟩
      intro k' hk'
      have hmem := List.mem_of_mem_erase hk'
      have hne : k' ≠ k := by
        intro e; subst e
        exact (List.Nodup.not_mem_erase hn) hk'
      exact List.mem_filter.mpr ⟨hm k' hmem, by simpa using hne⟩
    · simp only [hk, if_false]; exact ⟨hn, hm⟩

/-- **One refresh per question.** After any history of stale hits and refresh
completions (any number of concurrent queries, any interleaving), no question
has two background refreshes in flight. -/
theorem one_refresh (ops : List SFOp) : (ops.foldl (sfStep false) ⟨[], []⟩).running.Nodup := by
  suffices ∀ s, SFInv s → SFInv (ops.foldl (sfStep false) s) from (this ⟨[], []⟩ ⟨List.nodup_nil, by intro k hk; cases hk⟩).1
  induction ops with
  | nil => intro s h; exact h
  | cons op ops ih => intro s h; exact ih _ (sf_step_inv s op h)

/-- The guard matters: releasing the key when the refresh *starts* allows two. -/
example : ¬ ([SFOp.staleHit 1, SFOp.staleHit 1].foldl (sfStep true) ⟨[], []⟩).running.Nodup := by decide

/-! ### A stale entry stays stale until a refresh brings a new answer -/

/-- Regenerated from `Cache.Exec` / `doLazyUpdate`: the context copy handed to
the background refresh is taken before the stale answer is put into the
client's context. -/
def copyBeforeSet : Bool := Gen.Facts.c05LazyCopyTakenBeforeCachedResp == some true

theorem refresh_context_has_no_response : copyBeforeSet = true := by decide

/-- What a refresh stores depends only on what the rest of the chain does to a
context *without* a response - never on the stale answer. -/
theorem refresh_ignores_stale (lazyTtl : Int) (st : UInt32) (it : Item) (chain : Chain) (now : Nat) :
    refresh copyBeforeSet lazyTtl st it chain now =
      match chain none with
      | none => it
      | some m => (store lazyTtl m now).getD it := by
  rw [refresh_context_has_no_response]; rfl

/-- **A refresh that yields no answer** (upstream error, no response) **leaves
the entry exactly as it was**: stored time, message expiry, cache expiry, data. -/
theorem failed_refresh_keeps_entry (lazyTtl : Int) (st : UInt32) (it : Item) (chain : Chain) (now : Nat)
    (h : chain none = none) : refresh copyBeforeSet lazyTtl st it chain now = it := by
  rw [refresh_ignores_stale, h]

/-- ... and so does one whose answer must never be stored (TC, other rcodes, zero TTL). -/
theorem unstorable_refresh_keeps_entry (lazyTtl : Int) (st : UInt32) (it : Item) (chain : Chain) (now : Nat) (m : Msg)
    (h : chain none = some m) (ha : admission lazyTtl m = none) : refresh copyBeforeSet lazyTtl st it chain now = it := by
  rw [refresh_ignores_stale, h]
  simp [store, ha]

/-- **The refresh reaches an upstream that sits behind a "skip when a response
is present" guard** and stores its answer. -/
theorem guarded_refresh_updates (lazyTtl : Int) (st : UInt32) (it it' : Item) (m : Msg) (now : Nat)
    (h : store lazyTtl m now = some it') : refresh copyBeforeSet lazyTtl st it (guarded m) now = it' := by
  rw [refresh_ignores_stale]
  simp [guarded, h]

/-- **Stale stays stale.** Whatever number of queries hit a stale entry, at
whatever times, while every refresh comes back empty-handed: each of them gets
the stale answer with the stale TTL (5) as a lazy hit - which starts a refresh
again - or, once the entry's cache lifetime is over, a miss. None is a fresh hit. -/
theorem stale_until_refreshed (lazyTtl : Int) (st : UInt32) (chain : Chain) (h : chain none = none)
    (it : Item) (ts : List Nat) (hs : ∀ t ∈ ts, it.msgExp ≤ t) :
    ∀ s ∈ lazyRun copyBeforeSet lazyTtl st chain it ts, s = .miss ∨ s = .stale (it.msg.mapRR (setRR st)) := by
  induction ts with
  | nil => intro s hs'; simp [lazyRun] at hs'
  | cons t ts ih =>
    have ht : it.msgExp ≤ t := hs t List.mem_cons_self
    have hrest : ∀ t' ∈ ts, it.msgExp ≤ t' := fun t' h' => hs t' (List.mem_cons_of_mem _ h')
    intro s hs'
    unfold lazyRun at hs'
    by_cases hg : it.cacheExp < t
    · rw [gone_is_gone true st it t t hg] at hs'
      simp at hs'
      exact Or.inl hs'
    · rw [lazy_stale st it t t hg ht] at hs'
      simp only [failed_refresh_keeps_entry lazyTtl st it chain t h] at hs'
      rcases List.mem_cons.mp hs' with e | hm
      · exact Or.inr e
      · exact ih hrest s hm

/-- ... and it is gone for good once its cache lifetime is over: no failed refresh extends it. -/
theorem stale_entry_leaves_on_time (lazyTtl : Int) (st : UInt32) (chain : Chain) (h : chain none = none)
    (it : Item) (now t1 t2 : Nat) (hg : it.cacheExp < t1) :
    serve true st (refresh copyBeforeSet lazyTtl st it chain now) t1 t2 = .miss := by
  rw [failed_refresh_keeps_entry lazyTtl st it chain now h]
  exact gone_is_gone true st it t1 t2 hg

/-! ### Nobody but the cache writes to a stored answer -/

/-- Regenerated from `copyNoOpt` / `saveRespToCache`: the stored message holds `dns.Copy` of every record. -/
def storeCopies : Bool := Gen.Facts.c05StoredRecordsAreCopies == some true
/-- Regenerated from `getRespFromCache`: a hit works on, and hands out, `v.resp.Copy()`. -/
def hitCopies : Bool := Gen.Facts.c05HitHandsOutCopy == some true

theorem records_are_private : storeCopies = true ∧ hitCopies = true := by decide

theorem unaliased_run (lazy : Bool) (st : UInt32) (evs : List Ev) : ∀ (it : Item),
    aliasRun true true lazy st false it evs = hitsOnly lazy st it evs := by
  induction evs with
  | nil => intro it; rfl
  | cons e es ih =>
    intro it
    cases e with
    | rewrite f => simp only [aliasRun, hitsOnly, liveRewrite]; exact ih it
    | hit t =>
      simp only [aliasRun, hitsOnly]
      cases serve lazy st it t t with
      | miss => rfl
      | fresh m => simp only [Bool.not_true, ↓reduceIte]; rw [ih it]
      | stale m => simp only [Bool.not_true, ↓reduceIte]; rw [ih it]

/-- **TTL rewrites applied to a reply after the cache plugin returned never reach the entry.** Whatever the
holders of the live replies write into their records, in whatever order with the queries: every query is
answered exactly as if nobody had touched anything - from the TTLs the answer had when it was stored. -/
theorem rewrites_never_reach_the_entry (lazy : Bool) (st : UInt32) (it : Item) (evs : List Ev) :
    aliasRun storeCopies hitCopies lazy st (!storeCopies) it evs = hitsOnly lazy st it evs := by
  rw [records_are_private.1, records_are_private.2]
  exact unaliased_run lazy st evs it

/-- every fresh answer of an untouched entry is the stored answer aged by the whole seconds elapsed -/
theorem hitsOnly_fresh (lazy : Bool) (st : UInt32) (it : Item) (evs : List Ev) :
    ∀ m, .fresh m ∈ hitsOnly lazy st it evs →
      ∃ t, Ev.hit t ∈ evs ∧ t < it.msgExp ∧ m = it.msg.mapRR (subRR (UInt32.ofNat ((t - it.stored) / sec))) := by
  induction evs with
  | nil => intro m h; simp [hitsOnly] at h
  | cons e es ih =>
    intro m h
    cases e with
    | rewrite f =>
      simp only [hitsOnly] at h
      obtain ⟨t, h1, h2⟩ := ih m h
      exact ⟨t, List.mem_cons_of_mem _ h1, h2⟩
    | hit t =>
      simp only [hitsOnly] at h
      by_cases hg : it.cacheExp < t
      · rw [gone_is_gone lazy st it t t hg] at h
        simp at h
      · by_cases hf : t < it.msgExp
        · rw [serve_fresh lazy st it t t hg hf] at h
          rcases List.mem_cons.mp h with e | hm
          · injection e with e
            exact ⟨t, List.mem_cons_self, hf, e⟩
          · obtain ⟨t', h1, h2⟩ := ih m hm
            exact ⟨t', List.mem_cons_of_mem _ h1, h2⟩
        · have hle : it.msgExp ≤ t := Nat.le_of_not_lt hf
          cases lazy with
          | false =>
            rw [not_served_after_expiry st it t t hle] at h
            simp at h
          | true =>
            rw [lazy_stale st it t t hg hle] at h
            rcases List.mem_cons.mp h with e | hm
            · cases e
            · obtain ⟨t', h1, h2⟩ := ih m hm
              exact ⟨t', List.mem_cons_of_mem _ h1, h2⟩

/-- **A fresh hit after any post-processing of earlier replies** carries the TTLs the answer was stored with
(for an entry made by `store`: the upstream's, OPT dropped), each lowered by the whole seconds since then. -/
theorem fresh_hit_after_rewrites (lazy : Bool) (st : UInt32) (it : Item) (evs : List Ev) (m : Msg)
    (h : .fresh m ∈ aliasRun storeCopies hitCopies lazy st (!storeCopies) it evs) :
    ∃ t, Ev.hit t ∈ evs ∧ t < it.msgExp ∧ m = it.msg.mapRR (subRR (UInt32.ofNat ((t - it.stored) / sec))) := by
  rw [rewrites_never_reach_the_entry] at h
  exact hitsOnly_fresh lazy st it evs m h

/-! ### Guards over the regenerated facts -/
/-! ### Dump and reload

An entry that came in through a dump (`dump_file` + restart, `/load_dump`) is subject to the same clauses:
the lifetime of an answer is fixed when it is stored, whatever the configuration of the instance that loads
it. The model is parametric in the regenerated fact that `readDump` stores the dumped cache expiry. -/

def keepsTimes : Bool := Gen.Facts.c05ReadDumpKeepsTimes == some true

theorem reload_keeps_dumped_times : keepsTimes = true := by decide

/-- NXDOMAIN, SERVFAIL and empty NOERROR answers: store expiry = message expiry = the fixed lifetime,
with and without lazy caching. -/
theorem negative_answer_expiries (lazyTtl : Int) (m : Msg) (now : Nat) (it : Item)
    (h : store lazyTtl m now = some it) (hneg : m.rcode = 3 ∨ m.rcode = 2 ∨ (m.rcode = 0 ∧ m.answer = [])) :
    it.cacheExp = it.msgExp ∧
    (m.rcode = 3 → it.msgExp = now + 30 * sec) ∧ (m.rcode = 2 → it.msgExp = now + 5 * sec) ∧
    (m.rcode = 0 → it.msgExp = now + min (minTTL m).toNat 300 * sec) := by
  unfold store at h
  cases hadm : admission lazyTtl m with
  | none => simp [hadm] at h
  | some ab =>
    obtain ⟨a, b⟩ := ab
    simp [hadm] at h
    subst h
    obtain ⟨_, h3, h2, h0, _⟩ := lifetime_bound lazyTtl m a b hadm
    simp only
    rcases hneg with h | h | ⟨h, he⟩
    · obtain ⟨ha, hb⟩ := h3 h
      subst ha; subst hb
      exact ⟨rfl, fun _ => rfl, fun h' => by omega, fun h' => by omega⟩
    · obtain ⟨ha, hb⟩ := h2 h
      subst ha; subst hb
      exact ⟨rfl, fun h' => by omega, fun _ => rfl, fun h' => by omega⟩
    · obtain ⟨ha, hb⟩ := h0 h he
      subst hb
      exact ⟨rfl, fun h' => by omega, fun h' => by omega, fun _ => by rw [ha]⟩

/-- With the code as written a loaded entry carries the message and - to the second, never later - the three
times of the entry that was dumped. -/
theorem loaded_entry_times (readerLazy : Int) (it d : Item) (tl : Nat)
    (h : loadEntry true readerLazy (dumpEntry it) tl = some d) :
    d.msg = it.msg ∧ d.stored ≤ it.stored ∧ d.msgExp ≤ it.msgExp ∧ d.cacheExp ≤ it.cacheExp := by
  simp only [loadEntry, dumpEntry, if_true] at h
  split at h
  · cases h
  · cases h
    exact ⟨rfl, Nat.div_mul_le_self _ _, Nat.div_mul_le_self _ _, Nat.div_mul_le_self _ _⟩

/-- **A reloaded negative or empty answer leaves on time**: stored by an instance with any `lazy_cache_ttl`,
dumped, loaded at any time by an instance with any `lazy_cache_ttl`: once its fixed lifetime
(`negative_answer_expiries`: 30 s, 5 s, min(300 s, smallest TTL)) has run out it is not served, neither fresh nor stale. -/
theorem reloaded_negative_answer_leaves_on_time (writerLazy readerLazy : Int) (st : UInt32) (m : Msg) (t0 tl t : Nat) (it : Item)
    (hs : store writerLazy m t0 = some it) (hneg : m.rcode = 3 ∨ m.rcode = 2 ∨ (m.rcode = 0 ∧ m.answer = []))
    (ht : it.msgExp < t) :
    reloadRun keepsTimes writerLazy readerLazy st m t0 tl t = some .miss := by
  rw [reload_keeps_dumped_times]
  unfold reloadRun
  rw [hs]
  simp only [Option.map_some]
  cases hl : loadEntry true readerLazy (dumpEntry it) tl with
  | none => rfl
  | some d =>
    obtain ⟨_, _, _, hc⟩ := loaded_entry_times readerLazy it d tl hl
    obtain ⟨he, _⟩ := negative_answer_expiries writerLazy m t0 it hs hneg
    have : d.cacheExp < t := by omega
    simp [serve, this]

/-- Without lazy caching in the loading instance no reloaded answer is served once its smallest TTL has run out. -/
theorem reloaded_answer_not_served_after_expiry (writerLazy readerLazy : Int) (st : UInt32) (m : Msg) (t0 tl t : Nat) (it : Item)
    (hs : store writerLazy m t0 = some it) (hl : ¬ readerLazy > 0) (ht : it.msgExp ≤ t) :
    reloadRun keepsTimes writerLazy readerLazy st m t0 tl t = some .miss := by
  rw [reload_keeps_dumped_times]
  unfold reloadRun
  rw [hs]
  simp only [Option.map_some]
  cases hld : loadEntry true readerLazy (dumpEntry it) tl with
  | none => rfl
  | some d =>
    obtain ⟨_, _, hm, _⟩ := loaded_entry_times readerLazy it d tl hld
    simp only [hl, decide_false]
    exact congrArg some (not_served_after_expiry st d t t (by omega))

theorem facts_guard :
    Gen.Facts.c05ReadDumpKeepsTimes = some true ∧
    Gen.Facts.c05NxdomainTtl = some 30 ∧ Gen.Facts.c05ServfailTtl = some 5 ∧
    Gen.Facts.c05EmptyAnswerMaxTtl = some 300 ∧ Gen.Facts.c05StaleTtl = some 5 ∧
    Gen.Facts.c05RcodeCases = some true ∧ Gen.Facts.c05SkipIfNonPositive = some true ∧
    Gen.Facts.c05TcNotStored = some true ∧ Gen.Facts.c05FreshTest = some true ∧
    Gen.Facts.c05CacheGetHidesExpired = some true ∧ Gen.Facts.c05SubtractCmp = Base.Cmp.gt ∧
    Gen.Facts.c05TtlHelpersSkipOpt = some true ∧ Gen.Facts.c05ForgetDeferred = some true ∧
    Gen.Facts.c05EmptyAnswerPinsCacheTtl = some true ∧ Gen.Facts.c05TtlHelpersVisitEveryRecordOnce = some true ∧
    Gen.Facts.c05LazyCopyTakenBeforeCachedResp = some true ∧ Gen.Facts.c05RefreshStoresContextResp = some true ∧
    Gen.Facts.c05StoredRecordsAreCopies = some true ∧ Gen.Facts.c05HitHandsOutCopy = some true := by decide

/-! ### Non-vacuity -/
def a300 : RR := ⟨false, 300⟩
def a60 : RR := ⟨false, 60⟩
def opt : RR := ⟨true, 0x8000⟩
def ok : Msg := ⟨0, false, [a300, a60], [], [opt]⟩
example : admission 0 ok = some (60, 60) ∧ admission 86400 ok = some (60, 86400) := by decide
example : admission 86400 ⟨0, false, [], [a300], []⟩ = some (300, 300) := by decide   -- empty answer: not on the lazy path
example : admission 0 ⟨3, false, [], [⟨false, 7⟩], []⟩ = some (30, 30) := by decide
example : admission 0 ⟨0, false, [⟨false, 0⟩], [], []⟩ = none ∧ admission 0 ⟨5, false, [a60], [], []⟩ = none := by decide
example : (store 0 ok 1000).map (fun it => serve false 5 it (1000 + 10 * sec) (1000 + 10 * sec + 999999999)) =
    some (.fresh ⟨0, false, [⟨false, 290⟩, ⟨false, 50⟩], [], []⟩) := by decide
example : (store 0 ok 1000).map (fun it => serve false 5 it (1000 + 60 * sec) (1000 + 60 * sec)) = some .miss := by decide
example : (store 86400 ok 1000).map (fun it => serve true 5 it (1000 + 60 * sec) (1000 + 60 * sec)) =
    some (.stale ⟨0, false, [⟨false, 5⟩, ⟨false, 5⟩], [], []⟩) := by decide

/-- a stale entry (stored 100 s ago, TTL 60, kept for a day), asked at `T`, `T + 1.5 s`, `T + 2.5 s` -/
def T : Nat := 1000 * sec
def old : Item := ⟨⟨0, false, [a60], [], []⟩, T - 100 * sec, T - 40 * sec, T + 86300 * sec⟩
def fresh300 : Msg := ⟨0, false, [a300], [], []⟩
example : lazyRun true 86400 5 id old [T, T + 3 * sec / 2, T + 5 * sec / 2] =
    [.stale ⟨0, false, [⟨false, 5⟩], [], []⟩, .stale ⟨0, false, [⟨false, 5⟩], [], []⟩, .stale ⟨0, false, [⟨false, 5⟩], [], []⟩] := by decide
example : lazyRun true 86400 5 (guarded fresh300) old [T, T + 3 * sec / 2] =
    [.stale ⟨0, false, [⟨false, 5⟩], [], []⟩, .fresh ⟨0, false, [⟨false, 299⟩], [], []⟩] := by decide
/-- The guard matters: were the copy taken after the stale answer is in the context, a failed refresh would
store the stale answer as new (served as a fresh hit with TTL 4, no refresh), and a guarded upstream would never be asked. -/
example : lazyRun false 86400 5 id old [T, T + 3 * sec / 2] =
    [.stale ⟨0, false, [⟨false, 5⟩], [], []⟩, .fresh ⟨0, false, [⟨false, 4⟩], [], []⟩] := by decide
example : lazyRun false 86400 5 (guarded fresh300) old [T, T + 3 * sec / 2] =
    [.stale ⟨0, false, [⟨false, 5⟩], [], []⟩, .fresh ⟨0, false, [⟨false, 4⟩], [], []⟩] := by decide

/-- The ownership facts matter: an answer good for 10 s whose reply a `ttl 600-0` behind the plugin raises to
600 s. Were the records shared (`storeCopies = false`), the hit 2.5 s later would hand out 598 s for an answer
that has 7.5 s left; a fixed `ttl 5` on an answer good for an hour would make every hit after 5 s carry TTL 1. -/
def ten : Item := ⟨⟨0, false, [⟨false, 10⟩], [], []⟩, T, T + 10 * sec, T + 10 * sec⟩
def hour : Item := ⟨⟨0, false, [⟨false, 3600⟩], [], []⟩, T, T + 3600 * sec, T + 3600 * sec⟩
example : aliasRun true true false 5 false ten [.rewrite (clampRR 600 0), .hit (T + 5 * sec / 2)] = [.fresh ⟨0, false, [⟨false, 8⟩], [], []⟩] := by decide
example : aliasRun false true false 5 true ten [.rewrite (clampRR 600 0), .hit (T + 5 * sec / 2)] = [.fresh ⟨0, false, [⟨false, 598⟩], [], []⟩] := by decide
example : aliasRun false true false 5 true hour [.rewrite (setRR 5), .hit (T + 201 * sec / 2)] = [.fresh ⟨0, false, [⟨false, 1⟩], [], []⟩] := by decide
example : aliasRun true true false 5 false hour [.rewrite (setRR 5), .hit (T + 201 * sec / 2)] = [.fresh ⟨0, false, [⟨false, 3500⟩], [], []⟩] := by decide
/-- ... and were a hit to hand out the stored message itself, the second hit would age the already aged TTLs. -/
example : aliasRun true false false 5 false hour [.hit (T + 201 * sec / 2), .hit (T + 401 * sec / 2)] =
    [.fresh ⟨0, false, [⟨false, 3500⟩], [], []⟩, .fresh ⟨0, false, [⟨false, 3300⟩], [], []⟩] := by decide

/-- a NXDOMAIN answer stored at `T` by a lazy instance, dumped, loaded and asked 40.5 s later by a lazy instance -/
def nx : Msg := ⟨3, false, [], [⟨false, 3600⟩], []⟩
example : reloadRun true 3600 3600 5 nx T (T + 81 * sec / 2) (T + 81 * sec / 2) = some .miss := by decide
example : reloadRun true 3600 3600 5 nx T (T + 21 * sec / 2) (T + 21 * sec / 2) = some (.fresh ⟨3, false, [], [⟨false, 3590⟩], []⟩) := by decide
/-- The fact matters: with the expiry derived again from the local `lazy_cache_ttl` the answer is back as a stale hit. -/
example : reloadRun false 3600 3600 5 nx T (T + 81 * sec / 2) (T + 81 * sec / 2) = some (.stale ⟨3, false, [], [⟨false, 5⟩], []⟩) := by decide

end Props.C05
