import MosdnsVerif.Model.C14
import MosdnsVerif.Base.Facts
import MosdnsVerif.Gen.Facts
import MosdnsVerif.Refine.C14

/-!
# C14 — forward returns the first good answer among the queried upstreams
-/
namespace Props.C14
open Model.C14

/-- **the concurrency is clamped to 1..max** -/
theorem clamp_range (maxC : Nat) (h : 1 ≤ maxC) (c : Int) : 1 ≤ clamp maxC c ∧ clamp maxC c ≤ maxC := by
  unfold clamp
  split
  · omega
  · split
    · omega
    · omega

theorem clamp_id (maxC : Nat) (c : Nat) (h1 : 1 ≤ c) (h2 : c ≤ maxC) : clamp maxC c = c := by
  unfold clamp
  have h0 : ¬ ((c : Int) ≤ 0) := by omega
  have h : ¬ ((c : Int) > maxC) := by omega
  rw [if_neg h0, if_neg h]
  simp

/-- **`c` cyclically consecutive positions of the list, starting at `r`**, wrapping around a shorter list -/
theorem pick_spec (n r c : Nat) (hn : 0 < n) :
    (pick n r c).length = c ∧ (∀ x ∈ pick n r c, x < n) ∧
    (∀ i, (h : i < c) → (pick n r c)[i]'(by simp [pick]; exact h) = (r + i) % n) := by
  refine ⟨by simp [pick], ?_, ?_⟩
  · intro x hx
    simp only [pick, List.mem_map, List.mem_range] at hx
    obtain ⟨i, _, rfl⟩ := hx
    exact Nat.mod_lt _ hn
  · intro i h
    simp [pick]

theorem pick_consecutive (n r c : Nat) (hn : 0 < n) (i : Nat) (h : i + 1 < c) :
    (pick n r c)[i + 1]'(by simp [pick]; exact h) = ((pick n r c)[i]'(by simp [pick]; omega) + 1) % n := by
  simp only [pick, List.getElem_map, List.getElem_range]
  rw [Nat.add_mod ((r + i) % n) 1 n, Nat.mod_mod, ← Nat.add_mod]
  congr 1

/-- results that arrive before the decision: no good one among the first `k` -/
def noGoodBefore (evs : List Ev) (k : Nat) : Prop :=
  ∀ j, j < k → ∀ e, evs[j]? = some e → (e = .res .fail ∨ ∃ rc f, e = .res (.reply rc f) ∧ good rc = false)

theorem collect_skip (c : Nat) : ∀ (evs : List Ev) (i k : Nat), i + k ≤ c → k ≤ evs.length →
    (∀ j, j < k → ∀ e, evs[j]? = some e → (e = .res .fail ∨ ∃ rc f, e = .res (.reply rc f) ∧ good rc = false ∧ i + j < c - 1)) →
    collect c i evs = collect c (i + k) (evs.drop k) := by
  intro evs
  induction evs with
  | nil => intro i k _ hk _; have : k = 0 := by simpa using hk
           subst this; rfl
  | cons ev rest ih =>
    intro i k hik hk hall
    cases k with
    | zero => simp
    | succ k =>
      have h0 := hall 0 (by omega) ev (by simp)
      have hlt : i < c := by omega
      have hrest : collect c (i + 1) rest = collect c (i + 1 + k) (rest.drop k) := by
        apply ih (i + 1) k (by omega) (by simpa using hk)
        intro j hj e he
        have := hall (j + 1) (by omega) e (by simpa using he)
        rcases this with h | ⟨rc, f, h1, h2, h3⟩
        · exact Or.inl h
        · exact Or.inr ⟨rc, f, h1, h2, by omega⟩
      rcases h0 with rfl | ⟨rc, f, rfl, hg, hi⟩
      · simp only [collect, hlt, ↓reduceIte, List.drop_succ_cons]
        rw [hrest]; congr 1; omega
      · have : (decide (i < c - 1) && !good rc) = true := by simp [hg]; omega
        simp only [collect, hlt, ↓reduceIte, List.drop_succ_cons, this]
        rw [hrest]; congr 1; omega

/-- **The first NOERROR / NXDOMAIN reply to arrive is returned**: whatever
arrived before it (failures, garbage, SERVFAIL, REFUSED ...) and whatever the
other upstreams do afterwards, as long as the caller's context has not ended
before it arrives. -/
theorem first_good_wins (c : Nat) (evs : List Ev) (k : Nat) (rc f : Nat)
    (hk : k < c) (hev : evs[k]? = some (.res (.reply rc f))) (hg : good rc = true)
    (hbefore : noGoodBefore evs k) :
    collect c 0 evs = .reply rc f := by
  have hlen : k < evs.length := by
    rcases Nat.lt_or_ge k evs.length with h | h
    · exact h
    · rw [List.getElem?_eq_none h] at hev; cases hev
  have hs := collect_skip c evs 0 k (by omega) (by omega) (by
    intro j hj e he
    rcases hbefore j hj e he with h | ⟨rc', f', h1, h2⟩
    · exact Or.inl h
    · exact Or.inr ⟨rc', f', h1, h2, by omega⟩)
  rw [hs]
  have hd : evs.drop k = .res (.reply rc f) :: evs.drop (k + 1) := by
    rw [List.drop_eq_getElem_cons hlen]
    congr 1
    have := List.getElem?_eq_getElem hlen
    rw [this] at hev
    simpa using hev
  rw [hd]
  have : (decide (0 + k < c - 1) && !good rc) = false := by simp [hg]
  simp only [collect, Nat.zero_add, hk, ↓reduceIte]
  simp [hg]

/-- **If no good reply arrives, the outcome is that of the last exchange to
finish**: its reply whatever the rcode, or the error. -/
theorem last_decides (c : Nat) (hc : 0 < c) (evs : List Ev) (hlen : evs.length = c)
    (hall : noGoodBefore evs (c - 1)) (last : Ev) (hlast : evs[c - 1]? = some last) :
    collect c 0 evs = (match last with
      | .res (.reply rc f) => .reply rc f
      | .res .fail => .errAllFailed
      | .ctxDone => .errCtx) := by
  have hs := collect_skip c evs 0 (c - 1) (by omega) (by omega) (by
    intro j hj e he
    rcases hall j hj e he with h | ⟨rc', f', h1, h2⟩
    · exact Or.inl h
    · exact Or.inr ⟨rc', f', h1, h2, by omega⟩)
  rw [hs]
  have hl : c - 1 < evs.length := by omega
  have hd : evs.drop (c - 1) = [last] := by
    rw [List.drop_eq_getElem_cons hl]
    have h1 := List.getElem?_eq_getElem hl
    rw [h1] at hlast
    simp only [Option.some.injEq] at hlast
    rw [hlast]
    have : evs.drop (c - 1 + 1) = [] := by
      apply List.drop_eq_nil_of_le; omega
    rw [this]
  rw [hd]
  have h1 : 0 + (c - 1) < c := by omega
  have h2 : ¬ (0 + (c - 1) < c - 1) := by omega
  have h3 : ¬ (0 + (c - 1) + 1 < c) := by omega
  have h1' : c - 1 < c := by omega
  have h2' : ¬ (c - 1 < c - 1) := by omega
  have h3' : ¬ (c - 1 + 1 < c) := by omega
  cases last with
  | ctxDone => simp [collect, h1']
  | res r =>
    cases r with
    | fail => simp [collect, h1', h3']
    | reply rc f => simp [collect, h1', h2']

/-- **The call never outlives its context**: if the context ends before a
decision, the context's error is returned at that event. -/
theorem ctx_ends_call (c : Nat) (evs : List Ev) (k : Nat) (hk : k < c) (hev : evs[k]? = some .ctxDone)
    (hbefore : noGoodBefore evs k) : collect c 0 evs = .errCtx := by
  have hlen : k < evs.length := by
    rcases Nat.lt_or_ge k evs.length with h | h
    · exact h
    · rw [List.getElem?_eq_none h] at hev; cases hev
  have hs := collect_skip c evs 0 k (by omega) (by omega) (by
    intro j hj e he
    rcases hbefore j hj e he with h | ⟨rc', f', h1, h2⟩
    · exact Or.inl h
    · exact Or.inr ⟨rc', f', h1, h2, by omega⟩)
  rw [hs]
  have hd : evs.drop k = .ctxDone :: evs.drop (k + 1) := by
    rw [List.drop_eq_getElem_cons hlen]
    congr 1
    have := List.getElem?_eq_getElem hlen
    rw [this] at hev
    simpa using hev
  rw [hd]
  simp [collect, hk]

/-- the loop looks at no more than `c` results -/
theorem collect_ignores_rest (c : Nat) : ∀ (evs extra : List Ev) (i : Nat), c ≤ i + evs.length →
    collect c i (evs ++ extra) = collect c i evs := by
  intro evs
  induction evs with
  | nil =>
    intro extra i h
    have : ¬ i < c := by simp at h; omega
    cases extra <;> simp [collect, this]
  | cons ev rest ih =>
    intro extra i h
    simp only [List.cons_append, collect]
    split
    · have hr := ih extra (i + 1) (by simp at h ⊢; omega)
      cases ev with
      | ctxDone => rfl
      | res r =>
        cases r with
        | fail => simpa using hr
        | reply rc f => simp only; rw [hr]
    · rfl

/-! ## tie to the source -/

theorem facts_guard :
    Gen.Facts.c14MaxConcurrent = some 3 ∧ Gen.Facts.c14QueryTimeoutMs = some 5000 ∧ Gen.Facts.c14ClampShape = some true ∧
    Gen.Facts.c14PickShape = some true ∧ Gen.Facts.c14PrivateCopyPerUpstream = some true ∧
    Gen.Facts.c14HelperShape = some true ∧ Gen.Facts.c14CollectShape = some true ∧ Gen.Facts.c14TagSubsets = some true := by decide

/-- the instance the code runs: `maxConcurrentQueries` read from the source -/
theorem forward_clamp (c : Int) : 1 ≤ clamp (Gen.Facts.c14MaxConcurrent.getD 0) c ∧ clamp (Gen.Facts.c14MaxConcurrent.getD 0) c ≤ 3 := by
  have : Gen.Facts.c14MaxConcurrent.getD 0 = 3 := by decide
  rw [this]
  exact clamp_range 3 (by omega) c

/-! ## the same statements over the regenerated step of the collection loop (T1) -/

/-- **C14 over the regenerated code**: with the body of `case res := <-resChan` taken from the source on this
run, the first NOERROR / NXDOMAIN reply to arrive while the context is alive is what the call returns. -/
theorem first_good_wins_gen (c : Nat) (evs : List Ev) (k : Nat) (rc f : Nat)
    (hk : k < c) (hev : evs[k]? = some (.res (.reply rc f))) (hg : good rc = true)
    (hbefore : noGoodBefore evs k) :
    Refine.C14.collectGen c 0 evs = .reply rc f := by
  rw [Refine.C14.collectGen_eq]
  exact first_good_wins c evs k rc f hk hev hg hbefore

/-- ... and the end of the caller's context ends the call at that event. -/
theorem ctx_ends_call_gen (c : Nat) (evs : List Ev) (k : Nat) (hk : k < c) (hev : evs[k]? = some .ctxDone)
    (hbefore : noGoodBefore evs k) : Refine.C14.collectGen c 0 evs = .errCtx := by
  rw [Refine.C14.collectGen_eq]
  exact ctx_ends_call c evs k hk hev hbefore

/-! ## non-vacuity -/

example : Refine.C14.collectGen 3 0 [.res (.reply 2 1), .res (.reply 3 2), .res (.reply 0 0)] = .reply 3 2 := by decide
example : Refine.C14.collectGen 3 0 [.res .fail, .res (.reply 2 1), .res (.reply 5 2)] = .reply 5 2 := by decide

example : exchange 3 4 7 2 [.res .fail, .res (.reply 2 3), .res (.reply 0 0)] = ([2, 3, 0], .reply 0 0) := by decide
example : exchange 3 2 3 1 [.res (.reply 2 1), .res .fail, .res (.reply 5 1)] = ([1, 0, 1], .reply 5 1) := by decide
example : exchange 3 2 0 1 [.res (.reply 2 1)] = ([1], .reply 2 1) := by decide
example : collect 3 0 [.res (.reply 2 1), .res (.reply 3 2), .res (.reply 0 0)] = .reply 3 2 := by decide
example : collect 2 0 [.res (.reply 2 1), .ctxDone] = .errCtx := by decide

end Props.C14
