import MosdnsVerif.Model.C14
import MosdnsVerif.Base.Facts
import MosdnsVerif.Gen.Facts
import MosdnsVerif.Refine.C14

/-!
# C14 — forward returns the first good answer among the queried upstreams
-/
namespace Props.C14
open Model.C14

/-- **the concurrency is clamped to 1..max** -/
theorem clamp_range (maxC : Nat) (h : 1 ≤ maxC) (c : Int) : 1 ≤ clamp maxC c ∧ clamp maxC c ≤ maxC := by
  unfold clamp
  split
  · omega
  · split
    · omega
    · omega

theorem clamp_id (maxC : Nat) (c : Nat) (h1 : 1 ≤ c) (h2 : c ≤ maxC) : clamp maxC c = c := by
  unfold clamp
  have h0 : ¬ ((c : Int) ≤ 0) := by omega
  have h : ¬ ((c : Int) > maxC) := by omega
  rw [if_neg h0, if_neg h]
  simp

/-- **`c` cyclically consecutive positions of the list, starting at `r`**, wrapping around a shorter list -/
theorem pick_spec (n r c : Nat) (hn : 0 < n) :
    (pick n r c).length = c ∧ (∀ x ∈ pick n r c, x < n) ∧
    (∀ i, (h : i < c) → (pick n r c)[i]'(by simp [pick]; exact h) = (r + i) % n) := by
  refine ⟨by simp [pick], ?_, ?_⟩
  · intro x hx
    simp only [pick, List.mem_map, List.mem_range] at hx
    obtain ⟨i, _, rfl⟩ := hx
    exact Nat.mod_lt _ hn
  · intro i h
    simp [pick]

theorem pick_consecutive (n r c : Nat) (hn : 0 < n) (i : Nat) (h : i + 1 < c) :
    (pick n r c)[i + 1]'(by simp [pick]; exact h) = ((pick n r c)[i]'(by simp [pick]; omega) + 1) % n := by
  simp only [pick, List.getElem_map, List.getElem_range]
  rw [Nat.add_mod ((r + i) % n) 1 n, Nat.mod_mod, ← Nat.add_mod]
  congr 1

/-- results that arrive before the decision: no good one among the first `k` -/
def noGoodBefore (evs : List Ev) (k : Nat) : Prop :=
  ∀ j, j < k → ∀ e, evs[j]? = some e → (e = .res .fail ∨ ∃ rc f, e = .res (.reply rc f) ∧ good rc = false)

theorem collect_skip (c : Nat) : ∀ (evs : List Ev) (i k : Nat), i + k ≤ c → k ≤ evs.length →
    (∀ j, j < k → ∀ e, evs[j]? = some e → (e = .res .fail ∨ ∃ rc f, e = .res (.reply rc f) ∧ good rc = false ∧ i + j < c - 1)) →
    collect c i evs = collect c (i + k) (evs.drop k) := by
  intro evs
  induction evs with
  | nil => intro i k _ hk _; have : k = 0 := by simpa using hk
           subst this; rfl
  | cons ev rest ih =>
    intro i k hik hk hall
    cases k with
    | zero => simp
    | succ k =>
      have h0 := hall 0 (by omega) ev (by simp)
      have hlt : i < c := by omega
      have hrest : collect c (i + 1) rest = collect c (i + 1 + k) (rest.drop k) := by
        apply ih (i + 1) k (by omega) (by simpa using hk)
        intro j hj e he
        have := hall (j + 1) (by omega) e (by simpa using he)
        rcases this with h | ⟨rc, f, h1, h2, h3⟩
        · exact Or.inl h
        · exact Or.inr ⟨rc, f, h1, h2, by omega⟩
      rcases h0 with rfl | ⟨rc, f, rfl, hg, hi⟩
      · simp only [collect, hlt, ↓reduceIte, List.drop_succ_cons]
        rw [hrest]; congr 1; omega
      · have : (decide (i < c - 1) && !good rc) = true := by simp [hg]; omega
        simp only [collect, hlt, ↓reduceIte, List.drop_succ_cons, this]
        rw [hrest]; congr 1; omega

/-- **The first NOERROR / NXDOMAIN reply to arrive is returned**: whatever
arrived before it (failures, garbage, SERVFAIL, REFUSED ...) and whatever the
other upstreams do afterwards, as long as the caller's context has not ended
before it arrives. -/
theorem first_good_wins (c : Nat) (evs : List Ev) (k : Nat) (rc f : Nat)
    (hk : k < c) (hev : evs[k]? = some (.res (.reply rc f))) (hg : good rc = true)
    (hbefore : noGoodBefore evs k) :
    collect c 0 evs = .reply rc f := by
  have hlen : k < evs.length := by
    rcases Nat.lt_or_ge k evs.length with h | h
    · exact h
    · rw [List.getElem?_eq_none h] at hev; cases hev
  have hs := collect_skip c evs 0 k (by omega) (by omega) (by
    intro j hj e he
    rcases hbefore j hj e he with h | ⟨rc', f', h1, h2⟩
    · exact Or.inl h
    · exact Or.inr ⟨rc', f', h1, h2, by omega⟩)
  rw [hs]
  have hd : evs.drop k = .res (.reply rc f) :: evs.drop (k + 1) := by
    rw [List.drop_eq_getElem_cons hlen]
    congr 1
    have := List.getElem?_eq_getElem hlen
    rw [this] at hev
    simpa using hev
  rw [hd]
  have : (decide (0 + k < c - 1) && !good rc) = false := by simp [hg]
  simp only [collect, Nat.zero_add, hk, ↓reduceIte]
  simp [hg]

/-- **If no good reply arrives, the outcome is that of the last exchange to
finish**: its reply whatever the rcode, or the error. -/
theorem last_decides (c : Nat) (hc : 0 < c) (evs : List Ev) (hlen : evs.length = c)
    (hall : noGoodBefore evs (c - 1)) (last : Ev) (hlast : evs[c - 1]? = some last) :
    collect c 0 evs = (match last with
      | .res (.reply rc f) => .reply rc f
      | .res .fail => .errAllFailed
      | .ctxDone => .errCtx) := by
  have hs := collect_skip c evs 0 (c - 1) (by omega) (by omega) (by
    intro j hj e he
    rcases hall j hj e he with h | ⟨rc', f', h1, h2⟩
    · exact Or.inl h
    · exact Or.inr ⟨rc', f', h1, h2, by omega⟩)
  rw [hs]
  have hl : c - 1 < evs.length := by omega
  have hd : evs.drop (c - 1) = [last] := by
    rw [List.drop_eq_getElem_cons hl]
    have h1 := List.getElem?_eq_getElem hl
    rw [h1] at hlast
    simp only [Option.some.injEq] at hlast
    rw [hlast]
    have : evs.drop (c - 1 + 1) = [] := by
      apply List.drop_eq_nil_of_le; omega
    rw [this]
  rw [hd]
  have h1 : 0 + (c - 1) < c := by omega
  have h2 : ¬ (0 + (c - 1) < c - 1) := by omega
  have h3 : ¬ (0 + (c - 1) + 1 < c) := by omega
  have h1' : c - 1 < c := by omega
  have h2' : ¬ (c - 1 < c - 1) := by omega
  have h3' : ¬ (c - 1 + 1 < c) := by omega
  cases last with
  | ctxDone => simp [collect, h1']
  | res r =>
    cases r with
    | fail => simp [collect, h1', h3']
    | reply rc f => simp [collect, h1', h2']

/-- **The call never outlives its context**: if the context ends before a
decision, the context's error is returned at that event. -/
theorem ctx_ends_call (c : Nat) (evs : List Ev) (k : Nat) (hk : k < c) (hev : evs[k]? = some .ctxDone)
    (hbefore : noGoodBefore evs k) : collect c 0 evs = .errCtx := by
  have hlen : k < evs.length := by
    rcases Nat.lt_or_ge k evs.length with h | h
    · exact h
    · rw [List.getElem?_eq_none h] at hev; cases hev
  have hs := collect_skip c evs 0 k (by omega) (by omega) (by
    intro j hj e he
    rcases hbefore j hj e he with h | ⟨rc', f', h1, h2⟩
    · exact Or.inl h
    · exact Or.inr ⟨rc', f', h1, h2, by omega⟩)
  rw [hs]
  have hd : evs.drop k = .ctxDone :: evs.drop (k + 1) := by
    rw [List.drop_eq_getElem_cons hlen]
    congr 1
    have := List.getElem?_eq_getElem hlen
    rw [this] at hev
    simpa using hev
  rw [hd]
  simp [collect, hk]

/-- the loop looks at no more than `c` results -/
theorem collect_ignores_rest (c : Nat) : ∀ (evs extra : List Ev) (i : Nat), c ≤ i + evs.length →
    collect c i (evs ++ extra) = collect c i evs := by
  intro evs
  induction evs with
  | nil =>
    intro extra i h
    have : ¬ i < c := by simp at h; omega
    cases extra <;> simp [collect, this]
  | cons ev rest ih =>
    intro extra i h
    simp only [List.cons_append, collect]
    split
    · have hr := ih extra (i + 1) (by simp at h ⊢; omega)
      cases ev with
      | ctxDone => rfl
      | res r =>
        cases r with
        | fail => simpa using hr
        | reply rc f => simp only; rw [hr]
    · rfl

/-! ## tie to the source -/

theorem facts_guard :
    Gen.Facts.c14MaxConcurrent = some 3 ∧ Gen.Facts.c14QueryTimeoutMs = some 5000 ∧ Gen.Facts.c14ClampShape = some true ∧
    Gen.Facts.c14PickShape = some true ∧ Gen.Facts.c14PrivateCopyPerUpstream = some true ∧
    Gen.Facts.c14HelperShape = some true ∧ Gen.Facts.c14CollectShape = some true ∧ Gen.Facts.c14TagSubsets = some true ∧
    Gen.Facts.c14UpstreamPerEntry = some true ∧ Gen.Facts.c14EntryOptions = some true ∧
    Gen.Facts.c14WrapperTransparent = some true ∧ Gen.Facts.c14ExecInstallsReply = some true := by decide

/-- the instance the code runs: `maxConcurrentQueries` read from the source -/
theorem forward_clamp (c : Int) : 1 ≤ clamp (Gen.Facts.c14MaxConcurrent.getD 0) c ∧ clamp (Gen.Facts.c14MaxConcurrent.getD 0) c ≤ 3 := by
  have : Gen.Facts.c14MaxConcurrent.getD 0 = 3 := by decide
  rw [this]
  exact clamp_range 3 (by omega) c

/-! ## which servers a query reaches (construction of `U`, tag subsets, cyclic selection) -/

/-- what the source says about `NewForward` on this run (T2): one upstream per configured entry, at its
own position, created from that entry's own options -/
def perEntryFact : Bool :=
  Gen.Facts.c14UpstreamPerEntry.getD false && Gen.Facts.c14EntryOptions.getD false

/-- **`U` is the configuration**: position `i` of the list that `NewForward` builds reaches the server that
the options of entry `i` designate - whatever the other entries are (same `addr`, same anything). Stops
checking when an entry's upstream no longer comes from its own `NewUpstream(c.Addr, uOpt)` call. -/
theorem forward_build (targets : List Nat) : build perEntryFact targets = some targets := by
  have : perEntryFact = true := by decide
  rw [this]; rfl

/-- exactly `clamp` queries leave, one per helper -/
theorem contacted_length (maxC : Nat) (s : List Nat) (conc : Int) (r : Nat) :
    (contacted maxC s conc r).length = clamp maxC conc := by
  simp [contacted, pick]

/-- **the `i`-th helper's query goes to the server at position `(r + i) mod len` of the list in use** -/
theorem contacted_get (maxC : Nat) (s : List Nat) (conc : Int) (r i : Nat) (hi : i < clamp maxC conc) :
    (contacted maxC s conc r)[i]? = some (s.getD ((r + i) % s.length) 0) := by
  simp [contacted, pick, hi]

/-- **only servers of the list in use are contacted** (a tag subset never reaches an upstream it does not name) -/
theorem contacted_mem (maxC : Nat) (s : List Nat) (hs : s ≠ []) (conc : Int) (r : Nat) :
    ∀ x ∈ contacted maxC s conc r, x ∈ s := by
  intro x hx
  simp only [contacted, pick, List.map_map, List.mem_map, List.mem_range] at hx
  obtain ⟨i, _, rfl⟩ := hx
  have hn : 0 < s.length := List.length_pos_iff.mpr hs
  have hlt : (r + i) % s.length < s.length := Nat.mod_lt _ hn
  simp only [Function.comp, List.getD_eq_getElem?_getD, List.getElem?_eq_getElem hlt, Option.getD_some]
  exact List.getElem_mem hlt

/-- position `k` of a tag subset is the upstream of the `k`-th named entry -/
theorem inUse_subset_get (u idx : List Nat) (k : Nat) (hk : k < idx.length) :
    (inUse u (some idx))[k]? = some (u.getD idx[k] 0) := by
  simp [inUse, hk]

/-- **routing over the regenerated construction**: with `U` built as the source says on this run, the `i`-th of
the `c` helpers sends the query to the server designated by the own options of the entry at cyclic position
`r + i` of the list in use (all entries, or the tag subset `sub` in the order of its tags). -/
theorem route_own_servers (targets : List Nat) (sub : Option (List Nat)) (conc : Int) (r i : Nat)
    (hi : i < clamp (Gen.Facts.c14MaxConcurrent.getD 0) conc) :
    ∃ u, build perEntryFact targets = some u ∧
      (contacted (Gen.Facts.c14MaxConcurrent.getD 0) (inUse u sub) conc r)[i]? =
        some ((inUse targets sub).getD ((r + i) % (inUse targets sub).length) 0) :=
  ⟨targets, forward_build targets, contacted_get _ _ conc r i hi⟩

/-! ## every exchange of a helper is an exchange with the upstream of its position (the wrapper), whatever happened before -/

/-- a wrapper without a gate hands every exchange to its upstream, whatever the earlier exchanges ended with -/
theorem transparent_admits_all (b : Bool) : ∀ (hist : List Bool) (held : Nat),
    ((Wrap.mk none b).run held hist).2 = hist.map (fun _ => true) := by
  intro hist
  induction hist with
  | nil => intro held; rfl
  | cons ok rest ih =>
    intro held
    simp only [Wrap.run, List.map_cons, List.cons.injEq, true_and]
    exact ih _

/-- a gate that always gives its slot back never holds one between exchanges ... -/
theorem balanced_holds_nothing (n : Nat) : ∀ (hist : List Bool), ((Wrap.mk (some n) true).run 0 hist).1 = 0 := by
  intro hist
  induction hist with
  | nil => rfl
  | cons ok rest ih =>
    simp only [Wrap.run, Bool.or_true, Bool.not_true, Bool.and_false]
    exact ih

/-- ... hence sequential exchanges through it are all handed over too (a cap on the exchanges in flight is harmless for C14) -/
theorem balanced_admits_all (n : Nat) (hn : 0 < n) : ∀ (hist : List Bool),
    ((Wrap.mk (some n) true).run 0 hist).2 = hist.map (fun _ => true) := by
  intro hist
  induction hist with
  | nil => rfl
  | cons ok rest ih =>
    simp only [Wrap.run, Bool.or_true, Bool.not_true, Bool.and_false, List.map_cons, List.cons.injEq]
    exact ⟨by simp [hn], ih⟩

/-- **over the regenerated source**: on this run the wrapper is the gate-less one, so after any history of
successes and failures (fault sequences of any length, on one Forward instance) the next exchange of a helper
reaches the upstream of its position - `contacted` / `route_own_servers` describe every query of a session, not only
the first one. Stops checking when `upstreamWrapper.ExchangeContext` is anything else than one unconditional call. -/
theorem forward_wrapper_admits (hist : List Bool) :
    ∃ w, wrapOf (Gen.Facts.c14WrapperTransparent.getD false) = some w ∧ (w.run 0 hist).2 = hist.map (fun _ => true) := by
  have h : Gen.Facts.c14WrapperTransparent.getD false = true := by decide
  rw [h]
  exact ⟨⟨none, true⟩, rfl, transparent_admits_all true hist 0⟩

/-- a gate that keeps the slot of a failed exchange is refuted: after `cap` failures nothing is sent any more -/
theorem leaky_gate_is_refuted :
    ((Wrap.mk (some 2) false).run 0 [false, true, false, true, true]).2 = [true, true, true, false, false] := by decide

/-! ## the same statements over the regenerated step of the collection loop (T1) -/

/-- **C14 over the regenerated code**: with the body of `case res := <-resChan` taken from the source on this
run, the first NOERROR / NXDOMAIN reply to arrive while the context is alive is what the call returns. -/
theorem first_good_wins_gen (c : Nat) (evs : List Ev) (k : Nat) (rc f : Nat)
    (hk : k < c) (hev : evs[k]? = some (.res (.reply rc f))) (hg : good rc = true)
    (hbefore : noGoodBefore evs k) :
    Refine.C14.collectGen c 0 evs = .reply rc f := by
  rw [Refine.C14.collectGen_eq]
  exact first_good_wins c evs k rc f hk hev hg hbefore

/-- ... and the end of the caller's context ends the call at that event. -/
theorem ctx_ends_call_gen (c : Nat) (evs : List Ev) (k : Nat) (hk : k < c) (hev : evs[k]? = some .ctxDone)
    (hbefore : noGoodBefore evs k) : Refine.C14.collectGen c 0 evs = .errCtx := by
  rw [Refine.C14.collectGen_eq]
  exact ctx_ends_call c evs k hk hev hbefore

/-! ## the reply the call leaves in the query context -/

/-- an `Exec` that stores unconditionally leaves the reply chosen by `exchange` in the context, whatever the
context held before (nothing, the reply of an earlier forward, a cache / hosts answer ...) and whatever the rcode -/
theorem exec_installs_choice (prev : Slot) (rc f : Nat) :
    execWith (fun _ _ => false) prev (.reply rc f) = (some (rc, f), true) := rfl

/-- ... and when `exchange` ends with an error the context is left as it was -/
theorem exec_error_keeps_context (keep : Slot → Nat → Bool) (prev : Slot) (o : Out) (h : ∀ rc f, o ≠ .reply rc f) :
    execWith keep prev o = (prev, false) := by
  cases o with
  | reply rc f => exact absurd rfl (h rc f)
  | errAllFailed => rfl
  | errCtx => rfl
  | pending => rfl

/-- **over the regenerated source**: on this run `Forward.Exec` and the quick-configured executable store the
outcome of the (regenerated) collection loop unconditionally, so for every response the context already holds,
every concurrency and every arrival order, a call that returns nil leaves exactly the chosen reply in the context -
"its reply whatever the rcode". Stops checking when either entry point is anything else than
exchange / return the error / SetResponse / return nil. -/
theorem forward_exec_installs (prev : Slot) (c : Nat) (evs : List Ev) (rc f : Nat)
    (h : Refine.C14.collectGen c 0 evs = .reply rc f) :
    ∃ k, keepOf (Gen.Facts.c14ExecInstallsReply.getD false) = some k ∧
      execWith k prev (Refine.C14.collectGen c 0 evs) = (some (rc, f), true) := by
  have hf : Gen.Facts.c14ExecInstallsReply.getD false = true := by decide
  rw [hf, h]
  exact ⟨_, rfl, rfl⟩

/-- an `Exec` that keeps an earlier response when its own outcome is a failure rcode is refuted: the context holds
a NOERROR answer from an earlier step (origin 200), both queried upstreams answer SERVFAIL / REFUSED; the call
returns nil and the context still holds the foreign answer, not the reply of the last exchange to finish -/
theorem keeping_an_earlier_response_is_refuted :
    execWith (fun prev rc => prev.isSome && !good rc) (some (0, 200)) (collect 2 0 [.res (.reply 2 0), .res (.reply 5 1)]) =
        (some (0, 200), true) ∧
      execWith (fun _ _ => false) (some (0, 200)) (collect 2 0 [.res (.reply 2 0), .res (.reply 5 1)]) = (some (5, 1), true) := by
  decide

/-! ## non-vacuity -/

example : Refine.C14.collectGen 3 0 [.res (.reply 2 1), .res (.reply 3 2), .res (.reply 0 0)] = .reply 3 2 := by decide
example : Refine.C14.collectGen 3 0 [.res .fail, .res (.reply 2 1), .res (.reply 5 2)] = .reply 5 2 := by decide

-- two entries that differ in `dial_addr` only (servers 7 and 9), concurrent = 2, start 1: both servers, second first
example : (build perEntryFact [7, 9]).map (fun u => contacted 3 (inUse u none) 2 1) = some [9, 7] := by decide
-- tag subset naming entry 1 only, concurrent = 3: server 9 three times, server 7 never
example : (build perEntryFact [7, 9]).map (fun u => contacted 3 (inUse u (some [1])) 7 0) = some [9, 9, 9] := by decide
-- what sharing the first entry's upstream would give for the same configuration is a different list
example : contacted 3 (inUse [7, 7] none) 2 1 ≠ contacted 3 (inUse [7, 9] none) 2 1 := by decide

example : exchange 3 4 7 2 [.res .fail, .res (.reply 2 3), .res (.reply 0 0)] = ([2, 3, 0], .reply 0 0) := by decide
example : exchange 3 2 3 1 [.res (.reply 2 1), .res .fail, .res (.reply 5 1)] = ([1, 0, 1], .reply 5 1) := by decide
example : exchange 3 2 0 1 [.res (.reply 2 1)] = ([1], .reply 2 1) := by decide
example : collect 3 0 [.res (.reply 2 1), .res (.reply 3 2), .res (.reply 0 0)] = .reply 3 2 := by decide
example : collect 2 0 [.res (.reply 2 1), .ctxDone] = .errCtx := by decide

end Props.C14
