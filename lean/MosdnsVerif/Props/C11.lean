import MosdnsVerif.Model.C11
import MosdnsVerif.Base.Facts
import MosdnsVerif.Gen.Facts

/-!
# C11 — the cache store is exact and bounded
-/
namespace Props.C11
open Model.C11

/-! ## shard lemmas -/

theorem remove_length_le (s : Shard) (k : Nat) : (s.remove k).length ≤ s.length := by
  simp only [Shard.remove]; exact List.length_filter_le _ _

theorem remove_length_lt (s : Shard) (k : Nat) (h : (s.lookup k).isSome) : (s.remove k).length < s.length := by
  simp only [Shard.lookup, List.find?_isSome] at h
  obtain ⟨e, he, hk⟩ := h
  simp only [Shard.remove]
  apply List.length_filter_lt_length_iff_exists.mpr
  exact ⟨e, he, by simpa using hk⟩

theorem mem_remove (s : Shard) (k : Nat) (e : Entry) (h : e ∈ s.remove k) : e ∈ s ∧ e.key ≠ k := by
  simp only [Shard.remove, List.mem_filter, bne_iff_ne] at h
  exact h

theorem lookup_mem (s : Shard) (k : Nat) (e : Entry) (h : s.lookup k = some e) : e ∈ s ∧ e.key = k := by
  simp only [Shard.lookup] at h
  exact ⟨List.mem_of_find?_eq_some h, by simpa using List.find?_some h⟩

theorem head_lookup (e : Entry) (s : Shard) : (Shard.lookup (e :: s) e.key).isSome := by
  simp [Shard.lookup, List.find?]

theorem evict_spec (max : Nat) (hmax : 0 < max) : ∀ (fuel : Nat) (s : Shard) (vs : List Nat), s.length ≤ fuel →
    (evict max fuel s vs).length + 1 ≤ max ∧ ∀ e ∈ evict max fuel s vs, e ∈ s := by
  intro fuel
  induction fuel with
  | zero =>
    intro s vs h
    have : s = [] := by cases s <;> simp_all
    subst this
    simp [evict]; omega
  | succ fuel ih =>
    intro s vs h
    simp only [evict]
    split
    · rename_i hgt
      cases s with
      | nil => simp at hgt; omega
      | cons e rest =>
        simp only
        have hhead := head_lookup e rest
        cases vs with
        | nil =>
          have hl := remove_length_lt (e :: rest) e.key hhead
          have := ih (Shard.remove (e :: rest) e.key) [] (by simp at h hl ⊢; omega)
          exact ⟨this.1, fun x hx => (mem_remove _ _ _ (this.2 x hx)).1⟩
        | cons v vs =>
          simp only
          split
          · rename_i hv
            have hl := remove_length_lt (e :: rest) v hv
            have := ih (Shard.remove (e :: rest) v) vs (by simp at h hl ⊢; omega)
            exact ⟨this.1, fun x hx => (mem_remove _ _ _ (this.2 x hx)).1⟩
          · have hl := remove_length_lt (e :: rest) e.key hhead
            have := ih (Shard.remove (e :: rest) e.key) vs (by simp at h hl ⊢; omega)
            exact ⟨this.1, fun x hx => (mem_remove _ _ _ (this.2 x hx)).1⟩
    · rename_i hle
      exact ⟨by omega, fun x hx => hx⟩

/-- **a shard with a maximum never holds more entries than its maximum after an insert** -/
theorem set_length_le (max : Nat) (hmax : 0 < max) (s : Shard) (e : Entry) (vs : List Nat) :
    (s.set max e vs).length ≤ max := by
  simp only [Shard.set]
  split
  · have := (evict_spec max hmax s.length s vs (Nat.le_refl _)).1
    have h2 := remove_length_le (evict max s.length s vs) e.key
    simp only [List.length_cons]; omega
  · rename_i hc
    simp only [Bool.and_eq_true, decide_eq_true_eq, not_and] at hc
    have := hc hmax
    have h2 := remove_length_le s e.key
    simp only [List.length_cons]; omega

theorem set_mem (max : Nat) (s : Shard) (e : Entry) (vs : List Nat) (x : Entry) (hx : x ∈ s.set max e vs) :
    x = e ∨ (x ∈ s ∧ x.key ≠ e.key) := by
  simp only [Shard.set, List.mem_cons] at hx
  rcases hx with h | h
  · exact Or.inl h
  · right
    have := mem_remove _ _ _ h
    refine ⟨?_, this.2⟩
    split at this
    · rename_i hc
      simp only [Bool.and_eq_true, decide_eq_true_eq] at hc
      exact (evict_spec max hc.1 s.length s vs (Nat.le_refl _)).2 x this.1
    · exact this.1

/-! ## the bound -/

def Bounded (c : Cache) : Prop := ∀ i, (c.shards i).length ≤ c.perShard

theorem step_bounded (sumOf : Nat → Nat) (c : Cache) (op : Op) (hp : 0 < c.perShard) (hb : Bounded c) :
    Bounded (c.step sumOf op).1 ∧ (c.step sumOf op).1.perShard = c.perShard := by
  cases op with
  | store key val exp now vs =>
    simp only [Cache.step]
    split
    · exact ⟨hb, rfl⟩
    · refine ⟨?_, rfl⟩
      intro i
      simp only [modifyShard]
      split
      · exact set_length_le _ hp _ _ _
      · exact hb i
  | get key now =>
    simp only [Cache.step]
    split
    · split
      · refine ⟨?_, rfl⟩
        intro i
        simp only [modifyShard]
        split
        · exact Nat.le_trans (remove_length_le _ _) (hb _)
        · exact hb i
      · exact ⟨hb, rfl⟩
    · exact ⟨hb, rfl⟩
  | flush => exact ⟨fun i => by simp [Cache.step], rfl⟩
  | gc now =>
    refine ⟨?_, rfl⟩
    intro i
    simp only [Cache.step]
    exact Nat.le_trans (List.length_filter_le _ _) (hb i)
  | len => exact ⟨hb, rfl⟩

theorem sum_le (f : Nat → Nat) (b : Nat) (h : ∀ i, f i ≤ b) : ∀ n, ((List.range n).map f).sum ≤ n * b := by
  intro n
  induction n with
  | zero => simp
  | succ n ih =>
    rw [List.range_succ, List.map_append, List.sum_append]
    simp only [List.map_cons, List.map_nil, List.sum_cons, List.sum_nil, Nat.add_zero]
    have := h n
    rw [Nat.succ_mul]; omega

theorem run_bounded (sumOf : Nat → Nat) (ops : List Op) : ∀ (c : Cache), 0 < c.perShard → Bounded c →
    Bounded (c.run sumOf ops).1 ∧ (c.run sumOf ops).1.perShard = c.perShard := by
  induction ops with
  | nil => intro c _ hb; exact ⟨hb, rfl⟩
  | cons op ops ih =>
    intro c hp hb
    simp only [Cache.run]
    have h1 := step_bounded sumOf c op hp hb
    have h2 := ih (c.step sumOf op).1 (by rw [h1.2]; exact hp) h1.1
    exact ⟨h2.1, h2.2.trans h1.2⟩

theorem clamp_ge (minSize : Nat) (size : Int) : minSize ≤ clampSize minSize size ∧ (size : Int) ≤ clampSize minSize size := by
  unfold clampSize
  split <;> omega

/-- **The number of entries never exceeds the configured capacity** (at least
the documented minimum), after any sequence of stores, lookups, flushes and
sweeps, for every configured size, every hash function and every choice of
eviction victims. -/
theorem len_le_capacity (sumOf : Nat → Nat) (minSize : Nat) (hmin : shardCount ≤ minSize) (size : Int) (ops : List Op) :
    ((Cache.new minSize size).run sumOf ops).1.len ≤ clampSize minSize size := by
  have hc := (clamp_ge minSize size).1
  have hp : 0 < (Cache.new minSize size).perShard := by
    simp only [Cache.new]
    exact Nat.div_pos (Nat.le_trans hmin hc) (by decide)
  have hb : Bounded (Cache.new minSize size) := fun i => by simp [Cache.new]
  have := run_bounded sumOf ops _ hp hb
  have hs := sum_le (fun i => (((Cache.new minSize size).run sumOf ops).1.shards i).length) _ this.1 shardCount
  simp only [Cache.len]
  rw [this.2] at hs
  simp only [Cache.new] at hs
  calc _ ≤ shardCount * (clampSize minSize size / shardCount) := hs
    _ ≤ clampSize minSize size := Nat.mul_div_le _ _

/-- the instance the code runs: minimum size read from the source (pkg/cache and the plugin) -/
theorem cache_len_le (sumOf : Nat → Nat) (size : Int) (ops : List Op) :
    ((Cache.new (Gen.Facts.c11MinSize.getD 0) size).run sumOf ops).1.len ≤ Nat.max 1024 size.toNat := by
  have hm : Gen.Facts.c11MinSize.getD 0 = 1024 := by decide
  rw [hm]
  have := len_le_capacity sumOf 1024 (by decide) size ops
  have h2 : clampSize 1024 size ≤ Nat.max 1024 size.toNat := by
    unfold clampSize; split
    · exact Nat.le_max_left _ _
    · exact Nat.le_max_right _ _
  exact Nat.le_trans this h2

/-! ## exactness: what a lookup returns was stored under that key, latest, not flushed, not expired -/

def Exact (sumOf : Nat → Nat) (c : Cache) (spec : Nat → Option Entry) : Prop :=
  ∀ i, ∀ e ∈ c.shards i, spec e.key = some e ∧ shardOf sumOf e.key = i

theorem step_exact (sumOf : Nat → Nat) (c : Cache) (spec : Nat → Option Entry) (op : Op) (h : Exact sumOf c spec) :
    Exact sumOf (c.step sumOf op).1 (specStep spec op) := by
  cases op with
  | store key val exp now vs =>
    simp only [Cache.step, specStep]
    split
    · exact h
    · intro i e he
      simp only [modifyShard] at he
      split at he
      · rename_i hi
        rcases set_mem _ _ _ _ _ he with rfl | ⟨hm, hk⟩
        · exact ⟨by simp, hi.symm⟩
        · have := h i e hm
          simp only at hk
          exact ⟨by simp [hk, this.1], this.2⟩
      · rename_i hi
        have := h i e he
        have hk : e.key ≠ key := by
          intro hk
          rw [hk] at this
          exact hi this.2.symm
        exact ⟨by simp [hk, this.1], this.2⟩
  | get key now =>
    simp only [Cache.step, specStep]
    split
    · split
      · intro i e he
        simp only [modifyShard] at he
        split at he
        · rename_i hi
          exact h i e (mem_remove _ _ _ he).1
        · exact h i e he
      · exact h
    · exact h
  | flush => intro i e he; simp [Cache.step] at he
  | gc now =>
    intro i e he
    simp only [Cache.step, List.mem_filter] at he
    exact h i e he.1
  | len => exact h

theorem run_exact (sumOf : Nat → Nat) (ops : List Op) : ∀ (c : Cache) (spec : Nat → Option Entry), Exact sumOf c spec →
    Exact sumOf (c.run sumOf ops).1 (specRun spec ops) := by
  induction ops with
  | nil => intro c spec h; exact h
  | cons op ops ih =>
    intro c spec h
    simp only [Cache.run, specRun]
    exact ih _ _ (step_exact sumOf c spec op h)

/-- **A lookup returns nothing, or exactly the value most recently stored under
that key and not flushed since, and that value has not expired.** -/
theorem get_exact (sumOf : Nat → Nat) (minSize : Nat) (size : Int) (ops : List Op) (key now val exp : Nat)
    (hhit : (((Cache.new minSize size).run sumOf ops).1.step sumOf (.get key now)).2 = .hit val exp) :
    specRun (fun _ => none) ops key = some ⟨key, val, exp⟩ ∧ now ≤ exp := by
  have hex := run_exact sumOf ops (Cache.new minSize size) (fun _ => none) (by intro i e he; simp [Cache.new] at he)
  simp only [Cache.step] at hhit
  split at hhit
  · rename_i e hl
    split at hhit
    · cases hhit
    · rename_i hexp
      simp only [Ret.hit.injEq] at hhit
      have hm := lookup_mem _ _ _ hl
      have := (hex _ e hm.1).1
      rw [hm.2] at this
      obtain ⟨k, v, x⟩ := e
      simp only at hm hhit hexp
      obtain ⟨rfl, rfl⟩ := hhit
      rw [this, hm.2]
      exact ⟨rfl, by omega⟩
  · cases hhit

/-! ## the lookup reads the elem after the shard lock is released -/

theorem heap_run_stable (ops : List HOp) : ∀ (h : ElemHeap) (a : Nat), a < h.next →
    (h.run false ops).cell a = h.cell a ∧ h.next ≤ (h.run false ops).next := by
  induction ops with
  | nil => intro h a _; exact ⟨rfl, Nat.le_refl _⟩
  | cons op ops ih =>
    intro h a ha
    cases op with
    | store v e =>
      have hstep : ElemHeap.step false h (.store v e) = { h.write h.next ⟨v, e⟩ with next := h.next + 1 } := by
        simp [ElemHeap.step]
      have := ih (ElemHeap.step false h (.store v e)) a (by rw [hstep]; simp [ElemHeap.write]; omega)
      simp only [ElemHeap.run, List.foldl] at this ⊢
      refine ⟨this.1.trans ?_, Nat.le_trans ?_ this.2⟩
      · rw [hstep]; simp [ElemHeap.write]; omega
      · rw [hstep]; simp [ElemHeap.write]
    | sweep b =>
      have hstep : ElemHeap.step false h (.sweep b) = h := by simp [ElemHeap.step]
      simp only [ElemHeap.run, List.foldl, hstep]
      exact ih h a ha

/-- whether the code writes to an elem after its creation (e.g. reuses swept elems), as read from the source -/
def recycles : Bool := !(Gen.Facts.c11ElemsWrittenOnlyAtCreation == some true)

/-- **Whatever other goroutines store or sweep between a lookup's fetch of the elem
(under the shard lock) and its read of the elem's fields (after the unlock), the
lookup returns what it would have returned had it read the fields at the fetch:**
the atomic `get` of `Cache.step` is the lookup of the code. Holds for the elem
discipline read from the source; `by decide` fails if elems are written after creation. -/
theorem lookup_reads_what_it_fetched (h : ElemHeap) (a : Nat) (ha : a < h.next) (between : List HOp) (now : Nat) :
    readFetched recycles h a between now = readFetched recycles h a [] now := by
  have hr : recycles = false := by decide
  rw [hr]
  simp only [readFetched, (heap_run_stable between h a ha).1]
  rfl

/-- with reuse of swept elems the same lookup returns another key's value: key A's elem (value 43690, expired at 10)
is fetched, swept and refilled by the store of another key (value 48059) before it is read at time 50 -/
theorem reuse_of_swept_elems_is_refuted :
    readFetched true ⟨fun _ => ⟨43690, 10⟩, 1, []⟩ 0 [.sweep 0, .store 48059 1000] 50 = .hit 48059 1000 ∧
    readFetched false ⟨fun _ => ⟨43690, 10⟩, 1, []⟩ 0 [.sweep 0, .store 48059 1000] 50 = .miss ∧
    readFetched true ⟨fun _ => ⟨43690, 100⟩, 1, []⟩ 0 [.sweep 0] 50 = .hit 0 100 := by decide

/-! ## tie to the source -/

theorem facts_guard :
    Gen.Facts.c11MinSize = some 1024 ∧ Gen.Facts.c11PluginSizeGoesThroughClamp = some true ∧ Gen.Facts.c11CacheUsesClampedSize = some true ∧ Gen.Facts.c11ShardCount = some 64 ∧
    Gen.Facts.c11PerShardIsSizeDivShards = some true ∧ Gen.Facts.c11ShardByHashMod = some true ∧
    Gen.Facts.c11LockDiscipline = some true ∧ Gen.Facts.c11MapAccessSites = some 15 ∧
    Gen.Facts.c11SetEvictsBeforeInsert = some true ∧ Gen.Facts.c11GetHidesExpired = some true ∧
    Gen.Facts.c11StoreSkipsExpired = some true ∧ Gen.Facts.c11GcRemovesExpired = some true ∧
    Gen.Facts.c11ElemsWrittenOnlyAtCreation = some true := by decide

/-! ## non-vacuity -/

example : ((Cache.new 1024 0).run id [.store 5 50 100 10 [], .store 69 51 100 10 [], .get 5 20, .get 69 101, .len]).2 =
    [.none, .none, .hit 50 100, .miss, .len 1] := by decide
example : (Shard.set 2 [⟨1, 1, 9⟩, ⟨2, 2, 9⟩] ⟨3, 3, 9⟩ [2]).map (·.key) = [3, 1] := by decide

end Props.C11
