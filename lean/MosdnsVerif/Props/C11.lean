import MosdnsVerif.Model.C11
import MosdnsVerif.Base.Facts
import MosdnsVerif.Gen.Facts

/-!
# C11 — the cache store is exact and bounded
-/
namespace Props.C11
open Model.C11

/-! ## shard lemmas -/

theorem remove_length_le (s : Shard) (k : Nat) : (s.remove k).length ≤ s.length := by
  simp only [Shard.remove]; exact List.length_filter_le _ _

theorem remove_length_lt (s : Shard) (k : Nat) (h : (s.lookup k).isSome) : (s.remove k).length < s.length := by
  simp only [Shard.lookup, List.find?_isSome] at h
  obtain ⟨e, he, hk⟩ := h
  simp only [Shard.remove]
  apply List.length_filter_lt_length_iff_exists.mpr
  exact ⟨e, he, by simpa using hk⟩

theorem mem_remove (s : Shard) (k : Nat) (e : Entry) (h : e ∈ s.remove k) : e ∈ s ∧ e.key ≠ k := by
  simp only [Shard.remove, List.mem_filter, bne_iff_ne] at h
  exact h

theorem lookup_mem (s : Shard) (k : Nat) (e : Entry) (h : s.lookup k = some e) : e ∈ s ∧ e.key = k := by
  simp only [Shard.lookup] at h
  exact ⟨List.mem_of_find?_eq_some h, by simpa using List.find?_some h⟩

theorem head_lookup (e : Entry) (s : Shard) : (Shard.lookup (e :: s) e.key).isSome := by
  simp [Shard.lookup, List.find?]

theorem evict_spec (max : Nat) (hmax : 0 < max) : ∀ (fuel : Nat) (s : Shard) (vs : List Nat), s.length ≤ fuel →
    (evict max fuel s vs).length + 1 ≤ max ∧ ∀ e ∈ evict max fuel s vs, e ∈ s := by
  intro fuel
  induction fuel with
  | zero =>
    intro s vs h
    have : s = [] := by cases s <;> simp_all
    subst this
    simp [evict]; omega
  | succ fuel ih =>
    intro s vs h
    simp only [evict]
    split
    · rename_i hgt
      cases s with
      | nil => simp at hgt; omega
      | cons e rest =>
        simp only
        have hhead := head_lookup e rest
        cases vs with
        | nil =>
          have hl := remove_length_lt (e :: rest) e.key hhead
          have := ih (Shard.remove (e :: rest) e.key) [] (by simp at h hl ⊢; omega)
          exact ⟨this.1, fun x hx => (mem_remove _ _ _ (this.2 x hx)).1⟩
        | cons v vs =>
          simp only
          split
          · rename_i hv
            have hl := remove_length_lt (e :: rest) v hv
            have := ih (Shard.remove (e :: rest) v) vs (by simp at h hl ⊢; omega)
            exact ⟨this.1, fun x hx => (mem_remove _ _ _ (this.2 x hx)).1⟩
          · have hl := remove_length_lt (e :: rest) e.key hhead
            have := ih (Shard.remove (e :: rest) e.key) vs (by simp at h hl ⊢; omega)
            exact ⟨this.1, fun x hx => (mem_remove _ _ _ (this.2 x hx)).1⟩
    · rename_i hle
      exact ⟨by omega, fun x hx => hx⟩

/-- **a shard with a maximum never holds more entries than its maximum after an insert** -/
theorem set_length_le (max : Nat) (hmax : 0 < max) (s : Shard) (e : Entry) (vs : List Nat) :
    (s.set max e vs).length ≤ max := by
  simp only [Shard.set]
  split
  · have := (evict_spec max hmax s.length s vs (Nat.le_refl _)).1
    have h2 := remove_length_le (evict max s.length s vs) e.key
    simp only [List.length_cons]; omega
  · rename_i hc
    simp only [Bool.and_eq_true, decide_eq_true_eq, not_and] at hc
    have := hc hmax
    have h2 := remove_length_le s e.key
    simp only [List.length_cons]; omega

theorem set_mem (max : Nat) (s : Shard) (e : Entry) (vs : List Nat) (x : Entry) (hx : x ∈ s.set max e vs) :
    x = e ∨ (x ∈ s ∧ x.key ≠ e.key) := by
  simp only [Shard.set, List.mem_cons] at hx
  rcases hx with h | h
  · exact Or.inl h
  · right
    have := mem_remove _ _ _ h
    refine ⟨?_, this.2⟩
    split at this
    · rename_i hc
      simp only [Bool.and_eq_true, decide_eq_true_eq] at hc
      exact (evict_spec max hc.1 s.length s vs (Nat.le_refl _)).2 x this.1
    · exact this.1

/-! ## the bound -/

def Bounded (c : Cache) : Prop := ∀ i, (c.shards i).length ≤ c.perShard

theorem step_bounded (sumOf : Nat → Nat) (c : Cache) (op : Op) (hp : 0 < c.perShard) (hb : Bounded c) :
    Bounded (c.step sumOf op).1 ∧ (c.step sumOf op).1.perShard = c.perShard := by
  cases op with
  | store key val exp now vs =>
    simp only [Cache.step]
    split
    · exact ⟨hb, rfl⟩
    · refine ⟨?_, rfl⟩
      intro i
      simp only [modifyShard]
      split
      · exact set_length_le _ hp _ _ _
      · exact hb i
  | get key now =>
    simp only [Cache.step]
    split
    · split
      · refine ⟨?_, rfl⟩
        intro i
        simp only [modifyShard]
        split
        · exact Nat.le_trans (remove_length_le _ _) (hb _)
        · exact hb i
      · exact ⟨hb, rfl⟩
    · exact ⟨hb, rfl⟩
  | flush => exact ⟨fun i => by simp [Cache.step], rfl⟩
  | gc now =>
    refine ⟨?_, rfl⟩
    intro i
    simp only [Cache.step]
    exact Nat.le_trans (List.length_filter_le _ _) (hb i)
  | len => exact ⟨hb, rfl⟩

theorem sum_le (f : Nat → Nat) (b : Nat) (h : ∀ i, f i ≤ b) : ∀ n, ((List.range n).map f).sum ≤ n * b := by
  intro n
  induction n with
  | zero => simp
  | succ n ih =>
    rw [List.range_succ, List.map_append, List.sum_append]
    simp only [List.map_cons, List.map_nil, List.sum_cons, List.sum_nil, Nat.add_zero]
    have := h n
    rw [Nat.succ_mul]; omega

theorem run_bounded (sumOf : Nat → Nat) (ops : List Op) : ∀ (c : Cache), 0 < c.perShard → Bounded c →
    Bounded (c.run sumOf ops).1 ∧ (c.run sumOf ops).1.perShard = c.perShard := by
  induction ops with
  | nil => intro c _ hb; exact ⟨hb, rfl⟩
  | cons op ops ih =>
    intro c hp hb
    simp only [Cache.run]
    have h1 := step_bounded sumOf c op hp hb
    have h2 := ih (c.step sumOf op).1 (by rw [h1.2]; exact hp) h1.1
    exact ⟨h2.1, h2.2.trans h1.2⟩

theorem clamp_ge (minSize : Nat) (size : Int) : minSize ≤ clampSize minSize size ∧ (size : Int) ≤ clampSize minSize size := by
  unfold clampSize
  split <;> omega

/-- **The number of entries never exceeds the configured capacity** (at least
the documented minimum), after any sequence of stores, lookups, flushes and
sweeps, for every configured size, every hash function and every choice of
eviction victims. -/
theorem len_le_capacity (sumOf : Nat → Nat) (minSize : Nat) (hmin : shardCount ≤ minSize) (size : Int) (ops : List Op) :
    ((Cache.new minSize size).run sumOf ops).1.len ≤ clampSize minSize size := by
  have hc := (clamp_ge minSize size).1
  have hp : 0 < (Cache.new minSize size).perShard := by
    simp only [Cache.new]
    exact Nat.div_pos (Nat.le_trans hmin hc) (by decide)
  have hb : Bounded (Cache.new minSize size) := fun i => by simp [Cache.new]
  have := run_bounded sumOf ops _ hp hb
  have hs := sum_le (fun i => (((Cache.new minSize size).run sumOf ops).1.shards i).length) _ this.1 shardCount
  simp only [Cache.len]
  rw [this.2] at hs
  simp only [Cache.new] at hs
  calc _ ≤ shardCount * (clampSize minSize size / shardCount) := hs
    _ ≤ clampSize minSize size := Nat.mul_div_le _ _

/-- the instance the code runs: minimum size read from the source (pkg/cache and the plugin) -/
theorem cache_len_le (sumOf : Nat → Nat) (size : Int) (ops : List Op) :
    ((Cache.new (Gen.Facts.c11MinSize.getD 0) size).run sumOf ops).1.len ≤ Nat.max 1024 size.toNat := by
  have hm : Gen.Facts.c11MinSize.getD 0 = 1024 := by decide
  rw [hm]
  have := len_le_capacity sumOf 1024 (by decide) size ops
  have h2 : clampSize 1024 size ≤ Nat.max 1024 size.toNat := by
    unfold clampSize; split
    · exact Nat.le_max_left _ _
    · exact Nat.le_max_right _ _
  exact Nat.le_trans this h2

/-! ## the bound across flushes: the map that carries the capacity is the one made in `New` -/

/-- what `Flush` does to the map object, as read from the source: it empties the one map made in `New` from the
normalised size (`none`); when the source is not recognised as doing that, the model takes the worst a replacement can
do, `NewMapCache(0)` (a size that was never filled in) -/
def flushRebuild : Option Int :=
  if Gen.Facts.c11MapCreatedOnceFlushOnlyEmpties == some true then none else some 0

theorem stepIn_none (sumOf : Nat → Nat) (c : Cache) (op : Op) : c.stepIn none sumOf op = c.step sumOf op := by
  cases op <;> rfl

theorem runIn_none (sumOf : Nat → Nat) (ops : List Op) : ∀ (c : Cache), Cache.runIn none sumOf c ops = c.run sumOf ops := by
  induction ops with
  | nil => intro c; rfl
  | cons op ops ih =>
    intro c
    simp only [Cache.runIn, Cache.run, stepIn_none, ih]

/-- a `Flush` that does replace the map is harmless exactly when the replacement gets the same per-shard maximum, e.g.
`NewMapCache` of the normalised size again -/
theorem flushIn_same_size (c : Cache) (size : Int) (h : size.toNat / shardCount = c.perShard) :
    (c.flushIn (some size)).perShard = (c.flushIn none).perShard ∧
    ∀ i, (c.flushIn (some size)).shards i = (c.flushIn none).shards i := by
  simp [Cache.flushIn, h]

/-- **The capacity holds after any number of flushes, however many distinct keys are stored afterwards**, for the
`Flush` read from the source (one map, created in `New` from the normalised size, emptied in place): `by decide` fails
if the map is created anywhere else, the field holding it is assigned again, or a shard's maximum is written after its
creation. -/
theorem cache_len_le_across_flushes (sumOf : Nat → Nat) (size : Int) (ops : List Op) :
    ((Cache.new (Gen.Facts.c11MinSize.getD 0) size).runIn flushRebuild sumOf ops).1.len ≤ Nat.max 1024 size.toNat := by
  have h : flushRebuild = none := by decide
  rw [h, runIn_none]
  exact cache_len_le sumOf size ops

/-- the stores `key i := i` for `i < n`, all live (expiry 100 at time 10), no victims named -/
def distinctStores (n : Nat) : List Op := (List.range n).map (fun k => Op.store k k 100 10 [])

/-- a `Flush` that replaces the map by one made from a size that was never filled in is refuted: with a minimum (and so
a capacity) of 64 and 65 distinct keys stored, the cache holds 64 entries before the first flush (both variants: the
first map is still the one made in `New`), and after a flush 65 with the replacing `Flush`, 64 with the emptying one -/
theorem flush_rebuilding_from_an_unfilled_size_is_refuted :
    ((Cache.new 64 0).runIn (some 0) id (distinctStores 65 ++ [.len])).2.getLast? = some (.len 64) ∧
    ((Cache.new 64 0).runIn (some 0) id (distinctStores 65 ++ [.flush, .len] ++ distinctStores 65 ++ [.len])).2.getLast? = some (.len 65) ∧
    ((Cache.new 64 0).runIn none id (distinctStores 65 ++ [.flush, .len] ++ distinctStores 65 ++ [.len])).2.getLast? = some (.len 64) ∧
    ((Cache.new 64 0).flushIn (some 0)).perShard = 0 := by decide

/-! ## exactness: what a lookup returns was stored under that key, latest, not flushed, not expired -/

def Exact (sumOf : Nat → Nat) (c : Cache) (spec : Nat → Option Entry) : Prop :=
  ∀ i, ∀ e ∈ c.shards i, spec e.key = some e ∧ shardOf sumOf e.key = i

theorem step_exact (sumOf : Nat → Nat) (c : Cache) (spec : Nat → Option Entry) (op : Op) (h : Exact sumOf c spec) :
    Exact sumOf (c.step sumOf op).1 (specStep spec op) := by
  cases op with
  | store key val exp now vs =>
    simp only [Cache.step, specStep]
    split
    · exact h
    · intro i e he
      simp only [modifyShard] at he
      split at he
      · rename_i hi
        rcases set_mem _ _ _ _ _ he with rfl | ⟨hm, hk⟩
        · exact ⟨by simp, hi.symm⟩
        · have := h i e hm
          simp only at hk
          exact ⟨by simp [hk, this.1], this.2⟩
      · rename_i hi
        have := h i e he
        have hk : e.key ≠ key := by
          intro hk
          rw [hk] at this
          exact hi this.2.symm
        exact ⟨by simp [hk, this.1], this.2⟩
  | get key now =>
    simp only [Cache.step, specStep]
    split
    · split
      · intro i e he
        simp only [modifyShard] at he
        split at he
        · rename_i hi
          exact h i e (mem_remove _ _ _ he).1
        · exact h i e he
      · exact h
    · exact h
  | flush => intro i e he; simp [Cache.step] at he
  | gc now =>
    intro i e he
    simp only [Cache.step, List.mem_filter] at he
    exact h i e he.1
  | len => exact h

theorem run_exact (sumOf : Nat → Nat) (ops : List Op) : ∀ (c : Cache) (spec : Nat → Option Entry), Exact sumOf c spec →
    Exact sumOf (c.run sumOf ops).1 (specRun spec ops) := by
  induction ops with
  | nil => intro c spec h; exact h
  | cons op ops ih =>
    intro c spec h
    simp only [Cache.run, specRun]
    exact ih _ _ (step_exact sumOf c spec op h)

/-- **A lookup returns nothing, or exactly the value most recently stored under
that key and not flushed since, and that value has not expired.** -/
theorem get_exact (sumOf : Nat → Nat) (minSize : Nat) (size : Int) (ops : List Op) (key now val exp : Nat)
    (hhit : (((Cache.new minSize size).run sumOf ops).1.step sumOf (.get key now)).2 = .hit val exp) :
    specRun (fun _ => none) ops key = some ⟨key, val, exp⟩ ∧ now ≤ exp := by
  have hex := run_exact sumOf ops (Cache.new minSize size) (fun _ => none) (by intro i e he; simp [Cache.new] at he)
  simp only [Cache.step] at hhit
  split at hhit
  · rename_i e hl
    split at hhit
    · cases hhit
    · rename_i hexp
      simp only [Ret.hit.injEq] at hhit
      have hm := lookup_mem _ _ _ hl
      have := (hex _ e hm.1).1
      rw [hm.2] at this
      obtain ⟨k, v, x⟩ := e
      simp only at hm hhit hexp
      obtain ⟨rfl, rfl⟩ := hhit
      rw [this, hm.2]
      exact ⟨rfl, by omega⟩
  · cases hhit

/-! ## the lookup reads the elem after the shard lock is released -/

theorem heap_run_stable (ops : List HOp) : ∀ (h : ElemHeap) (a : Nat), a < h.next →
    (h.run false ops).cell a = h.cell a ∧ h.next ≤ (h.run false ops).next := by
  induction ops with
  | nil => intro h a _; exact ⟨rfl, Nat.le_refl _⟩
  | cons op ops ih =>
    intro h a ha
    cases op with
    | store v e =>
      have hstep : ElemHeap.step false h (.store v e) = { h.write h.next ⟨v, e⟩ with next := h.next + 1 } := by
        simp [ElemHeap.step]
      have := ih (ElemHeap.step false h (.store v e)) a (by rw [hstep]; simp [ElemHeap.write]; omega)
      simp only [ElemHeap.run, List.foldl] at this ⊢
      refine ⟨this.1.trans ?_, Nat.le_trans ?_ this.2⟩
      · rw [hstep]; simp [ElemHeap.write]; omega
      · rw [hstep]; simp [ElemHeap.write]
    | sweep b =>
      have hstep : ElemHeap.step false h (.sweep b) = h := by simp [ElemHeap.step]
      simp only [ElemHeap.run, List.foldl, hstep]
      exact ih h a ha

/-- whether the code writes to an elem after its creation (e.g. reuses swept elems), as read from the source -/
def recycles : Bool := !(Gen.Facts.c11ElemsWrittenOnlyAtCreation == some true)

/-- **Whatever other goroutines store or sweep between a lookup's fetch of the elem
(under the shard lock) and its read of the elem's fields (after the unlock), the
lookup returns what it would have returned had it read the fields at the fetch:**
the atomic `get` of `Cache.step` is the lookup of the code. Holds for the elem
discipline read from the source; `by decide` fails if elems are written after creation. -/
theorem lookup_reads_what_it_fetched (h : ElemHeap) (a : Nat) (ha : a < h.next) (between : List HOp) (now : Nat) :
    readFetched recycles h a between now = readFetched recycles h a [] now := by
  have hr : recycles = false := by decide
  rw [hr]
  simp only [readFetched, (heap_run_stable between h a ha).1]
  rfl

/-- with reuse of swept elems the same lookup returns another key's value: key A's elem (value 43690, expired at 10)
is fetched, swept and refilled by the store of another key (value 48059) before it is read at time 50 -/
theorem reuse_of_swept_elems_is_refuted :
    readFetched true ⟨fun _ => ⟨43690, 10⟩, 1, []⟩ 0 [.sweep 0, .store 48059 1000] 50 = .hit 48059 1000 ∧
    readFetched false ⟨fun _ => ⟨43690, 10⟩, 1, []⟩ 0 [.sweep 0, .store 48059 1000] 50 = .miss ∧
    readFetched true ⟨fun _ => ⟨43690, 100⟩, 1, []⟩ 0 [.sweep 0] 50 = .hit 0 100 := by decide

/-! ## `RangeDo` on the shard map -/

theorem rangeDo_length_le (f : RangeF) (s : Shard) : (s.rangeDo f).length ≤ s.length := by
  simp only [Shard.rangeDo]; exact List.length_filterMap_le _ _

theorem answer_key (f : RangeF) (e0 e : Entry) (h : f.answer e0 = some (some e)) : e.key = e0.key := by
  simp only [RangeF.answer] at h
  split at h
  · split at h
    · simp only [Option.some.injEq] at h; rw [← h]
    · cases h
    · split at h <;> cases h
  · cases h

/-- what a pass leaves in a shard: an entry the callback kept, or the callback's new value for an entry of the same key;
it never introduces a key -/
theorem rangeDo_mem (f : RangeF) (s : Shard) (e : Entry) (h : e ∈ s.rangeDo f) :
    ∃ e0 ∈ s, e0.key = e.key ∧ ((f.answer e0 = none ∧ e = e0) ∨ f.answer e0 = some (some e)) := by
  simp only [Shard.rangeDo, List.mem_filterMap] at h
  obtain ⟨e0, he0, hm⟩ := h
  refine ⟨e0, he0, ?_⟩
  cases ha : f.answer e0 with
  | none =>
    rw [ha] at hm
    simp only [Option.some.injEq] at hm
    exact ⟨by rw [hm], Or.inl ⟨rfl, hm.symm⟩⟩
  | some r =>
    rw [ha] at hm
    simp only at hm
    subst hm
    exact ⟨(answer_key f e0 e ha).symm, Or.inr rfl⟩

theorem mstep_bounded (sumOf : Nat → Nat) (c : Cache) (op : MOp) (hp : 0 < c.perShard) (hb : Bounded c) :
    Bounded (c.mstep sumOf op).1 ∧ (c.mstep sumOf op).1.perShard = c.perShard := by
  have hrem : ∀ k, Bounded (modifyShard c (shardOf sumOf k) (·.remove k)) := by
    intro k i
    simp only [modifyShard]
    split
    · exact Nat.le_trans (remove_length_le _ _) (hb _)
    · exact hb i
  cases op with
  | base op => exact step_bounded sumOf c op hp hb
  | del key => exact ⟨hrem key, rfl⟩
  | range f =>
    refine ⟨?_, rfl⟩
    intro i
    simp only [Cache.mstep]
    exact Nat.le_trans (rangeDo_length_le f _) (hb i)
  | tas key act =>
    simp only [Cache.mstep]
    split
    · rename_i e hl
      split
      · exact ⟨hb, rfl⟩
      · exact ⟨hrem key, rfl⟩
      · refine ⟨?_, rfl⟩
        intro i
        simp only [modifyShard]
        split
        · rename_i hi
          have hlt := remove_length_lt (c.shards (shardOf sumOf key)) key (by rw [hl]; rfl)
          have := hb (shardOf sumOf key)
          simp only [List.length_cons, hi]; omega
        · exact hb i
    · exact ⟨hb, rfl⟩

theorem mrun_bounded (sumOf : Nat → Nat) (ops : List MOp) : ∀ (c : Cache), 0 < c.perShard → Bounded c →
    Bounded (c.mrun sumOf ops).1 ∧ (c.mrun sumOf ops).1.perShard = c.perShard := by
  induction ops with
  | nil => intro c _ hb; exact ⟨hb, rfl⟩
  | cons op ops ih =>
    intro c hp hb
    simp only [Cache.mrun]
    have h1 := mstep_bounded sumOf c op hp hb
    have h2 := ih (c.mstep sumOf op).1 (by rw [h1.2]; exact hp) h1.1
    exact ⟨h2.1, h2.2.trans h1.2⟩

/-- **`concurrent_map.Map` with a maximum never holds more than 64 * (size / 64) <= size entries**, after any sequence of
set / get / del / flush / TestAndSet on present keys / RangeDo with setting and deleting callbacks -/
theorem map_len_le (sumOf : Nat → Nat) (size : Nat) (hs : shardCount ≤ size) (ops : List MOp) :
    ((Cache.new 0 size).mrun sumOf ops).1.len ≤ size := by
  have hc : clampSize 0 (size : Int) = size := by unfold clampSize; split <;> omega
  have hp : 0 < (Cache.new 0 size).perShard := by
    simp only [Cache.new, hc]
    exact Nat.div_pos hs (by decide)
  have hb : Bounded (Cache.new 0 size) := fun i => by simp [Cache.new]
  have := mrun_bounded sumOf ops _ hp hb
  have hsum := sum_le (fun i => (((Cache.new 0 size).mrun sumOf ops).1.shards i).length) _ this.1 shardCount
  simp only [Cache.len]
  rw [this.2] at hsum
  simp only [Cache.new, hc] at hsum
  calc _ ≤ shardCount * (size / shardCount) := hsum
    _ ≤ size := Nat.mul_div_le _ _

theorem mstep_exact (sumOf : Nat → Nat) (c : Cache) (spec : Nat → Option Entry) (op : MOp) (h : Exact sumOf c spec) :
    Exact sumOf (c.mstep sumOf op).1 (mspecStep spec op) := by
  have hrem : ∀ key (spec' : Nat → Option Entry), (∀ k, k ≠ key → spec' k = spec k) →
      Exact sumOf (modifyShard c (shardOf sumOf key) (·.remove key)) spec' := by
    intro key spec' hs i e he
    simp only [modifyShard] at he
    split at he
    · have hm := mem_remove _ _ _ he
      have := h i e hm.1
      exact ⟨by rw [hs _ hm.2]; exact this.1, this.2⟩
    · rename_i hi
      have := h i e he
      have hk : e.key ≠ key := by
        intro hk
        rw [hk] at this
        exact hi this.2.symm
      exact ⟨by rw [hs _ hk]; exact this.1, this.2⟩
  cases op with
  | base op => exact step_exact sumOf c spec op h
  | del key => exact hrem key _ (fun k hk => by simp [mspecStep, hk])
  | range f =>
    intro i e he
    simp only [Cache.mstep] at he
    obtain ⟨e0, he0, hk, hans⟩ := rangeDo_mem f _ e he
    have h0 := h i e0 he0
    refine ⟨?_, by rw [← hk]; exact h0.2⟩
    simp only [mspecStep, ← hk, h0.1, applyAnswer]
    rcases hans with ⟨hn, rfl⟩ | hs
    · rw [hn]
    · rw [hs]
  | tas key act =>
    simp only [Cache.mstep]
    split
    · rename_i e0 hl
      have hm := lookup_mem _ _ _ hl
      have h0 := h _ e0 hm.1
      rw [hm.2] at h0
      split
      · rename_i hn
        intro i e he
        have := h i e he
        refine ⟨?_, this.2⟩
        simp only [mspecStep]
        split
        · rename_i hk
          rw [hk] at this ⊢
          rw [h0.1] at this ⊢
          simp only [applyAnswer, hn]
          exact this.1
        · exact this.1
      · exact hrem key _ (fun k hk => by simp [mspecStep, hk])
      · rename_i e' hs
        intro i e he
        simp only [modifyShard] at he
        have hk' := answer_key _ _ _ hs
        split at he
        · rename_i hi
          simp only [List.mem_cons] at he
          rcases he with rfl | he
          · refine ⟨?_, by rw [hk', hm.2]; exact hi.symm⟩
            simp only [mspecStep, hk', hm.2, h0.1, applyAnswer, hs, ↓reduceIte]
          · have hmr := mem_remove _ _ _ he
            have := h i e hmr.1
            exact ⟨by simp only [mspecStep, hmr.2, ↓reduceIte]; exact this.1, this.2⟩
        · rename_i hi
          have := h i e he
          have hk : e.key ≠ key := by
            intro hk
            rw [hk] at this
            exact hi this.2.symm
          exact ⟨by simp only [mspecStep, hk, ↓reduceIte]; exact this.1, this.2⟩
    · rename_i hl
      intro i e he
      have := h i e he
      have hk : e.key ≠ key := by
        intro hk
        by_cases hi : i = shardOf sumOf key
        · subst hi
          simp only [Shard.lookup, List.find?_eq_none] at hl
          exact hl e he (by simp [hk])
        · rw [hk] at this
          exact hi this.2.symm
      exact ⟨by simp only [mspecStep, hk, ↓reduceIte]; exact this.1, this.2⟩

theorem mrun_exact (sumOf : Nat → Nat) (ops : List MOp) : ∀ (c : Cache) (spec : Nat → Option Entry), Exact sumOf c spec →
    Exact sumOf (c.mrun sumOf ops).1 (mspecRun spec ops) := by
  induction ops with
  | nil => intro c spec h; exact h
  | cons op ops ih =>
    intro c spec h
    simp only [Cache.mrun, mspecRun]
    exact ih _ _ (mstep_exact sumOf c spec op h)

/-- **A lookup in `concurrent_map.Map` returns nothing, or exactly what the specification holds under that key**: the
value last set, modified by the answers that later passes (`RangeDo`) and `TestAndSet` calls computed from exactly that
value, not deleted or flushed since - every operation being one atomic step. No update is lost and no flushed or
evicted entry comes back. -/
theorem map_get_exact (sumOf : Nat → Nat) (size : Int) (ops : List MOp) (key val exp : Nat)
    (hhit : (((Cache.new 0 size).mrun sumOf ops).1.step sumOf (.get key 0)).2 = .hit val exp) :
    mspecRun (fun _ => none) ops key = some ⟨key, val, exp⟩ := by
  have hex := mrun_exact sumOf ops (Cache.new 0 size) (fun _ => none) (by intro i e he; simp [Cache.new] at he)
  simp only [Cache.step] at hhit
  split at hhit
  · rename_i e hl
    split at hhit
    · cases hhit
    · simp only [Ret.hit.injEq] at hhit
      have hm := lookup_mem _ _ _ hl
      have := (hex _ e hm.1).1
      rw [hm.2] at this
      obtain ⟨k, v, x⟩ := e
      simp only at hm hhit
      obtain ⟨rfl, rfl⟩ := hhit
      rw [this, hm.2]
  · cases hhit

/-- whether the code runs `rangeDo` as one critical section that applies each answer on the spot, as read from the source -/
def rangeOneSection : Bool :=
  Gen.Facts.c11OneCriticalSectionPerMethod == some true && Gen.Facts.c11RangeDoAppliesInPlace == some true

/-- **Whatever other goroutines do to the shard while a `RangeDo` pass is under way happens after the whole pass** (they
wait for the shard lock): the pass is the atomic `Shard.rangeDo`, so it cannot undo a store, a flush or an eviction that
it did not see. Holds for the critical sections read from the source; `by decide` fails if `rangeDo` releases the lock
between looking at the entries and modifying them. -/
theorem rangeDo_is_one_step (f : RangeF) (s : Shard) (between : Shard → Shard) :
    Shard.rangeDoIn rangeOneSection f s between = between (s.rangeDo f) := by
  have h : rangeOneSection = true := by decide
  rw [h]; rfl

/-- a pass that collects its modifications, releases the lock and applies them later is refuted: with key 7 holding 1
and a callback that adds 100, (a) a `Flush` in the window is undone (the flushed entry is back), (b) in a shard with
maximum 1 a store of key 71 in the window (which evicts key 7) leaves two entries, (c) a store of 2 under key 7 in the
window is lost: the shard ends with 101, neither 2 nor 102; the one-section pass gives nothing / one entry / 2 -/
theorem split_rangeDo_is_refuted :
    Shard.rangeDoIn false ⟨1, 0, .setAdd 100⟩ [⟨7, 1, 0⟩] (fun _ => []) = [⟨7, 101, 0⟩] ∧
    Shard.rangeDoIn true ⟨1, 0, .setAdd 100⟩ [⟨7, 1, 0⟩] (fun _ => []) = [] ∧
    (Shard.rangeDoIn false ⟨1, 0, .setAdd 100⟩ [⟨7, 1, 0⟩] (fun s => s.set 1 ⟨71, 5, 0⟩ [])).length = 2 ∧
    (Shard.rangeDoIn true ⟨1, 0, .setAdd 100⟩ [⟨7, 1, 0⟩] (fun s => s.set 1 ⟨71, 5, 0⟩ [])).length = 1 ∧
    Shard.rangeDoIn false ⟨1, 0, .setAdd 100⟩ [⟨7, 1, 0⟩] (fun s => s.set 0 ⟨7, 2, 0⟩ []) = [⟨7, 101, 0⟩] ∧
    Shard.rangeDoIn true ⟨1, 0, .setAdd 100⟩ [⟨7, 1, 0⟩] (fun s => s.set 0 ⟨7, 2, 0⟩ []) = [⟨7, 2, 0⟩] := by decide

/-! ## `set` makes room on the shard it inserts into -/

/-- read from the source: `shard.set` is lock, deferred unlock, eviction loop on the current map, insert - nothing before -/
def setDecidesWhenInserting : Bool :=
  Gen.Facts.c11SetEvictsBeforeInsert == some true && Gen.Facts.c11OneCriticalSectionPerMethod == some true

/-- **Whatever other goroutines do to the shard around a `Set` (remove the key, refill the shard, flush, sweep), the
shard holds at most its maximum when the `Set` returns**: the method is the atomic `Shard.set` applied to the shard as
the others left it. Over all shards, entries, victims and all interfering functions `between`. `by decide` fails if `set`
consults the shard before its critical section. -/
theorem set_is_one_step (max : Nat) (hmax : 0 < max) (s : Shard) (e : Entry) (vs : List Nat) (between : Shard → Shard) :
    Shard.setIn setDecidesWhenInserting max s e vs between = (between s).set max e vs ∧
    (Shard.setIn setDecidesWhenInserting max s e vs between).length ≤ max := by
  have h : setDecidesWhenInserting = true := by decide
  rw [h]
  exact ⟨rfl, set_length_le max hmax _ e vs⟩

/-- a `set` that skips the eviction for a key it saw stored before it took the lock keeps the bound only as long as
nobody interferes: without interference the shard does not grow ... -/
theorem stale_set_alone_keeps_length (max : Nat) (s : Shard) (e : Entry) (vs : List Nat)
    (h : (s.lookup e.key).isSome) : (Shard.setIn false max s e vs id).length ≤ s.length := by
  simp only [Shard.setIn, h, Bool.not_false, Bool.and_self, if_true, id, List.length_cons]
  exact remove_length_lt s e.key h

/-- ... but it is refuted under interference: a full shard (maximum 2) holding keys 1 and 2, `Set(1)` looks (stored),
then key 1 is removed and key 3 stored (both bound-preserving steps of the model: the shard is full again, 2 entries),
then the insert: 3 entries. The as-built `set` leaves 2. The same with a flush and two stores in the window. -/
theorem stale_set_is_refuted :
    ((fun (s : Shard) => (s.remove 1).set 2 ⟨3, 30, 9⟩ []) [⟨1, 10, 9⟩, ⟨2, 20, 9⟩]).length = 2 ∧
    (Shard.setIn false 2 [⟨1, 10, 9⟩, ⟨2, 20, 9⟩] ⟨1, 11, 9⟩ [] (fun s => (s.remove 1).set 2 ⟨3, 30, 9⟩ [])).length = 3 ∧
    (Shard.setIn true 2 [⟨1, 10, 9⟩, ⟨2, 20, 9⟩] ⟨1, 11, 9⟩ [] (fun s => (s.remove 1).set 2 ⟨3, 30, 9⟩ [])).length = 2 ∧
    (Shard.setIn false 2 [⟨1, 10, 9⟩, ⟨2, 20, 9⟩] ⟨1, 11, 9⟩ [] (fun _ => (Shard.set 2 [] ⟨3, 30, 9⟩ []).set 2 ⟨4, 40, 9⟩ [])).length = 3 ∧
    (Shard.setIn true 2 [⟨1, 10, 9⟩, ⟨2, 20, 9⟩] ⟨1, 11, 9⟩ [] (fun _ => (Shard.set 2 [] ⟨3, 30, 9⟩ []).set 2 ⟨4, 40, 9⟩ [])).length = 2 := by decide

/-! ## pkg/lru and pkg/concurrent_lru -/

theorem lru_lookup_mem (q : Lru) (k : Nat) (e : KV) (h : q.lookup k = some e) : e ∈ q ∧ e.key = k := by
  simp only [Lru.lookup] at h
  exact ⟨List.mem_of_find?_eq_some h, by simpa using List.find?_some h⟩

theorem lru_lookup_none (q : Lru) (k : Nat) (h : q.lookup k = none) : ∀ e ∈ q, e.key ≠ k := by
  simp only [Lru.lookup, List.find?_eq_none] at h
  intro e he hk
  exact h e he (by simp [hk])

theorem lru_mem_without (q : Lru) (k : Nat) (e : KV) (h : e ∈ q.without k) : e ∈ q ∧ e.key ≠ k := by
  simp only [Lru.without, List.mem_filter, bne_iff_ne] at h
  exact h

theorem lru_without_length_lt (q : Lru) (k : Nat) (e : KV) (h : q.lookup k = some e) : (q.without k).length < q.length := by
  have hm := lru_lookup_mem q k e h
  simp only [Lru.without]
  apply List.length_filter_lt_length_iff_exists.mpr
  exact ⟨e, hm.1, by simp [hm.2]⟩

theorem lru_add_mem (max : Nat) (q : Lru) (k v : Nat) (x : KV) (hx : x ∈ (q.add true max k v).1) :
    x = ⟨k, v⟩ ∨ (x ∈ q ∧ x.key ≠ k) := by
  simp only [Lru.add] at hx
  split at hx
  · simp only [Bool.not_true, Bool.false_and, Bool.false_eq_true, ↓reduceIte, List.mem_append, List.mem_singleton] at hx
    rcases hx with h | h
    · exact Or.inr (lru_mem_without _ _ _ h)
    · exact Or.inl h
  · rename_i hn
    simp only [List.mem_append, List.mem_singleton] at hx
    rcases hx with h | h
    · have hq := List.mem_of_mem_drop h
      exact Or.inr ⟨hq, lru_lookup_none q k hn x hq⟩
    · exact Or.inl h

theorem lru_add_length (stores : Bool) (max : Nat) (hmax : 0 < max) (q : Lru) (k v : Nat) (hq : q.length ≤ max) :
    (q.add stores max k v).1.length ≤ max := by
  simp only [Lru.add]
  split
  · rename_i e he
    split
    · exact hq
    · have := lru_without_length_lt q k e he
      simp only [List.length_append, List.length_cons, List.length_nil]; omega
  · simp only [List.length_append, List.length_drop, List.length_cons, List.length_nil]; omega

def LBounded (c : SLru) : Prop := ∀ i, (c.shards i).length ≤ c.max

theorem lru_step_bounded (stores : Bool) (sumOf : Nat → Nat) (c : SLru) (op : LOp) (hp : 0 < c.max) (hb : LBounded c) :
    LBounded (c.step stores sumOf op).1 ∧ (c.step stores sumOf op).1.max = c.max ∧ (c.step stores sumOf op).1.n = c.n := by
  have hmod : ∀ i q, q.length ≤ c.max → LBounded (c.modify i q) := by
    intro i q hq j
    simp only [SLru.modify]
    split
    · exact hq
    · exact hb j
  cases op with
  | add k v => exact ⟨hmod _ _ (lru_add_length stores c.max hp _ k v (hb _)), rfl, rfl⟩
  | get k =>
    simp only [SLru.step]
    split
    · rename_i e he
      refine ⟨hmod _ _ ?_, rfl, rfl⟩
      have := lru_without_length_lt _ k e he
      have := hb (c.shardOf sumOf k)
      simp only [List.length_append, List.length_cons, List.length_nil]; omega
    · exact ⟨hb, rfl, rfl⟩
  | del k =>
    simp only [SLru.step]
    split
    · rename_i e he
      refine ⟨hmod _ _ ?_, rfl, rfl⟩
      have := lru_without_length_lt _ k e he
      have := hb (c.shardOf sumOf k)
      omega
    · exact ⟨hb, rfl, rfl⟩
  | pop =>
    simp only [SLru.step]
    split
    · rename_i e rest he
      refine ⟨hmod _ _ ?_, rfl, rfl⟩
      have := hb 0
      rw [he] at this
      simp only [List.length_cons] at this; omega
    · exact ⟨hb, rfl, rfl⟩
  | clean m r =>
    refine ⟨?_, rfl, rfl⟩
    intro i
    simp only [SLru.step]
    exact Nat.le_trans (List.length_filter_le _ _) (hb i)
  | flush => exact ⟨fun i => by simp [SLru.step], rfl, rfl⟩
  | len => exact ⟨hb, rfl, rfl⟩

theorem lru_run_bounded (stores : Bool) (sumOf : Nat → Nat) (ops : List LOp) : ∀ (c : SLru), 0 < c.max → LBounded c →
    LBounded (c.run stores sumOf ops).1 ∧ (c.run stores sumOf ops).1.max = c.max ∧ (c.run stores sumOf ops).1.n = c.n := by
  induction ops with
  | nil => intro c _ hb; exact ⟨hb, rfl, rfl⟩
  | cons op ops ih =>
    intro c hp hb
    simp only [SLru.run]
    have h1 := lru_step_bounded stores sumOf c op hp hb
    have h2 := ih (c.step stores sumOf op).1 (by rw [h1.2.1]; exact hp) h1.1
    exact ⟨h2.1, h2.2.1.trans h1.2.1, h2.2.2.trans h1.2.2⟩

/-- **An LRU (plain, or sharded with `n` shards) never holds more than `n * max` entries**, whatever `Add` does on an
update, after any sequence of Add / Get / Del / PopOldest / Clean / Flush -/
theorem lru_len_le (stores : Bool) (sumOf : Nat → Nat) (n max : Nat) (hmax : 0 < max) (ops : List LOp) :
    ((SLru.new n max).run stores sumOf ops).1.len ≤ n * max := by
  have hb : LBounded (SLru.new n max) := fun i => by simp [SLru.new]
  have h := lru_run_bounded stores sumOf ops (SLru.new n max) hmax hb
  have hle : ∀ i, (((SLru.new n max).run stores sumOf ops).1.shards i).length ≤ max := by
    intro i
    have := h.1 i
    rw [h.2.1] at this
    exact this
  have hs := sum_le (fun i => (((SLru.new n max).run stores sumOf ops).1.shards i).length) max hle n
  simp only [SLru.len]
  rw [h.2.2]
  exact hs

def LExact (sumOf : Nat → Nat) (c : SLru) (spec : Nat → Option Nat) : Prop :=
  ∀ i, ∀ e ∈ c.shards i, spec e.key = some e.val ∧ c.shardOf sumOf e.key = i

theorem lru_step_exact (sumOf : Nat → Nat) (c : SLru) (spec : Nat → Option Nat) (op : LOp) (h : LExact sumOf c spec) :
    LExact sumOf (c.step true sumOf op).1 (lspecStep spec op) ∧ (c.step true sumOf op).1.n = c.n := by
  have hsub : ∀ i (q : Lru), (∀ x ∈ q, x ∈ c.shards i) → LExact sumOf (c.modify i q) spec := by
    intro i q hq j e he
    simp only [SLru.modify] at he
    split at he
    · rename_i hj
      subst hj
      exact h j e (hq e he)
    · exact h j e he
  cases op with
  | add k v =>
    refine ⟨?_, rfl⟩
    intro j e he
    simp only [SLru.step, SLru.modify] at he
    simp only [lspecStep]
    split at he
    · rename_i hj
      rcases lru_add_mem _ _ _ _ _ he with rfl | ⟨hm, hk⟩
      · exact ⟨by simp, hj.symm⟩
      · have := h _ e hm
        exact ⟨by simp [hk, this.1], by rw [hj]; exact this.2⟩
    · rename_i hj
      have := h j e he
      have hk : e.key ≠ k := by
        intro hk
        rw [hk] at this
        exact hj this.2.symm
      exact ⟨by simp [hk, this.1], this.2⟩
  | get k =>
    simp only [SLru.step, lspecStep]
    split
    · rename_i e he
      refine ⟨hsub _ _ ?_, rfl⟩
      intro x hx
      simp only [List.mem_append, List.mem_singleton] at hx
      rcases hx with hx | hx
      · exact (lru_mem_without _ _ _ hx).1
      · rw [hx]; exact (lru_lookup_mem _ _ _ he).1
    · exact ⟨h, rfl⟩
  | del k =>
    simp only [SLru.step, lspecStep]
    split
    · exact ⟨hsub _ _ (fun x hx => (lru_mem_without _ _ _ hx).1), rfl⟩
    · exact ⟨h, rfl⟩
  | pop =>
    simp only [SLru.step, lspecStep]
    split
    · rename_i e rest he
      exact ⟨hsub _ _ (fun x hx => by rw [he]; exact List.mem_cons_of_mem _ hx), rfl⟩
    · exact ⟨h, rfl⟩
  | clean m r =>
    refine ⟨?_, rfl⟩
    intro i e he
    simp only [SLru.step, List.mem_filter] at he
    exact h i e he.1
  | flush => exact ⟨fun i e he => by simp [SLru.step] at he, rfl⟩
  | len => exact ⟨h, rfl⟩

theorem lru_run_exact (sumOf : Nat → Nat) (ops : List LOp) : ∀ (c : SLru) (spec : Nat → Option Nat), LExact sumOf c spec →
    LExact sumOf (c.run true sumOf ops).1 (lspecRun spec ops) := by
  induction ops with
  | nil => intro c spec h; exact h
  | cons op ops ih =>
    intro c spec h
    simp only [SLru.run, lspecRun]
    exact ih _ _ (lru_step_exact sumOf c spec op h).1

/-- whether an update through `LRU.Add` always writes the new value, as read from the source -/
def lruStores : Bool := Gen.Facts.c11LruUpdateStoresFirst == some true

/-- **A lookup in an LRU (plain, locked or sharded) returns nothing, or exactly the value most recently added under that
key and not flushed since** - after any sequence of Add / Get / Del / PopOldest / Clean / Flush, for every number of shards,
every maximum and every hash. Holds for the `Add` read from the source; `by decide` fails if an update can return before
the value is written. Under concurrency every method of `ConcurrentLRU` is one critical section (regenerated fact), so a
concurrent history is an interleaving of these steps. -/
theorem lru_get_exact (sumOf : Nat → Nat) (n max : Nat) (ops : List LOp) (key val : Nat)
    (hhit : (((SLru.new n max).run lruStores sumOf ops).1.step lruStores sumOf (.get key)).2 = .hit val) :
    lspecRun (fun _ => none) ops key = some val := by
  have hs : lruStores = true := by decide
  rw [hs] at hhit
  have hex := lru_run_exact sumOf ops (SLru.new n max) (fun _ => none) (by intro i e he; simp [SLru.new] at he)
  simp only [SLru.step] at hhit
  split at hhit
  · rename_i e hl
    simp only [LRet.hit.injEq] at hhit
    have hm := lru_lookup_mem _ _ _ hl
    have := (hex _ e hm.1).1
    rw [hm.2, hhit] at this
    exact this
  · cases hhit

/-- an `Add` that returns early when the key is already the newest entry is refuted: after add 1:=10, add 1:=20 the lookup
of 1 returns 10, a value overwritten before the lookup began (also after a hit made the key the newest: get, add, get);
the `Add` that writes first returns 20 -/
theorem lru_add_returning_early_is_refuted :
    ((SLru.new 1 4).run false id [.add 1 10, .add 1 20, .get 1]).2 = [.evicted [], .evicted [], .hit 10] ∧
    ((SLru.new 1 4).run true id [.add 1 10, .add 1 20, .get 1]).2 = [.evicted [], .evicted [], .hit 20] ∧
    ((SLru.new 1 4).run false id [.add 1 10, .add 2 11, .get 1, .add 1 20, .get 1]).2 =
      [.evicted [], .evicted [], .hit 10, .evicted [], .hit 10] ∧
    lspecRun (fun _ => none) [.add 1 10, .add 1 20] 1 = some 20 := by decide

/-! ## tie to the source -/

theorem facts_guard :
    Gen.Facts.c11MinSize = some 1024 ∧ Gen.Facts.c11PluginSizeGoesThroughClamp = some true ∧ Gen.Facts.c11CacheUsesClampedSize = some true ∧ Gen.Facts.c11ShardCount = some 64 ∧
    Gen.Facts.c11PerShardIsSizeDivShards = some true ∧ Gen.Facts.c11ShardByHashMod = some true ∧
    Gen.Facts.c11LockDiscipline = some true ∧ Gen.Facts.c11MapAccessSites = some 15 ∧
    Gen.Facts.c11SetEvictsBeforeInsert = some true ∧ Gen.Facts.c11GetHidesExpired = some true ∧
    Gen.Facts.c11StoreSkipsExpired = some true ∧ Gen.Facts.c11GcRemovesExpired = some true ∧
    Gen.Facts.c11ElemsWrittenOnlyAtCreation = some true ∧
    Gen.Facts.c11OneCriticalSectionPerMethod = some true ∧ Gen.Facts.c11RangeDoAppliesInPlace = some true ∧
    Gen.Facts.c11LruUpdateStoresFirst = some true ∧ Gen.Facts.c11LruAddShape = some true ∧ Gen.Facts.c11LruGetShape = some true ∧
    Gen.Facts.c11ConcurrentLruLocked = some true ∧ Gen.Facts.c11ShardedLruShardByHashMod = some true ∧
    Gen.Facts.c11MapCreatedOnceFlushOnlyEmpties = some true := by decide

/-! ## non-vacuity -/

example : ((Cache.new 1024 0).run id [.store 5 50 100 10 [], .store 69 51 100 10 [], .get 5 20, .get 69 101, .len]).2 =
    [.none, .none, .hit 50 100, .miss, .len 1] := by decide
example : (Shard.set 2 [⟨1, 1, 9⟩, ⟨2, 2, 9⟩] ⟨3, 3, 9⟩ [2]).map (·.key) = [3, 1] := by decide
example : ((SLru.new 2 2).run true id [.add 2 20, .add 4 40, .add 1 10, .get 2, .add 6 60, .add 2 21, .get 2, .get 4, .clean 2 1, .len]).2 =
    [.evicted [], .evicted [], .evicted [], .hit 20, .evicted [⟨4, 40⟩], .evicted [], .hit 21, .miss, .evicted [⟨2, 21⟩, ⟨1, 10⟩], .len 1] := by decide
example : ((Cache.new 0 64).mrun id [.base (.store 7 1 0 0 []), .base (.store 71 2 0 0 [7]), .range ⟨1, 0, .setAdd 100⟩, .base (.get 71 0), .base (.get 7 0), .base .len]).2 =
    [.none, .none, .len 1, .hit 102 0, .miss, .len 1] := by decide

end Props.C11
