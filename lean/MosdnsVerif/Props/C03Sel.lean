import MosdnsVerif.Props.C03
import MosdnsVerif.Model.C03Sel

/-!
# C03 - plugins that replace the context (dual-stack selector) behind plugins that rewrite its query (redirect)

`Model.C03Sel`: the query is a heap object; the handler keeps a pointer to the one it received. The selector
replaces the context by a copy; a redirect in front of it restores the name through the pointer it read on
entry, i.e. on the old object.

* On every path the RECEIVED object has its ID and question back when a plugin returns, and a response echoes
  the query up to a name in force. Hence the reply carries the query's ID and question iff SERVFAIL / REFUSED
  are built from the received object (`reply_echo_swapped`, `synth_from_context_is_wrong`).
* Finding F13: with the redirect as it was (restore through the entry pointer only) the context's query kept
  the redirect target after such a chain, so a rule running after a sequence invoked as a plugin had RETURNED
  answered for the target (`old_redirect_*` witnesses). The repaired redirect (fact
  `c03RedirectRestoresCurrentQuery`) also restores the object the context points to now: the context's query
  comes back with its ID and question on every path (`runChain_respectsS true`), rules compose sequentially
  (`respectsS_seq`) and the reply is right for them too (`reply_echo_returned_chain`).
-/
namespace Props.C03
open Model.Handler Model.C03Sel

/-- what of a query must come back unchanged -/
def key (m : Msg) : Nat × List Question := (m.id, m.question)

/-- a response, if set, has the ID of `e`, QR set, and the question of `e` up to a name in force -/
def EchoResp (names : List Bytes) (e : Msg) (resp : Option Msg) : Prop :=
  ∀ r, resp = some r → r.id = e.id ∧ r.qr = true ∧
    ∃ x n, e.question = [x] ∧ n ∈ names ∧ r.question = [{ x with name := n }]

/-- what a plugin may assume when it is entered -/
structure PreS (names : List Bytes) (s : St) : Prop where
  one : ∃ x, s.c.q.question = [x] ∧ names.head? = some x.name
  echo : EchoResp names s.c.q s.c.resp

/-- what it guarantees when it returns (with or without an error), `s` being the state on entry: the received
object has the ID and question it had, the response echoes the query the plugin was handed; and, with `w`
(the repaired redirect), the context's query - whichever object that is now - has the ID and question it had
on entry -/
structure PostS (w : Bool) (names : List Bytes) (s s' : St) : Prop where
  recv : s'.recv.map key = s.recv.map key
  echo : EchoResp names s.c.q s'.c.resp
  away : s.ptr ≠ 0 → s'.ptr ≠ 0     -- a context that left the received object does not come back to it
  ctxq : w = true → key s'.c.q = key s.c.q

def RespectsS (w : Bool) (f : St → St × Bool) : Prop := ∀ names s, PreS names s → PostS w names s (f s).1

theorem RespectsS.weaken {w : Bool} {f : St → St × Bool} (h : RespectsS w f) : RespectsS false f :=
  fun names s hp => ⟨(h names s hp).recv, (h names s hp).echo, (h names s hp).away, fun hw => by cases hw⟩

/-! ### The heap -/

theorem lookup_map (id j : Nat) (f : Msg → Msg) (l : List (Nat × Msg)) :
    lookup id (l.map (fun p => if p.1 = j then (p.1, f p.2) else p)) =
      if id = j then (lookup id l).map f else lookup id l := by
  induction l with
  | nil => simp [lookup]
  | cons a t ih =>
    obtain ⟨i, m⟩ := a
    by_cases hij : i = j
    · by_cases hid : i = id
      · subst hij; subst hid; simp [lookup]
      · have : ¬ j = id := by rw [← hij]; exact hid
        simp only [List.map_cons, hij, if_true, lookup, this, if_false]
        exact ih
    · by_cases hid : i = id
      · subst hid
        simp [lookup, hij]
      · simp only [List.map_cons, hij, if_false, lookup, hid]
        exact ih

theorem obj_write (s : St) (j id : Nat) (f : Msg → Msg) :
    (s.write j f).obj id = if id = j then (s.obj id).map f else s.obj id := by
  unfold St.write St.obj
  by_cases hp : s.ptr = j
  · simp only [hp, if_true]
    by_cases hid : id = j
    · subst hid; simp
    · have : ¬ j = id := fun h => hid h.symm
      simp [hid, this]
  · simp only [hp, if_false]
    rw [lookup_map]
    by_cases hid : id = j
    · subst hid; simp [hp]
    · simp only [hid, if_false]

@[simp] theorem write_resp (s : St) (j : Nat) (f : Msg → Msg) : (s.write j f).c.resp = s.c.resp := by
  unfold St.write; split <;> rfl

@[simp] theorem write_ptr (s : St) (j : Nat) (f : Msg → Msg) : (s.write j f).ptr = s.ptr := by
  unfold St.write; split <;> rfl

theorem write_q (s : St) (j : Nat) (f : Msg → Msg) : (s.write j f).c.q = if s.ptr = j then f s.c.q else s.c.q := by
  unfold St.write; split <;> rfl

@[simp] theorem write_ptr_q (s : St) (f : Msg → Msg) : (s.write s.ptr f).c.q = f s.c.q := by
  rw [write_q]; simp

theorem recv_write (s : St) (j : Nat) (f : Msg → Msg) :
    (s.write j f).recv = if 0 = j then s.recv.map f else s.recv := by
  unfold St.recv; exact obj_write s j 0 f

theorem fork_recv (s : St) : s.fork.recv = s.recv := by
  unfold St.recv St.obj St.fork
  simp [lookup]

theorem key_setName (n : Bytes) (m : Msg) :
    key (setName n m) = ((key m).1, (key m).2.map (fun x => { x with name := n })) := rfl

/-! ### The deferred function of redirect -/

@[simp] theorem restore_resp (both : Bool) (p : Nat) (target org : Bytes) (s : St) :
    (restore both p target org s).c.resp = s.c.resp := by
  unfold restore
  simp only
  split
  · split
    · split <;> simp
    · simp
  · simp

@[simp] theorem restore_ptr (both : Bool) (p : Nat) (target org : Bytes) (s : St) :
    (restore both p target org s).ptr = s.ptr := by
  unfold restore
  simp only
  split
  · split
    · split <;> simp
    · simp
  · simp

/-- the received object sees the first restore only: the second one writes to an object that is not the
received one -/
theorem restore_recv (both : Bool) (p : Nat) (target org : Bytes) (s : St) (h : s.ptr ≠ p → s.ptr ≠ 0) :
    (restore both p target org s).recv = if 0 = p then s.recv.map (setName org) else s.recv := by
  have h4 := recv_write s p (setName org)
  unfold restore
  simp only
  split
  · rename_i hc
    simp only [Bool.and_eq_true, bne_iff_ne, ne_eq, write_ptr] at hc
    have hne : ¬ 0 = s.ptr := fun e => h hc.2 e.symm
    split
    · split
      · rw [recv_write, write_ptr]; simp only [hne, if_false]; exact h4
      · exact h4
    · exact h4
  · exact h4

/-- with both restores the context's query has the original name whether or not the context was replaced -/
theorem restore_q (p : Nat) (target : Bytes) (x : Question) (s : St)
    (hq : s.c.q.question = [{ x with name := target }]) :
    key (restore true p target x.name s).c.q = (s.c.q.id, [x]) := by
  unfold restore
  simp only
  by_cases hp : s.ptr = p
  · have : ¬ ((true && (s.write p (setName x.name)).ptr != p) = true) := by simp [hp]
    rw [if_neg this, write_q, if_pos hp]
    simp [key, setName, hq]
  · have : (true && (s.write p (setName x.name)).ptr != p) = true := by simp [hp]
    rw [if_pos this]
    have hq4 : (s.write p (setName x.name)).c.q = s.c.q := by rw [write_q, if_neg hp]
    rw [hq4, hq]
    simp only [if_true]
    rw [write_ptr_q, hq4]
    simp [key, setName, hq]

/-! ### Plugins -/

theorem echo_of_reply (names : List Bytes) (e : Msg) (x : Question) (hx : e.question = [x])
    (hn : names.head? = some x.name) (r : Msg) (h1 : r.id = e.id) (h2 : r.question = [x]) (h3 : r.qr = true) :
    r.id = e.id ∧ r.qr = true ∧ ∃ y n, e.question = [y] ∧ n ∈ names ∧ r.question = [{ y with name := n }] := by
  refine ⟨h1, h3, x, x.name, hx, ?_, h2⟩
  cases names with
  | nil => simp at hn
  | cons a t => simp at hn; simp [hn]

/-- The last plugin: it leaves the response alone or sets one that echoes the query it was handed; it does
not write the query. -/
def UpEcho (up : Ctx → Ctx × Bool) : Prop :=
  ∀ c r, (up c).1.resp = some r → c.resp = some r ∨ (r.id = c.q.id ∧ r.question = c.q.question ∧ r.qr = true)

theorem respectsS_last (w : Bool) (up : Ctx → Ctx × Bool) (hup : UpEcho up) : RespectsS w (last up) := by
  intro names s h
  refine ⟨rfl, ?_, fun hp => hp, fun _ => rfl⟩
  intro r hr
  have hr' : (up s.c).1.resp = some r := hr
  rcases hup s.c r hr' with h0 | ⟨h1, h2, h3⟩
  · exact h.echo r h0
  · obtain ⟨x, hx, hn⟩ := h.one
    exact echo_of_reply names s.c.q x hx hn r h1 (by rw [h2, hx]) h3

theorem localAnswer_q (rc : Nat) (an ns : List RR) (c : Ctx) : (localAnswer rc an ns c).q = c.q := by
  obtain ⟨_, _, _, _, _, _, hq⟩ := setResponse_fields c { setReply c.q with rcode := rc, answer := an, ns := ns }
  exact hq

theorem localAnswer_echo (names : List Bytes) (rc : Nat) (an ns : List RR) (s : St) (h : PreS names s) :
    EchoResp names s.c.q (localAnswer rc an ns s.c).resp := by
  obtain ⟨r, hr, h1, h2, h3, _, _⟩ := setResponse_fields s.c { setReply s.c.q with rcode := rc, answer := an, ns := ns }
  obtain ⟨x, hx, hn⟩ := h.one
  intro r' hr'
  simp only [localAnswer] at hr'
  rw [hr] at hr'
  injection hr' with hr'
  subst hr'
  exact echo_of_reply names s.c.q x hx hn _ (by rw [h1]; rfl) (by rw [h2]; simp [setReply, hx]) (by rw [h3]; rfl)

/-- a locally generated answer as a rule of its own (`reject n`, hosts, black_hole, arbitrary) -/
theorem respectsS_localRule (w : Bool) (rc : Nat) (an ns : List RR) : RespectsS w (localRule rc an ns) := by
  intro names s h
  refine ⟨?_, localAnswer_echo names rc an ns s h, fun hp => hp, fun _ => ?_⟩
  · simp [localRule, St.recv, St.obj, localAnswer_q]
  · simp [localRule, localAnswer_q]

/-- **The dual-stack selector**: whichever path it takes - the query passed on unchanged, its own empty
answer, or the context REPLACED by the copy on which the query was run. -/
theorem respectsS_selector (w : Bool) (prefer : Nat) (known : Bool) (next : St → St × Bool) (hn : RespectsS w next) :
    RespectsS w (selector prefer known next) := by
  intro names s h
  have hblock : PostS w names s ({ s with c := localAnswer 0 [] [] s.c } : St) :=
    respectsS_localRule w 0 [] [] names s h
  have hpass : PostS w names s (next s.fork).1 := by
    have := hn names s.fork ⟨h.one, h.echo⟩
    refine ⟨by rw [this.recv, fork_recv], this.echo, fun _ => this.away (by simp [St.fork]), this.ctxq⟩
  unfold selector
  split
  · split
    · exact hn names s h
    · split
      · exact hn names s h
      · cases known with
        | true => exact hblock
        | false =>
          simp only [Bool.false_eq_true, if_false]
          split
          · exact hblock
          · exact hpass
  · exact hn names s h

/-- **redirect**: the received object gets its name back whether or not the context still points to it
(either version); with both restores the context's query does too. -/
theorem respectsS_redirect (w both : Bool) (rule : Question → Option Bytes) (next : St → St × Bool) (hn : RespectsS w next) :
    RespectsS (w && both) (Model.C03Sel.redirect both rule next) := by
  intro names s h
  obtain ⟨x, hx, hhead⟩ := h.one
  unfold Model.C03Sel.redirect
  rw [hx]
  simp only
  cases hrule : rule x with
  | none =>
    have := hn names s h
    exact ⟨this.recv, this.echo, this.away, fun hw => this.ctxq (by simp at hw; exact hw.1)⟩
  | some target =>
    simp only
    -- inside the scope the query carries the target name
    have hq1 : (s.write s.ptr (setName target)).c.q.question = [{ x with name := target }] := by
      rw [write_ptr_q]; simp [setName, hx]
    have hid1 : (s.write s.ptr (setName target)).c.q.id = s.c.q.id := by rw [write_ptr_q]; rfl
    have hin : PreS (target :: names) (s.write s.ptr (setName target)) := by
      refine ⟨⟨_, hq1, rfl⟩, ?_⟩
      intro r hr
      rw [write_resp] at hr
      obtain ⟨a, b, y, n, hy, hmem, hrq⟩ := h.echo r hr
      have : y = x := by rw [hx] at hy; injection hy with hy; exact hy.symm
      subst this
      exact ⟨by rw [hid1]; exact a, b, _, n, hq1, List.mem_cons_of_mem _ hmem, by rw [hrq]⟩
    have hout := hn _ _ hin
    generalize next (s.write s.ptr (setName target)) = res at hout
    obtain ⟨s2, err⟩ := res
    simp only at hout ⊢
    have hname : x.name ∈ names := by
      cases names with
      | nil => simp at hhead
      | cons a t => simp at hhead; simp [hhead]
    have hrecv1 := recv_write s s.ptr (setName target)
    have haway2 : s2.ptr ≠ s.ptr → s2.ptr ≠ 0 := by
      intro hne
      by_cases hp : s.ptr = 0
      · rw [hp] at hne; exact hne
      · exact hout.away (by rw [write_ptr]; exact hp)
    -- the step that rewrites the response touches no query object: state it for any such s3
    have hs3 : ∀ s3 : St, s3.ptr = s2.ptr → s3.dead = s2.dead → s3.c.q = s2.c.q →
        (restore both s.ptr target x.name s3).recv.map key = s.recv.map key ∧
        (s.ptr ≠ 0 → (restore both s.ptr target x.name s3).ptr ≠ 0) ∧
        ((w && both) = true → key (restore both s.ptr target x.name s3).c.q = key s.c.q) := by
      intro s3 e1 e2 e3
      have hobj : s3.recv = s2.recv := by simp [St.recv, St.obj, e1, e2, e3]
      refine ⟨?_, ?_, ?_⟩
      · rw [restore_recv both s.ptr target x.name s3 (by rw [e1]; exact haway2), hobj]
        have h2 := hout.recv
        rw [hrecv1] at h2
        by_cases hp : 0 = s.ptr
        · simp only [hp, if_true] at h2 ⊢
          have hsr : s.recv = some s.c.q := by simp [St.recv, St.obj, ← hp]
          rw [hsr] at h2 ⊢
          cases hr2 : s2.recv with
          | none => rw [hr2] at h2; simp at h2
          | some m2 =>
            rw [hr2] at h2
            simp only [Option.map_some] at h2 ⊢
            injection h2 with h2
            rw [key_setName, h2, key_setName]
            simp [key, hx]
        · simp only [hp, if_false] at h2 ⊢
          exact h2
      · intro hp
        rw [restore_ptr, e1]
        exact hout.away (by rw [write_ptr]; exact hp)
      · intro hw
        simp only [Bool.and_eq_true] at hw
        obtain ⟨hw1, hw2⟩ := hw
        subst hw2
        have hk := hout.ctxq hw1
        have hq2 : s2.c.q.question = [{ x with name := target }] := by
          have := congrArg Prod.snd hk; simp only [key] at this; rw [this, hq1]
        have hi2 : s2.c.q.id = s.c.q.id := by
          have := congrArg Prod.fst hk; simp only [key] at this; rw [this, hid1]
        rw [restore_q s.ptr target x s3 (by rw [e3]; exact hq2), e3, hi2]
        simp [key, hx]
    have hecho : ∀ s3 : St, (s3.c.resp = match s2.c.resp with
          | some m => some { renameQ m target x.name with answer := .rr x.name 5 1 0 :: m.answer }
          | none => none) →
        EchoResp names s.c.q (restore both s.ptr target x.name s3).c.resp := by
      intro s3 hs r hr
      rw [restore_resp, hs] at hr
      cases hc2 : s2.c.resp with
      | none => simp [hc2] at hr
      | some r2 =>
        simp [hc2] at hr
        subst hr
        obtain ⟨a, b, y, n, hy, hmem, hrq⟩ := hout.echo r2 hc2
        have hy' : y = { x with name := target } := by
          rw [hq1] at hy; injection hy with hy; exact hy.symm
        subst hy'
        refine ⟨by rw [← hid1]; exact a, b, x, ?_⟩
        by_cases hnt : n = target
        · refine ⟨x.name, hx, hname, ?_⟩
          simp [renameQ, hrq, hnt]
        · have hmem' : n ∈ names := by
            rcases List.mem_cons.mp hmem with h | h
            · exact absurd h hnt
            · exact h
          refine ⟨n, hx, hmem', ?_⟩
          simp [renameQ, hrq, hnt]
    cases hr : s2.c.resp with
    | none =>
      obtain ⟨a, b, c⟩ := hs3 s2 rfl rfl rfl
      exact ⟨a, hecho s2 (by rw [hr]), b, c⟩
    | some r2 =>
      obtain ⟨a, b, c⟩ := hs3 { s2 with c := { s2.c with resp := some { renameQ r2 target x.name with answer := .rr x.name 5 1 0 :: r2.answer } } } rfl rfl rfl
      exact ⟨a, hecho _ (by rw [hr]), b, c⟩

/-- what a chain element must satisfy: a response-rewriting plugin keeps ID, question and QR -/
def PlugOk : Plug → Prop
  | .mapResp f => ∀ m, (f m).id = m.id ∧ (f m).question = m.question ∧ (f m).qr = m.qr
  | _ => True

/-- **Every chain** of redirects, selectors, response-rewriting plugins and locally generated answers, in any
order and nesting, in front of an echoing last plugin: with `both = false` (the redirect as it was) the
received object and the response are right; with `both = true` (as repaired) the context's query is, too. -/
theorem runChain_respectsS (both : Bool) (up : Ctx → Ctx × Bool) (hup : UpEcho up) (chain : List Plug) (hok : ∀ p ∈ chain, PlugOk p) :
    RespectsS both (runChain both up chain) := by
  induction chain with
  | nil => exact respectsS_last both up hup
  | cons p rest ih =>
    have ih := ih (fun p hp => hok p (List.mem_cons_of_mem _ hp))
    cases p with
    | redirect rule =>
      have := respectsS_redirect both both rule _ ih
      rw [Bool.and_self] at this
      exact this
    | selector prefer known => exact respectsS_selector both prefer known _ ih
    | mapResp f =>
      intro names s h
      have hf : ∀ m, (f m).id = m.id ∧ (f m).question = m.question ∧ (f m).qr = m.qr := hok (.mapResp f) (List.mem_cons_self ..)
      have hpre : PreS names ({ s with c := { s.c with resp := s.c.resp.map f } } : St) := by
        refine ⟨h.one, ?_⟩
        intro r hr
        simp only [Option.map_eq_some_iff] at hr
        obtain ⟨m, hm, rfl⟩ := hr
        obtain ⟨a, b, x, n, hx, hn, hq⟩ := h.echo m hm
        exact ⟨by rw [(hf m).1]; exact a, by rw [(hf m).2.2]; exact b, x, n, hx, hn, by rw [(hf m).2.1]; exact hq⟩
      have := ih names _ hpre
      exact ⟨this.recv, this.echo, this.away, this.ctxq⟩
    | localAns rc an ns =>
      intro names s h
      have hq := localAnswer_q rc an ns s.c
      have hpre : PreS names ({ s with c := localAnswer rc an ns s.c } : St) := by
        refine ⟨by simpa [hq] using h.one, ?_⟩
        simp only [hq]
        exact localAnswer_echo names rc an ns s h
      have := ih names _ hpre
      have e0 : (runChain both up (Plug.localAns rc an ns :: rest) s) = runChain both up rest { s with c := localAnswer rc an ns s.c } := rfl
      rw [e0]
      refine ⟨?_, ?_, this.away, ?_⟩
      · rw [this.recv]
        simp [St.recv, St.obj, hq]
      · have e := this.echo
        simp only [hq] at e
        exact e
      · intro hw
        have e := this.ctxq hw
        simp only [hq] at e
        exact e

/-- **Rules one after the other** (finding F13): when the first one - e.g. a sequence invoked as a plugin -
returns with the context's query intact, the next one may assume what the first one could, and the pair
guarantees what each does. Needs `w = true`: with the old redirect this is false (`old_redirect_*`). -/
theorem respectsS_seq (f g : St → St × Bool) (hf : RespectsS true f) (hg : RespectsS true g) : RespectsS true (seq f g) := by
  intro names s h
  have h1 := hf names s h
  unfold seq
  simp only
  split
  · exact h1
  · have hk := h1.ctxq rfl
    have hid : (f s).1.c.q.id = s.c.q.id := by
      have := congrArg Prod.fst hk; simpa [key] using this
    have hqq : (f s).1.c.q.question = s.c.q.question := by
      have := congrArg Prod.snd hk; simpa [key] using this
    have hpre : PreS names (f s).1 := by
      refine ⟨by rw [hqq]; exact h.one, ?_⟩
      intro r hr
      obtain ⟨a, b, c⟩ := h1.echo r hr
      exact ⟨by rw [hid]; exact a, b, by rw [hqq]; exact c⟩
    have h2 := hg names _ hpre
    refine ⟨by rw [h2.recv, h1.recv], ?_, fun hp => h2.away (h1.away hp), fun _ => by rw [h2.ctxq rfl, hk]⟩
    intro r hr
    obtain ⟨a, b, c⟩ := h2.echo r hr
    exact ⟨by rw [← hid]; exact a, b, by rw [← hqq]; exact c⟩

/-! ### The handler -/

theorem initial_pre (q : Msg) (x : Question) (hq : q.question = [x]) : PreS [x.name] (initial q) := by
  refine ⟨⟨x, ?_, rfl⟩, ?_⟩
  · simp [initial, newContext, hq]
  · intro r hr; simp [initial, newContext] at hr

/-- **C03 with the context replaced under way.** With SERVFAIL / REFUSED built from the RECEIVED message,
every well-formed query gets a reply with its own ID and question, QR and RA set and the rcode of the path
taken - for every entry that respects the heap invariant, in particular (`runChain_respectsS`) every chain
of redirects and dual-stack selectors. -/
theorem reply_echo_swapped (w : Bool) (entry : St → St × Bool) (hent : RespectsS w entry)
    (truncate : Msg → Nat → Msg) (ht : TruncKeeps truncate) (udp : Bool) (q : Msg) (hv : validQuery q = true) :
    ∃ r, replyS true entry truncate udp q = some r ∧ r.id = q.id ∧ r.question = q.question ∧ r.qr = true ∧ r.ra = true ∧
      ((entry (initial q)).2 = true → r.rcode = 2) ∧
      ((entry (initial q)).2 = false → (entry (initial q)).1.c.resp = none → r.rcode = 5) ∧
      (∀ a, (entry (initial q)).2 = false → (entry (initial q)).1.c.resp = some a → r.rcode = a.rcode) := by
  have hone : ∃ x, q.question = [x] := by
    simp [validQuery] at hv
    match hq : q.question, hv.1.1.2 with
    | [x], _ => exact ⟨x, rfl⟩
  obtain ⟨x, hx⟩ := hone
  have hpost := hent _ _ (initial_pre q x hx)
  have hqid : (initial q).c.q.id = q.id := by simp [initial, newContext]
  have hqq : (initial q).c.q.question = q.question := by simp [initial, newContext]
  have hr0 : (initial q).recv = some (initial q).c.q := by simp [St.recv, St.obj, initial]
  unfold replyS
  simp only [hv, Bool.not_true, Bool.false_eq_true, if_false]
  generalize entry (initial q) = res at hpost ⊢
  obtain ⟨s, failed⟩ := res
  simp only at hpost ⊢
  obtain ⟨f1, f2, f3, f4, f5⟩ := finish_fields truncate ht udp s.c (baseS true s failed)
  refine ⟨_, rfl, ?_⟩
  rw [f1, f2, f3, f4, f5]
  -- the received object after the entry
  have hrecv := hpost.recv
  rw [hr0] at hrecv
  obtain ⟨m, hm, hkm⟩ : ∃ m, s.recv = some m ∧ key m = key (initial q).c.q := by
    cases hs : s.recv with
    | none => rw [hs] at hrecv; simp at hrecv
    | some m => rw [hs] at hrecv; simp at hrecv; exact ⟨m, rfl, hrecv⟩
  have hmid : m.id = q.id := by
    have := congrArg Prod.fst hkm; simp only [key] at this; rw [this, hqid]
  have hmq : m.question = q.question := by
    have := congrArg Prod.snd hkm; simp only [key] at this; rw [this, hqq]
  have hset : (setReply (s.recv.getD s.c.q)).id = q.id ∧ (setReply (s.recv.getD s.c.q)).question = q.question ∧
      (setReply (s.recv.getD s.c.q)).qr = true := by
    rw [hm]
    refine ⟨by simp [setReply, hmid], ?_, rfl⟩
    simp only [Option.getD_some, setReply]
    rw [hmq, hx]; rfl
  cases failed with
  | true =>
    simp only [baseS, if_true]
    refine ⟨hset.1, hset.2.1, hset.2.2, ?_, ?_, ?_, ?_⟩ <;> simp
  | false =>
    cases hresp : s.c.resp with
    | none =>
      simp only [baseS, hresp, Bool.false_eq_true, if_false, if_true]
      refine ⟨hset.1, hset.2.1, hset.2.2, ?_, ?_, ?_, ?_⟩ <;> simp
    | some a =>
      simp only [baseS, hresp, Bool.false_eq_true, if_false]
      obtain ⟨e1, e2, y, n, hy, hn, hrq⟩ := hpost.echo a hresp
      have hq' : a.question = q.question := by
        rw [hqq, hx] at hy
        injection hy with hy
        subst hy
        simp at hn
        rw [hrq, hn, hx]
      refine ⟨by rw [e1, hqid], hq', e2, ?_, ?_, ?_, ?_⟩ <;> simp

/-- the code as regenerated: both synthesised replies are `SetReply(q)` of the received message, redirect
restores through both pointers -/
theorem reply_echo_swapped_as_built (up : Ctx → Ctx × Bool) (hup : UpEcho up) (chain : List Plug) (hok : ∀ p ∈ chain, PlugOk p)
    (truncate : Msg → Nat → Msg) (ht : TruncKeeps truncate) (udp : Bool) (q : Msg) (hv : validQuery q = true) :
    ∃ r, replyS (Gen.Facts.c03ServfailRefusedFromQuery == some true)
        (runChain (Gen.Facts.c03RedirectRestoresCurrentQuery == some true) up chain) truncate udp q = some r ∧
      r.id = q.id ∧ r.question = q.question ∧ r.qr = true ∧ r.ra = true := by
  have hf : (Gen.Facts.c03ServfailRefusedFromQuery == some true) = true := by decide
  rw [hf]
  obtain ⟨r, h1, h2, h3, h4, h5, _⟩ := reply_echo_swapped _ _ (runChain_respectsS _ up hup chain hok) truncate ht udp q hv
  exact ⟨r, h1, h2, h3, h4, h5⟩

/-- **F13, repaired.** A chain that was invoked as a plugin and RETURNED, followed by a rule that answers
locally (`exec: $sub` then `reject n` / hosts / black_hole / arbitrary), followed by whatever respects the
invariant: the reply carries the client's ID and question. -/
theorem reply_echo_returned_chain (up : Ctx → Ctx × Bool) (hup : UpEcho up) (chain : List Plug) (hok : ∀ p ∈ chain, PlugOk p)
    (rc : Nat) (an ns : List RR) (truncate : Msg → Nat → Msg) (ht : TruncKeeps truncate) (udp : Bool) (q : Msg)
    (hv : validQuery q = true) :
    ∃ r, replyS true (seq (runChain true up chain) (localRule rc an ns)) truncate udp q = some r ∧
      r.id = q.id ∧ r.question = q.question ∧ r.qr = true ∧ r.ra = true ∧
      ((runChain true up chain (initial q)).2 = false → r.rcode = rc) := by
  have hresp := respectsS_seq _ _ (runChain_respectsS true up hup chain hok) (respectsS_localRule true rc an ns)
  obtain ⟨r, h1, h2, h3, h4, h5, _, _, h8⟩ := reply_echo_swapped true _ hresp truncate ht udp q hv
  refine ⟨r, h1, h2, h3, h4, h5, ?_⟩
  intro hne
  obtain ⟨m, hm, hrc⟩ : ∃ m, (seq (runChain true up chain) (localRule rc an ns) (initial q)).1.c.resp = some m ∧ m.rcode = rc := by
    obtain ⟨m, hm, _, _, _, hrc, _⟩ := setResponse_fields (runChain true up chain (initial q)).1.c
      { setReply (runChain true up chain (initial q)).1.c.q with rcode := rc, answer := an, ns := ns }
    exact ⟨m, by simp [seq, hne, localRule, localAnswer, hm], hrc⟩
  rw [h8 m (by simp [seq, hne, localRule]) hm, hrc]

/-- the same with the flag read from the regenerated fact -/
theorem reply_echo_returned_chain_as_built (up : Ctx → Ctx × Bool) (hup : UpEcho up) (chain : List Plug) (hok : ∀ p ∈ chain, PlugOk p)
    (rc : Nat) (an ns : List RR) (truncate : Msg → Nat → Msg) (ht : TruncKeeps truncate) (udp : Bool) (q : Msg)
    (hv : validQuery q = true) :
    ∃ r, replyS true (seq (runChain (Gen.Facts.c03RedirectRestoresCurrentQuery == some true) up chain) (localRule rc an ns))
        truncate udp q = some r ∧ r.id = q.id ∧ r.question = q.question ∧ r.qr = true ∧ r.ra = true := by
  have hf : (Gen.Facts.c03RedirectRestoresCurrentQuery == some true) = true := by decide
  rw [hf]
  obtain ⟨r, h1, h2, h3, h4, h5, _⟩ := reply_echo_returned_chain up hup chain hok rc an ns truncate ht udp q hv
  exact ⟨r, h1, h2, h3, h4, h5⟩

/-! ### Witnesses -/

def aliasN : Bytes := [97]
def targetN : Bytes := [116]
/-- AAAA query for a name with a redirect rule; the name has no A record, the upstream fails for AAAA -/
def qSel : Msg := { id := 4242, rd := true, question := [⟨aliasN, 28, 1⟩] }
def upSel (c : Ctx) : Ctx × Bool :=
  match c.q.question with
  | [x] => if x.qtype = 1 then (upstreamAnswer (setReply c.q) c, false) else (c, true)
  | _ => (c, true)
def upSilent (c : Ctx) : Ctx × Bool :=
  match c.q.question with
  | [x] => if x.qtype = 1 then (upstreamAnswer (setReply c.q) c, false) else (c, false)
  | _ => (c, false)
def chainSel : List Plug := [.redirect (fun x => if x.name = aliasN then some targetN else none), .selector 1 false]

/-- redirect -> prefer_ipv4 -> failing / silent upstream, with the redirect as it was: a handler that builds
SERVFAIL / REFUSED from the context's query answers with the redirect TARGET as question name; the handler as
written does not. -/
theorem synth_from_context_is_wrong :
    (replyS false (runChain false upSel chainSel) (fun m _ => m) false qSel).map (fun r => (r.id, r.question, r.rcode)) =
      some (4242, [⟨targetN, 28, 1⟩], 2) ∧
    (replyS false (runChain false upSilent chainSel) (fun m _ => m) false qSel).map (fun r => (r.id, r.question, r.rcode)) =
      some (4242, [⟨targetN, 28, 1⟩], 5) ∧
    (replyS true (runChain false upSel chainSel) (fun m _ => m) false qSel).map (fun r => (r.id, r.question, r.rcode)) =
      some (4242, [⟨aliasN, 28, 1⟩], 2) ∧
    (replyS true (runChain false upSilent chainSel) (fun m _ => m) false qSel).map (fun r => (r.id, r.question, r.rcode)) =
      some (4242, [⟨aliasN, 28, 1⟩], 5) := by decide

/-- **F13, the redirect as it was**: after the chain the received object has the client's name, the context's
query has the redirect target (so `Props.C03.Inv` fails for such a chain and `reply_echo` does not cover it). -/
theorem old_redirect_context_query_not_restored :
    ((runChain false upSel chainSel (initial qSel)).1.c.q.question, (runChain false upSel chainSel (initial qSel)).1.recv.map (·.question)) =
      ([⟨targetN, 28, 1⟩], some [⟨aliasN, 28, 1⟩]) := by decide

/-- **F13, the redirect as it was**: sub = redirect, prefer_ipv4, upstream without AAAA answer, invoked as a
plugin; the caller's next rule is `reject 3`. The reply echoes the redirect TARGET although the handler
synthesises from the received message. (Observed on the code before the repair.) -/
theorem old_redirect_answer_after_returned_chain_echoes_target :
    (replyS true (seq (runChain false upSilent chainSel) (localRule 3 [] [])) (fun m _ => m) false qSel).map
      (fun r => (r.id, r.question, r.rcode)) = some (4242, [⟨targetN, 28, 1⟩], 3) := by decide

/-- the same inputs with the repaired redirect -/
theorem new_redirect_witnesses :
    ((runChain true upSel chainSel (initial qSel)).1.c.q.question, (runChain true upSel chainSel (initial qSel)).1.recv.map (·.question)) =
      ([⟨aliasN, 28, 1⟩], some [⟨aliasN, 28, 1⟩]) ∧
    (replyS true (seq (runChain true upSilent chainSel) (localRule 3 [] [])) (fun m _ => m) false qSel).map
      (fun r => (r.id, r.question, r.rcode)) = some (4242, [⟨aliasN, 28, 1⟩], 3) := by decide

end Props.C03
