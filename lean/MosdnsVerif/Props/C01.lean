import MosdnsVerif.Model.C01
import MosdnsVerif.Model.C01Doq
import MosdnsVerif.Refine.C16
import MosdnsVerif.Lemmas.Stream
import MosdnsVerif.Base.Facts
import MosdnsVerif.Gen.Facts

/-!
# C01 — every upstream exchange returns the reply to its own query
-/
namespace Props.C01
open Model.C01

theorem upd_same (f : Nat → Option Nat) (k : Nat) (v : Option Nat) : upd f k v k = v := by simp [upd]
theorem upd_other (f : Nat → Option Nat) (k x : Nat) (v : Option Nat) (h : x ≠ k) : upd f k v x = f x := by simp [upd, h]

/-- the id handed out by `addQueueC` is not in the waiter table -/
theorem alloc_free (table : Nat → Option Nat) : ∀ (k next qid next' : Nat),
    alloc table k next = (some qid, next') → table qid = none := by
  intro k
  induction k with
  | zero => intro next qid next' h; simp [alloc] at h
  | succ k ih =>
    intro next qid next' h
    simp only [alloc] at h
    split at h
    · exact ih _ _ _ h
    · rename_i hn
      simp only [Prod.mk.injEq, Option.some.injEq] at h
      obtain ⟨rfl, _⟩ := h
      simpa using hn

theorem pipe_init_inv : ({} : Pipe).Inv := by
  constructor <;> simp

theorem pipe_inv_step (tries : Nat) (s s' : Pipe) (l : Label) (hi : s.Inv) (hs : s.step tries l = some s') : s'.Inv := by
  obtain ⟨h1, h2, h3⟩ := hi
  cases l with
  | add =>
    simp only [Pipe.step] at hs
    cases ha : alloc s.table tries s.next with
    | mk r next' =>
      rw [ha] at hs
      cases r with
      | none =>
        simp only [Option.some.injEq] at hs; subst hs
        exact ⟨h1, fun c hc => h2 c (by simp only at hc; omega), h3⟩
      | some qid =>
        simp only [Option.some.injEq] at hs; subst hs
        have hfree := alloc_free s.table tries s.next qid next' ha
        refine ⟨?_, ?_, h3⟩
        · intro w c hw
          simp only at hw ⊢
          by_cases hwq : w = qid
          · subst hwq
            rw [upd_same] at hw
            simp only [Option.some.injEq] at hw; subst hw
            exact ⟨upd_same _ _ _, upd_same _ _ _⟩
          · rw [upd_other _ _ _ _ hwq] at hw
            have := h1 w c hw
            have hc : c ≠ s.nextCaller := by
              intro hcc
              have := h2 c (by omega)
              rw [this] at *
              simp_all
            rw [upd_other _ _ _ _ hwq, upd_other _ _ _ _ hc]
            exact this
        · intro c hc
          simp only at hc ⊢
          rw [upd_other _ _ _ _ (by omega)]
          exact h2 c (by omega)
  | reply w origin =>
    simp only [Pipe.step] at hs
    split at hs
    · rename_i hen
      cases ht : s.table w with
      | none => rw [ht] at hs; simp only [Option.some.injEq] at hs; subst hs; exact ⟨h1, h2, h3⟩
      | some c =>
        rw [ht] at hs; simp only [Option.some.injEq] at hs; subst hs
        refine ⟨?_, h2, ?_⟩
        · intro w' c' hw'
          simp only at hw' ⊢
          by_cases hww : w' = w
          · subst hww; rw [upd_same] at hw'; cases hw'
          · rw [upd_other _ _ _ _ hww] at hw'; exact h1 w' c' hw'
        · intro p hp
          simp only [List.mem_cons] at hp
          rcases hp with rfl | hp
          · -- the delivery: the waiter found under w is the caller the reply was produced for
            simp only [Pipe.replyEnabled, Bool.and_eq_true, beq_iff_eq, Bool.or_eq_true] at hen
            rcases hen.2 with h | h
            · rw [ht] at h; simpa using h
            · have := (h1 w c ht).1
              rw [this] at h; simpa using h
          · exact h3 p hp
    · cases hs
  | leave c =>
    simp only [Pipe.step] at hs
    cases hw : s.widOf c with
    | none => rw [hw] at hs; simp only [Option.some.injEq] at hs; subst hs; exact ⟨h1, h2, h3⟩
    | some w =>
      rw [hw] at hs
      simp only at hs
      split at hs
      · simp only [Option.some.injEq] at hs; subst hs
        refine ⟨?_, h2, h3⟩
        intro w' c' hw'
        simp only at hw' ⊢
        by_cases hww : w' = w
        · subst hww; rw [upd_same] at hw'; cases hw'
        · rw [upd_other _ _ _ _ hww] at hw'; exact h1 w' c' hw'
      · simp only [Option.some.injEq] at hs; subst hs; exact ⟨h1, h2, h3⟩

theorem pipe_inv_run (tries : Nat) (ls : List Label) : ∀ (s s' : Pipe), s.Inv → s.run tries ls = some s' → s'.Inv := by
  induction ls with
  | nil => intro s s' hi hr; simp only [Pipe.run, Option.some.injEq] at hr; subst hr; exact hi
  | cons l ls ih =>
    intro s s' hi hr
    simp only [Pipe.run] at hr
    cases hs : s.step tries l with
    | none => rw [hs] at hr; cases hr
    | some s1 => rw [hs] at hr; exact ih s1 s' (pipe_inv_step tries s s1 l hi hs) hr

/-- **Every reply a caller receives on a pipelined / UDP connection was
produced by the server for that caller's own query** — for every number of
callers, every order, delay and duplication of replies, every cancellation, and
every interleaving of callers and reader. Replies that find no waiter are
released and appear in no delivery. -/
theorem own_reply (tries : Nat) (ls : List Label) (s : Pipe) (hr : ({} : Pipe).run tries ls = some s) :
    ∀ p ∈ s.log, p.1 = p.2 :=
  (pipe_inv_run tries ls _ s pipe_init_inv hr).log

/-- waiting callers never share a wire id -/
theorem waiters_distinct (tries : Nat) (ls : List Label) (s : Pipe) (hr : ({} : Pipe).run tries ls = some s)
    (w1 w2 c : Nat) (h1 : s.table w1 = some c) (h2 : s.table w2 = some c) : w1 = w2 := by
  have hi := pipe_inv_run tries ls _ s pipe_init_inv hr
  have a := (hi.latest w1 c h1).2
  have b := (hi.latest w2 c h2).2
  rw [a] at b; simpa using b

/-- **The caller's 16-bit id is restored**, whatever id was used on the wire. -/
theorem id_restored (q reply : Msg) (wid : Nat) : (restore q { reply with id := (rewrite q wid).id }).id = q.id ∧
    (restore q reply).body = reply.body := by
  simp [restore]

/-! ## why the dup check matters: allocation that does not skip ids in use -/

def allocNoSkip (next : Nat) : Option Nat × Nat := (some next, (next + 1) % idSpace)

/-- with ids handed out blindly, two waiting callers can share wire id 0 after
the counter wraps, and the reply to the first is delivered to the second -/
def badStep (s : Pipe) : Pipe :=
  let c := s.nextCaller
  let qid := s.next
  { s with next := (s.next + 1) % idSpace, nextCaller := c + 1, table := upd s.table qid (some c),
           widOf := upd s.widOf c (some qid), lastUser := upd s.lastUser qid (some c) }

example :
    let s0 : Pipe := badStep {}                          -- caller 0 waits with wire id 0
    let s1 : Pipe := badStep { s0 with next := 0 }       -- ... the counter has wrapped: caller 1 also gets 0
    (s1.table 0, s1.widOf 0) = (some 1, some 0) := by decide

/-! ## non-pipelined reused connection -/

theorem reuse_init_inv : ({} : Reuse).Inv := by
  constructor <;> simp

theorem reuse_inv_step (s s' : Reuse) (l : RLabel) (hi : s.Inv) (hs : s.step l = some s') : s'.Inv := by
  obtain ⟨h1, h2, h3, h4⟩ := hi
  cases l with
  | take =>
    simp only [Reuse.step] at hs
    split at hs
    · rename_i hc
      simp only [Bool.and_eq_true, Bool.not_eq_true'] at hc
      simp only [Option.some.injEq] at hs; subst hs
      have := h2 hc.1
      exact ⟨h1, fun h => by simp at h, fun c _ => ⟨this.1, this.2.1⟩, h4⟩
    · cases hs
  | send =>
    simp only [Reuse.step] at hs
    cases hh : s.holder with
    | none => rw [hh] at hs; cases hs
    | some c =>
      rw [hh] at hs; simp only at hs
      split at hs
      · cases hs
      · simp only [Option.some.injEq] at hs; subst hs
        have hnone := (h3 c hh).2
        refine ⟨fun o ho => by simpa [hnone] using ho, ?_, fun c h => by simp at h, h4⟩
        intro hidle
        have := (h2 hidle).2.2
        rw [hh] at this; cases this
  | reply =>
    simp only [Reuse.step] at hs
    cases ho : s.owed with
    | none => rw [ho] at hs; cases hs
    | some o =>
      rw [ho] at hs; simp only at hs
      split at hs
      · cases hs
      · have hslot := h1 o ho
        rw [hslot] at hs
        simp only [Option.some.injEq] at hs; subst hs
        refine ⟨fun o h => by simp at h, fun _ => ⟨rfl, rfl, ?_⟩, ?_, ?_⟩
        · cases hh : s.holder with
          | none => rfl
          | some c => have := (h3 c hh).1; rw [hslot] at this; cases this
        · intro c hc; exact ⟨rfl, rfl⟩
        · intro p hp
          simp only [List.mem_cons] at hp
          rcases hp with rfl | hp
          · rfl
          · exact h4 p hp
  | surplus =>
    simp only [Reuse.step] at hs
    split at hs
    · cases hs
    · cases hsl : s.slot with
      | some c => rw [hsl] at hs; cases hs
      | none =>
        rw [hsl] at hs; simp only [Option.some.injEq] at hs; subst hs
        refine ⟨?_, fun h => by simp at h, ?_, h4⟩
        · intro o ho
          have := h1 o ho
          rw [hsl] at this; cases this
        · intro c hc
          have := h3 c hc
          exact ⟨rfl, this.2⟩
  | leave => simp only [Reuse.step, Option.some.injEq] at hs; subst hs; exact ⟨h1, h2, h3, h4⟩
  | close =>
    simp only [Reuse.step, Option.some.injEq] at hs; subst hs
    exact ⟨h1, fun h => by simp at h, h3, h4⟩

theorem reuse_inv_run (ls : List RLabel) : ∀ (s s' : Reuse), s.Inv → s.run ls = some s' → s'.Inv := by
  induction ls with
  | nil => intro s s' hi hr; simp only [Reuse.run, Option.some.injEq] at hr; subst hr; exact hi
  | cons l ls ih =>
    intro s s' hi hr
    simp only [Reuse.run] at hr
    cases hs : s.step l with
    | none => rw [hs] at hr; cases hr
    | some s1 => rw [hs] at hr; exact ih s1 s' (reuse_inv_step s s1 l hi hs) hr

/-- **On a non-pipelined reused connection every reply goes to the caller whose
query the server answered**, a connection is handed to the next caller only
when no reply is owed on it, and a reply that finds the connection idle closes it. -/
theorem reuse_own_reply (ls : List RLabel) (s : Reuse) (hr : ({} : Reuse).run ls = some s) :
    (∀ p ∈ s.log, p.1 = p.2) ∧ (s.idle = true → s.owed = none) := by
  have hi := reuse_inv_run ls _ s reuse_init_inv hr
  exact ⟨hi.log, fun h => (hi.idleFree h).2.1⟩

/-- the seeded defect "a cancelled call hands its connection back": leaving
clears the slot and marks the connection idle while a reply is owed; the next
caller then receives the reply owed to the previous one -/
def badLeave (s : Reuse) : Reuse := { s with slot := none, idle := true }
example : (((((({} : Reuse).step .send).map badLeave).bind (·.step .take)).bind (·.step .send)).bind (·.step .reply)).map (·.log)
    = some [(1, 0)] := by decide

/-! ## reply buffers are released to the pool only by their last owner (upstream level: plain UDP with TCP fallback) -/

theorem ev_pool_mono (s : Own) (e : BufEv) (b : Nat) (h : b ∈ s.pool) : b ∈ (s.ev e).pool := by
  cases e <;> simp [Own.ev, h]

theorem ev_deferred_mono (s : Own) (e : BufEv) (b : Nat) (h : b ∈ s.deferred) : b ∈ (s.ev e).deferred := by
  cases e <;> simp [Own.ev, h]

theorem foldl_pool_mono (p : List BufEv) : ∀ (s : Own) (b : Nat), b ∈ s.pool → b ∈ (p.foldl Own.ev s).pool := by
  induction p with
  | nil => intro s b h; exact h
  | cons e p ih => intro s b h; exact ih _ b (ev_pool_mono s e b h)

theorem foldl_deferred_mono (p : List BufEv) : ∀ (s : Own) (b : Nat), b ∈ s.deferred → b ∈ (p.foldl Own.ev s).deferred := by
  induction p with
  | nil => intro s b h; exact h
  | cons e p ih => intro s b h; exact ih _ b (ev_deferred_mono s e b h)

theorem released_in_pool (p : List BufEv) : ∀ (s : Own) (b : Nat), BufEv.release b ∈ p → b ∈ (p.foldl Own.ev s).pool := by
  induction p with
  | nil => intro s b h; cases h
  | cons e p ih =>
    intro s b h
    simp only [List.mem_cons] at h
    rcases h with rfl | h
    · exact foldl_pool_mono p _ b (by simp [Own.ev])
    · exact ih _ b h

theorem deferred_in_deferred (p : List BufEv) : ∀ (s : Own) (b : Nat), BufEv.deferRelease b ∈ p → b ∈ (p.foldl Own.ev s).deferred := by
  induction p with
  | nil => intro s b h; cases h
  | cons e p ih =>
    intro s b h
    simp only [List.mem_cons] at h
    rcases h with rfl | h
    · exact foldl_deferred_mono p _ b (by simp [Own.ev])
    · exact ih _ b h

/-- **A buffer handed to the caller has not been given back to the pool by the function that returns it** —
neither directly nor by a deferred release: on every path that the model calls safe and that ends in
`return v`, no `pool.ReleaseBuf(v)` and no `defer pool.ReleaseBuf(v)` precedes the return. For all paths, of
any length, over any number of buffers. -/
theorem returned_never_released (pre : List BufEv) (v : Nat) (h : (runPath (pre ++ [.ret v])).safe = true) :
    BufEv.release v ∉ pre ∧ BufEv.deferRelease v ∉ pre := by
  simp only [runPath, List.foldl_append, List.foldl_cons, List.foldl_nil, Own.safe, Own.exit, Own.ev,
    Bool.and_eq_true, Bool.not_eq_true', List.contains_eq_mem, List.mem_append, decide_eq_false_iff_not, not_or] at h
  obtain ⟨⟨_, hd, hp⟩, _⟩ := h
  exact ⟨fun hr => hp (released_in_pool pre _ v hr), fun hr => hd (deferred_in_deferred pre _ v hr)⟩

/-- **Every control-flow path of `udpWithFallback.ExchangeContext`, as regenerated from the source, leaves the
pool safe**: the reply it hands to its caller is not in the free list, every other reply buffer it received
went back at most once, and none is read after its release. -/
theorem fallback_buffers_single_owner : pathsSafe Gen.Facts.c01FallbackBufPaths = true := by decide

/-- the seeded defect "the truncated UDP reply is returned when the TCP retry fails, and released by a `defer`":
got r, read r (TC test), defer release r, got tr, tr lost (TCP error), return r — r is in the free list while
its caller holds it -/
example : pathsSafe (some [[(0, 0), (2, 0), (4, 0), (0, 1), (1, 1), (5, 0)]]) = false := by decide
/-- ... whereas returning it without the release, or releasing it and returning the TCP reply, is safe (C17 decides which one is wanted) -/
example : pathsSafe (some [[(0, 0), (2, 0), (0, 1), (1, 1), (5, 0)], [(0, 0), (2, 0), (3, 0), (0, 1), (5, 1)], [(0, 0), (2, 0), (3, 0), (6, 0)]]) = true := by decide
/-- a double release and a read after release are unsafe -/
example : pathsSafe (some [[(0, 0), (3, 0), (4, 0), (6, 0)]]) = false ∧ pathsSafe (some [[(0, 0), (3, 0), (2, 0), (6, 0)]]) = false := by decide

/-! ## DoH: the request a call hands to the transport carries that call's own query -/

theorem doh_init_inv : ({} : Doh).Inv := by
  constructor <;> simp

theorem doh_inv_step (s s' : Doh) (l : DLabel) (hi : s.Inv) (hs : s.step true l = some s') : s'.Inv := by
  obtain ⟨h1, h2⟩ := hi
  cases l with
  | build c =>
    simp only [Doh.step, if_true, Option.some.injEq] at hs; subst hs
    refine ⟨?_, h2⟩
    intro c' o ho
    simp only at ho
    by_cases hc : c' = c
    · subst hc; rw [upd_same] at ho; simpa using ho.symm
    · rw [upd_other _ _ _ _ hc] at ho; exact h1 c' o ho
  | serve c =>
    simp only [Doh.step, if_true] at hs
    split at hs
    · cases ho : s.own c with
      | none => rw [ho] at hs; cases hs
      | some o =>
        rw [ho] at hs; simp only [Option.some.injEq] at hs; subst hs
        refine ⟨h1, ?_⟩
        intro p hp
        simp only [List.mem_cons] at hp
        rcases hp with rfl | hp
        · exact (h1 c o ho).symm
        · exact h2 p hp
    · cases hs

theorem doh_inv_run (ls : List DLabel) : ∀ (s s' : Doh), s.Inv → s.run true ls = some s' → s'.Inv := by
  induction ls with
  | nil => intro s s' hi hr; simp only [Doh.run, Option.some.injEq] at hr; subst hr; exact hi
  | cons l ls ih =>
    intro s s' hi hr
    simp only [Doh.run] at hr
    cases hs : s.step true l with
    | none => rw [hs] at hr; cases hr
    | some s1 => rw [hs] at hr; exact ih s1 s' (doh_inv_step s s1 l hi hs) hr

/-- **DoH: every request is answered for the query of the call it belongs to**, for any number of concurrent
calls and whenever the transport gets round to serialising each request (any interleaving of `build` and
`serve` steps) - provided each call writes its query string into a URL of its own. -/
theorem doh_own_reply (ls : List DLabel) (s : Doh) (hr : ({} : Doh).run true ls = some s) : ∀ p ∈ s.log, p.1 = p.2 :=
  (doh_inv_run ls _ s doh_init_inv hr).log

/-- ... which is what the code does (regenerated fact): the statement above holds for the DoH upstream as the
source has it now. -/
theorem doh_own_reply_gen (ls : List DLabel) (s : Doh)
    (hr : ({} : Doh).run (Gen.Facts.c01DohRequestPerCall == some true) ls = some s) : ∀ p ∈ s.log, p.1 = p.2 := by
  have h : (Gen.Facts.c01DohRequestPerCall == some true) = true := by decide
  rw [h] at hr
  exact doh_own_reply ls s hr

/-- the seeded defect "the per-call copy of the URL is dropped": two calls build their requests, then the
transport serialises the first one: it carries the second call's query, and call 0 is handed the answer to it -/
example : ((({} : Doh).run false [.build 0, .build 1, .serve 0]).map (·.log)) = some [(0, 1)] := by decide

/-! ## DoQ: the reply read from the query's stream is the server's reply, however it is cut into pieces -/

theorem announced_hdr' (n : Nat) (h : n ≤ 65535) : Model.C16.announced (Model.C16.hdr n) = n := by
  unfold Model.C16.announced Model.C16.hdr
  simp
  omega

/-- the framing model reads a whole frame from any chunking of it (the C16 round trip, restated here so that
this file depends on the framing model and its refinement lemma only) -/
theorem readRaw_whole (m rest : Bytes) (cs : Go.Stream) (h13 : 13 ≤ m.length) (hmax : m.length ≤ 65535)
    (hcs : cs.flatten = Model.C16.hdr m.length ++ m ++ rest) :
    ∃ cs', Model.C16.readRaw cs = .ok (m, cs') ∧ cs'.flatten = rest := by
  unfold Model.C16.readRaw Go.readFull
  obtain ⟨c1, h1, h1f⟩ := Lemmas.Stream.readFullAux_spec cs 2 [] (Model.C16.hdr m.length) (m ++ rest) (by simpa using hcs) (by simp [Model.C16.hdr])
  simp only [List.nil_append] at h1
  rw [h1]
  simp only [announced_hdr' m.length hmax]
  have : ¬ m.length < 12 := by omega
  simp only [this, if_false]
  obtain ⟨c2, h2, h2f⟩ := Lemmas.Stream.readFullAux_spec c1 m.length [] m rest h1f rfl
  simp only [List.nil_append] at h2
  exact ⟨c2, h2, h2f⟩

/-- **DoQ: whatever pieces the reply arrives in, the caller gets exactly the bytes the server sent on its
query's stream, with its own id in front** (the reader is the regenerated `ReadRawMsgFromTCP`; every chunking
of the stream, including one-byte reads and a split header). -/
theorem doq_own_reply (reply rest : Bytes) (cs : Go.Stream) (hi lo : UInt8) (h13 : 13 ≤ reply.length)
    (hmax : reply.length ≤ 65535) (hcs : cs.flatten = Model.C16.hdr reply.length ++ reply ++ rest) :
    doqReturn hi lo cs = .ok (hi :: lo :: reply.drop 2) := by
  obtain ⟨cs', h, _⟩ := readRaw_whole reply rest cs h13 hmax hcs
  simp only [doqReturn, Refine.C16.readRawMsgFromTCP_eq, h]

/-- a reader that takes the body from a single `Read` (the seeded defect) returns, for a reply that arrives in
two pieces, the first piece completed with what the pooled buffer held before: the tail of an earlier reply -/
example :
    (readOnce [0, 0, 2, 2, 2, 2, 2, 2, 2, 2, 2, 2, 2, 2]
      [[0, 14], [0, 0, 1, 1, 1, 1, 1, 1, 1], [1, 1, 1, 1, 1]]).toOption = some [0, 0, 1, 1, 1, 1, 1, 1, 1, 2, 2, 2, 2, 2] ∧
    (doqReturn 0 0 [[0, 14], [0, 0, 1, 1, 1, 1, 1, 1, 1], [1, 1, 1, 1, 1]]).toOption = some [0, 0, 1, 1, 1, 1, 1, 1, 1, 1, 1, 1, 1, 1] := by decide

/-! ## the byte pool: a buffer has one holder at a time -/

theorem pool_step_clash (s s' : BufPool) (l : PLabel) (hs : s.step true l = some s') : s'.clash = s.clash := by
  cases l with
  | get g b =>
    simp only [BufPool.step, Bool.true_and] at hs
    split at hs
    · simp only [Option.some.injEq] at hs; subst hs; rfl
    · cases hs
  | look g b => simp [BufPool.step] at hs
  | take g => simp [BufPool.step] at hs
  | release g b =>
    simp only [BufPool.step] at hs
    split at hs
    · simp only [Option.some.injEq] at hs; subst hs; rfl
    · cases hs

/-- a buffer that `GetBuf` returns was held by nobody at that moment, and it is its taker's until the taker
releases it: no later `get` of another goroutine is enabled on it -/
theorem pool_get_excludes (s s' : BufPool) (g b : Nat) (hs : s.step true (.get g b) = some s') :
    s.holder b = none ∧ s'.holder b = some g ∧ ∀ g', s'.step true (.get g' b) = none := by
  simp only [BufPool.step, Bool.true_and] at hs
  split at hs
  · rename_i hn
    simp only [Option.some.injEq] at hs; subst hs
    refine ⟨by simpa using hn, upd_same _ _ _, ?_⟩
    intro g'
    simp [BufPool.step, upd_same]
  · cases hs

/-- **With `GetBuf` being the free list's own `Get`, no buffer is ever given to a second goroutine while the
first still holds it** - for any number of goroutines and buffers and every interleaving of their gets and
releases. -/
theorem pool_single_owner (ls : List PLabel) : ∀ (s s' : BufPool), s.run true ls = some s' → s'.clash = s.clash := by
  induction ls with
  | nil => intro s s' hr; simp only [BufPool.run, Option.some.injEq] at hr; subst hr; rfl
  | cons l ls ih =>
    intro s s' hr
    simp only [BufPool.run] at hr
    cases hs : s.step true l with
    | none => rw [hs] at hr; cases hr
    | some s1 => rw [hs] at hr; rw [ih s1 s' hr, pool_step_clash s s1 l hs]

/-- ... which is what pkg/pool/allocator.go has (regenerated fact) -/
theorem pool_single_owner_gen (ls : List PLabel) (s : BufPool)
    (hr : ({} : BufPool).run (Gen.Facts.c01PoolGetIsFreeListGet == some true) ls = some s) : s.clash = [] := by
  have h : (Gen.Facts.c01PoolGetIsFreeListGet == some true) = true := by decide
  rw [h] at hr
  exact pool_single_owner ls _ s hr

/-- the seeded defect "a spare buffer in a slot that GetBuf reads and clears in two instructions": goroutine 0
releases buffer 7, goroutines 1 and 2 both find it free, both take it: 2 is given a buffer that 1 holds -/
example : ((({} : BufPool).run false [.look 0 7, .take 0, .release 0 7, .look 1 7, .look 2 7, .take 1, .take 2]).map (·.clash)) =
    some [(7, 1, 2)] := by decide
/-- non-vacuity of the one-step pool: buffers go round among goroutines -/
example : ((({} : BufPool).run true [.get 0 7, .release 0 7, .get 1 7, .get 2 8, .release 1 7, .get 2 7]).map (fun s => (s.holder 7, s.holder 8, s.clash))) =
    some (some 2, some 2, []) := by decide
example : (({} : BufPool).run true [.get 0 7, .get 1 7]).isNone = true := by decide

/-! ## tie to the source: regenerated facts -/

theorem facts_guard :
    Gen.Facts.c01AllocSkipsIdsInUse = some true ∧ Gen.Facts.c01AllocTries = some 100 ∧ Gen.Facts.c01NextQidIs16Bit = some true ∧
    Gen.Facts.c01ReaderDispatchesByWireId = some true ∧ Gen.Facts.c01PopRemovesEntry = some true ∧
    Gen.Facts.c01DeleteOnlyOwnEntry = some true ∧ Gen.Facts.c01WireIdWrittenIntoCopy = some true ∧
    Gen.Facts.c01CallerIdRestored = some true ∧ Gen.Facts.c01DohIdZeroedAndRestored = some true ∧
    Gen.Facts.c01DohRequestPerCall = some true ∧
    Gen.Facts.c01DoqIdZeroedAndRestored = some true ∧ Gen.Facts.c01ReuseLeaveKeepsSlot = some true ∧
    Gen.Facts.c01ReuseOneWaiter = some true ∧ Gen.Facts.c01ReuseReaderDispatch = some true ∧
    Gen.Facts.c01ReuseSetIdleCallSites = some 2 ∧ Gen.Facts.c01ReuseTakeRemovesFromIdle = some true ∧
    Gen.Facts.c01FallbackBufPaths.isSome = true ∧ Gen.Facts.c01PoolGetIsFreeListGet = some true := by decide

/-! ## non-vacuity -/

example : ((({} : Pipe).run 100 [.add, .add, .reply 1 1, .reply 1 1, .leave 0, .reply 0 0, .add]).map (fun s => (s.log, s.table 2))) =
    some ([(1, 1)], some 2) := by decide
example : ((({} : Reuse).run [.send, .leave, .reply, .take, .send, .reply]).map (·.log)) = some [(1, 1), (0, 0)] := by decide

end Props.C01
