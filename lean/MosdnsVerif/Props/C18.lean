import MosdnsVerif.Refine.C18
import MosdnsVerif.Gen.Facts

/-!
# C18 — upstreams connect to exactly the address the user configured

`Gen.tryTrimIpv6Brackets` is regenerated from `pkg/upstream/utils.go`; the
per-scheme default ports are regenerated facts. `net.SplitHostPort` enters as a
function `split` satisfying `SplitContract` (its behaviour on the address
forms of the property's grammar; the correspondence checks the real library
and the executable model against the same contract), the port parser as an
arbitrary function.
-/
namespace Props.C18
open Model.C18

def NoSpecial (s : Bytes) : Prop := colon ∉ s ∧ lbr ∉ s ∧ rbr ∉ s
def NoBracket (s : Bytes) : Prop := lbr ∉ s ∧ rbr ∉ s

/-- Behaviour of `net.SplitHostPort` on the address forms of the grammar. -/
structure SplitContract (split : Bytes → Option (Bytes × Bytes)) : Prop where
  plain : ∀ h p, NoSpecial h → NoSpecial p → split (h ++ colon :: p) = some (h, p)
  bracketed : ∀ v p, NoBracket v → NoSpecial p → split (lbr :: v ++ rbr :: colon :: p) = some (v, p)
  noColon : ∀ s, colon ∉ s → split s = none
  bareV6 : ∀ s, NoBracket s → 2 ≤ s.count colon → split s = none
  bracketNoPort : ∀ v, NoBracket v → split (lbr :: v ++ [rbr]) = none

/-- The host and port `NewUpstream` dials: `parseDialAddr` applied to the
bracket-trimmed URL host (fact `hostIsTrimmedUrlHost`). -/
def target (split : Bytes → Option (Bytes × Bytes)) (parse : Bytes → Option UInt16)
    (urlHost dialAddr : Bytes) (defaultPort : UInt16) : Except Unit (Bytes × UInt16) :=
  parseDialAddr split parse (Gen.tryTrimIpv6Brackets urlHost) dialAddr defaultPort

/-- The default TLS server name: `tryRemovePort` of the trimmed URL host. -/
def serverName (split : Bytes → Option (Bytes × Bytes)) (urlHost : Bytes) : Bytes :=
  tryRemovePort split (Gen.tryTrimIpv6Brackets urlHost)

theorem hostIsTrimmed_guard : Gen.Facts.hostIsTrimmedUrlHost = some true := rfl
theorem ports_guard : Gen.Facts.portUdp = some 53 ∧ Gen.Facts.portTcp = some 53 ∧
    Gen.Facts.portTls = some 853 ∧ Gen.Facts.portHttps = some 443 ∧ Gen.Facts.portQuic = some 853 :=
  ⟨rfl, rfl, rfl, rfl, rfl⟩

/-- **Bracket trimming.** `[h]` becomes exactly `h` (for every `h`, also the
empty one); a string that does not start with `[` or does not end with `]`
is returned unchanged. -/
theorem trim_brackets (h : Bytes) : Gen.tryTrimIpv6Brackets (lbr :: h ++ [rbr]) = h := by
  unfold Gen.tryTrimIpv6Brackets Go.idx Go.slice
  have hl : ((lbr :: h ++ [rbr]).length : Int) = (h.length : Int) + 2 := by simp; omega
  rw [hl]
  have h1 : ¬ ((h.length : Int) + 2 < 2) := by omega
  have h2 : ((h.length : Int) + 2 - 1).toNat = h.length + 1 := by omega
  have h3 : (lbr :: h ++ [rbr]).getD (h.length + 1) 0 = rbr := by
    simp [List.getD_eq_getElem?_getD]
  simp only [h1, h2, h3, decide_false, Bool.false_eq_true, if_false]
  simp

theorem trim_identity (s : Bytes) (h : s.head? ≠ some lbr ∨ s.getLast? ≠ some rbr) :
    Gen.tryTrimIpv6Brackets s = s := by
  unfold Gen.tryTrimIpv6Brackets Go.idx
  by_cases hlen : ((s.length : Int) < 2)
  · simp [hlen]
  · simp only [hlen, decide_false, Bool.false_eq_true, if_false]
    have hne : s ≠ [] := by intro h0; subst h0; simp at hlen
    have hfirst : s.getD (0 : Int).toNat 0 = s.head?.getD 0 := by
      cases s with
      | nil => contradiction
      | cons a t => simp
    have hlast : s.getD ((s.length : Int) - 1).toNat 0 = s.getLast?.getD 0 := by
      have : ((s.length : Int) - 1).toNat = s.length - 1 := by omega
      rw [this, List.getLast?_eq_getElem?]
      simp [List.getD_eq_getElem?_getD]
    rw [hfirst, hlast]
    rcases h with h | h
    · have : (s.head?.getD 0 == (91 : UInt8)) = false := by
        cases hh : s.head? with
        | none => cases s with
          | nil => contradiction
          | cons a t => simp at hh
        | some a =>
          simp only [Option.getD_some, beq_eq_false_iff_ne, ne_eq]
          intro ha; apply h; rw [hh, ha]
      simp [this]
    · have : (s.getLast?.getD 0 == (93 : UInt8)) = false := by
        cases hh : s.getLast? with
        | none => exact absurd (List.getLast?_eq_none_iff.mp hh) hne
        | some a =>
          simp only [Option.getD_some, beq_eq_false_iff_ne, ne_eq]
          intro ha; apply h; rw [hh, ha]
      simp [this]

theorem noSpecial_trim (h : Bytes) (hs : lbr ∉ h) : Gen.tryTrimIpv6Brackets h = h := by
  apply trim_identity
  left
  cases h with
  | nil => simp
  | cons a t =>
    simp only [List.head?_cons, ne_eq, Option.some.injEq]
    intro ha; apply hs; simp [ha]

variable {split : Bytes → Option (Bytes × Bytes)} (parse : Bytes → Option UInt16)

/-- the address `parseDialAddr` works on -/
def addrOf (u a : Bytes) : Bytes := if a.length > 0 then a else u

theorem addrOf_nil (u : Bytes) : addrOf u [] = u := by simp [addrOf]
theorem addrOf_ne (u a : Bytes) (h : a ≠ []) : addrOf u a = a := by
  have : a.length > 0 := List.length_pos_iff.mpr h
  simp [addrOf, this]

theorem pda_some (u a h p : Bytes) (n d : UInt16) (hs : split (addrOf u a) = some (h, p))
    (hn : parse p = some n) (hz : n ≠ 0) : parseDialAddr split parse u a d = .ok (h, n) := by
  unfold parseDialAddr trySplitHostPort
  show (match (match split (addrOf u a) with
      | some (h, p) => (match parse p with | some n => Except.ok (h, n) | none => Except.error ())
      | none => Except.ok (addrOf u a, 0)) with
    | Except.error e => Except.error e
    | Except.ok (h, p) => Except.ok (h, if p = 0 then d else p)) = _
  rw [hs]; simp [hn, hz]

theorem pda_reject (u a h p : Bytes) (d : UInt16) (hs : split (addrOf u a) = some (h, p))
    (hn : parse p = none) : parseDialAddr split parse u a d = .error () := by
  unfold parseDialAddr trySplitHostPort
  show (match (match split (addrOf u a) with
      | some (h, p) => (match parse p with | some n => Except.ok (h, n) | none => Except.error ())
      | none => Except.ok (addrOf u a, 0)) with
    | Except.error e => Except.error e
    | Except.ok (h, p) => Except.ok (h, if p = 0 then d else p)) = _
  rw [hs]; simp [hn]

theorem pda_none (u a : Bytes) (d : UInt16) (hs : split (addrOf u a) = none) :
    parseDialAddr split parse u a d = .ok (addrOf u a, d) := by
  unfold parseDialAddr trySplitHostPort
  show (match (match split (addrOf u a) with
      | some (h, p) => (match parse p with | some n => Except.ok (h, n) | none => Except.error ())
      | none => Except.ok (addrOf u a, 0)) with
    | Except.error e => Except.error e
    | Except.ok (h, p) => Except.ok (h, if p = 0 then d else p)) = _
  rw [hs]; simp

theorem trim_bracketed_port (v p : Bytes) (hp : NoSpecial p) (hpne : p ≠ []) :
    Gen.tryTrimIpv6Brackets (lbr :: v ++ rbr :: colon :: p) = lbr :: v ++ rbr :: colon :: p := by
  apply trim_identity
  right
  have : (lbr :: v ++ rbr :: colon :: p).getLast? = p.getLast? := by
    have : lbr :: v ++ rbr :: colon :: p = (lbr :: v ++ [rbr, colon]) ++ p := by simp
    rw [this, List.getLast?_append]
    cases hl : p.getLast? with
    | none => exact absurd (List.getLast?_eq_none_iff.mp hl) hpne
    | some a => simp
  rw [this]
  intro hl
  exact hp.2.2 (List.mem_of_getLast? hl)

theorem trim_plain_port (h p : Bytes) (hh : NoSpecial h) (hp : NoSpecial p) :
    Gen.tryTrimIpv6Brackets (h ++ colon :: p) = h ++ colon :: p := by
  apply noSpecial_trim
  simp only [List.mem_append, List.mem_cons, not_or]
  exact ⟨hh.2.1, by decide, hp.2.1⟩

/-- **Hostname or IPv4 without port**: dials exactly that host on the scheme's default port. -/
theorem plain_no_port (C : SplitContract split) (h : Bytes) (hh : NoSpecial h) (d : UInt16) :
    target split parse h [] d = .ok (h, d) := by
  unfold target
  rw [noSpecial_trim h hh.2.1, pda_none parse _ _ _ (by rw [addrOf_nil]; exact C.noColon h hh.1), addrOf_nil]

/-- **Hostname or IPv4 with port** `h:p` where `p` parses to a non-zero `n`:
dials exactly host `h`, port `n`. If `p` does not parse (not a decimal number
or above 65535) the address is rejected, never altered. -/
theorem plain_with_port (C : SplitContract split) (h p : Bytes) (hh : NoSpecial h) (hp : NoSpecial p) (d : UInt16) :
    (∀ n, parse p = some n → n ≠ 0 → target split parse (h ++ colon :: p) [] d = .ok (h, n)) ∧
    (parse p = none → target split parse (h ++ colon :: p) [] d = .error ()) := by
  unfold target
  rw [trim_plain_port h p hh hp]
  have hs : split (addrOf (h ++ colon :: p) []) = some (h, p) := by rw [addrOf_nil]; exact C.plain h p hh hp
  exact ⟨fun n hn hz => pda_some parse _ _ _ _ n d hs hn hz, fun hn => pda_reject parse _ _ _ _ d hs hn⟩

/-- **Bracketed IPv6 without port** `[v]`: dials exactly `v` (all of it - the
defect fixed by 4eff6fb lost its last character) on the default port. -/
theorem bracketed_no_port (C : SplitContract split) (v : Bytes) (hv : NoBracket v) (h2 : 2 ≤ v.count colon) (d : UInt16) :
    target split parse (lbr :: v ++ [rbr]) [] d = .ok (v, d) := by
  unfold target
  rw [trim_brackets v, pda_none parse _ _ _ (by rw [addrOf_nil]; exact C.bareV6 v hv h2), addrOf_nil]

/-- **Bracketed IPv6 with port** `[v]:p`. -/
theorem bracketed_with_port (C : SplitContract split) (v p : Bytes) (hv : NoBracket v) (hp : NoSpecial p)
    (hpne : p ≠ []) (d n : UInt16) (hn : parse p = some n) (hz : n ≠ 0) :
    target split parse (lbr :: v ++ rbr :: colon :: p) [] d = .ok (v, n) := by
  unfold target
  rw [trim_bracketed_port v p hp hpne]
  exact pda_some parse _ _ _ _ n d (by rw [addrOf_nil]; exact C.bracketed v p hv hp) hn hz

/-- **Bare IPv6** (at least two colons, no brackets): dials exactly it on the default port. -/
theorem bare_v6 (C : SplitContract split) (v : Bytes) (hv : NoBracket v) (h2 : 2 ≤ v.count colon) (d : UInt16) :
    target split parse v [] d = .ok (v, d) := by
  unfold target
  rw [noSpecial_trim v hv.1, pda_none parse _ _ _ (by rw [addrOf_nil]; exact C.bareV6 v hv h2), addrOf_nil]

/-- **dial_addr overrides the URL host** (whatever the URL host is), for the
forms IP or host, bare IPv6, IP:port / host:port, [IPv6]:port. -/
theorem dial_addr_forms (C : SplitContract split) (u : Bytes) (d : UInt16) :
    (∀ h, h ≠ [] → NoSpecial h → target split parse u h d = .ok (h, d)) ∧
    (∀ v, NoBracket v → 2 ≤ v.count colon → target split parse u v d = .ok (v, d)) ∧
    (∀ h p n, NoSpecial h → NoSpecial p → parse p = some n → n ≠ 0 →
      target split parse u (h ++ colon :: p) d = .ok (h, n)) ∧
    (∀ v p n, NoBracket v → NoSpecial p → parse p = some n → n ≠ 0 →
      target split parse u (lbr :: v ++ rbr :: colon :: p) d = .ok (v, n)) := by
  unfold target
  refine ⟨?_, ?_, ?_, ?_⟩
  · intro h hne hh
    have e := addrOf_ne (Gen.tryTrimIpv6Brackets u) h hne
    rw [pda_none parse _ _ _ (by rw [e]; exact C.noColon h hh.1), e]
  · intro v hv h2
    have hne : v ≠ [] := by intro h0; subst h0; simp at h2
    have e := addrOf_ne (Gen.tryTrimIpv6Brackets u) v hne
    rw [pda_none parse _ _ _ (by rw [e]; exact C.bareV6 v hv h2), e]
  · intro h p n hh hp hn hz
    have e := addrOf_ne (Gen.tryTrimIpv6Brackets u) (h ++ colon :: p) (by simp)
    exact pda_some parse _ _ _ _ n d (by rw [e]; exact C.plain h p hh hp) hn hz
  · intro v p n hv hp hn hz
    have e := addrOf_ne (Gen.tryTrimIpv6Brackets u) (lbr :: v ++ rbr :: colon :: p) (by simp)
    exact pda_some parse _ _ _ _ n d (by rw [e]; exact C.bracketed v p hv hp) hn hz

/-- **TLS server name defaults to the URL host** (without port, without brackets). -/
theorem sni_default (C : SplitContract split) :
    (∀ h, NoSpecial h → serverName split h = h) ∧
    (∀ h p, NoSpecial h → NoSpecial p → serverName split (h ++ colon :: p) = h) ∧
    (∀ v, NoBracket v → 2 ≤ v.count colon → serverName split (lbr :: v ++ [rbr]) = v) ∧
    (∀ v p, NoBracket v → NoSpecial p → p ≠ [] → serverName split (lbr :: v ++ rbr :: colon :: p) = v) := by
  refine ⟨?_, ?_, ?_, ?_⟩
  · intro h hh
    unfold serverName tryRemovePort
    rw [noSpecial_trim h hh.2.1]
    simp [C.noColon h hh.1]
  · intro h p hh hp
    unfold serverName tryRemovePort
    rw [trim_plain_port h p hh hp, C.plain h p hh hp]
  · intro v hv h2
    unfold serverName tryRemovePort
    rw [trim_brackets v]
    simp [C.bareV6 v hv h2]
  · intro v p hv hp hpne
    unfold serverName tryRemovePort
    rw [trim_bracketed_port v p hp hpne, C.bracketed v p hv hp]

/-! ## Several bootstrapped upstreams in one process

Every upstream resolves its own host name and dials the answer on its own
port, whatever other upstreams (same name, other ports, other schemes) were
created before or after it in the same process. -/

/-- facts the bootstrap part of the model is read from -/
def bootPerCall : Bool := Gen.Facts.c18BootNewPerCall == some true
def bootOwnPort : Bool := Gen.Facts.c18BootAddrOwnPort == some true

theorem boot_guard : Gen.Facts.c18BootNewPerCall = some true ∧ Gen.Facts.c18BootAddrOwnPort = some true ∧
    Gen.Facts.c18BootCallsPassTarget = some true := ⟨rfl, rfl, rfl⟩

theorem createAll_perCall (other : List Boot → Bytes → UInt16 → Boot) (reg : List Boot)
    (cfgs : List (Bytes × UInt16)) :
    createAll true other reg cfgs = cfgs.map (fun c => { fqdn := fqdn c.1, port := c.2 }) := by
  induction cfgs generalizing reg with
  | nil => rfl
  | cons c rest ih =>
    obtain ⟨h, p⟩ := c
    simp [createAll, bootNew, ih]

/-- **Independence.** With per-call Bootstraps, upstream number `i` of a
process asks for its own name and uses its own port - for every history of
other upstreams, every earlier registry and whatever the unknown parts are. -/
theorem boot_independent (other : List Boot → Bytes → UInt16 → Boot) (otherPort : Boot → UInt16)
    (reg : List Boot) (cfgs : List (Bytes × UInt16)) (i : Nat) (c : Bytes × UInt16)
    (hc : cfgs[i]? = some c) :
    ((createAll true other reg cfgs)[i]?).map (bootDial true otherPort) = some (fqdn c.1, c.2) := by
  rw [createAll_perCall]
  simp [List.getElem?_map, hc, bootDial]

/-- **Bootstrapped `host:port`.** An upstream written `h:p` (host name `h`,
`p` parsing to a non-zero `n`), created in one process after any upstreams
`before` and followed by any upstreams `after`, asks the bootstrap server for
`h.` and dials the answer on port `n`: never the port of another upstream. The
model's `bootNew`/`bootDial` are instantiated with the regenerated facts. -/
theorem bootstrapped_host_port (C : SplitContract split) (h p : Bytes) (hh : NoSpecial h) (hp : NoSpecial p)
    (n d : UInt16) (hn : parse p = some n) (hz : n ≠ 0)
    (other : List Boot → Bytes → UInt16 → Boot) (otherPort : Boot → UInt16) (reg : List Boot)
    (before after : List (Bytes × UInt16)) :
    ∃ t, target split parse (h ++ colon :: p) [] d = .ok t ∧
      ((createAll bootPerCall other reg (before ++ t :: after))[before.length]?).map (bootDial bootOwnPort otherPort)
        = some (fqdn h, n) := by
  refine ⟨(h, n), ((plain_with_port parse C h p hh hp d).1 n hn hz), ?_⟩
  have e1 : bootPerCall = true := rfl
  have e2 : bootOwnPort = true := rfl
  rw [e1, e2]
  exact boot_independent other otherPort reg _ _ (h, n) (by simp)

/-- **Bootstrapped host without port / with `dial_addr` `h:p`**: same statement
for the scheme default port and for a dial_addr override. -/
theorem bootstrapped_default_and_dial_addr (C : SplitContract split) (h : Bytes) (hh : NoSpecial h) (d : UInt16)
    (other : List Boot → Bytes → UInt16 → Boot) (otherPort : Boot → UInt16) (reg : List Boot)
    (before after : List (Bytes × UInt16)) :
    (∃ t, target split parse h [] d = .ok t ∧
      ((createAll bootPerCall other reg (before ++ t :: after))[before.length]?).map (bootDial bootOwnPort otherPort)
        = some (fqdn h, d)) ∧
    (∀ u p n, NoSpecial p → parse p = some n → n ≠ 0 →
      ∃ t, target split parse u (h ++ colon :: p) d = .ok t ∧
      ((createAll bootPerCall other reg (before ++ t :: after))[before.length]?).map (bootDial bootOwnPort otherPort)
        = some (fqdn h, n)) := by
  have e1 : bootPerCall = true := rfl
  have e2 : bootOwnPort = true := rfl
  rw [e1, e2]
  refine ⟨⟨(h, d), plain_no_port parse C h hh d, ?_⟩, ?_⟩
  · exact boot_independent other otherPort reg _ _ (h, d) (by simp)
  · intro u p n hp hn hz
    exact ⟨(h, n), (dial_addr_forms parse C u d).2.2.1 h p n hh hp hn hz,
      boot_independent other otherPort reg _ _ (h, n) (by simp)⟩

/-- Non-vacuity of the hypothesis: when `bootstrap.New` may hand out a
Bootstrap made earlier for the same name, the statement is false - the second
of two upstreams on one name gets the first one's port. -/
example :
    let shared : List Boot → Bytes → UInt16 → Boot := fun reg h p =>
      match reg.find? (fun b => b.fqdn == fqdn h) with
      | some b => b
      | none => { fqdn := fqdn h, port := p }
    (createAll false shared [] [([100, 110, 115], 853), ([100, 110, 115], 443)]).map (bootDial true (fun _ => 0))
      = [([100, 110, 115, 46], 853), ([100, 110, 115, 46], 853)] := by decide

/-! ## DoH / HTTP3: server name and request authority

For `https` / `h3` the TLS server name is what Go's HTTP clients derive from
the endpoint URL (`URL.Hostname()`, model `urlHostname`), and the requests carry
the endpoint URL's host. Given the two regenerated facts (the endpoint is the
string of the URL as the user wrote it; the DoH upstream sends its requests to
that URL; an IPv6 literal written without brackets gets them back first) the
server name is the URL host for every form of the grammar: host name / IPv4 /
bracketed IPv6 with or without port, and bare IPv6. -/

/-- facts the DoH part of the model is read from -/
def dohKeeps : Bool :=
  Gen.Facts.c18DohEndpointIsAddrUrl == some true && Gen.Facts.c18DohRequestKeepsEndpointHost == some true
def dohRestores : Bool := Gen.Facts.c18DohRestoresV6Brackets == some true

theorem doh_guard : Gen.Facts.c18DohEndpointIsAddrUrl = some true ∧
    Gen.Facts.c18DohRequestKeepsEndpointHost = some true ∧
    Gen.Facts.c18DohRestoresV6Brackets = some true := ⟨rfl, rfl, rfl⟩

/-- What the theorems assume of `netip.ParseAddr(s)` succeeding with an IPv6
address: such a string has at least two colons and does not start with a
bracket (a zone, `::1%x`, may contain anything; the correspondence checks both
clauses on the real library). -/
structure V6Contract (isV6 : Bytes → Bool) : Prop where
  twoColons : ∀ s, s.count colon < 2 → isV6 s = false
  startsBracket : ∀ s, isV6 (lbr :: s) = false

theorem splitLastColon_none (s : Bytes) (h : colon ∉ s) : splitLastColon s = none := by
  induction s with
  | nil => rfl
  | cons c t ih =>
    have hc : c ≠ colon := fun e => h (by simp [e])
    have ht : colon ∉ t := fun m => h (List.mem_cons_of_mem _ m)
    simp [splitLastColon, ih ht, hc]

theorem splitLastColon_append (h p : Bytes) (hp : colon ∉ p) :
    splitLastColon (h ++ colon :: p) = some (h, colon :: p) := by
  induction h with
  | nil => simp [splitLastColon, splitLastColon_none p hp]
  | cons c t ih => simp [splitLastColon, ih]

/-- what `splitLastColon` returns is a decomposition at a colon -/
theorem splitLastColon_some (s a b : Bytes) (h : splitLastColon s = some (a, b)) :
    s = a ++ b ∧ ∃ b', b = colon :: b' := by
  induction s generalizing a with
  | nil => simp [splitLastColon] at h
  | cons c t ih =>
    unfold splitLastColon at h
    cases ht : splitLastColon t with
    | some ab =>
      obtain ⟨a', b''⟩ := ab
      rw [ht] at h
      simp only [Option.some.injEq, Prod.mk.injEq] at h
      obtain ⟨ha, hb⟩ := h
      subst ha; subst hb
      obtain ⟨e, w⟩ := ih a' ht
      exact ⟨by simp [← e], w⟩
    | none =>
      rw [ht] at h
      by_cases hc : c = colon
      · simp only [hc, if_true, Option.some.injEq, Prod.mk.injEq] at h
        obtain ⟨ha, hb⟩ := h
        subst ha; subst hb
        exact ⟨by simp [hc], t, rfl⟩
      · simp [hc] at h

theorem digits_no_colon (p : Bytes) (hd : p.all isDigit = true) : colon ∉ p := by
  intro m
  have := List.all_eq_true.mp hd colon m
  exact absurd this (by decide)

/-- a host that ends in a character that is neither a digit nor a colon has no port to cut off -/
theorem stripPort_last (s : Bytes) (x : UInt8) (hl : s.getLast? = some x) (hx : isDigit x = false)
    (hc : x ≠ colon) : stripPort s = s := by
  unfold stripPort
  cases hs : splitLastColon s with
  | none => rfl
  | some ab =>
    obtain ⟨a, b⟩ := ab
    obtain ⟨e, b', hb⟩ := splitLastColon_some s a b hs
    subst hb
    have hv : validOptionalPort (colon :: b') = false := by
      cases hb' : b' with
      | nil =>
        subst hb'
        rw [e] at hl
        simp at hl
        exact absurd hl.symm hc
      | cons y t =>
        have hm : x ∈ b' := by
          rw [e] at hl
          have : (a ++ colon :: b').getLast? = b'.getLast? := by
            have : a ++ colon :: b' = (a ++ [colon]) ++ b' := by simp
            rw [this, List.getLast?_append]
            cases hg : b'.getLast? with
            | none => rw [hb'] at hg; simp at hg
            | some z => simp
          rw [this] at hl
          exact List.mem_of_getLast? hl
        rw [← hb']
        simp only [validOptionalPort, beq_self_eq_true, Bool.true_and]
        cases hall : b'.all isDigit with
        | false => rfl
        | true =>
          have := List.all_eq_true.mp hall x hm
          rw [hx] at this
          exact absurd this (by decide)
    simp [hv]

theorem stripPort_port (h p : Bytes) (hd : p.all isDigit = true) : stripPort (h ++ colon :: p) = h := by
  unfold stripPort
  rw [splitLastColon_append h p (digits_no_colon p hd)]
  simp [validOptionalPort, hd]

theorem trimBrackets_noLbr (h : Bytes) (hs : lbr ∉ h) : trimBrackets h = h := by
  rw [← Refine.C18.tryTrimIpv6Brackets_eq]; exact noSpecial_trim h hs

theorem trimBrackets_brackets (v : Bytes) : trimBrackets (lbr :: v ++ [rbr]) = v := by
  rw [← Refine.C18.tryTrimIpv6Brackets_eq]; exact trim_brackets v

/-- **`URL.Hostname()` on the grammar**: host name / IPv4 with or without a
decimal port, bracketed IPv6 (any content) with or without a decimal port. -/
theorem urlHostname_forms :
    (∀ h, NoSpecial h → urlHostname h = h) ∧
    (∀ h p, NoSpecial h → p.all isDigit = true → urlHostname (h ++ colon :: p) = h) ∧
    (∀ v, urlHostname (lbr :: v ++ [rbr]) = v) ∧
    (∀ v p, p.all isDigit = true → urlHostname (lbr :: v ++ rbr :: colon :: p) = v) := by
  refine ⟨?_, ?_, ?_, ?_⟩
  · intro h hh
    unfold urlHostname stripPort
    rw [splitLastColon_none h hh.1]
    exact trimBrackets_noLbr h hh.2.1
  · intro h p hh hd
    unfold urlHostname
    rw [stripPort_port h p hd]
    exact trimBrackets_noLbr h hh.2.1
  · intro v
    unfold urlHostname
    have hl : (lbr :: v ++ [rbr]).getLast? = some rbr := by
      have : lbr :: v ++ [rbr] = (lbr :: v) ++ [rbr] := by simp
      rw [this, List.getLast?_append]; simp
    rw [stripPort_last (lbr :: v ++ [rbr]) rbr hl (by decide) (by decide)]
    exact trimBrackets_brackets v
  · intro v p hd
    unfold urlHostname
    have e : lbr :: v ++ rbr :: colon :: p = (lbr :: v ++ [rbr]) ++ colon :: p := by simp
    rw [e, stripPort_port _ p hd]
    exact trimBrackets_brackets v

theorem count_colon_plain (h p : Bytes) (hh : colon ∉ h) (hp : colon ∉ p) :
    (h ++ colon :: p).count colon < 2 := by
  have a : h.count colon = 0 := List.count_eq_zero.mpr hh
  have b : p.count colon = 0 := List.count_eq_zero.mpr hp
  simp [List.count_append, a, b]

/-- **DoH / HTTP3: the TLS server name is the URL host** (without port, without
brackets), whatever the unknown parts are - for host names and IPv4, for
bracketed IPv6, and for an IPv6 literal written WITHOUT brackets (whose
brackets the code restores before the endpoint is rendered; finding F15).
**The requests are addressed to the URL host**: exactly as written, an IPv6
literal in brackets whether or not the user wrote them. -/
theorem doh_server_name (other : Bytes → Bytes) {isV6 : Bytes → Bool} (V : V6Contract isV6) :
    (∀ h, NoSpecial h → dohServerName dohKeeps dohRestores other isV6 h = h) ∧
    (∀ h p, NoSpecial h → p.all isDigit = true →
      dohServerName dohKeeps dohRestores other isV6 (h ++ colon :: p) = h) ∧
    (∀ v, dohServerName dohKeeps dohRestores other isV6 (lbr :: v ++ [rbr]) = v) ∧
    (∀ v p, p.all isDigit = true →
      dohServerName dohKeeps dohRestores other isV6 (lbr :: v ++ rbr :: colon :: p) = v) ∧
    (∀ v, isV6 v = true → dohServerName dohKeeps dohRestores other isV6 v = v) ∧
    (∀ u, isV6 u = false → dohEndpointHost dohKeeps dohRestores other isV6 u = u) ∧
    (∀ v, isV6 v = true → dohEndpointHost dohKeeps dohRestores other isV6 v = lbr :: v ++ [rbr]) := by
  have e : dohKeeps = true := rfl
  have e' : dohRestores = true := rfl
  rw [e, e']
  simp only [dohServerName, dohEndpointHost, if_true, Bool.true_and]
  refine ⟨?_, ?_, ?_, ?_, ?_, ?_, ?_⟩
  · intro h hh
    have : isV6 h = false := V.twoColons h (by rw [List.count_eq_zero.mpr hh.1]; decide)
    simp only [this, Bool.false_eq_true, if_false]
    exact urlHostname_forms.1 h hh
  · intro h p hh hd
    have : isV6 (h ++ colon :: p) = false :=
      V.twoColons _ (count_colon_plain h p hh.1 (digits_no_colon p hd))
    simp only [this, Bool.false_eq_true, if_false]
    exact urlHostname_forms.2.1 h p hh hd
  · intro v
    have : isV6 (lbr :: v ++ [rbr]) = false := V.startsBracket _
    simp only [this, Bool.false_eq_true, if_false]
    exact urlHostname_forms.2.2.1 v
  · intro v p hd
    have : isV6 (lbr :: v ++ rbr :: colon :: p) = false := V.startsBracket _
    simp only [this, Bool.false_eq_true, if_false]
    exact urlHostname_forms.2.2.2 v p hd
  · intro v hv
    simp only [hv, if_true]
    exact urlHostname_forms.2.2.1 v
  · intro u hu; simp [hu]
  · intro v hv; simp [hv]

/-- DoH and DoT agree: on every form above the server name Go's HTTP clients
derive equals the one `NewUpstream` computes itself for `tls` / `quic`. -/
theorem doh_server_name_eq_tls (C : SplitContract split) (other : Bytes → Bytes)
    {isV6 : Bytes → Bool} (V : V6Contract isV6) :
    (∀ h, NoSpecial h → dohServerName dohKeeps dohRestores other isV6 h = serverName split h) ∧
    (∀ h p, NoSpecial h → NoSpecial p → p.all isDigit = true →
      dohServerName dohKeeps dohRestores other isV6 (h ++ colon :: p) = serverName split (h ++ colon :: p)) ∧
    (∀ v, NoBracket v → 2 ≤ v.count colon →
      dohServerName dohKeeps dohRestores other isV6 (lbr :: v ++ [rbr]) = serverName split (lbr :: v ++ [rbr])) ∧
    (∀ v p, NoBracket v → NoSpecial p → p ≠ [] → p.all isDigit = true →
      dohServerName dohKeeps dohRestores other isV6 (lbr :: v ++ rbr :: colon :: p)
        = serverName split (lbr :: v ++ rbr :: colon :: p)) ∧
    (∀ v, NoBracket v → 2 ≤ v.count colon → isV6 v = true →
      dohServerName dohKeeps dohRestores other isV6 v = serverName split v) := by
  have d := doh_server_name other V
  have t := sni_default C
  refine ⟨?_, ?_, ?_, ?_, ?_⟩
  · intro h hh; rw [d.1 h hh, t.1 h hh]
  · intro h p hh hp hd; rw [d.2.1 h p hh hd, t.2.1 h p hh hp]
  · intro v hv h2; rw [d.2.2.1 v, t.2.2.1 v hv h2]
  · intro v p hv hp hpne hd; rw [d.2.2.2.1 v p hd, t.2.2.2 v p hv hp hpne]
  · intro v hv h2 h6
    rw [d.2.2.2.2.1 v h6]
    unfold serverName tryRemovePort
    rw [noSpecial_trim v hv.1]
    simp [C.bareV6 v hv h2]

/-- Non-vacuity of the first hypothesis: if the endpoint is built from the
bracket-trimmed host instead, `https://[2001:db8::1]/...` gets the server name
`2001:db8:` (and port 1). -/
example : dohServerName false false Gen.tryTrimIpv6Brackets (fun _ => false)
    [91, 50, 48, 48, 49, 58, 100, 98, 56, 58, 58, 49, 93] = [50, 48, 48, 49, 58, 100, 98, 56, 58] := by decide
example : dohServerName true true id (fun _ => false)
    [91, 50, 48, 48, 49, 58, 100, 98, 56, 58, 58, 49, 93, 58, 56, 52, 52, 51]
    = [50, 48, 48, 49, 58, 100, 98, 56, 58, 58, 49] := by decide  -- "[2001:db8::1]:8443"
/-- Non-vacuity of the third fact, and a witness of finding F15 (the tree
before fix bb593cc): without the bracket restoration a BARE IPv6 URL host
`https://2001:db8::1/...`, which `net/url` accepts, has `URL.Hostname()`
`2001:db8:`; with it the server name is the address. -/
example : dohServerName true false id (fun _ => true) [50, 48, 48, 49, 58, 100, 98, 56, 58, 58, 49]
    = [50, 48, 48, 49, 58, 100, 98, 56, 58] := by decide
example : dohServerName true true id (fun _ => true) [50, 48, 48, 49, 58, 100, 98, 56, 58, 58, 49]
    = [50, 48, 48, 49, 58, 100, 98, 56, 58, 58, 49] := by decide
example : dohEndpointHost true true id (fun _ => true) [50, 48, 48, 49, 58, 100, 98, 56, 58, 58, 49]
    = [91, 50, 48, 48, 49, 58, 100, 98, 56, 58, 58, 49, 93] := by decide
/-- Non-vacuity of the second fact (the requests go to the endpoint's own host): a
constructor that drops a written-out default port by replacing the host with
`URL.Hostname()` (seeded change C18-m15) sends `https://[fd00::53]:443/...` to
the host `fd00::53`, whose `URL.Hostname()` is `fd00:`, and verifies
`[2001:db8::8:53]:443` against `2001:db8::8`, another valid address; a host
name with `:443` is unharmed. With the fact, doh_server_name gives the address
for every decimal port, the scheme default included. -/
example : dohServerName false true urlHostname (fun _ => false) [91, 102, 100, 48, 48, 58, 58, 53, 51, 93, 58, 52, 52, 51]
    = [102, 100, 48, 48, 58] := by decide
example : dohServerName false true urlHostname (fun _ => false) [91, 50, 48, 48, 49, 58, 100, 98, 56, 58, 58, 56, 58, 53, 51, 93, 58, 52, 52, 51]
    = [50, 48, 48, 49, 58, 100, 98, 56, 58, 58, 56] := by decide
example : dohServerName false true urlHostname (fun _ => false) [100, 110, 115, 46, 116, 101, 115, 116, 58, 52, 52, 51]
    = [100, 110, 115, 46, 116, 101, 115, 116] := by decide
example : dohServerName true true id (fun _ => false) [91, 102, 100, 48, 48, 58, 58, 53, 51, 93, 58, 52, 52, 51]
    = [102, 100, 48, 48, 58, 58, 53, 51] := by decide


/-! ## SOCKS5 and a configured bootstrap server

A stream upstream behind a SOCKS5 proxy asks the proxy to CONNECT to exactly
its dial target - the host NAME as written when the host is a name - whatever
a configured bootstrap server would answer for that name. -/

def socksAsWritten : Bool := Gen.Facts.c18Socks5ConnectsToTarget == some true

theorem socks_guard : Gen.Facts.c18Socks5ConnectsToTarget = some true := rfl

/-- **CONNECT target = dial target**, for every bootstrap answer and whatever the unknown part is. -/
theorem socks5_connect_target (other : Bytes × UInt16 → Option Bytes → Bytes × UInt16)
    (resolved : Option Bytes) (t : Bytes × UInt16) :
    connectTarget socksAsWritten other resolved t = t := by
  have e : socksAsWritten = true := rfl
  simp [connectTarget, e]

/-- **Host name behind a proxy, bootstrap configured**: `h` / `h:p` in the URL or
`h:p` as dial_addr - the proxy is asked for the name `h` and the port written
(scheme default when omitted), never for an address the bootstrap server gave. -/
theorem socks5_host_name (C : SplitContract split) (h : Bytes) (hh : NoSpecial h) (d : UInt16)
    (other : Bytes × UInt16 → Option Bytes → Bytes × UInt16) (resolved : Option Bytes) :
    (target split parse h [] d).map (connectTarget socksAsWritten other resolved) = .ok (h, d) ∧
    (∀ p n, NoSpecial p → parse p = some n → n ≠ 0 →
      (target split parse (h ++ colon :: p) [] d).map (connectTarget socksAsWritten other resolved) = .ok (h, n)) ∧
    (∀ u p n, NoSpecial p → parse p = some n → n ≠ 0 →
      (target split parse u (h ++ colon :: p) d).map (connectTarget socksAsWritten other resolved) = .ok (h, n)) ∧
    (h ≠ [] → ∀ u, (target split parse u h d).map (connectTarget socksAsWritten other resolved) = .ok (h, d)) := by
  refine ⟨?_, ?_, ?_, ?_⟩
  · rw [plain_no_port parse C h hh d]
    simp [Except.map, socks5_connect_target]
  · intro p n hp hn hz
    rw [(plain_with_port parse C h p hh hp d).1 n hn hz]
    simp [Except.map, socks5_connect_target]
  · intro u p n hp hn hz
    rw [(dial_addr_forms parse C u d).2.2.1 h p n hh hp hn hz]
    simp [Except.map, socks5_connect_target]
  · intro hne u
    rw [(dial_addr_forms parse C u d).1 h hne hh]
    simp [Except.map, socks5_connect_target]

/-- Non-vacuity: a dialer that runs the bootstrap decision tree before the proxy
asks the proxy for the bootstrap server's answer instead of the name. -/
example :
    let viaBootstrap : Bytes × UInt16 → Option Bytes → Bytes × UInt16 := fun t r =>
      match r with
      | some ip => (ip, t.2)
      | none => t
    connectTarget false viaBootstrap (some [49, 50, 55, 46, 48, 46, 48, 46, 57]) ([100, 110, 115], 853)
      = ([49, 50, 55, 46, 48, 46, 48, 46, 57], 853) := by decide

/-! ## Upstreams of a forward plugin

Position `i` of the upstream list of a forward built from configuration dials
the target of entry `i`'s own `addr` / `dial_addr` - whatever the other entries
are (the same `addr` with another `dial_addr` in particular). -/

def fwdPerEntry : Bool := Gen.Facts.c18FwdUpstreamPerEntry == some true

theorem fwd_guard : Gen.Facts.c18FwdUpstreamPerEntry = some true := rfl

theorem fwdUpstreams_perEntry (other : List FwdCfg → FwdCfg → FwdCfg) (made cfgs : List FwdCfg) :
    fwdUpstreams true other made cfgs = cfgs := by
  induction cfgs generalizing made with
  | nil => rfl
  | cons c rest ih => simp [fwdUpstreams, ih]

/-- **Every entry dials its own target**: for all entries before and after it. -/
theorem forward_entry_own_target (other : List FwdCfg → FwdCfg → FwdCfg) (made before after : List FwdCfg)
    (u a : Bytes) (d : UInt16) :
    ((fwdUpstreams fwdPerEntry other made (before ++ (u, a, d) :: after))[before.length]?).map
        (fun c => target split parse c.1 c.2.1 c.2.2) = some (target split parse u a d) := by
  have e : fwdPerEntry = true := rfl
  rw [e, fwdUpstreams_perEntry]
  simp

/-- **dial_addr of an entry is honoured** in its forms host / IP, `host:port`,
`[IPv6]:port`, for every `addr` (shared with other entries or not). -/
theorem forward_entry_dial_addr (C : SplitContract split) (other : List FwdCfg → FwdCfg → FwdCfg)
    (made before after : List FwdCfg) (u : Bytes) (d : UInt16) :
    (∀ h, h ≠ [] → NoSpecial h →
      ((fwdUpstreams fwdPerEntry other made (before ++ (u, h, d) :: after))[before.length]?).map
        (fun c => target split parse c.1 c.2.1 c.2.2) = some (.ok (h, d))) ∧
    (∀ h p n, NoSpecial h → NoSpecial p → parse p = some n → n ≠ 0 →
      ((fwdUpstreams fwdPerEntry other made (before ++ (u, h ++ colon :: p, d) :: after))[before.length]?).map
        (fun c => target split parse c.1 c.2.1 c.2.2) = some (.ok (h, n))) ∧
    (∀ v p n, NoBracket v → NoSpecial p → parse p = some n → n ≠ 0 →
      ((fwdUpstreams fwdPerEntry other made (before ++ (u, lbr :: v ++ rbr :: colon :: p, d) :: after))[before.length]?).map
        (fun c => target split parse c.1 c.2.1 c.2.2) = some (.ok (v, n))) := by
  have f := dial_addr_forms parse C u d
  refine ⟨?_, ?_, ?_⟩
  · intro h hne hh
    rw [forward_entry_own_target, f.1 h hne hh]
  · intro h p n hh hp hn hz
    rw [forward_entry_own_target, f.2.2.1 h p n hh hp hn hz]
  · intro v p n hv hp hn hz
    rw [forward_entry_own_target, f.2.2.2 v p n hv hp hn hz]

/-- Non-vacuity: a forward that reuses the upstream made for an earlier entry
with the same `addr` sends the second entry's queries to the first one's
dial_addr. -/
example :
    let shared : List FwdCfg → FwdCfg → FwdCfg := fun made c =>
      match made.find? (fun m => m.1 == c.1) with
      | some m => m
      | none => c
    (fwdUpstreams false shared [] [([100, 110, 115], [56, 46, 56, 46, 56, 46, 56], 443), ([100, 110, 115], [56, 46, 56, 46, 52, 46, 52], 443)]).map
        (fun c => target splitHostPort parseUint16 c.1 c.2.1 c.2.2)
      = [.ok ([56, 46, 56, 46, 56, 46, 56], 443), .ok ([56, 46, 56, 46, 56, 46, 56], 443)] := by rfl

/-! Non-vacuity: the executable model of SplitHostPort on one instance of every
contract clause, and the targets of concrete addresses. "2001:db8::1" etc. -/
-- byte strings below are the UTF-8 codes of the quoted text
example : splitHostPort [100, 110, 115, 46, 101, 120, 97, 109, 112, 108, 101, 58, 56, 53, 51] = some ([100, 110, 115, 46, 101, 120, 97, 109, 112, 108, 101], [56, 53, 51]) := by decide  -- "dns.example:853"
example : splitHostPort [91, 50, 48, 48, 49, 58, 100, 98, 56, 58, 58, 49, 93, 58, 53, 51] = some ([50, 48, 48, 49, 58, 100, 98, 56, 58, 58, 49], [53, 51]) := by decide  -- "[2001:db8::1]:53"
example : splitHostPort [50, 48, 48, 49, 58, 100, 98, 56, 58, 58, 49] = none ∧ splitHostPort [91, 50, 48, 48, 49, 58, 100, 98, 56, 58, 58, 49, 93] = none ∧ splitHostPort [49, 46, 49, 46, 49, 46, 49] = none := by decide
example : target splitHostPort parseUint16 [91, 50, 48, 48, 49, 58, 100, 98, 56, 58, 58, 49, 93] [] 53 = .ok ([50, 48, 48, 49, 58, 100, 98, 56, 58, 58, 49], 53) := by rfl  -- "[2001:db8::1]"
example : target splitHostPort parseUint16 [91, 50, 48, 48, 49, 58, 100, 98, 56, 58, 58, 49, 93, 58, 53, 51, 53, 51] [] 53 = .ok ([50, 48, 48, 49, 58, 100, 98, 56, 58, 58, 49], 5353) := by rfl
example : target splitHostPort parseUint16 [100, 110, 115, 46, 101, 120, 97, 109, 112, 108, 101] [57, 46, 57, 46, 57, 46, 57, 58, 56, 53, 51] 853 = .ok ([57, 46, 57, 46, 57, 46, 57], 853) := by rfl  -- dial_addr "9.9.9.9:853"
example : serverName splitHostPort [100, 110, 115, 46, 101, 120, 97, 109, 112, 108, 101, 58, 56, 53, 51] = [100, 110, 115, 46, 101, 120, 97, 109, 112, 108, 101] := by decide
example : target splitHostPort parseUint16 [49, 46, 49, 46, 49, 46, 49, 58, 54, 53, 53, 51, 54] [] 53 = .error () := by rfl  -- port 65536 is rejected

end Props.C18
