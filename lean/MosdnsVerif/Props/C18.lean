import MosdnsVerif.Refine.C18
import MosdnsVerif.Gen.Facts

/-!
# C18 — upstreams connect to exactly the address the user configured

`Gen.tryTrimIpv6Brackets` is regenerated from `pkg/upstream/utils.go`; the
per-scheme default ports are regenerated facts. `net.SplitHostPort` enters as a
function `split` satisfying `SplitContract` (its behaviour on the address
forms of the property's grammar; the correspondence checks the real library
and the executable model against the same contract), the port parser as an
arbitrary function.
-/
namespace Props.C18
open Model.C18

def NoSpecial (s : Bytes) : Prop := colon ∉ s ∧ lbr ∉ s ∧ rbr ∉ s
def NoBracket (s : Bytes) : Prop := lbr ∉ s ∧ rbr ∉ s

/-- Behaviour of `net.SplitHostPort` on the address forms of the grammar. -/
structure SplitContract (split : Bytes → Option (Bytes × Bytes)) : Prop where
  plain : ∀ h p, NoSpecial h → NoSpecial p → split (h ++ colon :: p) = some (h, p)
  bracketed : ∀ v p, NoBracket v → NoSpecial p → split (lbr :: v ++ rbr :: colon :: p) = some (v, p)
  noColon : ∀ s, colon ∉ s → split s = none
  bareV6 : ∀ s, NoBracket s → 2 ≤ s.count colon → split s = none
  bracketNoPort : ∀ v, NoBracket v → split (lbr :: v ++ [rbr]) = none

/-- The host and port `NewUpstream` dials: `parseDialAddr` applied to the
bracket-trimmed URL host (fact `hostIsTrimmedUrlHost`). -/
def target (split : Bytes → Option (Bytes × Bytes)) (parse : Bytes → Option UInt16)
    (urlHost dialAddr : Bytes) (defaultPort : UInt16) : Except Unit (Bytes × UInt16) :=
  parseDialAddr split parse (Gen.tryTrimIpv6Brackets urlHost) dialAddr defaultPort

/-- The default TLS server name: `tryRemovePort` of the trimmed URL host. -/
def serverName (split : Bytes → Option (Bytes × Bytes)) (urlHost : Bytes) : Bytes :=
  tryRemovePort split (Gen.tryTrimIpv6Brackets urlHost)

theorem hostIsTrimmed_guard : Gen.Facts.hostIsTrimmedUrlHost = some true := rfl
theorem ports_guard : Gen.Facts.portUdp = some 53 ∧ Gen.Facts.portTcp = some 53 ∧
    Gen.Facts.portTls = some 853 ∧ Gen.Facts.portHttps = some 443 ∧ Gen.Facts.portQuic = some 853 :=
  ⟨rfl, rfl, rfl, rfl, rfl⟩

/-- **Bracket trimming.** `[h]` becomes exactly `h` (for every `h`, also the
empty one); a string that does not start with `[` or does not end with `]`
is returned unchanged. -/
theorem trim_brackets (h : Bytes) : Gen.tryTrimIpv6Brackets (lbr :: h ++ [rbr]) = h := by
  unfold Gen.tryTrimIpv6Brackets Go.idx Go.slice
  have hl : ((lbr :: h ++ [rbr]).length : Int) = (h.length : Int) + 2 := by simp; omega
  rw [hl]
  have h1 : ¬ ((h.length : Int) + 2 < 2) := by omega
  have h2 : ((h.length : Int) + 2 - 1).toNat = h.length + 1 := by omega
  have h3 : (lbr :: h ++ [rbr]).getD (h.length + 1) 0 = rbr := by
    simp [List.getD_eq_getElem?_getD]
  simp only [h1, h2, h3, decide_false, Bool.false_eq_true, if_false]
  simp

theorem trim_identity (s : Bytes) (h : s.head? ≠ some lbr ∨ s.getLast? ≠ some rbr) :
    Gen.tryTrimIpv6Brackets s = s := by
  unfold Gen.tryTrimIpv6Brackets Go.idx
  by_cases hlen : ((s.length : Int) < 2)
  · simp [hlen]
  · simp only [hlen, decide_false, Bool.false_eq_true, if_false]
    have hne : s ≠ [] := by intro h0; subst h0; simp at hlen
    have hfirst : s.getD (0 : Int).toNat 0 = s.head?.getD 0 := by
      cases s with
      | nil => contradiction
      | cons a t => simp
    have hlast : s.getD ((s.length : Int) - 1).toNat 0 = s.getLast?.getD 0 := by
      have : ((s.length : Int) - 1).toNat = s.length - 1 := by omega
      rw [this, List.getLast?_eq_getElem?]
      simp [List.getD_eq_getElem?_getD]
    rw [hfirst, hlast]
    rcases h with h | h
    · have : (s.head?.getD 0 == (91 : UInt8)) = false := by
        cases hh : s.head? with
        | none => cases s with
          | nil => contradiction
          | cons a t => simp at hh
        | some a =>
          simp only [Option.getD_some, beq_eq_false_iff_ne, ne_eq]
          intro ha; apply h; rw [hh, ha]
      simp [this]
    · have : (s.getLast?.getD 0 == (93 : UInt8)) = false := by
        cases hh : s.getLast? with
        | none => exact absurd (List.getLast?_eq_none_iff.mp hh) hne
        | some a =>
          simp only [Option.getD_some, beq_eq_false_iff_ne, ne_eq]
          intro ha; apply h; rw [hh, ha]
      simp [this]

theorem noSpecial_trim (h : Bytes) (hs : lbr ∉ h) : Gen.tryTrimIpv6Brackets h = h := by
  apply trim_identity
  left
  cases h with
  | nil => simp
  | cons a t =>
    simp only [List.head?_cons, ne_eq, Option.some.injEq]
    intro ha; apply hs; simp [ha]

variable {split : Bytes → Option (Bytes × Bytes)} (parse : Bytes → Option UInt16)

/-- the address `parseDialAddr` works on -/
def addrOf (u a : Bytes) : Bytes := if a.length > 0 then a else u

theorem addrOf_nil (u : Bytes) : addrOf u [] = u := by simp [addrOf]
theorem addrOf_ne (u a : Bytes) (h : a ≠ []) : addrOf u a = a := by
  have : a.length > 0 := List.length_pos_iff.mpr h
  simp [addrOf, this]

theorem pda_some (u a h p : Bytes) (n d : UInt16) (hs : split (addrOf u a) = some (h, p))
    (hn : parse p = some n) (hz : n ≠ 0) : parseDialAddr split parse u a d = .ok (h, n) := by
  unfold parseDialAddr trySplitHostPort
  show (match (match split (addrOf u a) with
      | some (h, p) => (match parse p with | some n => Except.ok (h, n) | none => Except.error ())
      | none => Except.ok (addrOf u a, 0)) with
    | Except.error e => Except.error e
    | Except.ok (h, p) => Except.ok (h, if p = 0 then d else p)) = _
  rw [hs]; simp [hn, hz]

theorem pda_reject (u a h p : Bytes) (d : UInt16) (hs : split (addrOf u a) = some (h, p))
    (hn : parse p = none) : parseDialAddr split parse u a d = .error () := by
  unfold parseDialAddr trySplitHostPort
  show (match (match split (addrOf u a) with
      | some (h, p) => (match parse p with | some n => Except.ok (h, n) | none => Except.error ())
      | none => Except.ok (addrOf u a, 0)) with
    | Except.error e => Except.error e
    | Except.ok (h, p) => Except.ok (h, if p = 0 then d else p)) = _
  rw [hs]; simp [hn]

theorem pda_none (u a : Bytes) (d : UInt16) (hs : split (addrOf u a) = none) :
    parseDialAddr split parse u a d = .ok (addrOf u a, d) := by
  unfold parseDialAddr trySplitHostPort
  show (match (match split (addrOf u a) with
      | some (h, p) => (match parse p with | some n => Except.ok (h, n) | none => Except.error ())
      | none => Except.ok (addrOf u a, 0)) with
    | Except.error e => Except.error e
    | Except.ok (h, p) => Except.ok (h, if p = 0 then d else p)) = _
  rw [hs]; simp

theorem trim_bracketed_port (v p : Bytes) (hp : NoSpecial p) (hpne : p ≠ []) :
    Gen.tryTrimIpv6Brackets (lbr :: v ++ rbr :: colon :: p) = lbr :: v ++ rbr :: colon :: p := by
  apply trim_identity
  right
  have : (lbr :: v ++ rbr :: colon :: p).getLast? = p.getLast? := by
    have : lbr :: v ++ rbr :: colon :: p = (lbr :: v ++ [rbr, colon]) ++ p := by simp
    rw [this, List.getLast?_append]
    cases hl : p.getLast? with
    | none => exact absurd (List.getLast?_eq_none_iff.mp hl) hpne
    | some a => simp
  rw [this]
  intro hl
  exact hp.2.2 (List.mem_of_getLast? hl)

theorem trim_plain_port (h p : Bytes) (hh : NoSpecial h) (hp : NoSpecial p) :
    Gen.tryTrimIpv6Brackets (h ++ colon :: p) = h ++ colon :: p := by
  apply noSpecial_trim
  simp only [List.mem_append, List.mem_cons, not_or]
  exact ⟨hh.2.1, by decide, hp.2.1⟩

/-- **Hostname or IPv4 without port**: dials exactly that host on the scheme's default port. -/
theorem plain_no_port (C : SplitContract split) (h : Bytes) (hh : NoSpecial h) (d : UInt16) :
    target split parse h [] d = .ok (h, d) := by
  unfold target
  rw [noSpecial_trim h hh.2.1, pda_none parse _ _ _ (by rw [addrOf_nil]; exact C.noColon h hh.1), addrOf_nil]

/-- **Hostname or IPv4 with port** `h:p` where `p` parses to a non-zero `n`:
dials exactly host `h`, port `n`. If `p` does not parse (not a decimal number
or above 65535) the address is rejected, never altered. -/
theorem plain_with_port (C : SplitContract split) (h p : Bytes) (hh : NoSpecial h) (hp : NoSpecial p) (d : UInt16) :
    (∀ n, parse p = some n → n ≠ 0 → target split parse (h ++ colon :: p) [] d = .ok (h, n)) ∧
    (parse p = none → target split parse (h ++ colon :: p) [] d = .error ()) := by
  unfold target
  rw [trim_plain_port h p hh hp]
  have hs : split (addrOf (h ++ colon :: p) []) = some (h, p) := by rw [addrOf_nil]; exact C.plain h p hh hp
  exact ⟨fun n hn hz => pda_some parse _ _ _ _ n d hs hn hz, fun hn => pda_reject parse _ _ _ _ d hs hn⟩

/-- **Bracketed IPv6 without port** `[v]`: dials exactly `v` (all of it - the
defect fixed by 4eff6fb lost its last character) on the default port. -/
theorem bracketed_no_port (C : SplitContract split) (v : Bytes) (hv : NoBracket v) (h2 : 2 ≤ v.count colon) (d : UInt16) :
    target split parse (lbr :: v ++ [rbr]) [] d = .ok (v, d) := by
  unfold target
  rw [trim_brackets v, pda_none parse _ _ _ (by rw [addrOf_nil]; exact C.bareV6 v hv h2), addrOf_nil]

/-- **Bracketed IPv6 with port** `[v]:p`. -/
theorem bracketed_with_port (C : SplitContract split) (v p : Bytes) (hv : NoBracket v) (hp : NoSpecial p)
    (hpne : p ≠ []) (d n : UInt16) (hn : parse p = some n) (hz : n ≠ 0) :
    target split parse (lbr :: v ++ rbr :: colon :: p) [] d = .ok (v, n) := by
  unfold target
  rw [trim_bracketed_port v p hp hpne]
  exact pda_some parse _ _ _ _ n d (by rw [addrOf_nil]; exact C.bracketed v p hv hp) hn hz

/-- **Bare IPv6** (at least two colons, no brackets): dials exactly it on the default port. -/
theorem bare_v6 (C : SplitContract split) (v : Bytes) (hv : NoBracket v) (h2 : 2 ≤ v.count colon) (d : UInt16) :
    target split parse v [] d = .ok (v, d) := by
  unfold target
  rw [noSpecial_trim v hv.1, pda_none parse _ _ _ (by rw [addrOf_nil]; exact C.bareV6 v hv h2), addrOf_nil]

/-- **dial_addr overrides the URL host** (whatever the URL host is), for the
forms IP or host, bare IPv6, IP:port / host:port, [IPv6]:port. -/
theorem dial_addr_forms (C : SplitContract split) (u : Bytes) (d : UInt16) :
    (∀ h, h ≠ [] → NoSpecial h → target split parse u h d = .ok (h, d)) ∧
    (∀ v, NoBracket v → 2 ≤ v.count colon → target split parse u v d = .ok (v, d)) ∧
    (∀ h p n, NoSpecial h → NoSpecial p → parse p = some n → n ≠ 0 →
      target split parse u (h ++ colon :: p) d = .ok (h, n)) ∧
    (∀ v p n, NoBracket v → NoSpecial p → parse p = some n → n ≠ 0 →
      target split parse u (lbr :: v ++ rbr :: colon :: p) d = .ok (v, n)) := by
  unfold target
  refine ⟨?_, ?_, ?_, ?_⟩
  · intro h hne hh
    have e := addrOf_ne (Gen.tryTrimIpv6Brackets u) h hne
    rw [pda_none parse _ _ _ (by rw [e]; exact C.noColon h hh.1), e]
  · intro v hv h2
    have hne : v ≠ [] := by intro h0; subst h0; simp at h2
    have e := addrOf_ne (Gen.tryTrimIpv6Brackets u) v hne
    rw [pda_none parse _ _ _ (by rw [e]; exact C.bareV6 v hv h2), e]
  · intro h p n hh hp hn hz
    have e := addrOf_ne (Gen.tryTrimIpv6Brackets u) (h ++ colon :: p) (by simp)
    exact pda_some parse _ _ _ _ n d (by rw [e]; exact C.plain h p hh hp) hn hz
  · intro v p n hv hp hn hz
    have e := addrOf_ne (Gen.tryTrimIpv6Brackets u) (lbr :: v ++ rbr :: colon :: p) (by simp)
    exact pda_some parse _ _ _ _ n d (by rw [e]; exact C.bracketed v p hv hp) hn hz

/-- **TLS server name defaults to the URL host** (without port, without brackets). -/
theorem sni_default (C : SplitContract split) :
    (∀ h, NoSpecial h → serverName split h = h) ∧
    (∀ h p, NoSpecial h → NoSpecial p → serverName split (h ++ colon :: p) = h) ∧
    (∀ v, NoBracket v → 2 ≤ v.count colon → serverName split (lbr :: v ++ [rbr]) = v) ∧
    (∀ v p, NoBracket v → NoSpecial p → p ≠ [] → serverName split (lbr :: v ++ rbr :: colon :: p) = v) := by
  refine ⟨?_, ?_, ?_, ?_⟩
  · intro h hh
    unfold serverName tryRemovePort
    rw [noSpecial_trim h hh.2.1]
    simp [C.noColon h hh.1]
  · intro h p hh hp
    unfold serverName tryRemovePort
    rw [trim_plain_port h p hh hp, C.plain h p hh hp]
  · intro v hv h2
    unfold serverName tryRemovePort
    rw [trim_brackets v]
    simp [C.bareV6 v hv h2]
  · intro v p hv hp hpne
    unfold serverName tryRemovePort
    rw [trim_bracketed_port v p hp hpne, C.bracketed v p hv hp]

/-! ## Several bootstrapped upstreams in one process

Every upstream resolves its own host name and dials the answer on its own
port, whatever other upstreams (same name, other ports, other schemes) were
created before or after it in the same process. -/

/-- facts the bootstrap part of the model is read from -/
def bootPerCall : Bool := Gen.Facts.c18BootNewPerCall == some true
def bootOwnPort : Bool := Gen.Facts.c18BootAddrOwnPort == some true

theorem boot_guard : Gen.Facts.c18BootNewPerCall = some true ∧ Gen.Facts.c18BootAddrOwnPort = some true ∧
    Gen.Facts.c18BootCallsPassTarget = some true := ⟨rfl, rfl, rfl⟩

theorem createAll_perCall (other : List Boot → Bytes → UInt16 → Boot) (reg : List Boot)
    (cfgs : List (Bytes × UInt16)) :
    createAll true other reg cfgs = cfgs.map (fun c => { fqdn := fqdn c.1, port := c.2 }) := by
  induction cfgs generalizing reg with
  | nil => rfl
  | cons c rest ih =>
    obtain ⟨h, p⟩ := c
    simp [createAll, bootNew, ih]

/-- **Independence.** With per-call Bootstraps, upstream number `i` of a
process asks for its own name and uses its own port - for every history of
other upstreams, every earlier registry and whatever the unknown parts are. -/
theorem boot_independent (other : List Boot → Bytes → UInt16 → Boot) (otherPort : Boot → UInt16)
    (reg : List Boot) (cfgs : List (Bytes × UInt16)) (i : Nat) (c : Bytes × UInt16)
    (hc : cfgs[i]? = some c) :
    ((createAll true other reg cfgs)[i]?).map (bootDial true otherPort) = some (fqdn c.1, c.2) := by
  rw [createAll_perCall]
  simp [List.getElem?_map, hc, bootDial]

/-- **Bootstrapped `host:port`.** An upstream written `h:p` (host name `h`,
`p` parsing to a non-zero `n`), created in one process after any upstreams
`before` and followed by any upstreams `after`, asks the bootstrap server for
`h.` and dials the answer on port `n`: never the port of another upstream. The
model's `bootNew`/`bootDial` are instantiated with the regenerated facts. -/
theorem bootstrapped_host_port (C : SplitContract split) (h p : Bytes) (hh : NoSpecial h) (hp : NoSpecial p)
    (n d : UInt16) (hn : parse p = some n) (hz : n ≠ 0)
    (other : List Boot → Bytes → UInt16 → Boot) (otherPort : Boot → UInt16) (reg : List Boot)
    (before after : List (Bytes × UInt16)) :
    ∃ t, target split parse (h ++ colon :: p) [] d = .ok t ∧
      ((createAll bootPerCall other reg (before ++ t :: after))[before.length]?).map (bootDial bootOwnPort otherPort)
        = some (fqdn h, n) := by
  refine ⟨(h, n), ((plain_with_port parse C h p hh hp d).1 n hn hz), ?_⟩
  have e1 : bootPerCall = true := rfl
  have e2 : bootOwnPort = true := rfl
  rw [e1, e2]
  exact boot_independent other otherPort reg _ _ (h, n) (by simp)

/-- **Bootstrapped host without port / with `dial_addr` `h:p`**: same statement
for the scheme default port and for a dial_addr override. -/
theorem bootstrapped_default_and_dial_addr (C : SplitContract split) (h : Bytes) (hh : NoSpecial h) (d : UInt16)
    (other : List Boot → Bytes → UInt16 → Boot) (otherPort : Boot → UInt16) (reg : List Boot)
    (before after : List (Bytes × UInt16)) :
    (∃ t, target split parse h [] d = .ok t ∧
      ((createAll bootPerCall other reg (before ++ t :: after))[before.length]?).map (bootDial bootOwnPort otherPort)
        = some (fqdn h, d)) ∧
    (∀ u p n, NoSpecial p → parse p = some n → n ≠ 0 →
      ∃ t, target split parse u (h ++ colon :: p) d = .ok t ∧
      ((createAll bootPerCall other reg (before ++ t :: after))[before.length]?).map (bootDial bootOwnPort otherPort)
        = some (fqdn h, n)) := by
  have e1 : bootPerCall = true := rfl
  have e2 : bootOwnPort = true := rfl
  rw [e1, e2]
  refine ⟨⟨(h, d), plain_no_port parse C h hh d, ?_⟩, ?_⟩
  · exact boot_independent other otherPort reg _ _ (h, d) (by simp)
  · intro u p n hp hn hz
    exact ⟨(h, n), (dial_addr_forms parse C u d).2.2.1 h p n hh hp hn hz,
      boot_independent other otherPort reg _ _ (h, n) (by simp)⟩

/-- Non-vacuity of the hypothesis: when `bootstrap.New` may hand out a
Bootstrap made earlier for the same name, the statement is false - the second
of two upstreams on one name gets the first one's port. -/
example :
    let shared : List Boot → Bytes → UInt16 → Boot := fun reg h p =>
      match reg.find? (fun b => b.fqdn == fqdn h) with
      | some b => b
      | none => { fqdn := fqdn h, port := p }
    (createAll false shared [] [([100, 110, 115], 853), ([100, 110, 115], 443)]).map (bootDial true (fun _ => 0))
      = [([100, 110, 115, 46], 853), ([100, 110, 115, 46], 853)] := by decide

/-! Non-vacuity: the executable model of SplitHostPort on one instance of every
contract clause, and the targets of concrete addresses. "2001:db8::1" etc. -/
-- byte strings below are the UTF-8 codes of the quoted text
example : splitHostPort [100, 110, 115, 46, 101, 120, 97, 109, 112, 108, 101, 58, 56, 53, 51] = some ([100, 110, 115, 46, 101, 120, 97, 109, 112, 108, 101], [56, 53, 51]) := by decide  -- "dns.example:853"
example : splitHostPort [91, 50, 48, 48, 49, 58, 100, 98, 56, 58, 58, 49, 93, 58, 53, 51] = some ([50, 48, 48, 49, 58, 100, 98, 56, 58, 58, 49], [53, 51]) := by decide  -- "[2001:db8::1]:53"
example : splitHostPort [50, 48, 48, 49, 58, 100, 98, 56, 58, 58, 49] = none ∧ splitHostPort [91, 50, 48, 48, 49, 58, 100, 98, 56, 58, 58, 49, 93] = none ∧ splitHostPort [49, 46, 49, 46, 49, 46, 49] = none := by decide
example : target splitHostPort parseUint16 [91, 50, 48, 48, 49, 58, 100, 98, 56, 58, 58, 49, 93] [] 53 = .ok ([50, 48, 48, 49, 58, 100, 98, 56, 58, 58, 49], 53) := by rfl  -- "[2001:db8::1]"
example : target splitHostPort parseUint16 [91, 50, 48, 48, 49, 58, 100, 98, 56, 58, 58, 49, 93, 58, 53, 51, 53, 51] [] 53 = .ok ([50, 48, 48, 49, 58, 100, 98, 56, 58, 58, 49], 5353) := by rfl
example : target splitHostPort parseUint16 [100, 110, 115, 46, 101, 120, 97, 109, 112, 108, 101] [57, 46, 57, 46, 57, 46, 57, 58, 56, 53, 51] 853 = .ok ([57, 46, 57, 46, 57, 46, 57], 853) := by rfl  -- dial_addr "9.9.9.9:853"
example : serverName splitHostPort [100, 110, 115, 46, 101, 120, 97, 109, 112, 108, 101, 58, 56, 53, 51] = [100, 110, 115, 46, 101, 120, 97, 109, 112, 108, 101] := by decide
example : target splitHostPort parseUint16 [49, 46, 49, 46, 49, 46, 49, 58, 54, 53, 53, 51, 54] [] 53 = .error () := by rfl  -- port 65536 is rejected

end Props.C18
