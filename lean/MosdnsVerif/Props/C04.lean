import MosdnsVerif.Refine.C04
import MosdnsVerif.Gen.Facts

/-!
# C04 — a cached answer is only served to the same question

Property theorems only. All are about `Gen.getMsgKey`, the definition
regenerated from `plugin/executable/cache/utils.go` on every run
(transported through `Refine.C04.getMsgKey_eq`).
-/
namespace Props.C04
open Base Model.C04

theorem u16_split (a b : UInt16)
    (hhi : (a >>> 8).toUInt8 = (b >>> 8).toUInt8) (hlo : a.toUInt8 = b.toUInt8) : a = b := by
  have h1 := congrArg UInt8.toBitVec hhi
  have h2 := congrArg UInt8.toBitVec hlo
  apply UInt16.eq_of_toBitVec_eq
  simp only [UInt16.toBitVec_toUInt8, UInt16.toBitVec_shiftRight] at h1 h2
  have e8 : (8 : UInt16).toBitVec = 8#16 := rfl
  rw [e8] at h1
  have h1' := congrArg BitVec.toNat h1
  have h2' := congrArg BitVec.toNat h2
  simp [BitVec.toNat_setWidth, BitVec.toNat_ushiftRight, Nat.shiftRight_eq_div_pow] at h1' h2'
  apply BitVec.eq_of_toNat_eq
  simp only [UInt16.toNat_toBitVec]
  have := a.toNat_lt
  have := b.toNat_lt
  omega

theorem flags_inj (a b : Query) (h : flags a = flags b) :
    a.ad = b.ad ∧ a.cd = b.cd ∧ a.dnssecOk = b.dnssecOk := by
  unfold flags at h
  cases ha : a.ad <;> cases hc : a.cd <;> cases hd : a.dnssecOk <;>
  cases ha' : b.ad <;> cases hc' : b.cd <;> cases hd' : b.dnssecOk <;>
  simp [ha, hc, hd, ha', hc', hd'] at h ⊢ <;> exact absurd h (by decide)

/-- Model-level injectivity: over all 65536 types × 65536 classes × 8 flag
sets × names of any length and content. -/
theorem msgKey_injective (a b : Query) (ha : cacheable a) (hb : cacheable b)
    (h : msgKey a = msgKey b) : SameQuestion a b := by
  unfold msgKey at h
  simp only [ha, hb, if_true] at h
  injection h with h0 h
  injection h with h1 h
  injection h with h2 h
  injection h with h3 h
  injection h with h4 h
  injection h with _ h
  obtain ⟨f1, f2, f3⟩ := flags_inj a b h0
  exact ⟨h, u16_split _ _ h1 h2, u16_split _ _ h3 h4, f1, f2, f3⟩

/-- **C04 (key).** Two cacheable queries with the same generated key ask the
same question with the same AD/CD/DO flags. -/
theorem key_injective (a b : Query) (ha : cacheable a) (hb : cacheable b)
    (h : Gen.getMsgKey a = Gen.getMsgKey b) : SameQuestion a b := by
  rw [Refine.C04.getMsgKey_eq, Refine.C04.getMsgKey_eq] at h
  exact msgKey_injective a b ha hb h

/-- **C04 (bypass).** The key is empty exactly for the queries that must
bypass the cache (QR set, opcode ≠ QUERY, question count ≠ 1). -/
theorem key_bypass (q : Query) : Gen.getMsgKey q = [] ↔ cacheable q = false := by
  rw [Refine.C04.getMsgKey_eq]
  unfold msgKey
  cases h : cacheable q <;> simp

/-- Well-formedness invariant of the store: every entry sits under the key
of the query that stored it, and that query was cacheable. -/
def Inv {α} (s : Store α) : Prop :=
  ∀ p ∈ s, p.1 = msgKey p.2.storedBy ∧ cacheable p.2.storedBy = true

theorem inv_step {α} (s : Store α) (op : Op α) (h : Inv s) : Inv (step s op) := by
  cases op with
  | flush => intro p hp; simp [step] at hp
  | store q v =>
    by_cases hk : msgKey q = []
    · simpa [step, hk] using h
    · intro p hp
      simp only [step, hk, if_false] at hp
      simp only [List.mem_cons, List.mem_filter] at hp
      rcases hp with rfl | ⟨hp, _⟩
      · refine ⟨rfl, ?_⟩
        cases hc : cacheable q
        · exact absurd (by unfold msgKey; simp [hc]) hk
        · rfl
      · exact h p hp

theorem inv_run {α} (ops : List (Op α)) : Inv (ops.foldl step ([] : Store α)) := by
  suffices ∀ s : Store α, Inv s → Inv (ops.foldl step s) from this [] (by intro p hp; cases hp)
  induction ops with
  | nil => intro s h; exact h
  | cons op ops ih => intro s h; exact ih _ (inv_step s op h)

/-- **C04 (hit).** After any sequence of stores and flushes, an entry found
for query `q₂` was stored by a query asking the same question with the same
flags. (Exactness of the real concurrent store is C11.) -/
theorem hit_same_question {α} (ops : List (Op α)) (q₂ : Query) (e : Entry α)
    (h : lookup (ops.foldl step []) q₂ = some e) : SameQuestion e.storedBy q₂ := by
  unfold lookup at h
  split at h
  · cases h
  · rename_i hk
    simp only [Option.map_eq_some_iff] at h
    obtain ⟨p, hp, rfl⟩ := h
    have hmem := List.mem_of_find?_eq_some hp
    have hkey := List.find?_some hp
    obtain ⟨h1, h2⟩ := inv_run ops p hmem
    have hq2 : cacheable q₂ = true := by
      cases hc : cacheable q₂
      · exact absurd (by unfold msgKey; simp [hc]) hk
      · rfl
    have : msgKey p.2.storedBy = msgKey q₂ := by
      rw [← h1]; simpa using hkey
    exact msgKey_injective _ _ h2 hq2 this

/-! Non-vacuity: concrete cacheable queries; the pre-fix collision pairs now differ. -/
def qA : Query := ⟨false, 0, 1, false, false, false, 1, 1, [3, 119, 119, 119, 0]⟩
def qCAA : Query := { qA with qtype := 257 }
def qCH : Query := { qA with qclass := 3 }
example : cacheable qA = true ∧ cacheable qCAA = true := by decide
example : Gen.getMsgKey qA ≠ Gen.getMsgKey qCAA := by decide
example : Gen.getMsgKey qA ≠ Gen.getMsgKey qCH := by decide
example : lookup ([Op.store qA (7 : Nat)].foldl step []) qA = some ⟨qA, 7⟩ := by decide
example : lookup ([Op.store qA (7 : Nat)].foldl step []) qCAA = none := by decide

/-! The dump / load_dump path re-stores entries: it keeps the invariant of `inv_run`
(every stored entry sits under the key of the query it was produced for) exactly
when an entry is written with, and loaded under, its own key - read from the source. -/
theorem facts_guard : Gen.Facts.c04DumpWritesKey = some true ∧ Gen.Facts.c04DumpLoadKeepsKey = some true := by decide

end Props.C04
