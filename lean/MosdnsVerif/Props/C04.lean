import MosdnsVerif.Refine.C04
import MosdnsVerif.Gen.Facts

/-!
# C04 — a cached answer is only served to the same question

Property theorems only. All are about `Gen.getMsgKey`, the definition
regenerated from `plugin/executable/cache/utils.go` on every run
(transported through `Refine.C04.getMsgKey_eq`).
-/
namespace Props.C04
open Base Model.C04

theorem u16_split (a b : UInt16)
    (hhi : (a >>> 8).toUInt8 = (b >>> 8).toUInt8) (hlo : a.toUInt8 = b.toUInt8) : a = b := by
  have h1 := congrArg UInt8.toBitVec hhi
  have h2 := congrArg UInt8.toBitVec hlo
  apply UInt16.eq_of_toBitVec_eq
  simp only [UInt16.toBitVec_toUInt8, UInt16.toBitVec_shiftRight] at h1 h2
  have e8 : (8 : UInt16).toBitVec = 8#16 := rfl
  rw [e8] at h1
  have h1' := congrArg BitVec.toNat h1
  have h2' := congrArg BitVec.toNat h2
  simp [BitVec.toNat_setWidth, BitVec.toNat_ushiftRight, Nat.shiftRight_eq_div_pow] at h1' h2'
  apply BitVec.eq_of_toNat_eq
  simp only [UInt16.toNat_toBitVec]
  have := a.toNat_lt
  have := b.toNat_lt
  omega

theorem flags_inj (a b : Query) (h : flags a = flags b) :
    a.ad = b.ad ∧ a.cd = b.cd ∧ a.dnssecOk = b.dnssecOk := by
  unfold flags at h
  cases ha : a.ad <;> cases hc : a.cd <;> cases hd : a.dnssecOk <;>
  cases ha' : b.ad <;> cases hc' : b.cd <;> cases hd' : b.dnssecOk <;>
  simp [ha, hc, hd, ha', hc', hd'] at h ⊢ <;> exact absurd h (by decide)

/-- Model-level injectivity: over all 65536 types × 65536 classes × 8 flag
sets × names of any length and content. -/
theorem msgKey_injective (a b : Query) (ha : cacheable a) (hb : cacheable b)
    (h : msgKey a = msgKey b) : SameQuestion a b := by
  unfold msgKey at h
  simp only [ha, hb, if_true] at h
  injection h with h0 h
  injection h with h1 h
  injection h with h2 h
  injection h with h3 h
  injection h with h4 h
  injection h with _ h
  obtain ⟨f1, f2, f3⟩ := flags_inj a b h0
  exact ⟨h, u16_split _ _ h1 h2, u16_split _ _ h3 h4, f1, f2, f3⟩

/-- **C04 (key).** Two cacheable queries with the same generated key ask the
same question with the same AD/CD/DO flags. -/
theorem key_injective (a b : Query) (ha : cacheable a) (hb : cacheable b)
    (h : Gen.getMsgKey a = Gen.getMsgKey b) : SameQuestion a b := by
  rw [Refine.C04.getMsgKey_eq, Refine.C04.getMsgKey_eq] at h
  exact msgKey_injective a b ha hb h

/-- **C04 (bypass).** The key is empty exactly for the queries that must
bypass the cache (QR set, opcode ≠ QUERY, question count ≠ 1). -/
theorem key_bypass (q : Query) : Gen.getMsgKey q = [] ↔ cacheable q = false := by
  rw [Refine.C04.getMsgKey_eq]
  unfold msgKey
  cases h : cacheable q <;> simp

/-- Well-formedness invariant of the store: every entry sits under the key
of the query that stored it, and that query was cacheable. -/
def Inv {α} (s : Store α) : Prop :=
  ∀ p ∈ s, p.1 = msgKey p.2.storedBy ∧ cacheable p.2.storedBy = true

theorem inv_step {α} (s : Store α) (op : Op α) (h : Inv s) : Inv (step s op) := by
  cases op with
  | flush => intro p hp; simp [step] at hp
  | store q v =>
    by_cases hk : msgKey q = []
    · simpa [step, hk] using h
    · intro p hp
      simp only [step, hk, if_false] at hp
      simp only [List.mem_cons, List.mem_filter] at hp
      rcases hp with rfl | ⟨hp, _⟩
      · refine ⟨rfl, ?_⟩
        cases hc : cacheable q
        · exact absurd (by unfold msgKey; simp [hc]) hk
        · rfl
      · exact h p hp

theorem inv_run {α} (ops : List (Op α)) : Inv (ops.foldl step ([] : Store α)) := by
  suffices ∀ s : Store α, Inv s → Inv (ops.foldl step s) from this [] (by intro p hp; cases hp)
  induction ops with
  | nil => intro s h; exact h
  | cons op ops ih => intro s h; exact ih _ (inv_step s op h)

theorem inv_run_from {α} (ops : List (Op α)) (s : Store α) (h : Inv s) : Inv (ops.foldl step s) := by
  induction ops generalizing s with
  | nil => exact h
  | cons op ops ih => exact ih _ (inv_step s op h)

/-- A lookup in a well-formed store finds only entries of the same question. -/
theorem lookup_inv {α} (s : Store α) (hs : Inv s) (q₂ : Query) (e : Entry α)
    (h : lookup s q₂ = some e) : SameQuestion e.storedBy q₂ := by
  unfold lookup at h
  split at h
  · cases h
  · rename_i hk
    simp only [Option.map_eq_some_iff] at h
    obtain ⟨p, hp, rfl⟩ := h
    have hmem := List.mem_of_find?_eq_some hp
    have hkey := List.find?_some hp
    obtain ⟨h1, h2⟩ := hs p hmem
    have hq2 : cacheable q₂ = true := by
      cases hc : cacheable q₂
      · exact absurd (by unfold msgKey; simp [hc]) hk
      · rfl
    have : msgKey p.2.storedBy = msgKey q₂ := by
      rw [← h1]; simpa using hkey
    exact msgKey_injective _ _ h2 hq2 this

/-- **C04 (hit).** After any sequence of stores and flushes, an entry found
for query `q₂` was stored by a query asking the same question with the same
flags. (Exactness of the real concurrent store is C11.) -/
theorem hit_same_question {α} (ops : List (Op α)) (q₂ : Query) (e : Entry α)
    (h : lookup (ops.foldl step []) q₂ = some e) : SameQuestion e.storedBy q₂ := by
  unfold lookup at h
  split at h
  · cases h
  · rename_i hk
    simp only [Option.map_eq_some_iff] at h
    obtain ⟨p, hp, rfl⟩ := h
    have hmem := List.mem_of_find?_eq_some hp
    have hkey := List.find?_some hp
    obtain ⟨h1, h2⟩ := inv_run ops p hmem
    have hq2 : cacheable q₂ = true := by
      cases hc : cacheable q₂
      · exact absurd (by unfold msgKey; simp [hc]) hk
      · rfl
    have : msgKey p.2.storedBy = msgKey q₂ := by
      rw [← h1]; simpa using hkey
    exact msgKey_injective _ _ h2 hq2 this

/-! ## Cache lives: dump and load

`Model.C04.Reach loadKey` are the stores reachable when dumps of reachable stores are
loaded (at start-up or through the API) with the key function `loadKey` applied to the
dumped key bytes. -/

theorem inv_loadDump {α} (d : List (Bytes × Entry α)) : ∀ s : Store α, Inv s →
    (∀ p ∈ d, p.1 = msgKey p.2.storedBy ∧ cacheable p.2.storedBy = true) →
    Inv (loadDump (fun k => k) s d) := by
  induction d with
  | nil => intro s hs _; exact hs
  | cons p d ih =>
    intro s hs hd
    show Inv (loadDump (fun k => k) ((p.1, p.2) :: s.filter (fun x => x.1 != p.1)) d)
    apply ih
    · intro x hx
      rcases List.mem_cons.mp hx with rfl | hx
      · exact hd p (by simp)
      · exact hs x (List.mem_filter.mp hx).1
    · intro x hx
      exact hd x (List.mem_cons_of_mem _ hx)

theorem inv_reach {α} (s : Store α) (h : Reach (fun k => k) s) : Inv s := by
  induction h with
  | fresh => intro p hp; cases hp
  | op s o _ ih => exact inv_step s o ih
  | load s s₀ d _ _ hsub ihs ih₀ => exact inv_loadDump d s ihs (fun p hp => ih₀ p (hsub p hp))

/-- **C04 (reload, any load key that is the identity).** Over all histories of stores,
flushes, dumps and loads: an entry found for `q₂` was stored for the same question. -/
theorem reload_hit_same_question_id {α} (s : Store α) (h : Reach (fun k => k) s) (q₂ : Query) (e : Entry α)
    (hl : lookup s q₂ = some e) : SameQuestion e.storedBy q₂ :=
  lookup_inv s (inv_reach s h) q₂ e hl

/-- The source says that `writeDump` records the entry's own key and `readDump` stores
the entry under exactly the dumped key bytes: the load key function read from the
facts exists and is the identity. -/
theorem dump_load_key_is_dumped_key :
    ∃ k, dumpLoadKey Gen.Facts.c04DumpWritesKey Gen.Facts.c04DumpLoadKeepsKey = some k ∧ ∀ b : Bytes, k b = b :=
  ⟨fun k => k, by unfold dumpLoadKey; exact if_pos (by decide), fun _ => rfl⟩

/-- **C04 (reload).** `hit_same_question` across cache lives, for the load key function
the source has now: whatever was stored, flushed, dumped and loaded, in whatever order
and into whichever instance, an entry found for `q₂` was stored for the same question
with the same flags. -/
theorem reload_hit_same_question {α} (k : Bytes → Bytes)
    (hk : dumpLoadKey Gen.Facts.c04DumpWritesKey Gen.Facts.c04DumpLoadKeepsKey = some k)
    (s : Store α) (h : Reach k s) (q₂ : Query) (e : Entry α)
    (hl : lookup s q₂ = some e) : SameQuestion e.storedBy q₂ := by
  have hid : k = fun b => b := by
    unfold dumpLoadKey at hk
    split at hk
    · cases hk; rfl
    · cases hk
  subst hid
  exact reload_hit_same_question_id s h q₂ e hl

/-- Why the load key must be the dumped key itself: a loader that guesses the layout
of a key from its bytes re-files entries of well-formed current keys. Witness: the
answer stored for `{a., type A, class 0x0478}` (class high byte = name length + 2) is,
after one dump and load with `upgradeOld`, found for `{x\x02a., type A, class IN}`. -/
def qOddClass : Query := ⟨false, 0, 1, false, false, false, 1, 0x0478, [97, 46]⟩
def qVictim : Query := ⟨false, 0, 1, false, false, false, 1, 1, [0x78, 2, 97, 46]⟩
theorem guessed_layout_is_wrong :
    ∃ (s : Store Nat) (q : Query) (e : Entry Nat), Reach upgradeOld s ∧ lookup s q = some e ∧
      ¬ SameQuestion e.storedBy q := by
  refine ⟨loadDump upgradeOld [] [(msgKey qOddClass, ⟨qOddClass, 7⟩)], qVictim, ⟨qOddClass, 7⟩, ?_, by decide, ?_⟩
  · refine Reach.load [] (step [] (.store qOddClass 7)) _ Reach.fresh (Reach.op [] _ Reach.fresh) ?_
    intro p hp
    simp only [List.mem_singleton] at hp
    subst hp
    decide
  · intro h
    exact absurd h.1 (by decide)

example : lookup (loadDump (fun k => k) [] [(msgKey qOddClass, (⟨qOddClass, 7⟩ : Entry Nat))]) qVictim = none := by decide
example : lookup (loadDump (fun k => k) [] [(msgKey qOddClass, (⟨qOddClass, 7⟩ : Entry Nat))]) qOddClass = some ⟨qOddClass, 7⟩ := by decide

/-! Non-vacuity: concrete cacheable queries; the pre-fix collision pairs now differ. -/
def qA : Query := ⟨false, 0, 1, false, false, false, 1, 1, [3, 119, 119, 119, 0]⟩
def qCAA : Query := { qA with qtype := 257 }
def qCH : Query := { qA with qclass := 3 }
example : cacheable qA = true ∧ cacheable qCAA = true := by decide
example : Gen.getMsgKey qA ≠ Gen.getMsgKey qCAA := by decide
example : Gen.getMsgKey qA ≠ Gen.getMsgKey qCH := by decide
example : lookup ([Op.store qA (7 : Nat)].foldl step []) qA = some ⟨qA, 7⟩ := by decide
example : lookup ([Op.store qA (7 : Nat)].foldl step []) qCAA = none := by decide

/-! ## Chains of plugins with more than one cache plugin

Between two cache plugins of one chain the question may be rewritten, in place
(`redirect`) or on a copy of the context (`prefer_ipv4` / `prefer_ipv6`, `fallback`,
lazy update). `Model.C04.accept` is the trace acceptor the harness replays the
observed store / hit events of such chains on; it is parametric in the key
`Cache.Exec` uses, as a function of the context it is handed. -/

/-- Every remembered answer stems from a store event of the trace so far and sits
under the key of the question that store event saw. -/
def Sound (evs : List Ev) (s : List Rec) : Prop :=
  ∀ r ∈ s, ∃ ctx' : Ctx, Ev.store r.cache ctx' r.val ∈ evs ∧ r.storedBy = ctx'.q ∧
    r.key = msgKey ctx'.q ∧ cacheable ctx'.q = true

theorem accept_sound (keyFn : Ctx → Bytes) (hk : ∀ ctx, keyFn ctx = msgKey ctx.q)
    (done : List Ev) (s s' : List Rec) (e : Ev) (h : Sound done s)
    (ha : accept keyFn s e = some s') : Sound (done ++ [e]) s' := by
  have weaken : ∀ r ∈ s, ∃ ctx' : Ctx, Ev.store r.cache ctx' r.val ∈ done ++ [e] ∧ r.storedBy = ctx'.q ∧
      r.key = msgKey ctx'.q ∧ cacheable ctx'.q = true := by
    intro r hr
    obtain ⟨ctx', h1, h2⟩ := h r hr
    exact ⟨ctx', List.mem_append_left _ h1, h2⟩
  cases e with
  | hit c ctx v =>
    simp only [accept] at ha
    split at ha
    · cases ha; exact weaken
    · cases ha
  | store c ctx v =>
    simp only [accept] at ha
    split at ha
    · cases ha; exact weaken
    · rename_i hne
      cases ha
      intro r hr
      rcases List.mem_cons.mp hr with rfl | hr
      · refine ⟨ctx, by simp, rfl, hk ctx, ?_⟩
        cases hc : cacheable ctx.q
        · exact absurd (by rw [hk ctx]; unfold msgKey; simp [hc]) hne
        · rfl
      · exact weaken r hr

theorem acceptAll_sound (keyFn : Ctx → Bytes) (hk : ∀ ctx, keyFn ctx = msgKey ctx.q)
    (evs : List Ev) : ∀ (done : List Ev) (s s' : List Rec), Sound done s →
      acceptAll keyFn s evs = some s' → Sound (done ++ evs) s' := by
  induction evs with
  | nil => intro done s s' h ha; simp only [acceptAll] at ha; cases ha; simpa using h
  | cons e es ih =>
    intro done s s' h ha
    simp only [acceptAll] at ha
    split at ha
    · rename_i s₁ h₁
      have := ih (done ++ [e]) s₁ s' (accept_sound keyFn hk done s s₁ e h h₁) ha
      simpa [List.append_assoc] using this
    · cases ha

/-- **C04 (chains).** Whatever plugins rewrite the question between the cache
plugins of a chain, and whatever the context carries along: if `Cache.Exec` keys
by the question it is handed, a hit of a cache instance serves an answer that this
instance stored for the same question with the same flags. Over all traces. -/
theorem chain_hit_same_question (keyFn : Ctx → Bytes) (hk : ∀ ctx, keyFn ctx = msgKey ctx.q)
    (evs : List Ev) (s s' : List Rec) (c : Nat) (ctx : Ctx) (v : Nat)
    (h₁ : acceptAll keyFn [] evs = some s) (h₂ : accept keyFn s (.hit c ctx v) = some s') :
    ∃ ctx' : Ctx, Ev.store c ctx' v ∈ evs ∧ SameQuestion ctx'.q ctx.q := by
  have hs : Sound evs s := by
    have := acceptAll_sound keyFn hk evs [] [] s (by intro r hr; cases hr) h₁
    simpa using this
  simp only [accept] at h₂
  split at h₂
  · rename_i hcond
    simp only [Bool.and_eq_true, bne_iff_ne, ne_eq, List.any_eq_true, beq_iff_eq] at hcond
    obtain ⟨hne, r, hr, ⟨hc, hkey⟩, hv⟩ := hcond
    obtain ⟨ctx', hmem, _, hrk, hcache⟩ := hs r hr
    refine ⟨ctx', by rw [← hc, ← hv]; exact hmem, ?_⟩
    have hq : cacheable ctx.q = true := by
      cases hcq : cacheable ctx.q
      · exact absurd (by rw [hk ctx]; unfold msgKey; simp [hcq]) hne
      · rfl
    exact msgKey_injective _ _ hcache hq (by rw [← hrk, hkey, hk ctx])
  · cases h₂

/-- The source says that `Cache.Exec` computes its key from the question of the
context it is handed (`q := qCtx.Q(); msgKey := getMsgKey(q)`) and passes this one
key to every lookup and store; the key function read from the facts is the
regenerated `getMsgKey` of that question. -/
theorem exec_key_of_current_query :
    ∃ k, execKey Gen.Facts.c04ExecKeyOfCurrentQuery Gen.Facts.c04ExecSingleKey = some k ∧
      ∀ ctx : Ctx, k ctx = Gen.getMsgKey ctx.q :=
  ⟨fun ctx => msgKey ctx.q,
    by unfold execKey; exact if_pos (by decide),
    fun ctx => (Refine.C04.getMsgKey_eq ctx.q).symm⟩

/-- `chain_hit_same_question` for the key function the source has now. -/
theorem chain_hit_same_question_gen (k : Ctx → Bytes)
    (hk : execKey Gen.Facts.c04ExecKeyOfCurrentQuery Gen.Facts.c04ExecSingleKey = some k)
    (evs : List Ev) (s s' : List Rec) (c : Nat) (ctx : Ctx) (v : Nat)
    (h₁ : acceptAll k [] evs = some s) (h₂ : accept k s (.hit c ctx v) = some s') :
    ∃ ctx' : Ctx, Ev.store c ctx' v ∈ evs ∧ SameQuestion ctx'.q ctx.q := by
  obtain ⟨k', hk', _⟩ := exec_key_of_current_query
  have hkk : ∀ ctx, k ctx = msgKey ctx.q := by
    intro ctx
    unfold execKey at hk
    split at hk
    · cases hk; rfl
    · cases hk
  exact chain_hit_same_question k hkk evs s s' c ctx v h₁ h₂

/-- Why the key must be a function of the current question only: a key that is
remembered in the context (and so survives `Copy` and a rewritten question) lets
a cache behind a question-rewriting plugin serve the answer of one question to
another. Witness: the A sub-query of an AAAA query stores under the carried AAAA
key; the AAAA query is then served the A answer. -/
def carriedKey (ctx : Ctx) : Bytes := ctx.carried.headD (msgKey ctx.q)
def qAAAA : Query := { qA with qtype := 28 }
theorem carried_key_is_wrong :
    ∃ (evs : List Ev) (s : List Rec) (c : Nat) (ctx : Ctx) (v : Nat),
      acceptAll carriedKey [] evs = some s ∧ accept carriedKey s (.hit c ctx v) = some s ∧
      ∀ ctx' : Ctx, Ev.store c ctx' v ∈ evs → ¬ SameQuestion ctx'.q ctx.q := by
  refine ⟨[.store 1 ⟨qA, [msgKey qAAAA]⟩ 7], [⟨1, msgKey qAAAA, qA, 7⟩], 1, ⟨qAAAA, [msgKey qAAAA]⟩, 7,
    by decide, by decide, ?_⟩
  intro ctx' hmem h
  simp only [List.mem_singleton, Ev.store.injEq, true_and] at hmem
  obtain ⟨rfl, _⟩ := hmem
  exact absurd h.2.1 (by decide)

example : acceptAll (fun ctx => msgKey ctx.q) [] [.store 0 ⟨qAAAA, []⟩ 1, .store 1 ⟨qA, []⟩ 2, .hit 1 ⟨qA, []⟩ 2,
    .hit 0 ⟨qAAAA, []⟩ 1] ≠ none := by decide
example : firstRejected (fun ctx => msgKey ctx.q) [] [.store 1 ⟨qA, []⟩ 2, .hit 1 ⟨qAAAA, []⟩ 2] 0 = some 1 := by decide

/-- **Which responses a cache plugin stores.** The source says that `Cache.Exec`
reads the response of the context directly in front of `next.ExecNext` and stores,
afterwards, only a response that is not that one. So a `store` event stands for an
answer the rest of the sequence produced for the question this cache was handed:
a response that was in the context already (the hit of a cache in front of a
question-rewriting plugin, travelling on because no `[has_resp] accept` follows)
is never stored under this cache's key. -/
theorem exec_stores_only_produced :
    ∃ f, execStores Gen.Facts.c04ExecStoresOnlyNewResponse = some f ∧
      ∀ (before after : Option Nat) (v : Nat), f before after = some v → after = some v ∧ before ≠ some v := by
  refine ⟨_, by unfold execStores; exact if_pos (by decide), ?_⟩
  intro before after v h
  by_cases hab : after = before
  · simp [hab] at h
  · simp [hab] at h
    subst h
    exact ⟨rfl, fun hb => hab hb.symm⟩

/-- The background refresh of a lazy cache (`doLazyUpdate`) walks the rest of the
sequence on a copy of the context, which carries whatever response the context
carried when the stale entry was found (the hit of an earlier cache). The source
says that the refresh follows the same rule as `Exec`, so what it stores under the
stale entry's key was produced by the rest of the sequence for that question. -/
theorem lazy_refresh_stores_only_produced :
    ∃ f, execStores Gen.Facts.c04LazyStoresOnlyNewResponse = some f ∧
      ∀ (before after : Option Nat) (v : Nat), f before after = some v → after = some v ∧ before ≠ some v := by
  refine ⟨_, by unfold execStores; exact if_pos (by decide), ?_⟩
  intro before after v h
  by_cases hab : after = before
  · simp [hab] at h
  · simp [hab] at h
    subst h
    exact ⟨rfl, fun hb => hab hb.symm⟩

/-- Why comparing with the own hit only is not enough: a cache that misses while a
response is already in the context stores that response. -/
theorem own_hit_only_stores_travelling_response :
    ∃ (ownHit before after : Option Nat) (v : Nat),
      execStoresUnlessOwnHit ownHit before after = some v ∧ before = some v :=
  ⟨none, some 1, some 1, 1, by decide, rfl⟩

/-! The dump / load_dump path re-stores entries: it keeps the invariant of `inv_run`
(every stored entry sits under the key of the query it was produced for) exactly
when an entry is written with, and loaded under, its own key - read from the source. -/
theorem facts_guard : Gen.Facts.c04DumpWritesKey = some true ∧ Gen.Facts.c04DumpLoadKeepsKey = some true ∧
    Gen.Facts.c04ExecKeyOfCurrentQuery = some true ∧ Gen.Facts.c04ExecSingleKey = some true ∧
    Gen.Facts.c04ExecStoresOnlyNewResponse = some true ∧ Gen.Facts.c04LazyStoresOnlyNewResponse = some true := by decide

end Props.C04
