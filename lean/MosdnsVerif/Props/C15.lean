import MosdnsVerif.Model.Handler
import MosdnsVerif.Gen.Facts

/-!
# C15 — EDNS0 is terminated, not leaked, between client and upstream
-/
namespace Props.C15
open Model.Handler

def countOpt (l : List RR) : Nat := (l.filter RR.isOpt).length

/-! ### popOpt / swapOpt -/

theorem popOpt_none (l : List RR) : (popOpt l).2 = none ↔ countOpt l = 0 := by
  induction l with
  | nil => simp [popOpt, countOpt]
  | cons r rs ih =>
    simp only [popOpt]
    cases hp : popOpt rs with
    | mk rs' o =>
      rw [hp] at ih
      cases o with
      | some o => cases r <;> simp_all [countOpt, List.filter_cons]
      | none => cases r <;> simp_all [countOpt, List.filter_cons]

/-- `popOpt` removes exactly one OPT (the last) when there is one, and nothing else. -/
theorem popOpt_count (l : List RR) : countOpt (popOpt l).1 = countOpt l - 1 := by
  induction l with
  | nil => simp [popOpt, countOpt]
  | cons r rs ih =>
    simp only [popOpt]
    cases hp : popOpt rs with
    | mk rs' o =>
      rw [hp] at ih
      have hn := popOpt_none rs
      rw [hp] at hn
      cases o with
      | some o =>
        have hpos : 0 < countOpt rs := by
          rcases Nat.eq_zero_or_pos (countOpt rs) with h | h
          · exact absurd (hn.mpr h) (by simp)
          · exact h
        cases r with
        | opt o2 =>
          simp only [countOpt, List.filter_cons, RR.isOpt_opt, if_true, List.length_cons] at ih hpos ⊢
          omega
        | rr n t l d =>
          simp only [countOpt, List.filter_cons, RR.isOpt_rr, Bool.false_eq_true, if_false] at ih hpos ⊢
          omega
      | none =>
        have hz : countOpt rs = 0 := hn.mp rfl
        cases r with
        | opt o2 =>
          simp only [countOpt, List.filter_cons, RR.isOpt_opt, if_true, List.length_cons] at hz ⊢
          omega
        | rr n t l d =>
          simp only [countOpt, List.filter_cons, RR.isOpt_rr, Bool.false_eq_true, if_false] at hz ⊢
          omega

theorem popOpt_nonopt (l : List RR) : (popOpt l).1.filter (fun r => !r.isOpt) = l.filter (fun r => !r.isOpt) := by
  induction l with
  | nil => simp [popOpt]
  | cons r rs ih =>
    simp only [popOpt]
    cases hp : popOpt rs with
    | mk rs' o =>
      rw [hp] at ih
      cases o with
      | some o => cases r <;> simp_all [List.filter_cons]
      | none => cases r <;> simp_all [List.filter_cons]

theorem swapOptAux_none (l : List RR) : swapOptAux l = none ↔ countOpt l = 0 := by
  induction l with
  | nil => simp [swapOptAux, countOpt]
  | cons r rs ih =>
    simp only [swapOptAux]
    cases hp : swapOptAux rs with
    | some p => rw [hp] at ih; cases r <;> simp_all [countOpt, List.filter_cons]
    | none => rw [hp] at ih; cases r <;> simp_all [countOpt, List.filter_cons]

theorem swapOptAux_count (l l' : List RR) (o : Opt) (h : swapOptAux l = some (l', o)) :
    countOpt l' = countOpt l ∧ l'.filter (fun r => !r.isOpt) = l.filter (fun r => !r.isOpt) := by
  induction l generalizing l' o with
  | nil => simp [swapOptAux] at h
  | cons r rs ih =>
    simp only [swapOptAux] at h
    cases hp : swapOptAux rs with
    | some p =>
      obtain ⟨rs', o'⟩ := p
      rw [hp] at h
      simp at h
      obtain ⟨rfl, rfl⟩ := h
      have := ih rs' o' hp
      cases r <;> simp_all [countOpt, List.filter_cons]
    | none =>
      rw [hp] at h
      cases r with
      | opt o2 => simp at h; obtain ⟨rfl, rfl⟩ := h; simp [countOpt, List.filter_cons]
      | rr => simp at h

/-- **The query sent upstream carries exactly one OPT and it is fresh**, for
every valid client query (no OPT / one OPT with any size, DO, version,
options): `NewContext` replaces or adds; every other record is untouched. -/
theorem upstream_one_fresh_opt (q : Msg) (hv : validQuery q = true) :
    countOpt (newContext q).q.extra = 1 ∧
    (∀ o, RR.opt o ∈ (newContext q).q.extra → o = freshOpt) ∧
    (newContext q).q.extra.filter (fun r => !r.isOpt) = q.extra.filter (fun r => !r.isOpt) := by
  have hlen : q.extra.length ≤ 1 := by simp [validQuery] at hv; exact hv.2
  match hq : q.extra, hlen with
  | [], _ => simp [newContext, hq, swapOpt, swapOptAux, countOpt, List.filter_cons]
  | [.opt o], _ => simp [newContext, hq, swapOpt, swapOptAux, countOpt, List.filter_cons]
  | [.rr n t l d], _ => simp [newContext, hq, swapOpt, swapOptAux, countOpt, List.filter_cons]

/-- the fresh OPT carries none of the client's options and DO is clear -/
theorem fresh_is_empty : freshOpt.options = [] ∧ freshOpt.doBit = false ∧ freshOpt.udpSize = 1200 := ⟨rfl, rfl, rfl⟩

/-- The client's OPT is remembered apart from the query, and the response OPT
exists iff the client sent one, with the DO bit mirrored and no options. -/
theorem respOpt_iff (q : Msg) (hv : validQuery q = true) :
    ((newContext q).respOpt.isSome ↔ countOpt q.extra = 1) ∧
    (∀ ro, (newContext q).respOpt = some ro → ro.options = [] ∧
      ∃ co, (newContext q).clientOpt = some co ∧ RR.opt co ∈ q.extra ∧ ro.doBit = co.doBit) := by
  have hlen : q.extra.length ≤ 1 := by simp [validQuery] at hv; exact hv.2
  match hq : q.extra, hlen with
  | [], _ => simp [newContext, hq, swapOpt, swapOptAux, countOpt]
  | [.opt o], _ => simp [newContext, hq, swapOpt, swapOptAux, countOpt, List.filter_cons, freshOpt]
  | [.rr n t l d], _ => simp [newContext, hq, swapOpt, swapOptAux, countOpt, List.filter_cons]

/-- **`SetResponse` strips the upstream's OPT**: a reply with at most one OPT
loses it (it is kept aside as `upstreamOpt`), every other record stays. -/
theorem setResponse_strips (c : Ctx) (m : Msg) (h1 : countOpt m.extra ≤ 1) :
    ∃ r, (c.setResponse (some m)).resp = some r ∧ countOpt r.extra = 0 ∧
      r.extra.filter (fun x => !x.isOpt) = m.extra.filter (fun x => !x.isOpt) ∧
      r.answer = m.answer ∧ r.ns = m.ns ∧
      (c.setResponse (some m)).respOpt = c.respOpt ∧ (c.setResponse (some m)).clientOpt = c.clientOpt := by
  unfold Ctx.setResponse
  refine ⟨_, rfl, ?_, popOpt_nonopt _, rfl, rfl, rfl, rfl⟩
  have := popOpt_count m.extra
  simp only at this ⊢
  omega

/-- What `Handle` attaches: exactly the context's response OPT, after the response. -/
theorem finish_opt (truncate : Msg → Nat → Msg) (c : Ctx) (m : Msg) :
    (finish truncate false c m).extra = m.extra ++ (match c.respOpt with | some o => [.opt o] | none => []) := by
  unfold finish
  cases c.respOpt <;> simp

/-- **The reply carries exactly one OPT iff the client's query had one**, with
the DO bit mirrored, and **none of the upstream's options** - for every
client query, every upstream reply with at most one OPT (any options, any
extended rcode), and every entry that does not forward options explicitly
(it may be any chain that leaves `respOpt`/`clientOpt` alone and sets
responses through `SetResponse`). Stated for the message before truncation
(`Truncate` keeps the OPT: library contract, checked by the correspondence). -/
theorem reply_opt_iff (entry : Ctx → Ctx × Bool) (q : Msg) (hv : validQuery q = true)
    (hkeep : (entry (newContext q)).1.respOpt = (newContext q).respOpt)
    (hstrip : ∀ r, (entry (newContext q)).1.resp = some r → countOpt r.extra = 0)
    (truncate : Msg → Nat → Msg) :
    ∃ r, reply entry truncate false q = some r ∧
      countOpt r.extra = (if countOpt q.extra = 1 then 1 else 0) ∧
      (∀ o, RR.opt o ∈ r.extra → o.options = [] ∧ ∃ co, RR.opt co ∈ q.extra ∧ o.doBit = co.doBit) := by
  obtain ⟨hiff, hro⟩ := respOpt_iff q hv
  unfold reply
  simp only [hv, Bool.not_true, Bool.false_eq_true, if_false]
  refine ⟨_, rfl, ?_⟩
  rw [finish_opt, hkeep]
  have hbase : countOpt (base (entry (newContext q)).1 (entry (newContext q)).2).extra = 0 := by
    unfold base
    split
    · simp [setReply, countOpt]
    · split
      · rename_i r hr; exact hstrip r hr
      · simp [setReply, countOpt]
  have hbase' : ∀ o, RR.opt o ∉ (base (entry (newContext q)).1 (entry (newContext q)).2).extra := by
    intro o ho
    have : RR.opt o ∈ (base (entry (newContext q)).1 (entry (newContext q)).2).extra.filter RR.isOpt :=
      List.mem_filter.mpr ⟨ho, rfl⟩
    unfold countOpt at hbase
    rw [List.length_eq_zero_iff.mp hbase] at this
    cases this
  cases hopt : (newContext q).respOpt with
  | none =>
    have : ¬ countOpt q.extra = 1 := fun h => by simpa [hopt] using hiff.mpr h
    simp only [this, if_false, List.append_nil]
    exact ⟨hbase, fun o ho => absurd ho (hbase' o)⟩
  | some ro =>
    have : countOpt q.extra = 1 := hiff.mp (by simp [hopt])
    simp only [this, if_true]
    constructor
    · simp [countOpt, List.filter_append, List.filter_cons] at hbase ⊢; omega
    · intro o ho
      rcases List.mem_append.mp ho with ho | ho
      · exact absurd ho (hbase' o)
      · simp at ho; subst ho
        obtain ⟨h1, co, _, h3, h4⟩ := hro _ hopt
        exact ⟨h1, co, h3, h4⟩

/-- **A client that did not send an OPT never gets one, extended rcode or not**: under the hypotheses of
`reply_opt_iff`, if the reply carries an extended rcode (above 15: BADVERS, BADCOOKIE, ...) and the client's query
had no OPT, the message is not packable and nothing is sent (rather than an OPT being made up for it). -/
theorem ext_rcode_without_client_opt_is_dropped (entry : Ctx → Ctx × Bool) (q : Msg) (hv : validQuery q = true)
    (hkeep : (entry (newContext q)).1.respOpt = (newContext q).respOpt)
    (hstrip : ∀ r, (entry (newContext q)).1.resp = some r → countOpt r.extra = 0)
    (truncate : Msg → Nat → Msg) (hno : countOpt q.extra ≠ 1) (r : Msg)
    (hr : reply entry truncate false q = some r) (hext : 15 < r.rcode) : packable r = false := by
  obtain ⟨r', hr', hc, _⟩ := reply_opt_iff entry q hv hkeep hstrip truncate
  rw [hr] at hr'
  cases hr'
  simp only [hno, if_false] at hc
  unfold packable Msg.countOpt
  unfold countOpt at hc
  simp [hc]; omega

/-- Locally generated answers and upstream answers (≤ 1 OPT) satisfy the
hypotheses of `reply_opt_iff`; so do cache hits because stored copies contain
no OPT (C05 `stored_no_opt`). -/
theorem upstream_entry_ok (up : Msg → Msg) (hup : ∀ m, countOpt (up m).extra ≤ 1) (c : Ctx) :
    (upstreamAnswer (up c.q) c).respOpt = c.respOpt ∧
    ∀ r, (upstreamAnswer (up c.q) c).resp = some r → countOpt r.extra = 0 := by
  obtain ⟨r, hr, h0, _, _, _, h5, _⟩ := setResponse_strips c (up c.q) (hup c.q)
  refine ⟨h5, ?_⟩
  intro r' hr'
  simp only [upstreamAnswer] at hr'
  rw [hr] at hr'; injection hr' with hr'; subst hr'; exact h0

/-! ### Guards over the regenerated facts -/
theorem facts_guard :
    Gen.Facts.c15NewContextSwapsOpt = some true ∧ Gen.Facts.c15SetResponsePopsOpt = some true ∧
    Gen.Facts.c15RespOptMirrorsDo = some true ∧ Gen.Facts.c15FreshOptShape = some true ∧
    Gen.Facts.c15CopyNoOptDropsOpt = some true ∧ Gen.Facts.c15OnlyEcsForwardsBack = some true := by decide

/-! ### Non-vacuity -/
def clientOpt : Opt := { udpSize := 4096, doBit := true, options := [(10, 1), (8, 2)] }
def upOpt : Opt := { udpSize := 1232, doBit := false, extRcode := 1, options := [(12, 7), (10, 9), (8, 3)] }
def qx : Question := ⟨[97], 1, 1⟩
def q1 : Msg := { id := 5, question := [qx], extra := [.opt clientOpt] }
def up (m : Msg) : Msg := { setReply m with answer := [.rr [97] 1 60 0], extra := [.rr [98] 1 60 1, .opt upOpt] }
example : (newContext q1).q.extra = [.opt freshOpt] := by decide
example : (reply (fun c => (upstreamAnswer (up c.q) c, false)) (fun m _ => m) false q1).map (·.extra) =
    some [.rr [98] 1 60 1, .opt { udpSize := 1200, doBit := true, options := [] }] := by decide
example : (reply (fun c => (upstreamAnswer (up c.q) c, false)) (fun m _ => m) false { q1 with extra := [] }).map (·.extra) =
    some [.rr [98] 1 60 1] := by decide

end Props.C15
