import MosdnsVerif.Model.Handler
import MosdnsVerif.Model.C15
import MosdnsVerif.Gen.Facts

/-!
# C15 — EDNS0 is terminated, not leaked, between client and upstream
-/
namespace Props.C15
open Model.Handler

def countOpt (l : List RR) : Nat := (l.filter RR.isOpt).length

/-! ### popOpt / swapOpt -/

theorem popOpt_none (l : List RR) : (popOpt l).2 = none ↔ countOpt l = 0 := by
  induction l with
  | nil => simp [popOpt, countOpt]
  | cons r rs ih =>
    simp only [popOpt]
    cases hp : popOpt rs with
    | mk rs' o =>
      rw [hp] at ih
      cases o with
      | some o => cases r <;> simp_all [countOpt, List.filter_cons]
      | none => cases r <;> simp_all [countOpt, List.filter_cons]

/-- `popOpt` removes exactly one OPT (the last) when there is one, and nothing else. -/
theorem popOpt_count (l : List RR) : countOpt (popOpt l).1 = countOpt l - 1 := by
  induction l with
  | nil => simp [popOpt, countOpt]
  | cons r rs ih =>
    simp only [popOpt]
    cases hp : popOpt rs with
    | mk rs' o =>
      rw [hp] at ih
      have hn := popOpt_none rs
      rw [hp] at hn
      cases o with
      | some o =>
        have hpos : 0 < countOpt rs := by
          rcases Nat.eq_zero_or_pos (countOpt rs) with h | h
          · exact absurd (hn.mpr h) (by simp)
          · exact h
        cases r with
        | opt o2 =>
          simp only [countOpt, List.filter_cons, RR.isOpt_opt, if_true, List.length_cons] at ih hpos ⊢
          omega
        | rr n t l d =>
          simp only [countOpt, List.filter_cons, RR.isOpt_rr, Bool.false_eq_true, if_false] at ih hpos ⊢
          omega
      | none =>
        have hz : countOpt rs = 0 := hn.mp rfl
        cases r with
        | opt o2 =>
          simp only [countOpt, List.filter_cons, RR.isOpt_opt, if_true, List.length_cons] at hz ⊢
          omega
        | rr n t l d =>
          simp only [countOpt, List.filter_cons, RR.isOpt_rr, Bool.false_eq_true, if_false] at hz ⊢
          omega

theorem popOpt_nonopt (l : List RR) : (popOpt l).1.filter (fun r => !r.isOpt) = l.filter (fun r => !r.isOpt) := by
  induction l with
  | nil => simp [popOpt]
  | cons r rs ih =>
    simp only [popOpt]
    cases hp : popOpt rs with
    | mk rs' o =>
      rw [hp] at ih
      cases o with
      | some o => cases r <;> simp_all [List.filter_cons]
      | none => cases r <;> simp_all [List.filter_cons]

theorem swapOptAux_none (l : List RR) : swapOptAux l = none ↔ countOpt l = 0 := by
  induction l with
  | nil => simp [swapOptAux, countOpt]
  | cons r rs ih =>
    simp only [swapOptAux]
    cases hp : swapOptAux rs with
    | some p => rw [hp] at ih; cases r <;> simp_all [countOpt, List.filter_cons]
    | none => rw [hp] at ih; cases r <;> simp_all [countOpt, List.filter_cons]

theorem swapOptAux_count (l l' : List RR) (o : Opt) (h : swapOptAux l = some (l', o)) :
    countOpt l' = countOpt l ∧ l'.filter (fun r => !r.isOpt) = l.filter (fun r => !r.isOpt) := by
  induction l generalizing l' o with
  | nil => simp [swapOptAux] at h
  | cons r rs ih =>
    simp only [swapOptAux] at h
    cases hp : swapOptAux rs with
    | some p =>
      obtain ⟨rs', o'⟩ := p
      rw [hp] at h
      simp at h
      obtain ⟨rfl, rfl⟩ := h
      have := ih rs' o' hp
      cases r <;> simp_all [countOpt, List.filter_cons]
    | none =>
      rw [hp] at h
      cases r with
      | opt o2 => simp at h; obtain ⟨rfl, rfl⟩ := h; simp [countOpt, List.filter_cons]
      | rr => simp at h

/-- **The query sent upstream carries exactly one OPT and it is fresh**, for
every valid client query (no OPT / one OPT with any size, DO, version,
options): `NewContext` replaces or adds; every other record is untouched. -/
theorem upstream_one_fresh_opt (q : Msg) (hv : validQuery q = true) :
    countOpt (newContext q).q.extra = 1 ∧
    (∀ o, RR.opt o ∈ (newContext q).q.extra → o = freshOpt) ∧
    (newContext q).q.extra.filter (fun r => !r.isOpt) = q.extra.filter (fun r => !r.isOpt) := by
  have hlen : q.extra.length ≤ 1 := by simp [validQuery] at hv; exact hv.2
  match hq : q.extra, hlen with
  | [], _ => simp [newContext, hq, swapOpt, swapOptAux, countOpt, List.filter_cons]
  | [.opt o], _ => simp [newContext, hq, swapOpt, swapOptAux, countOpt, List.filter_cons]
  | [.rr n t l d], _ => simp [newContext, hq, swapOpt, swapOptAux, countOpt, List.filter_cons]

/-- the fresh OPT carries none of the client's options and DO is clear -/
theorem fresh_is_empty : freshOpt.options = [] ∧ freshOpt.doBit = false ∧ freshOpt.udpSize = 1200 := ⟨rfl, rfl, rfl⟩

/-- The client's OPT is remembered apart from the query, and the response OPT
exists iff the client sent one, with the DO bit mirrored and no options. -/
theorem respOpt_iff (q : Msg) (hv : validQuery q = true) :
    ((newContext q).respOpt.isSome ↔ countOpt q.extra = 1) ∧
    (∀ ro, (newContext q).respOpt = some ro → ro.options = [] ∧
      ∃ co, (newContext q).clientOpt = some co ∧ RR.opt co ∈ q.extra ∧ ro.doBit = co.doBit) := by
  have hlen : q.extra.length ≤ 1 := by simp [validQuery] at hv; exact hv.2
  match hq : q.extra, hlen with
  | [], _ => simp [newContext, hq, swapOpt, swapOptAux, countOpt]
  | [.opt o], _ => simp [newContext, hq, swapOpt, swapOptAux, countOpt, List.filter_cons, freshOpt]
  | [.rr n t l d], _ => simp [newContext, hq, swapOpt, swapOptAux, countOpt, List.filter_cons]

/-- **`SetResponse` strips the upstream's OPT**: a reply with at most one OPT
loses it (it is kept aside as `upstreamOpt`), every other record stays. -/
theorem setResponse_strips (c : Ctx) (m : Msg) (h1 : countOpt m.extra ≤ 1) :
    ∃ r, (c.setResponse (some m)).resp = some r ∧ countOpt r.extra = 0 ∧
      r.extra.filter (fun x => !x.isOpt) = m.extra.filter (fun x => !x.isOpt) ∧
      r.answer = m.answer ∧ r.ns = m.ns ∧
      (c.setResponse (some m)).respOpt = c.respOpt ∧ (c.setResponse (some m)).clientOpt = c.clientOpt := by
  unfold Ctx.setResponse
  refine ⟨_, rfl, ?_, popOpt_nonopt _, rfl, rfl, rfl, rfl⟩
  have := popOpt_count m.extra
  simp only at this ⊢
  omega

/-- What `Handle` attaches: exactly the context's response OPT, after the response. -/
theorem finish_opt (truncate : Msg → Nat → Msg) (c : Ctx) (m : Msg) :
    (finish truncate false c m).extra = m.extra ++ (match c.respOpt with | some o => [.opt o] | none => []) := by
  unfold finish
  cases c.respOpt <;> simp

/-- **The reply carries exactly one OPT iff the client's query had one**, with
the DO bit mirrored, and **none of the upstream's options** - for every
client query, every upstream reply with at most one OPT (any options, any
extended rcode), and every entry that does not forward options explicitly
(it may be any chain that leaves `respOpt`/`clientOpt` alone and sets
responses through `SetResponse`). Stated for the message before truncation
(`Truncate` keeps the OPT: library contract, checked by the correspondence). -/
theorem reply_opt_iff (entry : Ctx → Ctx × Bool) (q : Msg) (hv : validQuery q = true)
    (hkeep : (entry (newContext q)).1.respOpt = (newContext q).respOpt)
    (hstrip : ∀ r, (entry (newContext q)).1.resp = some r → countOpt r.extra = 0)
    (truncate : Msg → Nat → Msg) :
    ∃ r, reply entry truncate false q = some r ∧
      countOpt r.extra = (if countOpt q.extra = 1 then 1 else 0) ∧
      (∀ o, RR.opt o ∈ r.extra → o.options = [] ∧ ∃ co, RR.opt co ∈ q.extra ∧ o.doBit = co.doBit) := by
  obtain ⟨hiff, hro⟩ := respOpt_iff q hv
  unfold reply
  simp only [hv, Bool.not_true, Bool.false_eq_true, if_false]
  refine ⟨_, rfl, ?_⟩
  rw [finish_opt, hkeep]
  have hbase : countOpt (base (entry (newContext q)).1 (entry (newContext q)).2).extra = 0 := by
    unfold base
    split
    · simp [setReply, countOpt]
    · split
      · rename_i r hr; exact hstrip r hr
      · simp [setReply, countOpt]
  have hbase' : ∀ o, RR.opt o ∉ (base (entry (newContext q)).1 (entry (newContext q)).2).extra := by
    intro o ho
    have : RR.opt o ∈ (base (entry (newContext q)).1 (entry (newContext q)).2).extra.filter RR.isOpt :=
      List.mem_filter.mpr ⟨ho, rfl⟩
    unfold countOpt at hbase
    rw [List.length_eq_zero_iff.mp hbase] at this
    cases this
  cases hopt : (newContext q).respOpt with
  | none =>
    have : ¬ countOpt q.extra = 1 := fun h => by simpa [hopt] using hiff.mpr h
    simp only [this, if_false, List.append_nil]
    exact ⟨hbase, fun o ho => absurd ho (hbase' o)⟩
  | some ro =>
    have : countOpt q.extra = 1 := hiff.mp (by simp [hopt])
    simp only [this, if_true]
    constructor
    · simp [countOpt, List.filter_append, List.filter_cons] at hbase ⊢; omega
    · intro o ho
      rcases List.mem_append.mp ho with ho | ho
      · exact absurd ho (hbase' o)
      · simp at ho; subst ho
        obtain ⟨h1, co, _, h3, h4⟩ := hro _ hopt
        exact ⟨h1, co, h3, h4⟩

/-- **A client that did not send an OPT never gets one, extended rcode or not**: under the hypotheses of
`reply_opt_iff`, if the reply carries an extended rcode (above 15: BADVERS, BADCOOKIE, ...) and the client's query
had no OPT, the message is not packable and nothing is sent (rather than an OPT being made up for it). -/
theorem ext_rcode_without_client_opt_is_dropped (entry : Ctx → Ctx × Bool) (q : Msg) (hv : validQuery q = true)
    (hkeep : (entry (newContext q)).1.respOpt = (newContext q).respOpt)
    (hstrip : ∀ r, (entry (newContext q)).1.resp = some r → countOpt r.extra = 0)
    (truncate : Msg → Nat → Msg) (hno : countOpt q.extra ≠ 1) (r : Msg)
    (hr : reply entry truncate false q = some r) (hext : 15 < r.rcode) : packable r = false := by
  obtain ⟨r', hr', hc, _⟩ := reply_opt_iff entry q hv hkeep hstrip truncate
  rw [hr] at hr'
  cases hr'
  simp only [hno, if_false] at hc
  unfold packable Msg.countOpt
  unfold countOpt at hc
  simp [hc]; omega

/-- Locally generated answers and upstream answers (≤ 1 OPT) satisfy the
hypotheses of `reply_opt_iff`; so do cache hits because stored copies contain
no OPT (C05 `stored_no_opt`). -/
theorem upstream_entry_ok (up : Msg → Msg) (hup : ∀ m, countOpt (up m).extra ≤ 1) (c : Ctx) :
    (upstreamAnswer (up c.q) c).respOpt = c.respOpt ∧
    ∀ r, (upstreamAnswer (up c.q) c).resp = some r → countOpt r.extra = 0 := by
  obtain ⟨r, hr, h0, _, _, _, h5, _⟩ := setResponse_strips c (up c.q) (hup c.q)
  refine ⟨h5, ?_⟩
  intro r' hr'
  simp only [upstreamAnswer] at hr'
  rw [hr] at hr'; injection hr' with hr'; subst hr'; exact h0

/-! ### The cache entry across transactions (chains of forward_edns0opt / ttl around a cache) -/
section CacheLife
open Model.C15

/-- **`copyNoOpt` always returns a new message** (regenerated fact): the entry is never the live response. -/
theorem copyAliases_never : copyAliases = fun _ => false := by
  funext _; unfold copyAliases; decide

theorem copyNoOpt_count (m : Msg) : countOpt (copyNoOpt m).extra = 0 := by
  simp [copyNoOpt, countOpt, List.filter_filter]

theorem exec_slot_ok (up : Up) (ps : List Plugin) (c : Ctx) (s : Slot) (hs : s.ok) :
    (exec (fun _ => false) up ps c s).slot.ok := by
  induction ps generalizing c with
  | nil => unfold exec; split <;> exact hs
  | cons p ps ih =>
    cases p with
    | ttl => simp only [exec]; exact ih c
    | fwd codes =>
      simp only [exec]
      split
      · exact ih _
      · exact ih _
    | cache =>
      simp only [exec]
      split
      · split
        · have := copyNoOpt_count
          simp only [countOpt] at this
          simp [Slot.ok, this]
        · exact ih _
      · exact ih _

/-- **Cached answers never contain an OPT**: whatever the chain (forwarders and ttl in any order around the cache),
the client's query, the upstream's outcome and OPT, every transaction through `Handle` leaves an entry without OPT
behind - with `copyNoOpt` as regenerated (`copyAliases`). -/
theorem cached_never_contains_opt (chain : List Plugin) (up : Up) (q : Msg) (s : Slot) (hs : s.ok) :
    (transact copyAliases chain up q s).slot.ok := by
  rw [copyAliases_never]
  unfold transact
  split
  · exact hs
  · have h := exec_slot_ok up chain (newContext q) s hs
    generalize exec (fun _ => false) up chain (newContext q) s = R at h ⊢
    cases hsl : R.slot with
    | empty => simp only [hsl]; trivial
    | own m => rw [hsl] at h; simp only [hsl]; exact h
    | live => rw [hsl] at h; exact absurd h (by simp [Slot.ok])

/-- Why the fact is needed: if `copyNoOpt` handed back its argument when there is no OPT to strip, the entry filled by
an EDNS0 client would contain that client's response OPT once `Handle` is done with the response, and the next client
served from the cache through a forwarding plugin would be sent the first exchange's cookie. -/
def leakAliases : Msg → Bool := fun m => countOpt m.extra == 0
def leakChain : List Plugin := [.fwd [10], .cache]
def leakQ1 : Msg := { id := 1, question := [⟨[97], 1, 1⟩], extra := [.opt { udpSize := 1232, doBit := false, options := [(10, 1)] }] }
def leakQ2 : Msg := { id := 2, question := [⟨[97], 1, 1⟩], extra := [.opt { udpSize := 512, doBit := true, options := [] }] }
def leakT1 : Tx := transact leakAliases leakChain (.ans 0 1 [.opt { udpSize := 1232, doBit := false, options := [(10, 77)] }]) leakQ1 .empty
def leakT2 : Tx := transact leakAliases leakChain .none leakQ2 leakT1.slot
def replyOptions (t : Tx) : Option (List (List (Nat × Nat))) :=
  t.reply.map (fun r => r.extra.filterMap (fun x => match x with | .opt o => some o.options | _ => none))

theorem alias_leaks : ¬ leakT1.slot.ok ∧ replyOptions leakT2 = some [[(10, 77)]] := by
  decide

/-- the same two exchanges with `copyNoOpt` as regenerated: a clean entry, and the second client gets a bare OPT -/
example : (transact copyAliases leakChain (.ans 0 1 [.opt { udpSize := 1232, doBit := false, options := [(10, 77)] }]) leakQ1 .empty).slot.ok ∧
    replyOptions (transact copyAliases leakChain .none leakQ2
      (transact copyAliases leakChain (.ans 0 1 [.opt { udpSize := 1232, doBit := false, options := [(10, 77)] }]) leakQ1 .empty).slot) = some [[]] ∧
    replyOptions (transact copyAliases leakChain (.ans 0 1 [.opt { udpSize := 1232, doBit := false, options := [(10, 77)] }]) leakQ1 .empty) = some [[(10, 77)]] := by
  decide

/-- what holds of a context while the chain runs: no OPT in the response, the upstream OPT is the one of this
exchange's upstream answer, and every option of the response OPT was forwarded explicitly from it -/
structure Inv (ex : List RR) (codes : List Nat) (c : Ctx) : Prop where
  resp : ∀ r, c.resp = some r → countOpt r.extra = 0
  upo : ∀ o, c.upstreamOpt = some o → RR.opt o ∈ ex
  ro : ∀ ro, c.respOpt = some ro → ∀ p ∈ ro.options, p.1 ∈ codes ∧ ∃ uo, RR.opt uo ∈ ex ∧ p ∈ uo.options

theorem popOpt_mem (l : List RR) (o : Opt) (h : (popOpt l).2 = some o) : RR.opt o ∈ l := by
  induction l with
  | nil => simp [popOpt] at h
  | cons r rs ih =>
    simp only [popOpt] at h
    cases hp : popOpt rs with
    | mk rs' o' =>
      rw [hp] at h ih
      cases o' with
      | some o2 => simp at h; subst h; exact List.mem_cons_of_mem _ (ih rfl)
      | none =>
        cases r with
        | opt o3 => simp at h; subst h; simp
        | rr => simp at h

theorem setResponse_inv (ex : List RR) (codes : List Nat) (c : Ctx) (m : Msg) (hc : Inv ex codes c)
    (hm : countOpt m.extra ≤ 1) (hsub : ∀ o, RR.opt o ∈ m.extra → RR.opt o ∈ ex) :
    Inv ex codes (c.setResponse (some m)) := by
  refine ⟨?_, ?_, ?_⟩
  · intro r hr
    simp only [Ctx.setResponse] at hr
    injection hr with hr; subst hr
    have := popOpt_count m.extra
    simp only at this ⊢
    omega
  · intro o ho
    simp only [Ctx.setResponse] at ho
    exact hsub o (popOpt_mem _ _ ho)
  · intro ro hro
    simp only [Ctx.setResponse] at hro
    exact hc.ro ro hro

theorem fwdBack_resp (cs : List Nat) (c : Ctx) : (fwdBack cs c).resp = c.resp ∧ (fwdBack cs c).upstreamOpt = c.upstreamOpt := by
  unfold fwdBack; split <;> exact ⟨rfl, rfl⟩

theorem mem_plugCodes_cons (p : Plugin) (ps : List Plugin) (x : Nat) (h : x ∈ plugCodes ps) : x ∈ plugCodes (p :: ps) := by
  cases p <;> simp [plugCodes, h]

theorem exec_inv (up : Up) (codes : List Nat) (hex : countOpt up.extra ≤ 1) (ps : List Plugin)
    (hps : ∀ x ∈ plugCodes ps, x ∈ codes) (c : Ctx) (s : Slot) (hs : s.ok) (hc : Inv up.extra codes c) :
    Inv up.extra codes (exec (fun _ => false) up ps c s).c := by
  induction ps generalizing c with
  | nil =>
    unfold exec
    split
    · exact hc
    · exact setResponse_inv _ _ _ _ hc hex (fun o h => h)
    · exact hc
    · exact hc
  | cons p ps ih =>
    have hps' : ∀ x ∈ plugCodes ps, x ∈ codes := fun x hx => hps x (mem_plugCodes_cons p ps x hx)
    cases p with
    | ttl => simp only [exec]; exact ih hps' c hc
    | fwd cs =>
      have hq : Inv up.extra codes (addQOpts cs c) := by
        unfold addQOpts
        split
        · exact hc
        · exact ⟨hc.resp, hc.upo, hc.ro⟩
      have h1 := ih hps' (addQOpts cs c) hq
      simp only [exec]
      split
      · exact h1
      · refine ⟨?_, ?_, ?_⟩
        · intro r hr
          simp only [(fwdBack_resp cs _).1] at hr
          exact h1.resp r hr
        · intro o ho
          simp only [(fwdBack_resp cs _).2] at ho
          exact h1.upo o ho
        · intro ro hro p hp
          unfold fwdBack at hro
          split at hro
          · rename_i uo ro0 huo hro0
            simp only at hro
            injection hro with hro; subst hro
            simp only [List.mem_append, List.mem_filter] at hp
            rcases hp with hp | ⟨hp, hcode⟩
            · exact h1.ro ro0 hro0 p hp
            · refine ⟨hps p.1 ?_, uo, h1.upo uo huo, hp⟩
              have : p.1 ∈ cs := by simpa using hcode
              simp [plugCodes, this]
          · exact h1.ro ro hro p hp
    | cache =>
      have hin : Inv up.extra codes (match (match s with | Slot.own m => some m | _ => none) with
          | some m => cacheHit m c | none => c) := by
        cases s with
        | empty => exact hc
        | live => exact hc
        | own m =>
          have hm : countOpt m.extra = 0 := hs
          refine setResponse_inv _ _ _ _ hc (by simp only [countOpt] at hm ⊢; omega) ?_
          intro o ho
          have : RR.opt o ∈ m.extra.filter RR.isOpt := List.mem_filter.mpr ⟨ho, rfl⟩
          unfold countOpt at hm
          rw [List.length_eq_zero_iff.mp hm] at this
          cases this
      have h1 := ih hps' _ hin
      simp only [exec]
      split
      · split
        · exact h1
        · exact h1
      · exact h1

theorem exec_respOpt (aliases : Msg → Bool) (up : Up) (ps : List Plugin) (c : Ctx) (s : Slot) :
    (exec aliases up ps c s).c.respOpt.map (·.doBit) = c.respOpt.map (·.doBit) := by
  induction ps generalizing c with
  | nil => unfold exec; split <;> simp [upstreamAnswer, Ctx.setResponse]
  | cons p ps ih =>
    cases p with
    | ttl => simp only [exec]; exact ih c
    | fwd cs =>
      have hq : (addQOpts cs c).respOpt = c.respOpt := by unfold addQOpts; split <;> rfl
      simp only [exec]
      split
      · rw [ih, hq]
      · rw [← hq, ← ih (addQOpts cs c)]
        simp only
        unfold fwdBack
        split
        · rename_i uo ro huo hro; simp [hro]
        · rfl
    | cache =>
      simp only [exec]
      have hh : ∀ m, (cacheHit m c).respOpt = c.respOpt := by
        intro m; simp [cacheHit, Ctx.setResponse]
      cases s with
      | own m =>
        simp only [exec]
        rw [ih, hh]
      | empty =>
        simp only [exec]
        split
        · split <;> rw [ih]
        · rw [ih]
      | live =>
        simp only [exec]
        split
        · split <;> rw [ih]
        · rw [ih]

/-- **The reply carries exactly one OPT iff the client's query had one, DO mirrored, and every option in it was
forwarded explicitly (its code is listed by a forward_edns0opt plugin of the chain) from the OPT of the upstream
answer of this very exchange** - for every chain of forwarders / ttl around a cache, whatever the cache holds
(an entry without OPT, which `cached_never_contains_opt` maintains), every client query and every upstream outcome
with at most one OPT. In particular nothing of an earlier exchange comes back, and when the upstream gave no OPT
(or no answer) the reply's OPT has no options. -/
theorem reply_opt_this_exchange (chain : List Plugin) (up : Up) (q : Msg) (s : Slot)
    (hv : validQuery q = true) (hs : s.ok) (hex : countOpt up.extra ≤ 1) :
    ∃ r, (transact copyAliases chain up q s).reply = some r ∧
      countOpt r.extra = (if countOpt q.extra = 1 then 1 else 0) ∧
      ∀ o, RR.opt o ∈ r.extra → (∃ co, RR.opt co ∈ q.extra ∧ o.doBit = co.doBit) ∧
        ∀ p ∈ o.options, p.1 ∈ plugCodes chain ∧ ∃ uo, RR.opt uo ∈ up.extra ∧ p ∈ uo.options := by
  obtain ⟨hiff, hro⟩ := respOpt_iff q hv
  rw [copyAliases_never]
  unfold transact
  simp only [hv, Bool.not_true, Bool.false_eq_true, if_false]
  refine ⟨_, rfl, ?_⟩
  have h0 : Inv up.extra (plugCodes chain) (newContext q) := by
    refine ⟨?_, ?_, ?_⟩
    · intro r hr; simp [newContext] at hr
    · intro o ho; simp [newContext] at ho
    · intro ro hr p hp
      rw [(hro ro hr).1] at hp; cases hp
  have hI := exec_inv up (plugCodes chain) hex chain (fun x hx => hx) (newContext q) s hs h0
  have hD := exec_respOpt (fun _ => false) up chain (newContext q) s
  generalize exec (fun _ => false) up chain (newContext q) s = R at hI hD
  rw [finish_opt]
  have hbase : countOpt (base R.c R.failed).extra = 0 := by
    unfold base
    split
    · simp [setReply, countOpt]
    · split
      · rename_i r hr; exact hI.resp r hr
      · simp [setReply, countOpt]
  have hbase' : ∀ o, RR.opt o ∉ (base R.c R.failed).extra := by
    intro o ho
    have : RR.opt o ∈ (base R.c R.failed).extra.filter RR.isOpt := List.mem_filter.mpr ⟨ho, rfl⟩
    unfold countOpt at hbase
    rw [List.length_eq_zero_iff.mp hbase] at this
    cases this
  cases hR : R.c.respOpt with
  | none =>
    rw [hR] at hD
    have hn : (newContext q).respOpt = none := by
      cases h : (newContext q).respOpt with
      | none => rfl
      | some x => rw [h] at hD; simp at hD
    have : ¬ countOpt q.extra = 1 := fun h => by simpa [hn] using hiff.mpr h
    simp only [this, if_false, List.append_nil]
    exact ⟨hbase, fun o ho => absurd ho (hbase' o)⟩
  | some ro =>
    rw [hR] at hD
    cases hN : (newContext q).respOpt with
    | none => rw [hN] at hD; simp at hD
    | some ro0 =>
      rw [hN] at hD
      have hdo : ro.doBit = ro0.doBit := by simpa using hD
      have : countOpt q.extra = 1 := hiff.mp (by simp [hN])
      simp only [this, if_true]
      constructor
      · simp [countOpt, List.filter_append, List.filter_cons] at hbase ⊢; omega
      · intro o ho
        rcases List.mem_append.mp ho with ho | ho
        · exact absurd ho (hbase' o)
        · simp at ho; subst ho
          obtain ⟨_, co, _, h3, h4⟩ := hro _ hN
          exact ⟨⟨co, h3, by rw [hdo, h4]⟩, hI.ro _ hR⟩

end CacheLife

/-! ### Guards over the regenerated facts -/
theorem facts_guard :
    Gen.Facts.c15NewContextSwapsOpt = some true ∧ Gen.Facts.c15SetResponsePopsOpt = some true ∧
    Gen.Facts.c15RespOptMirrorsDo = some true ∧ Gen.Facts.c15FreshOptShape = some true ∧
    Gen.Facts.c15CopyNoOptDropsOpt = some true ∧ Gen.Facts.c15OnlyEcsForwardsBack = some true ∧
    Gen.Facts.c15CopyNoOptAliasPaths = some 0 ∧ Gen.Facts.c10StoreCopies = some true := by decide

/-! ### Non-vacuity -/
def clientOpt : Opt := { udpSize := 4096, doBit := true, options := [(10, 1), (8, 2)] }
def upOpt : Opt := { udpSize := 1232, doBit := false, extRcode := 1, options := [(12, 7), (10, 9), (8, 3)] }
def qx : Question := ⟨[97], 1, 1⟩
def q1 : Msg := { id := 5, question := [qx], extra := [.opt clientOpt] }
def up (m : Msg) : Msg := { setReply m with answer := [.rr [97] 1 60 0], extra := [.rr [98] 1 60 1, .opt upOpt] }
example : (newContext q1).q.extra = [.opt freshOpt] := by decide
example : (reply (fun c => (upstreamAnswer (up c.q) c, false)) (fun m _ => m) false q1).map (·.extra) =
    some [.rr [98] 1 60 1, .opt { udpSize := 1200, doBit := true, options := [] }] := by decide
example : (reply (fun c => (upstreamAnswer (up c.q) c, false)) (fun m _ => m) false { q1 with extra := [] }).map (·.extra) =
    some [.rr [98] 1 60 1] := by decide

end Props.C15
