import MosdnsVerif.Model.Handler
import MosdnsVerif.Model.C15
import MosdnsVerif.Gen.Facts

/-!
# C15 — EDNS0 is terminated, not leaked, between client and upstream
-/
namespace Props.C15
open Model.Handler

def countOpt (l : List RR) : Nat := (l.filter RR.isOpt).length

/-! ### popOpt / swapOpt -/

theorem popOpt_none (l : List RR) : (popOpt l).2 = none ↔ countOpt l = 0 := by
  induction l with
  | nil => simp [popOpt, countOpt]
  | cons r rs ih =>
    simp only [popOpt]
    cases hp : popOpt rs with
    | mk rs' o =>
      rw [hp] at ih
      cases o with
      | some o => cases r <;> simp_all [countOpt, List.filter_cons]
      | none => cases r <;> simp_all [countOpt, List.filter_cons]

/-- `popOpt` removes exactly one OPT (the last) when there is one, and nothing else. -/
theorem popOpt_count (l : List RR) : countOpt (popOpt l).1 = countOpt l - 1 := by
  induction l with
  | nil => simp [popOpt, countOpt]
  | cons r rs ih =>
    simp only [popOpt]
    cases hp : popOpt rs with
    | mk rs' o =>
      rw [hp] at ih
      have hn := popOpt_none rs
      rw [hp] at hn
      cases o with
      | some o =>
        have hpos : 0 < countOpt rs := by
          rcases Nat.eq_zero_or_pos (countOpt rs) with h | h
          · exact absurd (hn.mpr h) (by simp)
          · exact h
        cases r with
        | opt o2 =>
          simp only [countOpt, List.filter_cons, RR.isOpt_opt, if_true, List.length_cons] at ih hpos ⊢
          omega
        | rr n t l d =>
          simp only [countOpt, List.filter_cons, RR.isOpt_rr, Bool.false_eq_true, if_false] at ih hpos ⊢
          omega
      | none =>
        have hz : countOpt rs = 0 := hn.mp rfl
        cases r with
        | opt o2 =>
          simp only [countOpt, List.filter_cons, RR.isOpt_opt, if_true, List.length_cons] at hz ⊢
          omega
        | rr n t l d =>
          simp only [countOpt, List.filter_cons, RR.isOpt_rr, Bool.false_eq_true, if_false] at hz ⊢
          omega

theorem popOpt_nonopt (l : List RR) : (popOpt l).1.filter (fun r => !r.isOpt) = l.filter (fun r => !r.isOpt) := by
  induction l with
  | nil => simp [popOpt]
  | cons r rs ih =>
    simp only [popOpt]
    cases hp : popOpt rs with
    | mk rs' o =>
      rw [hp] at ih
      cases o with
      | some o => cases r <;> simp_all [List.filter_cons]
      | none => cases r <;> simp_all [List.filter_cons]

theorem swapOptAux_none (l : List RR) : swapOptAux l = none ↔ countOpt l = 0 := by
  induction l with
  | nil => simp [swapOptAux, countOpt]
  | cons r rs ih =>
    simp only [swapOptAux]
    cases hp : swapOptAux rs with
    | some p => rw [hp] at ih; cases r <;> simp_all [countOpt, List.filter_cons]
    | none => rw [hp] at ih; cases r <;> simp_all [countOpt, List.filter_cons]

theorem swapOptAux_count (l l' : List RR) (o : Opt) (h : swapOptAux l = some (l', o)) :
    countOpt l' = countOpt l ∧ l'.filter (fun r => !r.isOpt) = l.filter (fun r => !r.isOpt) := by
  induction l generalizing l' o with
  | nil => simp [swapOptAux] at h
  | cons r rs ih =>
    simp only [swapOptAux] at h
    cases hp : swapOptAux rs with
    | some p =>
      obtain ⟨rs', o'⟩ := p
      rw [hp] at h
      simp at h
      obtain ⟨rfl, rfl⟩ := h
      have := ih rs' o' hp
      cases r <;> simp_all [countOpt, List.filter_cons]
    | none =>
      rw [hp] at h
      cases r with
      | opt o2 => simp at h; obtain ⟨rfl, rfl⟩ := h; simp [countOpt, List.filter_cons]
      | rr => simp at h

/-- **The query sent upstream carries exactly one OPT and it is fresh**, for
every valid client query (no OPT / one OPT with any size, DO, version,
options): `NewContext` replaces or adds; every other record is untouched. -/
theorem upstream_one_fresh_opt (q : Msg) (hv : validQuery q = true) :
    countOpt (newContext q).q.extra = 1 ∧
    (∀ o, RR.opt o ∈ (newContext q).q.extra → o = freshOpt) ∧
    (newContext q).q.extra.filter (fun r => !r.isOpt) = q.extra.filter (fun r => !r.isOpt) := by
  have hlen : q.extra.length ≤ 1 := by simp [validQuery] at hv; exact hv.2
  match hq : q.extra, hlen with
  | [], _ => simp [newContext, hq, swapOpt, swapOptAux, countOpt, List.filter_cons]
  | [.opt o], _ => simp [newContext, hq, swapOpt, swapOptAux, countOpt, List.filter_cons]
  | [.rr n t l d], _ => simp [newContext, hq, swapOpt, swapOptAux, countOpt, List.filter_cons]

/-- the fresh OPT carries none of the client's options and DO is clear -/
theorem fresh_is_empty : freshOpt.options = [] ∧ freshOpt.doBit = false ∧ freshOpt.udpSize = 1200 := ⟨rfl, rfl, rfl⟩

/-- The client's OPT is remembered apart from the query, and the response OPT
exists iff the client sent one, with the DO bit mirrored and no options. -/
theorem respOpt_iff (q : Msg) (hv : validQuery q = true) :
    ((newContext q).respOpt.isSome ↔ countOpt q.extra = 1) ∧
    (∀ ro, (newContext q).respOpt = some ro → ro.options = [] ∧
      ∃ co, (newContext q).clientOpt = some co ∧ RR.opt co ∈ q.extra ∧ ro.doBit = co.doBit) := by
  have hlen : q.extra.length ≤ 1 := by simp [validQuery] at hv; exact hv.2
  match hq : q.extra, hlen with
  | [], _ => simp [newContext, hq, swapOpt, swapOptAux, countOpt]
  | [.opt o], _ => simp [newContext, hq, swapOpt, swapOptAux, countOpt, List.filter_cons, freshOpt]
  | [.rr n t l d], _ => simp [newContext, hq, swapOpt, swapOptAux, countOpt, List.filter_cons]

/-- **`SetResponse` strips the upstream's OPT**: a reply with at most one OPT
loses it (it is kept aside as `upstreamOpt`), every other record stays. -/
theorem setResponse_strips (c : Ctx) (m : Msg) (h1 : countOpt m.extra ≤ 1) :
    ∃ r, (c.setResponse (some m)).resp = some r ∧ countOpt r.extra = 0 ∧
      r.extra.filter (fun x => !x.isOpt) = m.extra.filter (fun x => !x.isOpt) ∧
      r.answer = m.answer ∧ r.ns = m.ns ∧
      (c.setResponse (some m)).respOpt = c.respOpt ∧ (c.setResponse (some m)).clientOpt = c.clientOpt := by
  unfold Ctx.setResponse
  refine ⟨_, rfl, ?_, popOpt_nonopt _, rfl, rfl, rfl, rfl⟩
  have := popOpt_count m.extra
  simp only at this ⊢
  omega

/-- What `Handle` attaches: exactly the context's response OPT, after the response. -/
theorem finish_opt (truncate : Msg → Nat → Msg) (c : Ctx) (m : Msg) :
    (finish truncate false c m).extra = m.extra ++ (match c.respOpt with | some o => [.opt o] | none => []) := by
  unfold finish
  cases c.respOpt <;> simp

/-- **The reply carries exactly one OPT iff the client's query had one**, with
the DO bit mirrored, and **none of the upstream's options** - for every
client query, every upstream reply with at most one OPT (any options, any
extended rcode), and every entry that does not forward options explicitly
(it may be any chain that leaves `respOpt`/`clientOpt` alone and sets
responses through `SetResponse`). Stated for the message before truncation
(`Truncate` keeps the OPT: library contract, checked by the correspondence). -/
theorem reply_opt_iff (entry : Ctx → Ctx × Bool) (q : Msg) (hv : validQuery q = true)
    (hkeep : (entry (newContext q)).1.respOpt = (newContext q).respOpt)
    (hstrip : ∀ r, (entry (newContext q)).1.resp = some r → countOpt r.extra = 0)
    (truncate : Msg → Nat → Msg) :
    ∃ r, reply entry truncate false q = some r ∧
      countOpt r.extra = (if countOpt q.extra = 1 then 1 else 0) ∧
      (∀ o, RR.opt o ∈ r.extra → o.options = [] ∧ ∃ co, RR.opt co ∈ q.extra ∧ o.doBit = co.doBit) := by
  obtain ⟨hiff, hro⟩ := respOpt_iff q hv
  unfold reply
  simp only [hv, Bool.not_true, Bool.false_eq_true, if_false]
  refine ⟨_, rfl, ?_⟩
  rw [finish_opt, hkeep]
  have hbase : countOpt (base (entry (newContext q)).1 (entry (newContext q)).2).extra = 0 := by
    unfold base
    split
    · simp [setReply, countOpt]
    · split
      · rename_i r hr; exact hstrip r hr
      · simp [setReply, countOpt]
  have hbase' : ∀ o, RR.opt o ∉ (base (entry (newContext q)).1 (entry (newContext q)).2).extra := by
    intro o ho
    have : RR.opt o ∈ (base (entry (newContext q)).1 (entry (newContext q)).2).extra.filter RR.isOpt :=
      List.mem_filter.mpr ⟨ho, rfl⟩
    unfold countOpt at hbase
    rw [List.length_eq_zero_iff.mp hbase] at this
    cases this
  cases hopt : (newContext q).respOpt with
  | none =>
    have : ¬ countOpt q.extra = 1 := fun h => by simpa [hopt] using hiff.mpr h
    simp only [this, if_false, List.append_nil]
    exact ⟨hbase, fun o ho => absurd ho (hbase' o)⟩
  | some ro =>
    have : countOpt q.extra = 1 := hiff.mp (by simp [hopt])
    simp only [this, if_true]
    constructor
    · simp [countOpt, List.filter_append, List.filter_cons] at hbase ⊢; omega
    · intro o ho
      rcases List.mem_append.mp ho with ho | ho
      · exact absurd ho (hbase' o)
      · simp at ho; subst ho
        obtain ⟨h1, co, _, h3, h4⟩ := hro _ hopt
        exact ⟨h1, co, h3, h4⟩

/-- **A client that did not send an OPT never gets one, extended rcode or not**: under the hypotheses of
`reply_opt_iff`, if the reply carries an extended rcode (above 15: BADVERS, BADCOOKIE, ...) and the client's query
had no OPT, the message is not packable and nothing is sent (rather than an OPT being made up for it). -/
theorem ext_rcode_without_client_opt_is_dropped (entry : Ctx → Ctx × Bool) (q : Msg) (hv : validQuery q = true)
    (hkeep : (entry (newContext q)).1.respOpt = (newContext q).respOpt)
    (hstrip : ∀ r, (entry (newContext q)).1.resp = some r → countOpt r.extra = 0)
    (truncate : Msg → Nat → Msg) (hno : countOpt q.extra ≠ 1) (r : Msg)
    (hr : reply entry truncate false q = some r) (hext : 15 < r.rcode) : packable r = false := by
  obtain ⟨r', hr', hc, _⟩ := reply_opt_iff entry q hv hkeep hstrip truncate
  rw [hr] at hr'
  cases hr'
  simp only [hno, if_false] at hc
  unfold packable Msg.countOpt
  unfold countOpt at hc
  simp [hc]; omega

/-- Locally generated answers and upstream answers (≤ 1 OPT) satisfy the
hypotheses of `reply_opt_iff`; so do cache hits because stored copies contain
no OPT (C05 `stored_no_opt`). -/
theorem upstream_entry_ok (up : Msg → Msg) (hup : ∀ m, countOpt (up m).extra ≤ 1) (c : Ctx) :
    (upstreamAnswer (up c.q) c).respOpt = c.respOpt ∧
    ∀ r, (upstreamAnswer (up c.q) c).resp = some r → countOpt r.extra = 0 := by
  obtain ⟨r, hr, h0, _, _, _, h5, _⟩ := setResponse_strips c (up c.q) (hup c.q)
  refine ⟨h5, ?_⟩
  intro r' hr'
  simp only [upstreamAnswer] at hr'
  rw [hr] at hr'; injection hr' with hr'; subst hr'; exact h0

/-! ### The cache entry across transactions (chains of forward_edns0opt / ecs_handler / ttl around a cache) -/
section CacheLife
open Model.C15

/-- **The regenerated facts are the ones the theorems need**: `copyNoOpt` always returns a new message (the entry is
never the live response), `addECS` reports "forwarded" only when the client's own option went upstream, and a context
copy has a response OPT of its own. -/
theorem genCode_clean : genCode = clean := by
  have h1 : copyAliases = fun _ => false := by funext _; unfold copyAliases; decide
  have h2 : ecsLoose = false := by unfold ecsLoose; decide
  have h3 : copyShares = false := by unfold copyShares; decide
  unfold genCode clean; rw [h1, h2, h3]

theorem copyNoOpt_count (m : Msg) : countOpt (copyNoOpt m).extra = 0 := by
  simp [copyNoOpt, countOpt, List.filter_filter]

theorem exec_slot_ok (up : Up) (ps : List Plugin) (c : Ctx) (s : Slot) (hs : s.ok) :
    (exec clean up ps c s).slot.ok := by
  induction ps generalizing c with
  | nil => unfold exec; split <;> exact hs
  | cons p ps ih =>
    cases p with
    | ttl => simp only [exec]; exact ih c
    | fwd codes =>
      simp only [exec]
      split
      · exact ih _
      · exact ih _
    | ecs fw own =>
      simp only [exec]
      split
      · exact ih _
      · split
        · exact ih _
        · exact ih _
    | cache =>
      simp only [exec]
      split
      · split
        · have := copyNoOpt_count
          simp only [countOpt] at this
          simp [Slot.ok, this, clean]
        · exact ih _
      · exact ih _

/-- **Cached answers never contain an OPT**: whatever the chain (forwarders, ecs_handler and ttl in any order around
the cache), the client's query, the upstream's outcome and OPT, every transaction through `Handle` leaves an entry
without OPT behind - with `copyNoOpt` as regenerated (`genCode`). -/
theorem cached_never_contains_opt (chain : List Plugin) (up : Up) (q : Msg) (s : Slot) (hs : s.ok) :
    (transact genCode chain up q s).slot.ok := by
  rw [genCode_clean]
  unfold transact
  split
  · exact hs
  · have h := exec_slot_ok up chain (newContext q) s hs
    generalize exec clean up chain (newContext q) s = R at h ⊢
    cases hsl : R.slot with
    | empty => simp only [hsl]; trivial
    | own m => rw [hsl] at h; simp only [hsl]; exact h
    | live => rw [hsl] at h; exact absurd h (by simp [Slot.ok])

/-- Why the fact is needed: if `copyNoOpt` handed back its argument when there is no OPT to strip, the entry filled by
an EDNS0 client would contain that client's response OPT once `Handle` is done with the response, and the next client
served from the cache through a forwarding plugin would be sent the first exchange's cookie. -/
def leakCode : Code := { clean with aliases := fun m => countOpt m.extra == 0 }
def leakChain : List Plugin := [.fwd [10], .cache]
def leakQ1 : Msg := { id := 1, question := [⟨[97], 1, 1⟩], extra := [.opt { udpSize := 1232, doBit := false, options := [(10, 1)] }] }
def leakQ2 : Msg := { id := 2, question := [⟨[97], 1, 1⟩], extra := [.opt { udpSize := 512, doBit := true, options := [] }] }
def leakT1 : Tx := transact leakCode leakChain (.ans 0 1 [.opt { udpSize := 1232, doBit := false, options := [(10, 77)] }]) leakQ1 .empty
def leakT2 : Tx := transact leakCode leakChain .none leakQ2 leakT1.slot
def replyOptions (t : Tx) : Option (List (List (Nat × Nat))) :=
  t.reply.map (fun r => r.extra.filterMap (fun x => match x with | .opt o => some o.options | _ => none))

theorem alias_leaks : ¬ leakT1.slot.ok ∧ replyOptions leakT2 = some [[(10, 77)]] := by
  decide

/-- the same two exchanges with `copyNoOpt` as it is: a clean entry, and the second client gets a bare OPT -/
example : (transact clean leakChain (.ans 0 1 [.opt { udpSize := 1232, doBit := false, options := [(10, 77)] }]) leakQ1 .empty).slot.ok ∧
    replyOptions (transact clean leakChain .none leakQ2
      (transact clean leakChain (.ans 0 1 [.opt { udpSize := 1232, doBit := false, options := [(10, 77)] }]) leakQ1 .empty).slot) = some [[]] ∧
    replyOptions (transact clean leakChain (.ans 0 1 [.opt { udpSize := 1232, doBit := false, options := [(10, 77)] }]) leakQ1 .empty) = some [[(10, 77)]] := by
  decide

/-- Why `c15EcsForwardedLoosePaths` is needed: `forward` together with `preset` / `send` is the documented "the client's
subnet if it sent one, otherwise ours" set-up. If `addECS` reported "forwarded" whenever `forward` is set, a client whose
OPT has no client-subnet option would be handed the upstream's echo of the operator's preset address. -/
def ecsChain : List Plugin := [.ecs true (some 100)]
def ecsQ : Msg := { id := 3, question := [⟨[97], 1, 1⟩], extra := [.opt { udpSize := 1232, doBit := false, options := [(10, 1)] }] }
def ecsUp : Up := .ans 0 1 [.opt { udpSize := 1232, doBit := false, options := [(8, 7), (10, 9)] }]

theorem ecs_loose_leaks :
    replyOptions (transact { clean with ecsLoose := true } ecsChain ecsUp ecsQ .empty) = some [[(8, 7)]] ∧
    replyOptions (transact clean ecsChain ecsUp ecsQ .empty) = some [[]] ∧
    replyOptions (transact clean ecsChain ecsUp { ecsQ with extra := [.opt { udpSize := 1232, doBit := false, options := [(8, 1)] }] } .empty) = some [[(8, 7)]] := by
  decide

/-- the client sent a client-subnet option -/
def clientHasEcs (clo : Option Opt) : Prop := ∃ co, clo = some co ∧ ∃ p ∈ co.options, p.1 = 8

/-- what holds of a context while the chain runs: no OPT in the response, the upstream OPT is the one of this
exchange's upstream answer, and every option of the response OPT was forwarded explicitly from it -/
structure Inv (ex : List RR) (allow : Nat → Prop) (clo : Option Opt) (c : Ctx) : Prop where
  resp : ∀ r, c.resp = some r → countOpt r.extra = 0
  upo : ∀ o, c.upstreamOpt = some o → RR.opt o ∈ ex
  ro : ∀ ro, c.respOpt = some ro → ∀ p ∈ ro.options, allow p.1 ∧ ∃ uo, RR.opt uo ∈ ex ∧ p ∈ uo.options
  cl : c.clientOpt = clo

theorem popOpt_mem (l : List RR) (o : Opt) (h : (popOpt l).2 = some o) : RR.opt o ∈ l := by
  induction l with
  | nil => simp [popOpt] at h
  | cons r rs ih =>
    simp only [popOpt] at h
    cases hp : popOpt rs with
    | mk rs' o' =>
      rw [hp] at h ih
      cases o' with
      | some o2 => simp at h; subst h; exact List.mem_cons_of_mem _ (ih rfl)
      | none =>
        cases r with
        | opt o3 => simp at h; subst h; simp
        | rr => simp at h

theorem setResponse_inv (ex : List RR) (allow : Nat → Prop) (clo : Option Opt) (c : Ctx) (m : Msg) (hc : Inv ex allow clo c)
    (hm : countOpt m.extra ≤ 1) (hsub : ∀ o, RR.opt o ∈ m.extra → RR.opt o ∈ ex) :
    Inv ex allow clo (c.setResponse (some m)) := by
  refine ⟨?_, ?_, ?_, hc.cl⟩
  · intro r hr
    simp only [Ctx.setResponse] at hr
    injection hr with hr; subst hr
    have := popOpt_count m.extra
    simp only at this ⊢
    omega
  · intro o ho
    simp only [Ctx.setResponse] at ho
    exact hsub o (popOpt_mem _ _ ho)
  · intro ro hro
    simp only [Ctx.setResponse] at hro
    exact hc.ro ro hro

/-- a message without OPT can be set as response whatever the exchange's upstream said -/
theorem setResponse_inv0 (ex : List RR) (allow : Nat → Prop) (clo : Option Opt) (c : Ctx) (m : Msg) (hc : Inv ex allow clo c)
    (hm : countOpt m.extra = 0) : Inv ex allow clo (c.setResponse (some m)) := by
  refine setResponse_inv ex allow clo c m hc (by omega) ?_
  intro o ho
  have : RR.opt o ∈ m.extra.filter RR.isOpt := List.mem_filter.mpr ⟨ho, rfl⟩
  unfold countOpt at hm
  rw [List.length_eq_zero_iff.mp hm] at this
  cases this

theorem fwdBack_resp (cs : List Nat) (c : Ctx) : (fwdBack cs c).resp = c.resp ∧ (fwdBack cs c).upstreamOpt = c.upstreamOpt ∧
    (fwdBack cs c).clientOpt = c.clientOpt := by
  unfold fwdBack; split <;> exact ⟨rfl, rfl, rfl⟩

theorem ecsBack_resp (c : Ctx) : (ecsBack c).resp = c.resp ∧ (ecsBack c).upstreamOpt = c.upstreamOpt ∧
    (ecsBack c).clientOpt = c.clientOpt := by
  unfold ecsBack; split
  · split <;> exact ⟨rfl, rfl, rfl⟩
  · exact ⟨rfl, rfl, rfl⟩

/-- `addECS` touches the query only, and (as regenerated: not loose) reports "forwarded" only if `forward` is set and
the client's OPT had a client-subnet option -/
theorem addECS_spec (fw : Bool) (own : Option Nat) (c : Ctx) :
    (addECS false fw own c).1.resp = c.resp ∧ (addECS false fw own c).1.respOpt = c.respOpt ∧
    (addECS false fw own c).1.upstreamOpt = c.upstreamOpt ∧ (addECS false fw own c).1.clientOpt = c.clientOpt ∧
    ((addECS false fw own c).2 = true → fw = true ∧ clientHasEcs c.clientOpt) := by
  unfold addECS
  split
  · simp
  · split
    · rename_i o ho
      refine ⟨rfl, rfl, rfl, rfl, fun _ => ?_⟩
      unfold clientEcs at ho
      cases fw with
      | false => simp at ho
      | true =>
        refine ⟨rfl, ?_⟩
        simp only [if_true] at ho
        cases hco : c.clientOpt with
        | none => rw [hco] at ho; simp at ho
        | some co =>
          rw [hco] at ho
          simp only [Option.bind] at ho
          have h8 := List.find?_some ho
          exact ⟨co, rfl, o, List.mem_of_find?_eq_some ho, by simpa [isEcs] using h8⟩
    · split
      · simp [appendQ]
      · simp

theorem mem_plugCodes_cons (p : Plugin) (ps : List Plugin) (x : Nat) (h : x ∈ plugCodes ps) : x ∈ plugCodes (p :: ps) := by
  cases p <;> simp [plugCodes, h]

theorem ecsForwards_cons (p : Plugin) (ps : List Plugin) (h : ecsForwards ps = true) : ecsForwards (p :: ps) = true := by
  cases p <;> simp [ecsForwards, h]

theorem exec_inv (up : Up) (allow : Nat → Prop) (clo : Option Opt) (hex : countOpt up.extra ≤ 1) (ps : List Plugin)
    (hps : ∀ x ∈ plugCodes ps, allow x) (hecs : ecsForwards ps = true → clientHasEcs clo → allow 8)
    (c : Ctx) (s : Slot) (hs : s.ok) (hc : Inv up.extra allow clo c) :
    Inv up.extra allow clo (exec clean up ps c s).c := by
  induction ps generalizing c with
  | nil =>
    unfold exec
    split
    · exact hc
    · exact setResponse_inv _ _ _ _ _ hc hex (fun o h => h)
    · exact hc
    · exact hc
  | cons p ps ih =>
    have hps' : ∀ x ∈ plugCodes ps, allow x := fun x hx => hps x (mem_plugCodes_cons p ps x hx)
    have hecs' : ecsForwards ps = true → clientHasEcs clo → allow 8 := fun h => hecs (ecsForwards_cons p ps h)
    cases p with
    | ttl => simp only [exec]; exact ih hps' hecs' c hc
    | fwd cs =>
      have hq : Inv up.extra allow clo (addQOpts cs c) := by
        unfold addQOpts
        split
        · exact hc
        · exact ⟨hc.resp, hc.upo, hc.ro, hc.cl⟩
      have h1 := ih hps' hecs' (addQOpts cs c) hq
      simp only [exec]
      split
      · exact h1
      · refine ⟨?_, ?_, ?_, ?_⟩
        · intro r hr
          simp only [(fwdBack_resp cs _).1] at hr
          exact h1.resp r hr
        · intro o ho
          simp only [(fwdBack_resp cs _).2.1] at ho
          exact h1.upo o ho
        · intro ro hro p hp
          unfold fwdBack at hro
          split at hro
          · rename_i uo ro0 huo hro0
            simp only at hro
            injection hro with hro; subst hro
            simp only [List.mem_append, List.mem_filter] at hp
            rcases hp with hp | ⟨hp, hcode⟩
            · exact h1.ro ro0 hro0 p hp
            · refine ⟨hps p.1 ?_, uo, h1.upo uo huo, hp⟩
              have : p.1 ∈ cs := by simpa using hcode
              simp [plugCodes, this]
          · exact h1.ro ro hro p hp
        · rw [(fwdBack_resp cs _).2.2]; exact h1.cl
    | ecs fw own =>
      obtain ⟨a1, a2, a3, a4, a5⟩ := addECS_spec fw own c
      have hq : Inv up.extra allow clo (addECS false fw own c).1 :=
        ⟨by rw [a1]; exact hc.resp, by rw [a3]; exact hc.upo, by rw [a2]; exact hc.ro, by rw [a4]; exact hc.cl⟩
      have h1 := ih hps' hecs' _ hq
      simp only [exec]
      have hl : clean.ecsLoose = false := rfl
      rw [hl]
      generalize exec clean up ps (addECS false fw own c).1 s = R at h1 ⊢
      cases hf : R.failed with
      | true => simp only [if_true]; exact h1
      | false =>
        simp only [Bool.false_eq_true, if_false]
        cases hfw : (addECS false fw own c).2 with
        | false => simp only [Bool.false_eq_true, if_false]; exact h1
        | true =>
          simp only [if_true]
          obtain ⟨hfw1, hfw2⟩ := a5 hfw
          rw [hc.cl] at hfw2
          have h8 : allow 8 := hecs (by simp [ecsForwards, hfw1]) hfw2
          refine ⟨?_, ?_, ?_, ?_⟩
          · intro r hr
            simp only [(ecsBack_resp _).1] at hr
            exact h1.resp r hr
          · intro o ho
            simp only [(ecsBack_resp _).2.1] at ho
            exact h1.upo o ho
          · intro ro hro p hp
            unfold ecsBack at hro
            split at hro
            · rename_i ro0 uo hro0 huo
              split at hro
              · rename_i o ho
                simp only at hro
                injection hro with hro; subst hro
                simp only [List.mem_append, List.mem_singleton] at hp
                rcases hp with hp | hp
                · exact h1.ro ro0 hro0 p hp
                · subst hp
                  have hc8 : p.1 = 8 := by simpa [isEcs] using List.find?_some ho
                  exact ⟨by rw [hc8]; exact h8, uo, h1.upo uo huo, List.mem_of_find?_eq_some ho⟩
              · exact h1.ro ro hro p hp
            · exact h1.ro ro hro p hp
          · rw [(ecsBack_resp _).2.2]; exact h1.cl
    | cache =>
      have hin : Inv up.extra allow clo (match (match s with | Slot.own m => some m | _ => none) with
          | some m => cacheHit m c | none => c) := by
        cases s with
        | empty => exact hc
        | live => exact hc
        | own m =>
          have hm : countOpt m.extra = 0 := hs
          exact setResponse_inv0 _ _ _ _ _ hc hm
      have h1 := ih hps' hecs' _ hin
      simp only [exec]
      split
      · split
        · exact h1
        · exact h1
      · exact h1

theorem exec_respOpt (k : Code) (up : Up) (ps : List Plugin) (c : Ctx) (s : Slot) :
    (exec k up ps c s).c.respOpt.map (·.doBit) = c.respOpt.map (·.doBit) := by
  induction ps generalizing c with
  | nil => unfold exec; split <;> simp [upstreamAnswer, Ctx.setResponse]
  | cons p ps ih =>
    cases p with
    | ttl => simp only [exec]; exact ih c
    | fwd cs =>
      have hq : (addQOpts cs c).respOpt = c.respOpt := by unfold addQOpts; split <;> rfl
      simp only [exec]
      split
      · rw [ih, hq]
      · rw [← hq, ← ih (addQOpts cs c)]
        simp only
        unfold fwdBack
        split
        · rename_i uo ro huo hro; simp [hro]
        · rfl
    | ecs fw own =>
      have hq : (addECS k.ecsLoose fw own c).1.respOpt = c.respOpt := by
        unfold addECS
        split
        · rfl
        · split
          · rfl
          · split <;> rfl
      simp only [exec]
      split
      · rw [ih, hq]
      · split
        · rw [← hq, ← ih (addECS k.ecsLoose fw own c).1]
          simp only
          unfold ecsBack
          split
          · rename_i ro uo hro huo
            split
            · simp [hro]
            · rfl
          · rfl
        · rw [ih, hq]
    | cache =>
      simp only [exec]
      have hh : ∀ m, (cacheHit m c).respOpt = c.respOpt := by
        intro m; simp [cacheHit, Ctx.setResponse]
      cases s with
      | own m =>
        simp only [exec]
        rw [ih, hh]
      | empty =>
        simp only [exec]
        split
        · split <;> rw [ih]
        · rw [ih]
      | live =>
        simp only [exec]
        split
        · split <;> rw [ih]
        · rw [ih]

/-- which option codes a chain may hand from the upstream's OPT to the client: the codes listed by its
forward_edns0opt plugins, and the client-subnet code if an ecs_handler has `forward` set AND the client's own query
carried a client-subnet option (what is forwarded is the client's option; an upstream's echo of an address of the
handler's own making is not for the client) -/
def allowed (chain : List Plugin) (q : Msg) (code : Nat) : Prop :=
  code ∈ plugCodes chain ∨
  (code = 8 ∧ ecsForwards chain = true ∧ ∃ co, RR.opt co ∈ q.extra ∧ ∃ p ∈ co.options, p.1 = 8)

/-- from the invariant on the final context to the message `Handle` packs -/
theorem reply_of_inv (q : Msg) (hv : validQuery q = true) (ex : List RR) (allow : Nat → Prop) (R : Ctx) (failed : Bool)
    (hI : Inv ex allow (newContext q).clientOpt R)
    (hD : R.respOpt.map (·.doBit) = (newContext q).respOpt.map (·.doBit)) :
    countOpt (finish (fun m _ => m) false R (base R failed)).extra = (if countOpt q.extra = 1 then 1 else 0) ∧
      ∀ o, RR.opt o ∈ (finish (fun m _ => m) false R (base R failed)).extra → (∃ co, RR.opt co ∈ q.extra ∧ o.doBit = co.doBit) ∧
        ∀ p ∈ o.options, allow p.1 ∧ ∃ uo, RR.opt uo ∈ ex ∧ p ∈ uo.options := by
  obtain ⟨hiff, hro⟩ := respOpt_iff q hv
  rw [finish_opt]
  have hbase : countOpt (base R failed).extra = 0 := by
    unfold base
    split
    · simp [setReply, countOpt]
    · split
      · rename_i r hr; exact hI.resp r hr
      · simp [setReply, countOpt]
  have hbase' : ∀ o, RR.opt o ∉ (base R failed).extra := by
    intro o ho
    have : RR.opt o ∈ (base R failed).extra.filter RR.isOpt := List.mem_filter.mpr ⟨ho, rfl⟩
    unfold countOpt at hbase
    rw [List.length_eq_zero_iff.mp hbase] at this
    cases this
  cases hR : R.respOpt with
  | none =>
    rw [hR] at hD
    have hn : (newContext q).respOpt = none := by
      cases h : (newContext q).respOpt with
      | none => rfl
      | some x => rw [h] at hD; simp at hD
    have : ¬ countOpt q.extra = 1 := fun h => by simpa [hn] using hiff.mpr h
    simp only [this, if_false, List.append_nil]
    exact ⟨hbase, fun o ho => absurd ho (hbase' o)⟩
  | some ro =>
    rw [hR] at hD
    cases hN : (newContext q).respOpt with
    | none => rw [hN] at hD; simp at hD
    | some ro0 =>
      rw [hN] at hD
      have hdo : ro.doBit = ro0.doBit := by simpa using hD
      have : countOpt q.extra = 1 := hiff.mp (by simp [hN])
      simp only [this, if_true]
      constructor
      · simp [countOpt, List.filter_append, List.filter_cons] at hbase ⊢; omega
      · intro o ho
        rcases List.mem_append.mp ho with ho | ho
        · exact absurd ho (hbase' o)
        · simp at ho; subst ho
          obtain ⟨_, co, _, h3, h4⟩ := hro _ hN
          exact ⟨⟨co, h3, by rw [hdo, h4]⟩, hI.ro _ hR⟩

theorem newContext_inv (q : Msg) (hv : validQuery q = true) (ex : List RR) (allow : Nat → Prop) :
    Inv ex allow (newContext q).clientOpt (newContext q) := by
  obtain ⟨_, hro⟩ := respOpt_iff q hv
  refine ⟨?_, ?_, ?_, rfl⟩
  · intro r hr; simp [newContext] at hr
  · intro o ho; simp [newContext] at ho
  · intro ro hr p hp
    rw [(hro ro hr).1] at hp; cases hp

/-- the client's OPT kept by the context is the OPT record of the client's query -/
theorem clientHasEcs_query (q : Msg) (hv : validQuery q = true) (h : clientHasEcs (newContext q).clientOpt) :
    ∃ co, RR.opt co ∈ q.extra ∧ ∃ p ∈ co.options, p.1 = 8 := by
  obtain ⟨co, hco, hp⟩ := h
  have hlen : q.extra.length ≤ 1 := by simp [validQuery] at hv; exact hv.2
  refine ⟨co, ?_, hp⟩
  match hq : q.extra, hlen with
  | [], _ => simp [newContext, hq, swapOpt, swapOptAux] at hco
  | [.opt o], _ => simp [newContext, hq, swapOpt, swapOptAux] at hco; simp [hco]
  | [.rr n t l d], _ => simp [newContext, hq, swapOpt, swapOptAux] at hco

/-- **The reply carries exactly one OPT iff the client's query had one, DO mirrored, and every option in it was
forwarded explicitly (its code is listed by a forward_edns0opt plugin of the chain, or it is the client-subnet option,
an ecs_handler of the chain has `forward` set and the client's own query carried a client-subnet option) from the OPT of
the upstream answer of this very exchange** - for every chain of forwarders / ecs_handler / ttl around a cache,
whatever the cache holds (an entry without OPT, which `cached_never_contains_opt` maintains), every client query and
every upstream outcome with at most one OPT. In particular nothing of an earlier exchange comes back, a client that
sent no client-subnet option is not handed the upstream's echo of ecs_handler's preset, and when the upstream gave no
OPT (or no answer) the reply's OPT has no options. -/
theorem reply_opt_this_exchange (chain : List Plugin) (up : Up) (q : Msg) (s : Slot)
    (hv : validQuery q = true) (hs : s.ok) (hex : countOpt up.extra ≤ 1) :
    ∃ r, (transact genCode chain up q s).reply = some r ∧
      countOpt r.extra = (if countOpt q.extra = 1 then 1 else 0) ∧
      ∀ o, RR.opt o ∈ r.extra → (∃ co, RR.opt co ∈ q.extra ∧ o.doBit = co.doBit) ∧
        ∀ p ∈ o.options, allowed chain q p.1 ∧ ∃ uo, RR.opt uo ∈ up.extra ∧ p ∈ uo.options := by
  rw [genCode_clean]
  unfold transact
  simp only [hv, Bool.not_true, Bool.false_eq_true, if_false]
  refine ⟨_, rfl, ?_⟩
  have hI := exec_inv up (allowed chain q) (newContext q).clientOpt hex chain (fun x hx => Or.inl hx)
    (fun he hc => Or.inr ⟨rfl, he, clientHasEcs_query q hv hc⟩) (newContext q) s hs (newContext_inv q hv _ _)
  have hD := exec_respOpt clean up chain (newContext q) s
  exact reply_of_inv q hv up.extra _ _ _ hI hD

/-! ### Sub-queries on copies of the context -/

def Branch.extra : Option Branch → List RR
  | some b => b.up.extra
  | none => []

def Branch.plugins : Option Branch → List Plugin
  | some b => b.chain
  | none => []

theorem foldl_keep (ds : List Branch) (c : Ctx) (ro : Option Opt) :
    ds.foldl (fun ro b => if clean.copyShares then (runOn clean b { c with respOpt := ro }).c.respOpt else ro) ro = ro := by
  induction ds generalizing ro with
  | nil => rfl
  | cons d ds ih => simp only [List.foldl_cons]; exact ih _

/-- **With a response OPT of its own in every context copy, the parent's response OPT is out of reach of the
sub-queries**: whatever the discarded sub-queries did (any chains, any upstream answers), after `fork` the context
carries no OPT in its response and every option of its response OPT was forwarded explicitly from the upstream answer of
the sub-query whose result was adopted. -/
theorem fork_inv (mode : Adopt) (ds : List Branch) (w : Option Branch) (allow : Nat → Prop) (clo : Option Opt)
    (hex : countOpt (Branch.extra w) ≤ 1)
    (hstored : ∀ m, mode = .lazy m → countOpt m.extra = 0)
    (hps : ∀ x ∈ plugCodes (Branch.plugins w), allow x)
    (hecs : ecsForwards (Branch.plugins w) = true → clientHasEcs clo → allow 8)
    (c : Ctx) (hc : Inv (Branch.extra w) allow clo c) :
    Inv (Branch.extra w) allow clo (fork clean mode ds w c).1 := by
  unfold fork
  simp only [foldl_keep]
  cases mode with
  | fallback =>
    cases w with
    | none => exact hc
    | some b =>
      have h1 := exec_inv b.up allow clo hex b.chain hps hecs c .empty trivial hc
      simp only [runOn, clean, Bool.false_eq_true, if_false] at h1 ⊢
      split
      · rename_i m _ hm
        exact setResponse_inv0 _ _ _ _ _ hc (h1.resp m hm)
      · exact hc
  | selector =>
    cases w with
    | none =>
      simp only [localAnswer]
      exact setResponse_inv0 _ _ _ _ _ hc (by simp [setReply, countOpt])
    | some b => exact exec_inv b.up allow clo hex b.chain hps hecs c .empty trivial hc
  | «lazy» stored =>
    have hin : Inv (Branch.extra w) allow clo (cacheHit stored c) :=
      setResponse_inv0 _ _ _ _ _ hc (hstored stored rfl)
    cases w with
    | none =>
      simp only [Option.getD, runOn]
      exact exec_inv .none allow clo (by simp [Up.extra, countOpt]) [] (by simp [plugCodes]) (by simp [ecsForwards]) _ .empty trivial hin
    | some b => exact exec_inv b.up allow clo hex b.chain hps hecs _ .empty trivial hin

theorem fork_respOpt (mode : Adopt) (ds : List Branch) (w : Option Branch) (c : Ctx) :
    (fork clean mode ds w c).1.respOpt.map (·.doBit) = c.respOpt.map (·.doBit) := by
  unfold fork
  simp only [foldl_keep]
  cases mode with
  | fallback =>
    cases w with
    | none => rfl
    | some b =>
      simp only [clean, Bool.false_eq_true, if_false]
      split
      · simp [Ctx.setResponse]
      · rfl
  | selector =>
    cases w with
    | none => simp [localAnswer, Ctx.setResponse]
    | some b => exact exec_respOpt clean b.up b.chain c .empty
  | «lazy» stored =>
    have hh : (cacheHit stored c).respOpt = c.respOpt := by simp [cacheHit, Ctx.setResponse]
    simp only [runOn]
    rw [exec_respOpt, hh]

/-- **Plugins that run sub-queries on copies (fallback, dual_selector, the lazy cache's refresh) leak nothing of a
discarded sub-query**: with `Context.CopyTo` as regenerated, for every client query, every set of discarded sub-queries
(any chains of forwarders / ecs_handler, any upstream answers with any options) all finished before the reply is made,
the reply carries exactly one OPT iff the client's query had one, DO mirrored, and every option in it was forwarded
explicitly from the upstream answer of the adopted sub-query by a plugin of that sub-query. -/
theorem fork_reply (mode : Adopt) (ds : List Branch) (w : Option Branch) (q : Msg)
    (hv : validQuery q = true) (hex : countOpt (Branch.extra w) ≤ 1) (hstored : ∀ m, mode = .lazy m → countOpt m.extra = 0) :
    ∃ r, reply (fork genCode mode ds w) (fun m _ => m) false q = some r ∧
      countOpt r.extra = (if countOpt q.extra = 1 then 1 else 0) ∧
      ∀ o, RR.opt o ∈ r.extra → (∃ co, RR.opt co ∈ q.extra ∧ o.doBit = co.doBit) ∧
        ∀ p ∈ o.options, allowed (Branch.plugins w) q p.1 ∧ ∃ uo, RR.opt uo ∈ Branch.extra w ∧ p ∈ uo.options := by
  rw [genCode_clean]
  unfold reply
  simp only [hv, Bool.not_true, Bool.false_eq_true, if_false]
  refine ⟨_, rfl, ?_⟩
  have hI := fork_inv mode ds w (allowed (Branch.plugins w) q) (newContext q).clientOpt hex hstored (fun x hx => Or.inl hx)
    (fun he hc => Or.inr ⟨rfl, he, clientHasEcs_query q hv hc⟩) (newContext q) (newContext_inv q hv _ _)
  exact reply_of_inv q hv _ _ _ _ hI (fork_respOpt mode ds w (newContext q))

/-- **fallback hands the client no upstream option at all**: the adopted response is set with `SetResponse` on the
parent, whose response OPT no sub-query can reach. -/
theorem fork_fallback_respOpt (ds : List Branch) (w : Option Branch) (c : Ctx) :
    (fork clean .fallback ds w c).1.respOpt = c.respOpt := by
  unfold fork
  simp only [foldl_keep]
  cases w with
  | none => rfl
  | some b =>
    simp only [clean, Bool.false_eq_true, if_false]
    split
    · simp [Ctx.setResponse]
    · rfl

/-- Why `c15CopyToRespOptDeep` is needed: fallback with `forward_edns0opt 65001` in both branches, the secondary
(always_standby) finishing before the primary's answer arrives. If a copy shared the parent's response OPT, the client
would be handed the option of the discarded secondary answer as well, and the option code twice. -/
def forkQ : Msg := { id := 4, question := [⟨[97], 1, 1⟩], extra := [.opt { udpSize := 1232, doBit := true, options := [] }] }
def forkSec : Branch := ⟨[.fwd [65001]], .ans 0 1 [.opt { udpSize := 1232, doBit := false, options := [(65001, 7)] }]⟩
def forkPrim : Branch := ⟨[.fwd [65001]], .ans 0 1 [.opt { udpSize := 1232, doBit := false, options := [(65001, 9)] }]⟩
def forkOptions (k : Code) (mode : Adopt) (ds : List Branch) (w : Option Branch) (q : Msg) : Option (List (List (Nat × Nat))) :=
  (reply (fork k mode ds w) (fun m _ => m) false q).map (fun r => r.extra.filterMap (fun x => match x with | .opt o => some o.options | _ => none))

theorem shared_respOpt_leaks :
    forkOptions { clean with copyShares := true } .fallback [forkSec] (some forkPrim) forkQ = some [[(65001, 7), (65001, 9)]] ∧
    forkOptions clean .fallback [forkSec] (some forkPrim) forkQ = some [[]] ∧
    forkOptions { clean with copyShares := true } .selector [forkSec] (some forkPrim) forkQ = some [[(65001, 7), (65001, 9)]] ∧
    forkOptions clean .selector [forkSec] (some forkPrim) forkQ = some [[(65001, 9)]] := by
  decide

end CacheLife

/-! ### The header fields of the client's OPT (VERSION, extended-rcode byte) -/

/-- "The client's query had one": an OPT is an OPT whatever it says about itself. For a client OPT with **any** VERSION,
extended-rcode byte, UDP size and options (`o` is arbitrary) the reply carries exactly one OPT, without options, with that
OPT's DO bit - under the hypotheses of `reply_opt_iff`. -/
theorem reply_opt_any_header (entry : Ctx → Ctx × Bool) (q : Msg) (o : Opt) (hv : validQuery q = true)
    (hq : q.extra = [.opt o])
    (hkeep : (entry (newContext q)).1.respOpt = (newContext q).respOpt)
    (hstrip : ∀ r, (entry (newContext q)).1.resp = some r → countOpt r.extra = 0)
    (truncate : Msg → Nat → Msg) :
    ∃ r, reply entry truncate false q = some r ∧ countOpt r.extra = 1 ∧
      (∀ o', RR.opt o' ∈ r.extra → o'.options = [] ∧ o'.doBit = o.doBit) := by
  obtain ⟨r, hr, hc, ho⟩ := reply_opt_iff entry q hv hkeep hstrip truncate
  have h1 : countOpt q.extra = 1 := by rw [hq]; rfl
  refine ⟨r, hr, by simpa [h1] using hc, ?_⟩
  intro o' h'
  obtain ⟨hn, co, hco, hdo⟩ := ho o' h'
  rw [hq] at hco
  simp at hco
  subst hco
  exact ⟨hn, hdo⟩

/-- `NewContext` with a further condition on the client's OPT in front of the creation of the response OPT (the code:
`if ctx.clientOpt != nil { ctx.respOpt = newOpt() ... }`, no further condition). -/
def newContextCond (cond : Opt → Bool) (q : Msg) : Ctx :=
  let c := newContext q
  { c with respOpt := match c.clientOpt with
      | some co => if cond co then c.respOpt else none
      | none => c.respOpt }

/-- The regenerated count of such further conditions in `NewContext` (`Gen.Facts.c15RespOptExtraConds`); what one tests
is not known to the model, so with any of them no client OPT is taken to pass. -/
def genRespOptCond (_ : Opt) : Bool := Gen.Facts.c15RespOptExtraConds == some 0

/-- with the regenerated fact `NewContext` is the `newContext` all theorems above are about -/
theorem genContext_eq (q : Msg) : newContextCond genRespOptCond q = newContext q := by
  have hc : ∀ o, genRespOptCond o = true := fun _ => by unfold genRespOptCond; decide
  unfold newContextCond
  simp only [hc, if_true]
  generalize newContext q = c
  cases c with
  | mk cq co resp ro uo => cases co <;> rfl

/-- Why `c15RespOptExtraConds` is needed: were the response OPT created for clients announcing EDNS version 0 only, a
client whose OPT says VERSION 1 (DO set) would get a reply without any OPT - REFUSED, SERVFAIL or an answer alike - while
the code as it is hands it one OPT with DO set. -/
def verQ : Msg := { id := 6, question := [⟨[97], 1, 1⟩], extra := [.opt { udpSize := 1232, doBit := true, version := 1, options := [] }] }
def verGate (o : Opt) : Bool := o.version == 0

theorem version_gate_loses_opt :
    (newContextCond verGate verQ).respOpt = none ∧
    countOpt (finish (fun m _ => m) false (newContextCond verGate verQ) (base (newContextCond verGate verQ) false)).extra = 0 ∧
    countOpt (finish (fun m _ => m) false (newContextCond verGate verQ) (base (newContextCond verGate verQ) true)).extra = 0 ∧
    (newContext verQ).respOpt = some { freshOpt with doBit := true } ∧
    (reply (fun c => (c, false)) (fun m _ => m) false verQ).map (fun r => countOpt r.extra) = some 1 := by
  decide

/-! ### Guards over the regenerated facts -/
theorem facts_guard :
    Gen.Facts.c15RespOptExtraConds = some 0 ∧
    Gen.Facts.c15NewContextSwapsOpt = some true ∧ Gen.Facts.c15SetResponsePopsOpt = some true ∧
    Gen.Facts.c15RespOptMirrorsDo = some true ∧ Gen.Facts.c15FreshOptShape = some true ∧
    Gen.Facts.c15CopyNoOptDropsOpt = some true ∧ Gen.Facts.c15OnlyEcsForwardsBack = some true ∧
    Gen.Facts.c15CopyNoOptAliasPaths = some 0 ∧ Gen.Facts.c10StoreCopies = some true ∧
    Gen.Facts.c15EcsForwardedLoosePaths = some 0 ∧ Gen.Facts.c15CopyToRespOptDeep = some true := by decide

/-! ### Non-vacuity -/
def clientOpt : Opt := { udpSize := 4096, doBit := true, options := [(10, 1), (8, 2)] }
def upOpt : Opt := { udpSize := 1232, doBit := false, extRcode := 1, options := [(12, 7), (10, 9), (8, 3)] }
def qx : Question := ⟨[97], 1, 1⟩
def q1 : Msg := { id := 5, question := [qx], extra := [.opt clientOpt] }
def up (m : Msg) : Msg := { setReply m with answer := [.rr [97] 1 60 0], extra := [.rr [98] 1 60 1, .opt upOpt] }
example : (newContext q1).q.extra = [.opt freshOpt] := by decide
example : (reply (fun c => (upstreamAnswer (up c.q) c, false)) (fun m _ => m) false q1).map (·.extra) =
    some [.rr [98] 1 60 1, .opt { udpSize := 1200, doBit := true, options := [] }] := by decide
example : (reply (fun c => (upstreamAnswer (up c.q) c, false)) (fun m _ => m) false { q1 with extra := [] }).map (·.extra) =
    some [.rr [98] 1 60 1] := by decide

end Props.C15
