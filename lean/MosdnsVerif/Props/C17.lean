import MosdnsVerif.Refine.C17
import MosdnsVerif.Props.C17Frame
import MosdnsVerif.Gen.Facts

/-!
# C17 — truncated UDP replies are retried over TCP

Theorems about `Gen.msgTruncated` and `Gen.udpWithFallbackExchange`, both
regenerated from `pkg/upstream` on every run. `udp` and `tcp` are arbitrary
functions: every UDP reply (any header flags, any size) and every TCP-side
behaviour (answer, refusal, failure) is covered.

"To the same server": how the UDP half and the TCP half of the upstream dial
is read from the `udp` case of `NewUpstream` (T2 facts); the routing theorems
are about those regenerated values, for every configuration (any `Opt.Socks5`,
any address).
-/
namespace Props.C17
open Model.C17

/-- The code's test is the TC bit, for every reply with a flags byte. -/
theorem tc_bit (b : Bytes) : Gen.msgTruncated b = tcBit b := Refine.C17.msgTruncated_eq b

/-- TC set: the same query goes to TCP and the TCP outcome (reply or error)
is what the caller gets. -/
theorem truncated_goes_to_tcp (udp tcp : Bytes → Except Nat Bytes) (q r : Bytes)
    (hu : udp q = .ok r) (htc : tcBit r = true) :
    Gen.udpWithFallbackExchange udp tcp q = (tcp q, true) := by
  rw [Refine.C17.exchange_eq]; simp [exchange, hu, htc]

/-- TC clear: the UDP reply is returned as it is and TCP is not used. -/
theorem untruncated_returned (udp tcp : Bytes → Except Nat Bytes) (q r : Bytes)
    (hu : udp q = .ok r) (htc : tcBit r = false) :
    Gen.udpWithFallbackExchange udp tcp q = (.ok r, false) := by
  rw [Refine.C17.exchange_eq]; simp [exchange, hu, htc]

/-- A UDP failure is reported; TCP is not used. -/
theorem udp_error_reported (udp tcp : Bytes → Except Nat Bytes) (q : Bytes) (e : Nat)
    (hu : udp q = .error e) :
    Gen.udpWithFallbackExchange udp tcp q = (.error e, false) := by
  rw [Refine.C17.exchange_eq]; simp [exchange, hu]

/-- TCP is used exactly when the UDP exchange produced a truncated reply. -/
theorem tcp_used_iff (udp tcp : Bytes → Except Nat Bytes) (q : Bytes) :
    (Gen.udpWithFallbackExchange udp tcp q).2 = true ↔ ∃ r, udp q = .ok r ∧ tcBit r = true := by
  rw [Refine.C17.exchange_eq]
  unfold exchange
  cases h : udp q with
  | error e => simp
  | ok r => cases ht : tcBit r <;> simp [ht]

/-! ## The TCP retry goes to the same server -/

/-- How the two dial functions of the udp upstream connect, as read from the source. -/
def udpVia : DialVia := .ofFact Gen.Facts.c17UdpDialVia
def tcpVia : DialVia := .ofFact Gen.Facts.c17TcpDialVia

/-- The shapes the routing model was written from. -/
theorem facts_guard :
    Gen.Facts.c17UdpDialVia = some 0 ∧ Gen.Facts.c17TcpDialVia = some 0 ∧
    Gen.Facts.c17DialAddrShape = some true ∧ Gen.Facts.c17DialerIsNetDialer = some true ∧
    Gen.Facts.c17FallbackWiring = some true ∧ Gen.Facts.c17UdpSideReadsQueryOnly = some true ∧
    Gen.Facts.c17TcpConnIdleOnlyWhenNothingOwed = some true := by decide

/-- Whatever is configured (in particular whatever `Opt.Socks5` is), the TCP half
connects to the endpoint the UDP half sends to: the configured server. -/
theorem tcp_retry_same_server (c : DialCfg) :
    endpoint udpVia c = some c.server ∧ endpoint tcpVia c = endpoint udpVia c := by
  constructor <;> rfl

/-- On a network where every endpoint behaves in its own way: a truncated UDP reply of
the configured server makes the same query go to the TCP side *of that server*, and what
that server's TCP side does (reply or error) is the outcome. -/
theorem truncated_retry_reaches_same_server (c : DialCfg) (udpNet tcpNet : Nat → Bytes → Except Nat Bytes)
    (q r : Bytes) (hu : udpNet c.server q = .ok r) (htc : tcBit r = true) :
    exchangeRouted Gen.udpWithFallbackExchange udpVia tcpVia c udpNet tcpNet q
      = some (tcpNet c.server q, true, some c.server) := by
  have h1 : endpoint udpVia c = some c.server := rfl
  have h2 : endpoint tcpVia c = some c.server := rfl
  simp only [exchangeRouted, h1, h2, truncated_goes_to_tcp (udpNet c.server) (tcpNet c.server) q r hu htc]
  rfl

/-- ... and a reply without TC is returned as it is with no TCP connection to any endpoint. -/
theorem untruncated_connects_nowhere (c : DialCfg) (udpNet tcpNet : Nat → Bytes → Except Nat Bytes)
    (q r : Bytes) (hu : udpNet c.server q = .ok r) (htc : tcBit r = false) :
    exchangeRouted Gen.udpWithFallbackExchange udpVia tcpVia c udpNet tcpNet q = some (.ok r, false, none) := by
  have h1 : endpoint udpVia c = some c.server := rfl
  have h2 : endpoint tcpVia c = some c.server := rfl
  simp only [exchangeRouted, h1, h2, untruncated_returned (udpNet c.server) (tcpNet c.server) q r hu htc]
  rfl

/-- What the two theorems above exclude: a TCP half built by the shared `newTcpDialer`
helper connects elsewhere as soon as a proxy is configured. -/
theorem helper_would_redirect : ∃ c : DialCfg, endpoint .tcpHelper c ≠ endpoint .direct c :=
  ⟨⟨1, some 2⟩, by decide⟩

/-! ## The same query, whatever the UDP side went through -/

/-- Whether the UDP side only reads the caller's slice, as read from the source. -/
def readsOnly : Bool := Gen.Facts.c17UdpSideReadsQueryOnly == some true

theorem readsOnly_true : readsOnly = true := by decide

/-- A UDP side that only reads the query leaves the caller's buffer as it was, for
every sequence of failed and successful sends. -/
theorem udp_side_keeps_query (srv : Bytes → Except Nat Bytes) (atts : List Attempt) (q : Bytes) :
    (udpSide true srv atts q).2 = q := by
  induction atts with
  | nil => rfl
  | cons a rest ih =>
    unfold udpSide
    cases a.writeOk with
    | false => simpa using ih
    | true =>
      simp only [if_true]
      cases srv (setId a.hi a.lo q) <;> rfl

/-- With the buffer as state the exchange is the stateless one over the UDP side's outcome:
the theorems above (about the regenerated `udpWithFallbackExchange`) apply to it. -/
theorem exchangeBuf_is_exchange (srv tcp : Bytes → Except Nat Bytes) (atts : List Attempt) (q : Bytes) :
    (exchangeBuf readsOnly srv tcp atts q).1 =
      (Gen.udpWithFallbackExchange (fun b => (udpSide true srv atts b).1) tcp q).1 := by
  rw [Refine.C17.exchange_eq, readsOnly_true]
  unfold exchangeBuf exchange
  have hk := udp_side_keeps_query srv atts q
  cases h : udpSide true srv atts q with
  | mk res b =>
    rw [h] at hk
    simp only at hk
    subst hk
    simp only [h]
    cases res with
    | error e => rfl
    | ok r => cases ht : tcBit r <;> simp [ht]

/-- After any number of failed sends (any ids the dead sockets assigned), a truncated reply
makes exactly the caller's query go to TCP, the TCP outcome is the caller's, and the
caller's buffer is what it was. -/
theorem same_query_after_failed_sends (srv tcp : Bytes → Except Nat Bytes) (atts : List Attempt) (q r : Bytes)
    (hu : (udpSide readsOnly srv atts q).1 = .ok r) (htc : tcBit r = true) :
    exchangeBuf readsOnly srv tcp atts q = (tcp q, some q, q) := by
  rw [readsOnly_true] at hu ⊢
  have hk := udp_side_keeps_query srv atts q
  unfold exchangeBuf
  cases h : udpSide true srv atts q with
  | mk res b =>
    rw [h] at hk hu
    simp only at hk hu
    subst hk hu
    simp [htc]

/-- ... and a reply without TC comes back with no TCP frame and the buffer unchanged. -/
theorem untruncated_after_failed_sends (srv tcp : Bytes → Except Nat Bytes) (atts : List Attempt) (q r : Bytes)
    (hu : (udpSide readsOnly srv atts q).1 = .ok r) (htc : tcBit r = false) :
    exchangeBuf readsOnly srv tcp atts q = (.ok r, none, q) := by
  rw [readsOnly_true] at hu ⊢
  have hk := udp_side_keeps_query srv atts q
  unfold exchangeBuf
  cases h : udpSide true srv atts q with
  | mk res b =>
    rw [h] at hk hu
    simp only at hk hu
    subst hk hu
    simp [htc]

/-- A reply the UDP side returns carries the id of the caller's query. -/
theorem udp_reply_has_caller_id (srv : Bytes → Except Nat Bytes) (atts : List Attempt) (q r : Bytes)
    (hu : (udpSide true srv atts q).1 = .ok r) : idOf r = idOf q := by
  induction atts with
  | nil => simp [udpSide] at hu
  | cons a rest ih =>
    unfold udpSide at hu
    cases hw : a.writeOk with
    | false => rw [hw] at hu; simp only [Bool.false_eq_true, if_false, if_true] at hu; exact ih hu
    | true =>
      rw [hw] at hu
      simp only [if_true] at hu
      cases hs : srv (setId a.hi a.lo q) with
      | error e => rw [hs] at hu; simp at hu
      | ok x =>
        rw [hs] at hu
        simp only [Except.ok.injEq] at hu
        subst hu
        rfl

/-- What the guard on `c17UdpSideReadsQueryOnly` excludes: with the id patched in place and
not undone after a failed write, one failed send is enough for a different frame to reach TCP. -/
theorem in_place_patch_breaks_same_query :
    ∃ (atts : List Attempt) (q : Bytes),
      (exchangeBuf false (fun w => .ok (w.take 2 ++ [0x82, 0])) (fun b => .ok b) atts q).2.1 ≠ some q :=
  ⟨[⟨0, 3, false⟩, ⟨0, 0, true⟩], [0xbe, 0xef, 1, 0], by decide⟩

example : exchangeBuf readsOnly (fun w => .ok (w.take 2 ++ [0x82, 0])) (fun b => .ok b)
    [⟨0, 3, false⟩, ⟨0, 0, true⟩] [0xbe, 0xef, 1, 0] = (.ok [0xbe, 0xef, 1, 0], some [0xbe, 0xef, 1, 0], [0xbe, 0xef, 1, 0]) := by rfl

/-! Non-vacuity -/
example : exchangeRouted Gen.udpWithFallbackExchange udpVia tcpVia ⟨1, some 2⟩
    (fun e _ => if e == 1 then .ok [0, 1, 0x82, 0] else .error 7) (fun e q => if e == 1 then .ok (9 :: q) else .error 8) [7]
    = some (.ok [9, 7], true, some 1) := by rfl
example : tcBit [0, 1, 0x82, 0] = true ∧ tcBit [0, 1, 0x84, 0] = false := by decide
example : Gen.udpWithFallbackExchange (fun _ => .ok [0, 1, 0x82, 0]) (fun q => .ok (9 :: q)) [7] = (.ok [9, 7], true) := by rfl
example : Gen.udpWithFallbackExchange (fun _ => .ok [0, 1, 0x86, 0]) (fun _ => .error 5) [7] = (.error 5, true) := by rfl

/-! ## The TCP reply is the reply to the caller's query (connection reuse) -/

/-- What `reusableConn.exchange` does with the connection when the caller's context
ends, read from the source: `false` = the connection stays out of the idle pool
until the outstanding reply has been read. -/
def idleOnGiveUp : Bool := Gen.Facts.c17TcpConnIdleOnlyWhenNothingOwed != some true

theorem idleOnGiveUp_false : idleOnGiveUp = false := by decide

theorem fresh_ok : TConn.fresh.ok := by simp [TConn.ok, TConn.fresh]

/-- One event keeps the invariant, and a reply handed to a caller answers that caller's query. -/
theorem cstep_ok (c : TConn) (h : c.ok) (e : CEv) :
    (cstep false c e).1.ok ∧ ∀ w o, (cstep false c e).2 = some (w, o) → o = w := by
  obtain ⟨h1, h2, h3⟩ := h
  cases e with
  | take q =>
    unfold cstep
    by_cases hi : c.idle = true
    · obtain ⟨ho, _⟩ := h1 hi
      simp [hi, ho, TConn.ok]
    · simp [hi]; exact ⟨h1, h2, h3⟩
  | giveUp =>
    unfold cstep
    cases hw : c.waiter with
    | none => simp; exact ⟨h1, h2, h3⟩
    | some w => simp [TConn.ok]; exact h3
  | reply =>
    unfold cstep
    cases ho : c.owed with
    | nil => simp; exact ⟨h1, h2, h3⟩
    | cons o rest =>
      have hr : rest = [] := by
        rw [ho] at h3
        cases rest with
        | nil => rfl
        | cons a b => simp at h3
      cases hw : c.waiter with
      | some w =>
        have := h2 w hw
        rw [ho] at this
        simp at this
        simp [TConn.ok, hr, this.1]
      | none =>
        by_cases hi : c.idle = true
        · simp [hi, TConn.ok]
        · simp [hi, TConn.ok, hr]

/-- With the give-up behaviour read from the source: over any sequence of takes, give-ups
(callers whose context ended with the reply outstanding) and replies on a connection,
every TCP reply handed to a caller is the reply to that caller's own query - never the
late reply to an earlier query. -/
theorem tcp_reply_is_the_callers (evs : List CEv) (c : TConn) (h : c.ok) :
    ∀ d ∈ crun idleOnGiveUp c evs, d.2 = d.1 := by
  rw [idleOnGiveUp_false]
  induction evs generalizing c with
  | nil => intro d hd; simp [crun] at hd
  | cons e es ih =>
    intro d hd
    obtain ⟨hk, hdl⟩ := cstep_ok c h e
    simp only [crun, List.mem_append] at hd
    cases hd with
    | inl h0 =>
      cases hx : (cstep false c e).2 with
      | none => rw [hx] at h0; simp at h0
      | some p =>
        rw [hx] at h0
        simp at h0
        subst h0
        exact hdl d.1 d.2 hx
    | inr h0 => exact ih _ hk d h0

/-- What the theorem above excludes: a connection put back into the idle pool when its
caller gives up hands the late reply to the next caller. -/
theorem idle_on_give_up_hands_over_late_reply :
    crun true TConn.fresh [.take [1], .giveUp, .take [2], .reply] = [([2], [1])] := by decide

end Props.C17
