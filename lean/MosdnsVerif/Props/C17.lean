import MosdnsVerif.Refine.C17

/-!
# C17 — truncated UDP replies are retried over TCP

Theorems about `Gen.msgTruncated` and `Gen.udpWithFallbackExchange`, both
regenerated from `pkg/upstream` on every run. `udp` and `tcp` are arbitrary
functions: every UDP reply (any header flags, any size) and every TCP-side
behaviour (answer, refusal, failure) is covered.
-/
namespace Props.C17
open Model.C17

/-- The code's test is the TC bit, for every reply with a flags byte. -/
theorem tc_bit (b : Bytes) : Gen.msgTruncated b = tcBit b := Refine.C17.msgTruncated_eq b

/-- TC set: the same query goes to TCP and the TCP outcome (reply or error)
is what the caller gets. -/
theorem truncated_goes_to_tcp (udp tcp : Bytes → Except Nat Bytes) (q r : Bytes)
    (hu : udp q = .ok r) (htc : tcBit r = true) :
    Gen.udpWithFallbackExchange udp tcp q = (tcp q, true) := by
  rw [Refine.C17.exchange_eq]; simp [exchange, hu, htc]

/-- TC clear: the UDP reply is returned as it is and TCP is not used. -/
theorem untruncated_returned (udp tcp : Bytes → Except Nat Bytes) (q r : Bytes)
    (hu : udp q = .ok r) (htc : tcBit r = false) :
    Gen.udpWithFallbackExchange udp tcp q = (.ok r, false) := by
  rw [Refine.C17.exchange_eq]; simp [exchange, hu, htc]

/-- A UDP failure is reported; TCP is not used. -/
theorem udp_error_reported (udp tcp : Bytes → Except Nat Bytes) (q : Bytes) (e : Nat)
    (hu : udp q = .error e) :
    Gen.udpWithFallbackExchange udp tcp q = (.error e, false) := by
  rw [Refine.C17.exchange_eq]; simp [exchange, hu]

/-- TCP is used exactly when the UDP exchange produced a truncated reply. -/
theorem tcp_used_iff (udp tcp : Bytes → Except Nat Bytes) (q : Bytes) :
    (Gen.udpWithFallbackExchange udp tcp q).2 = true ↔ ∃ r, udp q = .ok r ∧ tcBit r = true := by
  rw [Refine.C17.exchange_eq]
  unfold exchange
  cases h : udp q with
  | error e => simp
  | ok r => cases ht : tcBit r <;> simp [ht]

/-! Non-vacuity -/
example : tcBit [0, 1, 0x82, 0] = true ∧ tcBit [0, 1, 0x84, 0] = false := by decide
example : Gen.udpWithFallbackExchange (fun _ => .ok [0, 1, 0x82, 0]) (fun q => .ok (9 :: q)) [7] = (.ok [9, 7], true) := by rfl
example : Gen.udpWithFallbackExchange (fun _ => .ok [0, 1, 0x86, 0]) (fun _ => .error 5) [7] = (.error 5, true) := by rfl

end Props.C17
