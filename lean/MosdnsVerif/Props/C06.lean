import MosdnsVerif.Model.C06
import MosdnsVerif.Gen.Facts

/-!
# C06 — sequences execute exactly as their rules say
-/
namespace Props.C06
open Model.C06

variable {St E : Type}

/-- **C06 (main).** The walker implementation (`execNext`: explicit rest of the
chain and stack of pending jump returns, as in `chain.go` / `built_in.go`)
computes exactly the continuation semantics `run` of the property statement:
rules in order, accept/reject end everything, `return` resumes after the
calling `jump` (or ends at top level), `jump` runs the target and continues,
`goto` runs the target and never comes back, an error from a matcher or an
action aborts everything, a wrapping plugin receives the rest of the chain
including the pending jump returns. For all programs of any length and nesting. -/
theorem exec_eq_run (sem : Sem St E) (rest : List Rule) (stack : List (List Rule)) (s : St) :
    execNext sem rest stack s = run sem rest (denote sem stack) s := by
  fun_induction execNext sem rest stack s <;> simp_all [run, denote]

/-- Top level: a sequence run with no caller. -/
theorem exec_top (sem : Sem St E) (chain : List Rule) (s : St) :
    execNext sem chain [] s = run sem chain .ok s := by
  rw [exec_eq_run]; rfl

/-- **Reusable continuation.** What a wrapping plugin `w` at `rule :: rs` is
handed is the function `run rs (denote stack)`: a value that does not depend on
how often, from which state, or in which order it is invoked - zero, one or
many times (also concurrently on copies) it executes the same remaining rules
and the same pending jump returns. -/
theorem continuation_reusable (sem : Sem St E) (ms : List (Bool × Nat)) (w : Nat)
    (rs : List Rule) (stack : List (List Rule)) (s s' : St)
    (hm : evalMatchers sem ms s = .ok (true, s')) :
    execNext sem (.mk ms (.wrap w) :: rs) stack s = sem.wrapFn w (run sem rs (denote sem stack)) s' := by
  rw [exec_eq_run]
  simp [run, hm]

/-- **Errors abort everything**: an error from a matcher or from a plain action
of the first applicable rule is the result, whatever follows and whoever called. -/
theorem error_aborts (sem : Sem St E) (ms : List (Bool × Nat)) (act : Action) (rs : List Rule)
    (stack : List (List Rule)) (s : St) (e : E) :
    (evalMatchers sem ms s = .error e → execNext sem (.mk ms act :: rs) stack s = .error e) ∧
    (∀ a s', act = .plain a → evalMatchers sem ms s = .ok (true, s') → sem.execFn a s' = .error e →
      execNext sem (.mk ms act :: rs) stack s = .error e) := by
  constructor
  · intro h; rw [exec_eq_run]; simp [run, h]
  · intro a s' ha hm he; subst ha; rw [exec_eq_run]; simp [run, hm, he]

/-- accept and reject end all processing, also inside nested jumps. -/
theorem accept_reject_end (sem : Sem St E) (ms : List (Bool × Nat)) (rs : List Rule)
    (stack : List (List Rule)) (s s' : St) (hm : evalMatchers sem ms s = .ok (true, s')) :
    execNext sem (.mk ms .accept :: rs) stack s = .ok s' ∧
    ∀ rc, execNext sem (.mk ms (.reject rc) :: rs) stack s = .ok (sem.setResp rc s') := by
  constructor
  · rw [exec_eq_run]; simp [run, hm]
  · intro rc; rw [exec_eq_run]; simp [run, hm]

/-- goto never comes back: neither the rest of the current sequence nor any
pending jump return influences the result. -/
theorem goto_never_returns (sem : Sem St E) (ms : List (Bool × Nat)) (t rs : List Rule)
    (stack : List (List Rule)) (s s' : St) (hm : evalMatchers sem ms s = .ok (true, s')) :
    execNext sem (.mk ms (.goto t) :: rs) stack s = run sem t .ok s' := by
  rw [exec_eq_run]
  simp [run, hm]

/-- jump runs the target and then continues with the rest; return inside the
target resumes exactly there. -/
theorem jump_then_continue (sem : Sem St E) (ms : List (Bool × Nat)) (t rs : List Rule)
    (stack : List (List Rule)) (s s' : St) (hm : evalMatchers sem ms s = .ok (true, s')) :
    execNext sem (.mk ms (.jump t) :: rs) stack s = run sem t (run sem rs (denote sem stack)) s' := by
  rw [exec_eq_run]; simp [run, hm]

/-- A rule whose matchers do not all hold is skipped: its action is not run. -/
theorem unmatched_skipped (sem : Sem St E) (ms : List (Bool × Nat)) (act : Action) (rs : List Rule)
    (stack : List (List Rule)) (s s' : St) (hm : evalMatchers sem ms s = .ok (false, s')) :
    execNext sem (.mk ms act :: rs) stack s = execNext sem rs stack s' := by
  rw [exec_eq_run, exec_eq_run]; simp [run, hm]

/-! ### Matchers: left to right, stop at the first false (after '!') -/

/-- With matchers that log their invocation (`tag m` appended to the log) and
have fixed truth values, the log after evaluating a rule's matchers holds
exactly the matchers up to and including the first one that is false after
negation, in order; the result is "all matched". -/
def logSem (truth : Nat → Bool) : Sem (List Nat) Unit where
  matchFn m log := .ok (truth m, log ++ [m])
  execFn a log := .ok (log ++ [1000 + a])
  wrapFn _ k log := k log
  setResp _ log := log

def firstFalse (truth : Nat → Bool) : List (Bool × Nat) → List Nat × Bool
  | [] => ([], true)
  | (rev, m) :: ms =>
    if truth m != rev then let r := firstFalse truth ms; (m :: r.1, r.2) else ([m], false)

theorem matchers_short_circuit (truth : Nat → Bool) (ms : List (Bool × Nat)) (log : List Nat) :
    evalMatchers (logSem truth) ms log = .ok ((firstFalse truth ms).2, log ++ (firstFalse truth ms).1) := by
  induction ms generalizing log with
  | nil => simp [evalMatchers, firstFalse]
  | cons p ms ih =>
    obtain ⟨rev, m⟩ := p
    simp only [evalMatchers, logSem, firstFalse]
    by_cases h : (truth m != rev) = true
    · simp only [h, if_true]
      have := ih (log ++ [m])
      simp only [logSem] at this
      rw [this]
      simp
    · simp [h]

/-! ### The executed chain is the configured rule list

`Sequence.Exec` runs `execNext` on the chain that `NewSequence` built. With the
regenerated facts about `buildChain` (one node appended per rule) and about the
rest of the package (nothing rewrites a chain or a node afterwards) that chain
is the rule list itself: same length, rule `i` at position `i`, so every rule's
own matchers are evaluated when the walker reaches it. -/

/-- The construction facts as regenerated from the source (defaults that make
the theorems below unprovable when a fact could not be read). -/
def genBuild : Build :=
  { appendsPerRule := Gen.Facts.c06ChainAppendsPerRule.getD 0
    rewrites := Gen.Facts.c06ChainRewrites.getD 1
    earlyMatcherReturns := Gen.Facts.c06NewMatcherEarlyReturns.getD 1 }

theorem flatMap_replicate_one (rules : List Rule) :
    rules.flatMap (fun r => List.replicate 1 r) = rules := by
  induction rules with
  | nil => rfl
  | cons r rs ih => simp [List.flatMap_cons, ih]

/-- When every path of `newMatcher` that delivers a matcher passes the reverse
wiring, each matcher reaches its node negated iff it was written with '!'. -/
theorem wireMatchers_id (b : Build) (h : b.earlyMatcherReturns = 0) (early : Nat → Nat → Bool)
    (ri mi : Nat) (ms : List (Bool × Nat)) : b.wireMatchers early ri mi ms = ms := by
  induction ms generalizing mi with
  | nil => rfl
  | cons p ms ih => obtain ⟨rev, m⟩ := p; simp [Build.wireMatchers, h, ih]

theorem wireRules_id (b : Build) (h : b.earlyMatcherReturns = 0) (early : Nat → Nat → Bool)
    (ri : Nat) (rules : List Rule) : b.wireRules early ri rules = rules := by
  induction rules generalizing ri with
  | nil => rfl
  | cons r rs ih => cases r; simp [Build.wireRules, wireMatchers_id b h, ih]

/-- **One node per rule, none merged, dropped, duplicated or reordered, every
matcher negated exactly where '!' was written**: the chain built by the current
`NewSequence`/`buildChain`/`newNode`/`newMatcher` is exactly the configured
rule list, whatever a (non-existent) later pass or early return would do. -/
theorem built_chain_is_rules (rewrite : List Rule → List Rule) (early : Nat → Nat → Bool)
    (rules : List Rule) : genBuild.chain rewrite early rules = rules := by
  have h : genBuild.earlyMatcherReturns = 0 := by
    simp [genBuild, Gen.Facts.c06NewMatcherEarlyReturns]
  simp only [Build.chain, wireRules_id genBuild h]
  simp only [genBuild, Gen.Facts.c06ChainAppendsPerRule, Gen.Facts.c06ChainRewrites,
    Option.getD_some, if_true]
  exact flatMap_replicate_one rules

theorem built_chain_length (rewrite : List Rule → List Rule) (early : Nat → Nat → Bool)
    (rules : List Rule) : (genBuild.chain rewrite early rules).length = rules.length := by
  rw [built_chain_is_rules]

/-- **C06 from the rule list**: executing the sequence built from `rules`
(`Sequence.Exec`: a fresh walker on the built chain, no caller) is the
continuation semantics of the property statement on `rules`. -/
theorem sequence_exec_eq_run (sem : Sem St E) (rewrite : List Rule → List Rule)
    (early : Nat → Nat → Bool) (rules : List Rule) (s : St) :
    execNext sem (genBuild.chain rewrite early rules) [] s = run sem rules .ok s := by
  rw [built_chain_is_rules, exec_top]

/-- Why the construction facts matter: a pass that folds a rule into the
preceding one when both carry the same condition (so that the condition is
looked at once for both actions) is *not* semantics preserving. State =
(log, response present); matcher 0 = "a response is present"; action 1 answers
the query, action 2 only logs, action 12 is "1 then 2" as the folded node would
run them. Program: `!0 -> 1 ; !0 -> 2`. -/
def respSem : Sem (List Nat × Bool) Unit where
  matchFn m s := .ok (s.2, (s.1 ++ [m], s.2))
  execFn a s := .ok (if a = 12 then (s.1 ++ [101, 102], true) else (s.1 ++ [100 + a], s.2 || a == 1))
  wrapFn _ k s := k s
  setResp _ s := (s.1, true)

def twoRules : List Rule := [.mk [(true, 0)] (.plain 1), .mk [(true, 0)] (.plain 2)]
def folded : List Rule → List Rule := fun _ => [.mk [(true, 0)] (.plain 12)]

theorem folding_rules_changes_behaviour :
    run respSem twoRules .ok ([], false) = .ok ([0, 101, 0], true) ∧
    execNext respSem (Build.chain ⟨1, 1, 0⟩ folded (fun _ _ => false) twoRules) [] ([], false) = .ok ([0, 101, 102], true) := by
  constructor
  · simp [run, evalMatchers, respSem, twoRules]
  · simp [Build.chain, folded, exec_eq_run, run, denote, evalMatchers, respSem]

/-- Why "no return ahead of the reverse wiring" matters: a `newMatcher` that
remembers the matchers it built by their text and returns the remembered one
straight away (`early`: every rule after the first) loses the '!' of the
if/else idiom `0 -> 1 ; !0 -> 2`: both branches run. -/
def ifElse : List Rule := [.mk [(false, 0)] (.plain 1), .mk [(true, 0)] (.plain 2)]

theorem lost_negation_changes_behaviour :
    run (logSem fun _ => true) ifElse .ok [] = .ok [0, 1001, 0] ∧
    execNext (logSem fun _ => true) (Build.chain ⟨1, 0, 1⟩ id (fun ri _ => ri ≥ 1) ifElse) [] [] =
      .ok [0, 1001, 0, 1002] := by
  constructor
  · simp [run, evalMatchers, logSem, ifElse]
  · simp [Build.chain, Build.wireRules, Build.wireMatchers, ifElse, exec_eq_run, run, denote,
      evalMatchers, logSem]

/-! ### Guards over the regenerated facts -/
theorem facts_guard :
    Gen.Facts.c06ExecNextDoesNotMutateWalker = some true ∧
    Gen.Facts.c06NextIsRestOfChain = some true ∧
    Gen.Facts.c06EndOfChainJumpsBack = some true ∧
    Gen.Facts.c06MatchLoopShape = some true ∧
    Gen.Facts.c06ReturnUsesJumpBack = some true ∧
    Gen.Facts.c06JumpPushesNext = some true ∧
    Gen.Facts.c06GotoDropsStack = some true ∧
    Gen.Facts.c06AcceptRejectReturnNil = some true ∧
    Gen.Facts.c06ReverseNegatesNonError = some true ∧
    Gen.Facts.c06EPreferredOverRE = some true ∧
    Gen.Facts.c06BuildChainShape = some true ∧
    Gen.Facts.c06ChainAppendsPerRule = some 1 ∧
    Gen.Facts.c06ChainRewrites = some 0 ∧
    Gen.Facts.c06NewNodeShape = some true ∧
    Gen.Facts.c06NewMatcherEarlyReturns = some 0 ∧
    Gen.Facts.c06NewSequenceShape = some true ∧
    Gen.Facts.c06SequenceExecWalksWholeChain = some true := by decide

/-! ### Non-vacuity: a program with jump, return, goto and a wrapper that runs
its continuation twice; the log shows every clause at work. -/
def twice : Sem (List Nat) Unit := { logSem (fun m => m % 2 == 1) with wrapFn := fun _ k log => (k log).bind k }
def inner : List Rule := [.mk [] (.plain 1), .mk [(false, 1)] .ret, .mk [] (.plain 2)]
def prog : List Rule := [.mk [(false, 3), (true, 2)] (.jump inner), .mk [] (.wrap 0), .mk [(false, 2)] (.plain 9), .mk [] (.plain 3)]
-- matchers 3 and !2 hold; jump: action 1, matcher 1 holds -> return (action 2 skipped); wrapper runs the rest twice:
-- matcher 2 is false -> plain 9 skipped, plain 3 runs; then the same again.
example : execNext twice prog [] [] = .ok [3, 2, 1001, 1, 2, 1003, 2, 1003] := by
  simp [exec_eq_run, run, denote, evalMatchers, twice, logSem, inner, prog, Except.bind]
example : execNext (logSem fun _ => true) [.mk [] (.jump [.mk [] (.goto [.mk [] (.plain 5)])]), .mk [] (.plain 6)] [] [] = .ok [1005] := by
  simp [exec_eq_run, run, denote, evalMatchers, logSem]

end Props.C06
