import MosdnsVerif.Model.C06
import MosdnsVerif.Gen.Facts

/-!
# C06 — sequences execute exactly as their rules say
-/
namespace Props.C06
open Model.C06

variable {St E : Type}

/-- **C06 (main).** The walker implementation (`execNext`: explicit rest of the
chain and stack of pending jump returns, as in `chain.go` / `built_in.go`)
computes exactly the continuation semantics `run` of the property statement:
rules in order, accept/reject end everything, `return` resumes after the
calling `jump` (or ends at top level), `jump` runs the target and continues,
`goto` runs the target and never comes back, an error from a matcher or an
action aborts everything, a wrapping plugin receives the rest of the chain
including the pending jump returns. For all programs of any length and nesting. -/
theorem exec_eq_run (sem : Sem St E) (rest : List Rule) (stack : List (List Rule)) (s : St) :
    execNext sem rest stack s = run sem rest (denote sem stack) s := by
  fun_induction execNext sem rest stack s <;> simp_all [run, denote]

/-- Top level: a sequence run with no caller. -/
theorem exec_top (sem : Sem St E) (chain : List Rule) (s : St) :
    execNext sem chain [] s = run sem chain .ok s := by
  rw [exec_eq_run]; rfl

/-- **Reusable continuation.** What a wrapping plugin `w` at `rule :: rs` is
handed is the function `run rs (denote stack)`: a value that does not depend on
how often, from which state, or in which order it is invoked - zero, one or
many times (also concurrently on copies) it executes the same remaining rules
and the same pending jump returns. -/
theorem continuation_reusable (sem : Sem St E) (ms : List (Bool × Nat)) (w : Nat)
    (rs : List Rule) (stack : List (List Rule)) (s s' : St)
    (hm : evalMatchers sem ms s = .ok (true, s')) :
    execNext sem (.mk ms (.wrap w) :: rs) stack s = sem.wrapFn w (run sem rs (denote sem stack)) s' := by
  rw [exec_eq_run]
  simp [run, hm]

/-- **Errors abort everything**: an error from a matcher or from a plain action
of the first applicable rule is the result, whatever follows and whoever called. -/
theorem error_aborts (sem : Sem St E) (ms : List (Bool × Nat)) (act : Action) (rs : List Rule)
    (stack : List (List Rule)) (s : St) (e : E) :
    (evalMatchers sem ms s = .error e → execNext sem (.mk ms act :: rs) stack s = .error e) ∧
    (∀ a s', act = .plain a → evalMatchers sem ms s = .ok (true, s') → sem.execFn a s' = .error e →
      execNext sem (.mk ms act :: rs) stack s = .error e) := by
  constructor
  · intro h; rw [exec_eq_run]; simp [run, h]
  · intro a s' ha hm he; subst ha; rw [exec_eq_run]; simp [run, hm, he]

/-- accept and reject end all processing, also inside nested jumps. -/
theorem accept_reject_end (sem : Sem St E) (ms : List (Bool × Nat)) (rs : List Rule)
    (stack : List (List Rule)) (s s' : St) (hm : evalMatchers sem ms s = .ok (true, s')) :
    execNext sem (.mk ms .accept :: rs) stack s = .ok s' ∧
    ∀ rc, execNext sem (.mk ms (.reject rc) :: rs) stack s = .ok (sem.setResp rc s') := by
  constructor
  · rw [exec_eq_run]; simp [run, hm]
  · intro rc; rw [exec_eq_run]; simp [run, hm]

/-- goto never comes back: neither the rest of the current sequence nor any
pending jump return influences the result. -/
theorem goto_never_returns (sem : Sem St E) (ms : List (Bool × Nat)) (t rs : List Rule)
    (stack : List (List Rule)) (s s' : St) (hm : evalMatchers sem ms s = .ok (true, s')) :
    execNext sem (.mk ms (.goto t) :: rs) stack s = run sem t .ok s' := by
  rw [exec_eq_run]
  simp [run, hm]

/-- jump runs the target and then continues with the rest; return inside the
target resumes exactly there. -/
theorem jump_then_continue (sem : Sem St E) (ms : List (Bool × Nat)) (t rs : List Rule)
    (stack : List (List Rule)) (s s' : St) (hm : evalMatchers sem ms s = .ok (true, s')) :
    execNext sem (.mk ms (.jump t) :: rs) stack s = run sem t (run sem rs (denote sem stack)) s' := by
  rw [exec_eq_run]; simp [run, hm]

/-- A rule whose matchers do not all hold is skipped: its action is not run. -/
theorem unmatched_skipped (sem : Sem St E) (ms : List (Bool × Nat)) (act : Action) (rs : List Rule)
    (stack : List (List Rule)) (s s' : St) (hm : evalMatchers sem ms s = .ok (false, s')) :
    execNext sem (.mk ms act :: rs) stack s = execNext sem rs stack s' := by
  rw [exec_eq_run, exec_eq_run]; simp [run, hm]

/-! ### Matchers: left to right, stop at the first false (after '!') -/

/-- With matchers that log their invocation (`tag m` appended to the log) and
have fixed truth values, the log after evaluating a rule's matchers holds
exactly the matchers up to and including the first one that is false after
negation, in order; the result is "all matched". -/
def logSem (truth : Nat → Bool) : Sem (List Nat) Unit where
  matchFn m log := .ok (truth m, log ++ [m])
  execFn a log := .ok (log ++ [1000 + a])
  wrapFn _ k log := k log
  setResp _ log := log

def firstFalse (truth : Nat → Bool) : List (Bool × Nat) → List Nat × Bool
  | [] => ([], true)
  | (rev, m) :: ms =>
    if truth m != rev then let r := firstFalse truth ms; (m :: r.1, r.2) else ([m], false)

theorem matchers_short_circuit (truth : Nat → Bool) (ms : List (Bool × Nat)) (log : List Nat) :
    evalMatchers (logSem truth) ms log = .ok ((firstFalse truth ms).2, log ++ (firstFalse truth ms).1) := by
  induction ms generalizing log with
  | nil => simp [evalMatchers, firstFalse]
  | cons p ms ih =>
    obtain ⟨rev, m⟩ := p
    simp only [evalMatchers, logSem, firstFalse]
    by_cases h : (truth m != rev) = true
    · simp only [h, if_true]
      have := ih (log ++ [m])
      simp only [logSem] at this
      rw [this]
      simp
    · simp [h]

/-! ### Guards over the regenerated facts -/
theorem facts_guard :
    Gen.Facts.c06ExecNextDoesNotMutateWalker = some true ∧
    Gen.Facts.c06NextIsRestOfChain = some true ∧
    Gen.Facts.c06EndOfChainJumpsBack = some true ∧
    Gen.Facts.c06MatchLoopShape = some true ∧
    Gen.Facts.c06ReturnUsesJumpBack = some true ∧
    Gen.Facts.c06JumpPushesNext = some true ∧
    Gen.Facts.c06GotoDropsStack = some true ∧
    Gen.Facts.c06AcceptRejectReturnNil = some true ∧
    Gen.Facts.c06ReverseNegatesNonError = some true ∧
    Gen.Facts.c06EPreferredOverRE = some true := by decide

/-! ### Non-vacuity: a program with jump, return, goto and a wrapper that runs
its continuation twice; the log shows every clause at work. -/
def twice : Sem (List Nat) Unit := { logSem (fun m => m % 2 == 1) with wrapFn := fun _ k log => (k log).bind k }
def inner : List Rule := [.mk [] (.plain 1), .mk [(false, 1)] .ret, .mk [] (.plain 2)]
def prog : List Rule := [.mk [(false, 3), (true, 2)] (.jump inner), .mk [] (.wrap 0), .mk [(false, 2)] (.plain 9), .mk [] (.plain 3)]
-- matchers 3 and !2 hold; jump: action 1, matcher 1 holds -> return (action 2 skipped); wrapper runs the rest twice:
-- matcher 2 is false -> plain 9 skipped, plain 3 runs; then the same again.
example : execNext twice prog [] [] = .ok [3, 2, 1001, 1, 2, 1003, 2, 1003] := by
  simp [exec_eq_run, run, denote, evalMatchers, twice, logSem, inner, prog, Except.bind]
example : execNext (logSem fun _ => true) [.mk [] (.jump [.mk [] (.goto [.mk [] (.plain 5)])]), .mk [] (.plain 6)] [] [] = .ok [1005] := by
  simp [exec_eq_run, run, denote, evalMatchers, logSem]

end Props.C06
