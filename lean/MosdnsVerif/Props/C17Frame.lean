import MosdnsVerif.Refine.C16
import MosdnsVerif.Refine.C17
import MosdnsVerif.Lemmas.Stream

/-!
# C17, the size of the TCP reply

"The TCP reply is what the caller gets", over replies of *any size*: the TCP
half of the udp upstream reads the reply with `dnsutils.ReadRawMsgFromTCP`
(regenerated as `Gen.readRawMsgFromTCP`, proved equal to `Model.C16.readRaw`
in Refine/C16.lean). A TCP frame announces its size in 16 bits, so a server
may answer with any message of up to 65535 bytes. The theorems below say that
the regenerated reader hands back such a frame whole for every size 13..65535
and every chunking of the stream, and that - composed with the regenerated
`udpWithFallbackExchange` - a truncated UDP reply followed by such a TCP frame
gives the caller exactly the framed message. A reader that counts the two
header bytes into the 65535 limit is refuted by a witness.
-/

namespace Props.C17
open Model.C16 Go Lemmas.Stream

theorem announced_hdr16 (n : Nat) (h : n ≤ 65535) : announced (hdr n) = n := by
  unfold announced hdr
  simp
  omega

/-- **C17 (any size).** The regenerated frame reader returns a framed message of
any size 12..65535 (12 = a bare DNS header, accepted since the repair of F18) whole, however the stream is chunked. -/
theorem tcp_frame_read_whole (m rest : Bytes) (cs : Stream) (h12 : 12 ≤ m.length) (hmax : m.length ≤ 65535)
    (hcs : cs.flatten = hdr m.length ++ m ++ rest) :
    ∃ cs', Gen.readRawMsgFromTCP cs = .ok (m, cs') ∧ cs'.flatten = rest := by
  rw [Refine.C16.readRawMsgFromTCP_eq]
  unfold readRaw readFull
  obtain ⟨c1, h1, h1f⟩ := readFullAux_spec cs 2 [] (hdr m.length) (m ++ rest) (by simpa using hcs) (by simp [hdr])
  simp only [List.nil_append] at h1
  rw [h1]
  simp only [announced_hdr16 m.length hmax]
  have : ¬ m.length < 12 := by omega
  simp only [this, if_false]
  obtain ⟨c2, h2, h2f⟩ := readFullAux_spec c1 m.length [] m rest h1f rfl
  simp only [List.nil_append] at h2
  exact ⟨c2, h2, h2f⟩

/-- The two largest sizes a 16-bit length can announce are read like any other. -/
theorem tcp_frame_max_sizes (m rest : Bytes) (cs : Stream) (hm : m.length = 65534 ∨ m.length = 65535)
    (hcs : cs.flatten = hdr m.length ++ m ++ rest) :
    ∃ cs', Gen.readRawMsgFromTCP cs = .ok (m, cs') := by
  obtain ⟨cs', h, _⟩ := tcp_frame_read_whole m rest cs (by omega) (by omega) hcs
  exact ⟨cs', h⟩

/-- The TCP half as a behaviour for `udpWithFallbackExchange`: whatever the query,
the reply is what the regenerated frame reader finds on the connection's stream. -/
def tcpOver (cs : Stream) : Bytes → Except Nat Bytes := fun _ =>
  match Gen.readRawMsgFromTCP cs with
  | .ok (b, _) => .ok b
  | .error _ => .error 1

/-- **C17 (TCP reply of any size).** The UDP reply has TC set and the server's TCP
reply `m` (12..65535 bytes: every DNS message a frame can carry, a bare header included) arrives framed on the connection in any chunking:
the caller gets exactly `m`, and TCP was used. -/
theorem truncated_gets_tcp_reply_of_any_size (udp : Bytes → Except Nat Bytes) (q r m rest : Bytes) (cs : Stream)
    (hu : udp q = .ok r) (htc : Model.C17.tcBit r = true)
    (h12 : 12 ≤ m.length) (hmax : m.length ≤ 65535) (hcs : cs.flatten = hdr m.length ++ m ++ rest) :
    Gen.udpWithFallbackExchange udp (tcpOver cs) q = (.ok m, true) := by
  rw [Refine.C17.exchange_eq]
  obtain ⟨cs', h, _⟩ := tcp_frame_read_whole m rest cs h12 hmax hcs
  simp [Model.C17.exchange, hu, htc, tcpOver, h]

/-- What the theorems above exclude: a reader that refuses a frame whose size
*including the length header* exceeds 65535. -/
def readRawHdrCounted (c : Stream) : Except ReadErr (Bytes × Stream) :=
  match readFull c 2 with
  | .error e => .error e
  | .ok (h, c) =>
    if announced h < 12 then .error .tooSmall
    else if announced h + 2 > 65535 then .error .tooSmall
    else readFull c (announced h)

theorem hdr_counted_refuses_legal_reply (m rest : Bytes) (cs : Stream) (hm : m.length = 65534 ∨ m.length = 65535)
    (hcs : cs.flatten = hdr m.length ++ m ++ rest) :
    ∃ e, readRawHdrCounted cs = .error e := by
  unfold readRawHdrCounted readFull
  obtain ⟨c1, h1, _⟩ := readFullAux_spec cs 2 [] (hdr m.length) (m ++ rest) (by simpa using hcs) (by simp [hdr])
  simp only [List.nil_append] at h1
  rw [h1]
  simp only [announced_hdr16 m.length (by omega)]
  have h12 : ¬ m.length < 12 := by omega
  have hbig : m.length + 2 > 65535 := by omega
  simp [h12, hbig]

/-- What the reader did before the repair of F18: it refused a frame of exactly 12 bytes (a header-only reply,
e.g. FORMERR / REFUSED with no question), so the caller of a truncated query got an error instead of the TCP reply. -/
def readRawHeaderRefused (c : Stream) : Except ReadErr (Bytes × Stream) :=
  match readFull c 2 with
  | .error e => .error e
  | .ok (h, c) => if announced h ≤ 12 then .error .tooSmall else readFull c (announced h)

theorem header_only_reply_was_refused (m rest : Bytes) (cs : Stream) (hm : m.length = 12)
    (hcs : cs.flatten = hdr m.length ++ m ++ rest) :
    readRawHeaderRefused cs = .error .tooSmall ∧ ∃ cs', Gen.readRawMsgFromTCP cs = .ok (m, cs') := by
  constructor
  · unfold readRawHeaderRefused readFull
    obtain ⟨c1, h1, _⟩ := readFullAux_spec cs 2 [] (hdr m.length) (m ++ rest) (by simpa using hcs) (by simp [hdr])
    simp only [List.nil_append] at h1
    rw [h1]
    simp only [announced_hdr16 m.length (by omega)]
    simp [hm]
  · obtain ⟨cs', h, _⟩ := tcp_frame_read_whole m rest cs (by omega) (by omega) hcs
    exact ⟨cs', h⟩

end Props.C17

