import MosdnsVerif.Model.C09
import MosdnsVerif.Base.Facts
import MosdnsVerif.Gen.Facts

/-!
# C09 — per-connection concurrency limits hold and capacity never leaks
-/
namespace Props.C09
open Model.C09

/-! ## established connection -/

theorem tdc_init_inv (max : Nat) : (Tdc.init max).Inv := by
  constructor <;> simp [Tdc.init]

theorem tdc_inv_step (s s' : Tdc) (l : TLabel) (o : Out) (hi : s.Inv) (hs : s.step l = some (s', o)) :
    s'.Inv ∧ s'.max = s.max := by
  obtain ⟨h1, h2, h3, h4⟩ := hi
  cases l with
  | reserve =>
    simp only [Tdc.step] at hs
    split at hs
    · cases hs; exact ⟨⟨h1, h2, h3, h4⟩, rfl⟩
    · split at hs
      · cases hs; exact ⟨⟨h1, h2, h3, h4⟩, rfl⟩
      · cases hs
        refine ⟨⟨?_, ?_, ?_, ?_⟩, rfl⟩ <;> simp only <;> omega
  | withdraw =>
    simp only [Tdc.step] at hs
    split at hs
    · cases hs
    · cases hs
      refine ⟨⟨?_, ?_, ?_, ?_⟩, rfl⟩ <;> simp only <;> omega
  | enter q =>
    simp only [Tdc.step] at hs
    split at hs
    · cases hs
    · split at hs
      · cases hs
        refine ⟨⟨?_, ?_, ?_, ?_⟩, rfl⟩ <;> simp only <;> omega
      · split at hs
        · cases hs
          refine ⟨⟨?_, ?_, ?_, ?_⟩, rfl⟩ <;> simp only <;> omega
        · cases hs
          refine ⟨⟨?_, ?_, ?_, ?_⟩, rfl⟩ <;> simp only <;> omega
  | reply =>
    simp only [Tdc.step] at hs
    split at hs
    · cases hs
    · rename_i hc
      simp only [Bool.or_eq_true, decide_eq_true_eq, not_or] at hc
      cases hs
      refine ⟨⟨?_, ?_, ?_, ?_⟩, rfl⟩ <;> simp only <;> omega
  | stray =>
    simp only [Tdc.step] at hs
    split at hs
    · cases hs
    · cases hs; exact ⟨⟨h1, h2, h3, h4⟩, rfl⟩
  | exit1 =>
    simp only [Tdc.step] at hs
    split at hs
    · cases hs
    · cases hs
      refine ⟨⟨?_, ?_, ?_, ?_⟩, rfl⟩ <;> simp only <;> omega
  | exit0 =>
    simp only [Tdc.step] at hs
    split at hs
    · cases hs
    · cases hs; exact ⟨⟨h1, h2, h3, h4⟩, rfl⟩
  | close =>
    simp only [Tdc.step] at hs
    split at hs
    · cases hs
    · cases hs; exact ⟨⟨h1, h2, h3, h4⟩, rfl⟩

theorem tdc_inv_run (ls : List TLabel) : ∀ (s s' : Tdc), s.Inv → s.run ls = some s' → s'.Inv ∧ s'.max = s.max := by
  induction ls with
  | nil => intro s s' hi hr; simp only [Tdc.run, Option.some.injEq] at hr; subst hr; exact ⟨hi, rfl⟩
  | cons l ls ih =>
    intro s s' hi hr
    simp only [Tdc.run] at hr
    cases hs : s.step l with
    | none => rw [hs] at hr; cases hr
    | some p =>
      obtain ⟨s1, o⟩ := p
      rw [hs] at hr
      have h1 := tdc_inv_step s s1 l o hi hs
      have h2 := ih s1 s' h1.1 hr
      exact ⟨h2.1, h2.2.trans h1.2⟩

/-- **The limit holds at every instant**: after any history, the number of
unanswered queries the connection carries (plus reservations handed out) never
exceeds its limit. -/
theorem tdc_limit (max : Nat) (ls : List TLabel) (s : Tdc) (hr : (Tdc.init max).run ls = some s) :
    s.e1 ≤ max ∧ s.h + s.e1 ≤ max := by
  have := tdc_inv_run ls _ s (tdc_init_inv max) hr
  have hm : s.max = max := this.2
  have := this.1.lim
  omega

/-- **No counter underflows.** -/
theorem tdc_no_underflow (max : Nat) (ls : List TLabel) (s : Tdc) (hr : (Tdc.init max).run ls = some s) :
    0 ≤ s.reserved ∧ 0 ≤ s.queued := by
  have := (tdc_inv_run ls _ s (tdc_init_inv max) hr).1
  have h1 := this.res
  have h2 := this.que
  omega

/-- **Capacity is never lost, and never refused without reason**: after any
history of completed, failed, cancelled or withdrawn queries, a live connection
admits exactly `limit - (reservations + unanswered queries)` further queries. In
particular, with nothing outstanding it admits as many as a fresh one, and
with fewer than the limit outstanding it admits another one. -/
theorem tdc_capacity (max : Nat) (ls : List TLabel) (s : Tdc) (hr : (Tdc.init max).run ls = some s) (hc : s.closed = false) :
    s.free = (max : Int) - (s.h + s.e1) := by
  have := tdc_inv_run ls _ s (tdc_init_inv max) hr
  have hm : s.max = max := this.2
  have h1 := this.1.res
  have h2 := this.1.que
  simp only [Tdc.free, hc, Bool.false_eq_true, ↓reduceIte, hm]
  omega

theorem tdc_quiescent_like_fresh (max : Nat) (ls : List TLabel) (s : Tdc) (hr : (Tdc.init max).run ls = some s)
    (hc : s.closed = false) (hq : s.h = 0 ∧ s.e1 = 0) : s.free = (Tdc.init max).free := by
  rw [tdc_capacity max ls s hr hc, hq.1, hq.2]
  simp [Tdc.free, Tdc.init]

/-- `free` is what the next reservation does: admitted iff `free > 0`. -/
theorem tdc_reserve_iff_free (s : Tdc) (hc : s.closed = false) :
    (∃ s', s.step .reserve = some (s', .admitted)) ↔ 0 < s.free := by
  simp only [Tdc.step, Tdc.free, hc, Bool.false_eq_true, ↓reduceIte]
  constructor
  · rintro ⟨s', h⟩
    split at h
    · cases h
    · omega
  · intro h
    have : ¬ (s.queued + s.reserved ≥ (s.max : Int)) := by omega
    rw [if_neg this]
    exact ⟨_, rfl⟩

theorem tdc_admits_below_limit (max : Nat) (ls : List TLabel) (s : Tdc) (hr : (Tdc.init max).run ls = some s)
    (hc : s.closed = false) (hlt : s.h + s.e1 < max) : ∃ s', s.step .reserve = some (s', .admitted) := by
  rw [tdc_reserve_iff_free s hc, tdc_capacity max ls s hr hc]
  omega

/-- the first `limit` reservations of a live connection are all admitted -/
theorem tdc_first_reservations (s : Tdc) (hi : s.Inv) (hc : s.closed = false) (hn : s.nres < s.max) :
    ∃ s', s.step .reserve = some (s', .admitted) := by
  rw [tdc_reserve_iff_free s hc]
  have h1 := hi.res
  have h2 := hi.que
  have h4 := hi.cnt
  simp only [Tdc.free, hc, Bool.false_eq_true, ↓reduceIte]
  omega

/-! ## connection that is still dialing -/

theorem lazy_init_inv (max : Nat) : (Lazy.init max).Inv := by
  constructor <;> simp [Lazy.init]

theorem lazy_inv_step (s s' : Lazy) (l : LLabel) (o : Out) (hi : s.Inv) (hs : s.step l = some (s', o)) :
    s'.Inv ∧ s'.max = s.max := by
  obtain ⟨h1, h2, h3, h4, h5, h6⟩ := hi
  cases l with
  | reserve =>
    simp only [Lazy.step] at hs
    cases hd : s.dial with
    | dialing =>
      rw [hd] at hs
      simp only at hs
      have h5' := h5 hd
      have h2' := h2 (by rw [hd]; simp)
      split at hs
      · cases hs; exact ⟨⟨h1, h2, h3, h4, h5, h6⟩, rfl⟩
      · cases hs
        refine ⟨⟨?_, ?_, ?_, ?_, ?_, ?_⟩, rfl⟩ <;> simp only <;> (try intro _) <;> omega
    | failed =>
      rw [hd] at hs; simp only at hs
      cases hs; exact ⟨⟨h1, h2, h3, h4, h5, h6⟩, rfl⟩
    | ok =>
      rw [hd] at hs; simp only at hs
      split at hs
      · cases hs; exact ⟨⟨h1, h2, h3, h4, h5, h6⟩, rfl⟩
      · cases hs
  | withdraw =>
    simp only [Lazy.step] at hs
    split at hs
    · cases hs
    · cases hs
      refine ⟨⟨?_, ?_, ?_, ?_, ?_, ?_⟩, rfl⟩ <;> simp only <;> (try intro hx) <;> (try have := h2 hx) <;> (try have := h5 hx) <;> omega
  | enter =>
    simp only [Lazy.step] at hs
    split at hs
    · cases hs
    · cases hs
      refine ⟨⟨?_, ?_, ?_, ?_, ?_, ?_⟩, rfl⟩ <;> simp only <;> (try intro hx) <;> (try have := h2 hx) <;> (try have := h5 hx) <;> omega
  | ctxDone =>
    simp only [Lazy.step] at hs
    split at hs
    · cases hs
    · cases hs
      refine ⟨⟨?_, ?_, ?_, ?_, ?_, ?_⟩, rfl⟩ <;> simp only <;> (try intro hx) <;> (try have := h2 hx) <;> (try have := h5 hx) <;> omega
  | dialOk =>
    simp only [Lazy.step] at hs
    split at hs
    · rename_i hd
      cases hs
      have h2' := h2 (by rw [hd]; simp)
      refine ⟨⟨h1, fun _ => h2', h3, h4, ?_, h6⟩, rfl⟩
      intro hx; cases hx
    · cases hs
  | dialFail =>
    simp only [Lazy.step] at hs
    split at hs
    · cases hs
      refine ⟨⟨h1, ?_, h3, h4, ?_, h6⟩, rfl⟩
      · intro hx; exact absurd rfl hx
      · intro hx; cases hx
    · cases hs
  | proceed =>
    simp only [Lazy.step] at hs
    split at hs
    · cases hs
    · cases hd : s.dial with
      | dialing => rw [hd] at hs; cases hs
      | ok =>
        rw [hd] at hs; simp only at hs; cases hs
        have h2' := h2 (by rw [hd]; simp)
        refine ⟨⟨?_, ?_, ?_, ?_, ?_, ?_⟩, rfl⟩ <;> simp only
        · omega
        · intro _; omega
        · omega
        · omega
        · intro hx; cases hx
        · omega
      | failed =>
        rw [hd] at hs; simp only at hs; cases hs
        refine ⟨⟨?_, ?_, ?_, ?_, ?_, ?_⟩, rfl⟩ <;> simp only
        · omega
        · intro hx; exact absurd rfl hx
        · omega
        · omega
        · intro hx; cases hx
        · omega
  | finish =>
    simp only [Lazy.step] at hs
    split at hs
    · cases hs
    · cases hs
      refine ⟨⟨?_, ?_, ?_, ?_, ?_, ?_⟩, rfl⟩ <;> simp only <;> (try intro hx) <;> (try have := h2 hx) <;> (try have := h5 hx) <;> omega

theorem lazy_inv_run (ls : List LLabel) : ∀ (s s' : Lazy), s.Inv → s.run ls = some s' → s'.Inv ∧ s'.max = s.max := by
  induction ls with
  | nil => intro s s' hi hr; simp only [Lazy.run, Option.some.injEq] at hr; subst hr; exact ⟨hi, rfl⟩
  | cons l ls ih =>
    intro s s' hi hr
    simp only [Lazy.run] at hr
    cases hs : s.step l with
    | none => rw [hs] at hr; cases hr
    | some p =>
      obtain ⟨s1, o⟩ := p
      rw [hs] at hr
      have h1 := lazy_inv_step s s1 l o hi hs
      have h2 := ih s1 s' h1.1 hr
      exact ⟨h2.1, h2.2.trans h1.2⟩

/-- **The queue limit of a dialing connection holds, no counter (nor the wait
group) goes negative, and capacity is not lost** by cancelled or withdrawn
queued queries: while dialing, the connection admits exactly
`limit - queued` further queries. -/
theorem lazy_limit_and_capacity (max : Nat) (ls : List LLabel) (s : Lazy) (hr : (Lazy.init max).run ls = some s) :
    s.eh + s.ew ≤ max ∧ 0 ≤ s.reserved ∧ 0 ≤ s.wg ∧
    (s.dial = .dialing → s.free = (max : Int) - (s.eh + s.ew)) := by
  have := lazy_inv_run ls _ s (lazy_init_inv max) hr
  have hm : s.max = max := this.2
  obtain ⟨h1, h2, h3, h4, h5, h6⟩ := this.1
  refine ⟨by omega, by omega, by omega, ?_⟩
  intro hd
  have := h5 hd
  simp only [Lazy.free, hm]
  omega

theorem lazy_reserve_iff_free (s : Lazy) (hd : s.dial = .dialing) :
    (∃ s', s.step .reserve = some (s', .admitted)) ↔ 0 < s.free := by
  simp only [Lazy.step, hd, Lazy.free]
  constructor
  · rintro ⟨s', h⟩
    split at h
    · cases h
    · omega
  · intro h
    have : ¬ (s.reserved ≥ (s.max : Int)) := by omega
    rw [if_neg this]
    exact ⟨_, rfl⟩

/-! ## queued queries are not refused once the dial succeeded -/

def SysInv (s : Sys) : Prop :=
  s.lz.Inv ∧ s.tdc.Inv ∧ (s.lz.dial ≠ .ok → s.tdc = Tdc.init s.tdc.max) ∧
  (0 < s.lz.eh + s.lz.ew → s.tdc.nres ≤ s.lz.rereserved)

theorem sys_init_inv (a b : Nat) : SysInv (Sys.init a b) := by
  refine ⟨lazy_init_inv a, tdc_init_inv b, fun _ => rfl, ?_⟩
  simp [Sys.init, Lazy.init]

/-- **Once the dial succeeds with an equal (or larger) limit, no query that was
queued while dialing is refused by a live connection**, in every interleaving
of early callers, late callers, the reader and cancellations. -/
theorem early_not_refused (s : Sys) (hi : SysInv s) (hle : s.lz.max ≤ s.tdc.max)
    (hok : s.lz.dial = .ok) (hw : 0 < s.lz.ew) (hc : s.tdc.closed = false) :
    ∃ s', s.step (.lz .proceed) = some (s', .admitted) := by
  obtain ⟨hl, ht, _, hn⟩ := hi
  have hn' := hn (by omega)
  have hrer := hl.rer
  have hadm := tdc_first_reservations s.tdc ht hc (by omega)
  obtain ⟨t', ht'⟩ := hadm
  have hne : ¬ s.lz.ew = 0 := by omega
  simp only [Sys.step, Lazy.step, hok, hne, ↓reduceIte, ht']
  exact ⟨_, rfl⟩

/-- what a step of the wrapper does to the fields the composition looks at -/
theorem lazy_step_shape (s s' : Lazy) (l : LLabel) (o : Out) (hs : s.step l = some (s', o)) :
    (s'.dial = s.dial ∨ s.dial = .dialing) ∧
    (s.dial = .ok → s'.dial = .ok ∧ s'.eh + s'.ew ≤ s.eh + s.ew ∧
      s.rereserved ≤ s'.rereserved ∧ (l ≠ .proceed → s'.rereserved = s.rereserved)) := by
  cases l <;> simp only [Lazy.step] at hs
  case reserve =>
    cases hd : s.dial <;> rw [hd] at hs <;> simp only at hs
    · split at hs <;> cases hs <;> simp [hd]
    · split at hs
      · cases hs; simp [hd]
      · cases hs
    · cases hs; simp [hd]
  case withdraw => split at hs <;> cases hs; refine ⟨Or.inl rfl, fun h => ⟨h, ?_, Nat.le_refl _, fun _ => rfl⟩⟩; simp only; omega
  case enter => split at hs <;> cases hs; refine ⟨Or.inl rfl, fun h => ⟨h, ?_, Nat.le_refl _, fun _ => rfl⟩⟩; simp only; omega
  case ctxDone => split at hs <;> cases hs; refine ⟨Or.inl rfl, fun h => ⟨h, ?_, Nat.le_refl _, fun _ => rfl⟩⟩; simp only; omega
  case dialOk =>
    split at hs
    · rename_i hd; cases hs; exact ⟨Or.inr hd, fun h => by rw [hd] at h; cases h⟩
    · cases hs
  case dialFail =>
    split at hs
    · rename_i hd; cases hs; exact ⟨Or.inr hd, fun h => by rw [hd] at h; cases h⟩
    · cases hs
  case proceed =>
    split at hs
    · cases hs
    · cases hd : s.dial <;> rw [hd] at hs <;> simp only at hs
      · cases hs
      · cases hs
        refine ⟨Or.inl (by simp only [hd]), fun _ => ⟨rfl, ?_, ?_, fun h => absurd rfl h⟩⟩ <;> simp only <;> omega
      · cases hs; exact ⟨Or.inl (by simp only [hd]), fun h => by cases h⟩
  case finish => split at hs <;> cases hs; refine ⟨Or.inl rfl, fun h => ⟨h, Nat.le_refl _, Nat.le_refl _, fun _ => rfl⟩⟩

theorem tdc_step_nres (s s' : Tdc) (l : TLabel) (o : Out) (hs : s.step l = some (s', o)) :
    s'.nres ≤ s.nres + 1 ∧ (l ≠ .reserve → s'.nres = s.nres) := by
  cases l <;> simp only [Tdc.step] at hs
  case reserve =>
    split at hs
    · cases hs; exact ⟨by omega, fun h => absurd rfl h⟩
    · split at hs <;> cases hs <;> exact ⟨by simp, fun h => absurd rfl h⟩
  case enter q =>
    split at hs
    · cases hs
    · split at hs
      · cases hs; exact ⟨by simp, fun _ => rfl⟩
      · split at hs <;> cases hs <;> exact ⟨by simp, fun _ => rfl⟩
  all_goals
    split at hs
    · cases hs
    · cases hs; exact ⟨by simp, fun _ => rfl⟩

theorem sys_inv_step (s s' : Sys) (l : SLabel) (o : Out) (hi : SysInv s) (hs : s.step l = some (s', o)) :
    SysInv s' ∧ s'.lz.max = s.lz.max ∧ s'.tdc.max = s.tdc.max := by
  obtain ⟨hl, ht, hfresh, hn⟩ := hi
  cases l with
  | tdc tl =>
    simp only [Sys.step] at hs
    split at hs
    · cases hs
    · rename_i hcond
      simp only [not_or, ne_eq, Decidable.not_not] at hcond
      cases hst : s.tdc.step tl with
      | none => rw [hst] at hs; cases hs
      | some p =>
        obtain ⟨t', o'⟩ := p
        rw [hst] at hs; cases hs
        have h1 := tdc_inv_step s.tdc t' tl _ ht hst
        have h2 := (tdc_step_nres s.tdc t' tl _ hst).2 hcond.1
        refine ⟨⟨hl, h1.1, ?_, ?_⟩, rfl, h1.2⟩
        · intro hx; exact absurd hcond.2 hx
        · intro hpos
          have := hn hpos
          show t'.nres ≤ s.lz.rereserved
          omega
  | lz ll =>
    simp only [Sys.step] at hs
    cases hls : s.lz.step ll with
    | none => rw [hls] at hs; cases hs
    | some p =>
      obtain ⟨lz', o'⟩ := p
      rw [hls] at hs
      simp only at hs
      have h1 := lazy_inv_step s.lz lz' ll o' hl hls
      have hsh := lazy_step_shape s.lz lz' ll o' hls
      by_cases hok : s.lz.dial = .ok
      · obtain ⟨hd', hsum, hmono, hsame⟩ := hsh.2 hok
        -- the real connection takes a `reserve` step or none
        have key : ∀ t' : Tdc, t'.Inv → t'.max = s.tdc.max → t'.nres ≤ s.tdc.nres + 1 →
            (ll ≠ .proceed → ll ≠ .reserve → t' = s.tdc) →
            (ll = .reserve → lz' = s.lz ∧ s.lz.eh + s.lz.ew = 0) →
            SysInv ⟨lz', t'⟩ ∧ lz'.max = s.lz.max ∧ t'.max = s.tdc.max := by
          intro t' hti htm htn hother hres
          refine ⟨⟨h1.1, hti, ?_, ?_⟩, h1.2, htm⟩
          · intro hx; exact absurd hd' hx
          · intro hpos
            have hpos : 0 < lz'.eh + lz'.ew := hpos
            show t'.nres ≤ lz'.rereserved
            by_cases hp : ll = .proceed
            · subst hp
              -- rereserved grew by one
              simp only [Lazy.step, hok] at hls
              split at hls
              · cases hls
              · cases hls
                simp only at hpos ⊢
                have := hn (by omega)
                omega
            · by_cases hr : ll = .reserve
              · obtain ⟨e1, e2⟩ := hres hr
                rw [e1] at hpos
                omega
              · have := hother hp hr
                subst this
                have := hsame hp
                have := hn (by omega)
                omega
        cases ll with
        | proceed =>
          rw [hok] at hs; simp only at hs
          cases hst : s.tdc.step .reserve with
          | none => rw [hst] at hs; cases hs
          | some q =>
            obtain ⟨t', o2⟩ := q
            rw [hst] at hs; cases hs
            have h2 := tdc_inv_step s.tdc t' .reserve _ ht hst
            exact key t' h2.1 h2.2 (tdc_step_nres _ _ _ _ hst).1 (fun h => absurd rfl h) (fun h => by cases h)
        | reserve =>
          rw [hok] at hs; simp only at hs
          cases hst : s.tdc.step .reserve with
          | none => rw [hst] at hs; cases hs
          | some q =>
            obtain ⟨t', o2⟩ := q
            rw [hst] at hs; cases hs
            have h2 := tdc_inv_step s.tdc t' .reserve _ ht hst
            refine key t' h2.1 h2.2 (tdc_step_nres _ _ _ _ hst).1 (fun _ h => absurd rfl h) (fun _ => ?_)
            simp only [Lazy.step, hok] at hls
            split at hls
            · rename_i hwg
              cases hls
              have := hl.wgOk (by rw [hok]; simp)
              exact ⟨rfl, by omega⟩
            · cases hls
        | withdraw => cases hs; exact key s.tdc ht rfl (by omega) (fun _ _ => rfl) (fun h => by cases h)
        | enter => cases hs; exact key s.tdc ht rfl (by omega) (fun _ _ => rfl) (fun h => by cases h)
        | ctxDone => cases hs; exact key s.tdc ht rfl (by omega) (fun _ _ => rfl) (fun h => by cases h)
        | dialOk => cases hs; exact key s.tdc ht rfl (by omega) (fun _ _ => rfl) (fun h => by cases h)
        | dialFail => cases hs; exact key s.tdc ht rfl (by omega) (fun _ _ => rfl) (fun h => by cases h)
        | finish => cases hs; exact key s.tdc ht rfl (by omega) (fun _ _ => rfl) (fun h => by cases h)
      · -- the real connection does not exist yet (or the dial failed): it is untouched
        have hinit := hfresh hok
        have hs' : s' = ⟨lz', s.tdc⟩ := by
          cases ll <;> cases hd : s.lz.dial <;> simp only [hd] at hs hok <;> first | (cases hs; rfl) | exact absurd trivial hok
        subst hs'
        refine ⟨⟨h1.1, ht, fun _ => hinit, ?_⟩, h1.2, rfl⟩
        intro _
        show s.tdc.nres ≤ lz'.rereserved
        rw [hinit]; simp [Tdc.init]

theorem sys_inv_run (ls : List SLabel) : ∀ (s s' : Sys), SysInv s → s.run ls = some s' →
    SysInv s' ∧ s'.lz.max = s.lz.max ∧ s'.tdc.max = s.tdc.max := by
  induction ls with
  | nil => intro s s' hi hr; simp only [Sys.run, Option.some.injEq] at hr; subst hr; exact ⟨hi, rfl, rfl⟩
  | cons l ls ih =>
    intro s s' hi hr
    simp only [Sys.run] at hr
    cases hs : s.step l with
    | none => rw [hs] at hr; cases hr
    | some p =>
      obtain ⟨s1, o⟩ := p
      rw [hs] at hr
      have h1 := sys_inv_step s s1 l o hi hs
      have h2 := ih s1 s' h1.1 hr
      exact ⟨h2.1, h2.2.1.trans h1.2.1, h2.2.2.trans h1.2.2⟩

/-- the statement over histories: from a connection that starts dialing with
queue limit `a` and becomes a connection with limit `b ≥ a`, after every
history, a parked early caller that sees the successful dial is admitted by the
live connection. -/
theorem queued_while_dialing_not_refused (a b : Nat) (hab : a ≤ b) (ls : List SLabel) (s : Sys)
    (hr : (Sys.init a b).run ls = some s) (hok : s.lz.dial = .ok) (hw : 0 < s.lz.ew) (hc : s.tdc.closed = false) :
    ∃ s', s.step (.lz .proceed) = some (s', .admitted) := by
  have := sys_inv_run ls _ s (sys_init_inv a b) hr
  exact early_not_refused s this.1 (by rw [this.2.1, this.2.2]; exact hab) hok hw hc


/-! ## why the early caller must re-reserve BEFORE it leaves the wait group

`proceed` is one step of the model because `c09LazyEarlyExchange` finds
`dc.ReserveNewQuery()` before `earlyReserveCallWg.Done()` in the dial arm: until
`Done` no late caller gets past `Wait`. If `Done` came first, a late caller
could take the slot in between: -/

/-- the wait-group half of `proceed` alone -/
def doneOnly (s : Sys) : Sys := { s with lz := { s.lz with wg := s.lz.wg - 1, ew := s.lz.ew - 1, ex := s.lz.ex + 1 } }

/-- witness (queue limit 1, connection limit 1, one queued query, dial ok): after
`Done` alone the late caller is admitted by the connection, and the re-reservation
of the queued query is refused. -/
example : ((Sys.init 1 1).run [.lz .reserve, .lz .enter, .lz .dialOk]).map (fun s =>
    ((doneOnly s).step (.lz .reserve)).map (fun p => (p.2, (p.1.tdc.step .reserve).map (·.2)))) =
    some (some (.admitted, some .refused)) := by decide

/-! ## the transport's pick among its connections -/

/-- with `stop`, the loop takes exactly the reservation it hands out: nothing is
taken when it returns none, and otherwise exactly one, on the connection named
by the result, which had room. -/
theorem pickGo_stop (maxAttempt : Nat) (rs : List Nat) : ∀ (att i : Nat),
    ((pickGo true maxAttempt att i none rs).2 = none → (pickGo true maxAttempt att i none rs).1 = rs) ∧
    (∀ k, (pickGo true maxAttempt att i none rs).2 = some k →
      ∃ j, k = i + j ∧ j < rs.length ∧ 0 < rs.getD j 0 ∧
        (pickGo true maxAttempt att i none rs).1 = rs.set j (rs.getD j 0 - 1)) := by
  induction rs with
  | nil => intro att i; simp [pickGo]
  | cons r rs ih =>
    intro att i
    by_cases hr : r = 0
    · by_cases ha : att + 1 > maxAttempt
      · simp [pickGo, hr, ha]
      · obtain ⟨ih1, ih2⟩ := ih (att + 1) (i + 1)
        simp only [pickGo, hr, ha, ↓reduceIte]
        refine ⟨fun h => (by rw [ih1 h]), fun k hk => ?_⟩
        obtain ⟨j, hj1, hj2, hj3, hj4⟩ := ih2 k hk
        refine ⟨j + 1, by omega, by simp; omega, by simpa using hj3, ?_⟩
        simp only [List.getD_cons_succ, List.set_cons_succ]
        rw [hj4]
    · simp only [pickGo, hr, ↓reduceIte]
      refine ⟨fun h => (by cases h), fun k hk => ?_⟩
      simp only [Option.some.injEq] at hk
      exact ⟨0, by omega, by simp, by simp; omega, by simp⟩

theorem total_set (rs : List Nat) : ∀ (j : Nat), j < rs.length → 0 < rs.getD j 0 →
    total (rs.set j (rs.getD j 0 - 1)) + 1 = total rs := by
  induction rs with
  | nil => intro j h; simp at h
  | cons r rs ih =>
    intro j hj hp
    cases j with
    | zero => simp at hp; simp [total]; omega
    | succ j =>
      simp only [List.getD_cons_succ, List.set_cons_succ, total] at hp ⊢
      have := ih j (by simpa using hj) hp
      omega


/-- **Every reservation the transport takes is the one it hands to the caller**:
the room lost over all connections equals the number of reservations returned
(0 or 1), for every visiting order and every attempt bound. -/
theorem pick_accounts (maxAttempt : Nat) (rooms : List Nat) :
    total (pick true maxAttempt rooms).1 + handed (pick true maxAttempt rooms).2 = total rooms := by
  obtain ⟨h1, h2⟩ := pickGo_stop maxAttempt rooms 0 0
  simp only [pick]
  cases hres : (pickGo true maxAttempt 0 0 none rooms).2 with
  | none => rw [h1 hres]; simp [handed]
  | some k =>
    obtain ⟨j, _, hj2, hj3, hj4⟩ := h2 k hres
    rw [hj4]
    simpa [handed] using total_set rooms j hj2 hj3

/-- the transport dials a new connection only if the connections it visited all
refused (for pools of at most `maxAttempt` connections: all of them). -/
theorem pickGo_none_all_full (maxAttempt : Nat) (rs : List Nat) : ∀ (att i : Nat), att + rs.length ≤ maxAttempt →
    (pickGo true maxAttempt att i none rs).2 = none → ∀ r ∈ rs, r = 0 := by
  induction rs with
  | nil => intro att i _ _ r hr; cases hr
  | cons r rs ih =>
    intro att i hlen hnone x hx
    simp only [List.length_cons] at hlen
    by_cases hr : r = 0
    · have ha : ¬ att + 1 > maxAttempt := by omega
      simp only [pickGo, hr, ha, ↓reduceIte] at hnone
      cases hx with
      | head => exact hr
      | tail _ hx' => exact ih (att + 1) (i + 1) (by omega) hnone x hx'
    · simp [pickGo, hr] at hnone

/-- any number of queries one after the other, none finished in between: the
reservations handed out and the room left add up to the room there was. -/
theorem pickN_accounts (maxAttempt : Nat) : ∀ (n : Nat) (rooms : List Nat),
    (pickN true maxAttempt n rooms).1 + total (pickN true maxAttempt n rooms).2 = total rooms := by
  intro n
  induction n with
  | zero => intro rooms; simp [pickN]
  | succ n ih =>
    intro rooms
    have hacc := pick_accounts maxAttempt rooms
    simp only [pickN]
    cases hp : pick true maxAttempt rooms with
    | mk rooms' res =>
      rw [hp] at hacc
      cases res with
      | none =>
        simp only [handed] at hacc ⊢
        have := ih rooms'
        omega
      | some k =>
        simp only [handed] at hacc ⊢
        have := ih rooms'
        omega

/-- the same for the loop as the source has it now (regenerated fact) -/
theorem pipeline_pick_accounts (maxAttempt n : Nat) (rooms : List Nat) :
    let stop := Gen.Facts.c09PipelinePickStopsAtFirstReservation == some true
    total (pick stop maxAttempt rooms).1 + handed (pick stop maxAttempt rooms).2 = total rooms ∧
    (pickN stop maxAttempt n rooms).1 + total (pickN stop maxAttempt n rooms).2 = total rooms := by
  have h : (Gen.Facts.c09PipelinePickStopsAtFirstReservation == some true) = true := by decide
  simp only [h]
  exact ⟨pick_accounts maxAttempt rooms, pickN_accounts maxAttempt n rooms⟩

/-- witness: a loop that goes on after its first reservation (keeping the later
one) takes two reservations and hands out one; four such queries use up the
room of two connections with limit 4 that carry nothing. -/
example : pick false 16 [1, 1] = ([0, 0], some 1) ∧ pickN false 16 8 [4, 4] = (4, [0, 0]) ∧ pickN true 16 8 [4, 4] = (8, [0, 0]) := by decide


/-! ## non-pipelined reused connection -/

theorem reuse_inv_step (s s' : Reuse) (l : RLabel) (hi : s.inv = true) (hs : s.step l = some s') : s'.inv = true := by
  obtain ⟨i, h, w, c, n⟩ := s
  cases l <;> cases i <;> cases h <;> cases w <;> cases c <;> simp [Reuse.step] at hs <;> subst hs <;>
    simp [Reuse.inv] at hi ⊢ <;> omega

theorem reuse_inv_sound (s : Reuse) (hi : s.inv = true) :
    s.outstanding ≤ 1 ∧ (s.idle = true → s.outstanding = 0 ∧ s.holder = false) := by
  obtain ⟨i, h, w, c, n⟩ := s
  cases i <;> cases h <;> cases w <;> simp [Reuse.inv] at hi ⊢ <;> omega

/-- **A non-pipelined connection never carries more than one unanswered
query**, and it is in the idle set only while it carries none and nobody holds it. -/
theorem reuse_at_most_one (ls : List RLabel) : ∀ (s s' : Reuse), s.inv = true → s.run ls = some s' →
    s'.outstanding ≤ 1 ∧ (s'.idle = true → s'.outstanding = 0 ∧ s'.holder = false) := by
  induction ls with
  | nil =>
    intro s s' hi hr
    simp only [Reuse.run, Option.some.injEq] at hr; subst hr
    exact reuse_inv_sound s hi
  | cons l ls ih =>
    intro s s' hi hr
    simp only [Reuse.run] at hr
    cases hs : s.step l with
    | none => rw [hs] at hr; cases hr
    | some s1 =>
      rw [hs] at hr
      exact ih s1 s' (reuse_inv_step s s1 l hi hs) hr

/-! ## tie to the source: regenerated facts -/

theorem facts_guard :
    Gen.Facts.c09TdcReserveCmp = .ge ∧ Gen.Facts.c09TdcReserveShape = some true ∧
    Gen.Facts.c09AddQueueReleasesReservationOnce = some true ∧ Gen.Facts.c09ExchangeEntry = some true ∧
    Gen.Facts.c09TdcWithdrawOnce = some true ∧
    Gen.Facts.c09TdcReservedIncSites = some 1 ∧ Gen.Facts.c09TdcReservedDecSites = some 2 ∧ Gen.Facts.c09TdcQueueDeleteSites = some 2 ∧
    Gen.Facts.c09LazyReserveCmp = .ge ∧ Gen.Facts.c09LazyReserveShape = some true ∧
    Gen.Facts.c09LazyEarlyExchange = some true ∧ Gen.Facts.c09LazyWithdrawOnce = some true ∧
    Gen.Facts.c09LazyReservedIncSites = some 1 ∧ Gen.Facts.c09LazyReservedDecSites = some 2 ∧
    Gen.Facts.c09LazyWgDoneSites = some 3 ∧ Gen.Facts.c09LazyWgAddSites = some 1 ∧
    Gen.Facts.c09PipelineUsesEachReservationOnce = some true ∧
    Gen.Facts.c09PipelinePickStopsAtFirstReservation = some true ∧ Gen.Facts.c09PipelineMaxReserveAttempt = some 16 ∧
    Gen.Facts.c09LimitsComeFromOpts = some true ∧ Gen.Facts.c01AllocSkipsIdsInUse = some true ∧
    Gen.Facts.c09UpstreamPipelineLimits = some [(4096, 4096), (64, 64), (64, 64)] := by decide

/-! ## the limits as `NewUpstream` configures them

`c09UpstreamPipelineLimits` lists, for every `PipelineTransport` that `NewUpstream`
builds over a `TraditionalDnsConn` (udp, tcp, tls), the pair (limit while dialing,
limit of the dialed connection), each resolved from the option literals to a
number (`c09LimitsComeFromOpts`: the constructors install exactly these). -/

/-- **As configured, the limit of the dialed connection equals the limit while
dialing**, for every pipelining upstream. -/
theorem upstream_limits_equal :
    ∀ p ∈ Gen.Facts.c09UpstreamPipelineLimits.getD [], p.1 = p.2 := by decide

/-- the hypothesis `a ≤ b` of `queued_while_dialing_not_refused` holds for the
upstreams as built: a query queued while one of their connections was dialing is
admitted by the live connection once the dial succeeded. -/
theorem upstream_queued_while_dialing_not_refused (p : Nat × Nat) (hp : p ∈ Gen.Facts.c09UpstreamPipelineLimits.getD [])
    (ls : List SLabel) (s : Sys) (hr : (Sys.init p.1 p.2).run ls = some s) (hok : s.lz.dial = .ok) (hw : 0 < s.lz.ew)
    (hc : s.tdc.closed = false) : ∃ s', s.step (.lz .proceed) = some (s', .admitted) :=
  queued_while_dialing_not_refused p.1 p.2 (Nat.le_of_eq (upstream_limits_equal p hp)) ls s hr hok hw hc

/-- witness: a connection limit below the queue limit (32 under a queue of 64, what an
omitted `MaxConcurrentQuery` gives): with the queue full, the 33rd queued query is refused
by the live connection. -/
example : ((Sys.init 64 32).run ((List.replicate 64 (.lz .reserve)) ++ (List.replicate 64 (.lz .enter)) ++ [.lz .dialOk] ++
    List.replicate 32 (.lz .proceed))).bind (fun s => (s.step (.lz .proceed)).map (·.2)) = some .refused := by decide

/-! ## why every reservation must be used: a dropped one is capacity lost for good

`c09PipelineUsesEachReservationOnce` (and the harness callers) discharge the
assumption "every reservation is handed to ExchangeReserved or WithdrawReserved".
Without it: -/

/-- witness: while a reservation is held and never used, a live connection with nothing
unanswered admits fewer queries than a fresh one -/
theorem dropped_reservation_loses_capacity (max : Nat) (ls : List TLabel) (s : Tdc) (hr : (Tdc.init max).run ls = some s)
    (hc : s.closed = false) (hh : 0 < s.h) : s.free < (Tdc.init max).free := by
  rw [tdc_capacity max ls s hr hc]
  simp only [Tdc.free, Tdc.init, Bool.false_eq_true, ↓reduceIte]
  omega

/-- witness: while an early reservation is held and never used, no reservation gets through
the wrapper after the dial succeeded (the late caller waits for the early ones for ever) -/
theorem dropped_early_reservation_blocks (s : Lazy) (hi : s.Inv) (hok : s.dial = .ok) (hh : 0 < s.eh) :
    s.step .reserve = none := by
  have := hi.wgGe
  have hne : ¬ s.wg = 0 := by omega
  simp [Lazy.step, hok, hne]

/-! ## non-vacuity: histories that meet the hypotheses -/

example : ((Tdc.init 2).run [.reserve, .reserve, .enter true, .reply, .exit0, .withdraw]).map (fun s => (s.free, s.h, s.e1)) = some (2, 0, 0) := by decide
example : (((Tdc.init 2).run [.reserve, .reserve, .enter true]).bind (fun s => s.step .reserve)).map (·.2) = some .refused := by decide
example : ((Lazy.init 2).run [.reserve, .reserve, .enter, .ctxDone, .withdraw]).map (fun s => (s.free, s.wg)) = some (2, 0) := by decide
example : ((Sys.init 2 2).run [.lz .reserve, .lz .reserve, .lz .enter, .lz .enter, .lz .dialOk, .lz .proceed]).map
    (fun s => (s.lz.dial, s.lz.ew, s.tdc.closed, s.tdc.nres)) = some (.ok, 1, false, 1) := by decide
example : (({} : Reuse).run [.send, .reply, .take, .send]).map (fun s => (s.outstanding, s.idle)) = some (1, false) := by decide

/-- witness for the defect repaired by the fix "reservation converted to queue
entry": if entering the exchange does not release the reservation, one query is
counted twice and a connection with limit 2 refuses its second query. -/
def stepDoubleCount (s : Tdc) : Tdc := { s with queued := s.queued + 1, e1 := s.e1 + 1, h := s.h - 1 }
example : ((Tdc.init 2).step .reserve).map (fun p => ((stepDoubleCount p.1).step .reserve).map (·.2)) = some (some .refused) := by decide

/-! ## why the refusal test and the increment must be ONE critical section

`Tdc.step · .reserve` is one atomic step because `c09TdcReserveShape` finds the
test and the `reservedQuery++` between `queueMu.Lock()` and the deferred
`Unlock`. If the test is made on a snapshot (e.g. under the read lock) and the
increment is a later step, callers that test at the same moment are all
admitted: -/

/-- the refusal test of `ReserveNewQuery` on a snapshot of the counters -/
def passesTest (s : Tdc) : Bool := !s.closed && decide (s.queued + s.reserved < (s.max : Int))

/-- the increment alone -/
def commit (s : Tdc) : Tdc := { s with reserved := s.reserved + 1, h := s.h + 1, nres := s.nres + 1 }

def commitN : Nat → Tdc → Tdc
  | 0, s => s
  | n + 1, s => commitN n (commit s)

theorem commitN_h (n : Nat) : ∀ s : Tdc, (commitN n s).h = s.h + n ∧ (commitN n s).reserved = s.reserved + n ∧
    (commitN n s).e1 = s.e1 ∧ (commitN n s).max = s.max := by
  induction n with
  | zero => intro s; simp [commitN]
  | succ n ih =>
    intro s
    obtain ⟨h1, h2, h3, h4⟩ := ih (commit s)
    simp only [commitN]
    refine ⟨?_, ?_, ?_, ?_⟩
    · rw [h1]; simp [commit]; omega
    · rw [h2]; simp [commit]; omega
    · rw [h3]; simp [commit]
    · rw [h4]; simp [commit]

/-- the atomic step is test-then-increment on the SAME state -/
theorem reserve_is_test_and_commit (s : Tdc) (hc : s.closed = false) :
    s.step .reserve = if passesTest s then some (commit s, .admitted) else some (s, .refused) := by
  by_cases h : s.queued + s.reserved ≥ (s.max : Int)
  · have : ¬ (s.queued + s.reserved < (s.max : Int)) := by omega
    simp [Tdc.step, passesTest, hc, h, this]
  · have : s.queued + s.reserved < (s.max : Int) := by omega
    simp [Tdc.step, passesTest, hc, h, this, commit]

/-- **witness (check-then-act)**: on any live connection with room for at least
one more query, `k` callers that all pass the test on the same snapshot and
increment afterwards leave it with `k` more reservations: for every `k` above
the room that was left the invariant `reservations + unanswered ≤ limit` of
`tdc_limit` is broken. -/
theorem split_reserve_exceeds_limit (s : Tdc) (hi : s.Inv) (k : Nat) (hk : s.max < s.h + s.e1 + k) :
    (0 < k → s.closed = false → s.h + s.e1 < s.max → passesTest s = true) ∧
    (commitN k s).max < (commitN k s).h + (commitN k s).e1 ∧ ¬ (commitN k s).Inv := by
  obtain ⟨h1, _, h3, h4⟩ := commitN_h k s
  refine ⟨?_, ?_, ?_⟩
  · intro _ hc hlt
    have hr := hi.res
    have hq := hi.que
    have : s.queued + s.reserved < (s.max : Int) := by omega
    simp [passesTest, hc, this]
  · rw [h1, h3, h4]; omega
  · intro hinv
    have := hinv.lim
    rw [h1, h3, h4] at this
    omega

example : passesTest (Tdc.init 2) = true ∧ (commitN 3 (Tdc.init 2)).h = 3 := by decide

end Props.C09
