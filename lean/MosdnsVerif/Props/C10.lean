import MosdnsVerif.Model.C10
import MosdnsVerif.Base.Facts
import MosdnsVerif.Gen.Facts

/-!
# C10 — cached answers are isolated from every caller's mutations
-/
namespace Props.C10
open Model.C10

theorem alloc_spec : ∀ (vals : List Nat) (h : Heap),
    (h.alloc vals).1.next = h.next + vals.length ∧
    (∀ l ∈ (h.alloc vals).2, h.next ≤ l ∧ l < (h.alloc vals).1.next) ∧
    (h.alloc vals).1.read (h.alloc vals).2 = vals ∧
    (∀ x, x < h.next → (h.alloc vals).1.cells x = h.cells x) := by
  intro vals
  induction vals with
  | nil => intro h; simp [Heap.alloc, Heap.read]
  | cons v vs ih =>
    intro h
    let h1 : Heap := { cells := fun x => if x = h.next then v else h.cells x, next := h.next + 1 }
    have hi := ih h1
    have e1 : (h.alloc (v :: vs)).1 = (h1.alloc vs).1 := rfl
    have e2 : (h.alloc (v :: vs)).2 = h.next :: (h1.alloc vs).2 := rfl
    rw [e1, e2]
    obtain ⟨a1, a2, a3, a4⟩ := hi
    refine ⟨?_, ?_, ?_, ?_⟩
    · rw [a1]; simp only [List.length_cons, h1]; omega
    · intro l hl
      simp only [List.mem_cons] at hl
      rcases hl with rfl | hl
      · rw [a1]; simp only [h1]; omega
      · have := a2 l hl
        simp only [h1] at this
        exact ⟨by omega, this.2⟩
    · simp only [Heap.read, List.map_cons]
      have hv : (h1.alloc vs).1.cells h.next = v := by
        rw [a4 h.next (by simp only [h1]; omega)]
        simp [h1]
      rw [hv]
      congr 1
    · intro x hx
      rw [a4 x (by simp only [h1]; omega)]
      have : x ≠ h.next := by omega
      simp [h1, this]

theorem read_alloc_old (h : Heap) (vals : List Nat) (ls : List Nat) (hl : ∀ l ∈ ls, l < h.next) :
    (h.alloc vals).1.read ls = h.read ls := by
  simp only [Heap.read]
  apply List.map_congr_left
  intro l hm
  exact (alloc_spec vals h).2.2.2 l (hl l hm)

theorem read_write_other (h : Heap) (l v : Nat) (ls : List Nat) (hl : l ∉ ls) : (h.write l v).read ls = h.read ls := by
  simp only [Heap.read, Heap.write]
  apply List.map_congr_left
  intro x hx
  have : x ≠ l := fun e => hl (e ▸ hx)
  simp [this]

theorem init_inv : ({} : St).Inv := by
  constructor <;> simp

theorem lookup_mem (cache : List Entry) (k : Nat) (e : Entry) (h : lookup cache k = some e) : e ∈ cache :=
  List.mem_of_find?_eq_some h

theorem inv_step (s : St) (op : Op) (hi : s.Inv) : (s.step allDeep op).1.Inv := by
  obtain ⟨hc, hk⟩ := hi
  cases op with
  | produce vals =>
    simp only [St.step]
    have sp := alloc_spec vals s.heap
    refine ⟨?_, ?_⟩
    · intro e he
      have := hc e he
      refine ⟨?_, ?_, ?_⟩
      · rw [read_alloc_old _ _ _ this.2.1]; exact this.1
      · intro l hl; have := this.2.1 l hl; rw [sp.1]; omega
      · intro c hcm l hl
        simp only [List.mem_append, List.mem_singleton] at hcm
        rcases hcm with hcm | rfl
        · exact this.2.2 c hcm l hl
        · intro hin
          have h1 := (sp.2.1 l hin).1
          have h2 := this.2.1 l hl
          omega
    · intro c hcm l hl
      simp only [List.mem_append, List.mem_singleton] at hcm
      rcases hcm with hcm | rfl
      · have := hk c hcm l hl; rw [sp.1]; omega
      · exact (sp.2.1 l hl).2
  | store k c =>
    simp only [St.step]
    cases hcs : s.callers[c]? with
    | none => exact ⟨hc, hk⟩
    | some ls =>
      simp only [allDeep, ↓reduceIte]
      have hls : ls ∈ s.callers := List.mem_of_getElem? hcs
      have sp := alloc_spec (s.heap.read ls) s.heap
      refine ⟨?_, ?_⟩
      · intro e he
        simp only [List.mem_cons] at he
        rcases he with rfl | he
        · refine ⟨sp.2.2.1, fun l hl => (sp.2.1 l hl).2, ?_⟩
          intro c' hc' l hl hin
          have h1 := (sp.2.1 l hl).1
          have h2 := hk c' hc' l hin
          omega
        · have := hc e he
          refine ⟨?_, ?_, this.2.2⟩
          · rw [read_alloc_old _ _ _ this.2.1]; exact this.1
          · intro l hl; have := this.2.1 l hl; rw [sp.1]; omega
      · intro c' hc' l hl
        have := hk c' hc' l hl
        rw [sp.1]; omega
  | hit k lazy qid =>
    simp only [St.step]
    cases hl : lookup s.cache k with
    | none => exact ⟨hc, hk⟩
    | some e0 =>
      have hdeep : (if lazy then allDeep.lazyHitDeep else allDeep.hitDeep) = true := by cases lazy <;> rfl
      simp only [hdeep, ↓reduceIte]
      have sp := alloc_spec (s.heap.read e0.locs) s.heap
      refine ⟨?_, ?_⟩
      · intro e he
        have := hc e he
        refine ⟨?_, ?_, ?_⟩
        · rw [read_alloc_old _ _ _ this.2.1]; exact this.1
        · intro l hl; have := this.2.1 l hl; rw [sp.1]; omega
        · intro c hcm l hl
          simp only [List.mem_append, List.mem_singleton] at hcm
          rcases hcm with hcm | rfl
          · exact this.2.2 c hcm l hl
          · intro hin
            have h1 := (sp.2.1 l hin).1
            have h2 := this.2.1 l hl
            omega
      · intro c hcm l hl
        simp only [List.mem_append, List.mem_singleton] at hcm
        rcases hcm with hcm | rfl
        · have := hk c hcm l hl; rw [sp.1]; omega
        · exact (sp.2.1 l hl).2
  | mutate c i v =>
    simp only [St.step]
    cases hcs : s.callers[c]? with
    | none => exact ⟨hc, hk⟩
    | some ls =>
      simp only
      cases hli : ls[i]? with
      | none => exact ⟨hc, hk⟩
      | some l =>
        have hls : ls ∈ s.callers := List.mem_of_getElem? hcs
        have hlm : l ∈ ls := List.mem_of_getElem? hli
        refine ⟨?_, hk⟩
        intro e he
        have := hc e he
        refine ⟨?_, this.2.1, this.2.2⟩
        rw [read_write_other _ _ _ _ (fun hin => this.2.2 ls hls l hin hlm)]
        exact this.1

/-- what a hit serves, given the invariant -/
theorem hit_serves_snapshot (s : St) (hi : s.Inv) (k qid : Nat) (lazy : Bool) (id : Nat) (vals : List Nat)
    (hs : (s.step allDeep (.hit k lazy qid)).2.served = some (id, vals)) :
    id = qid ∧ (s.step allDeep (.hit k lazy qid)).2.expected = some vals := by
  simp only [St.step] at hs ⊢
  cases hl : lookup s.cache k with
  | none => rw [hl] at hs; cases hs
  | some e =>
    have hdeep : (if lazy then allDeep.lazyHitDeep else allDeep.hitDeep) = true := by cases lazy <;> rfl
    rw [hl] at hs
    simp only [hdeep, ↓reduceIte, Option.some.injEq, Prod.mk.injEq] at hs ⊢
    have he := hi.cacheOk e (lookup_mem _ _ _ hl)
    have sp := alloc_spec (s.heap.read e.locs) s.heap
    refine ⟨hs.1.symm, ?_⟩
    rw [← hs.2, sp.2.2.1, he.1]

theorem run_inv (ops : List Op) : ∀ (s : St), s.Inv → (s.run allDeep ops).1.Inv := by
  induction ops with
  | nil => intro s h; exact h
  | cons op ops ih => intro s h; exact ih _ (inv_step s op h)

/-- **Whatever callers do to responses they produced, stored or were served —
in any order, through any handle they hold — every hit (fresh or stale)
serves exactly the contents that were stored under that key, with the id of
the query it answers.** -/
theorem hits_are_isolated (ops : List Op) : ∀ (s : St), s.Inv →
    ∀ o ∈ (s.run allDeep ops).2, ∀ id vals, o.served = some (id, vals) → o.expected = some vals := by
  induction ops with
  | nil => intro s _ o ho; simp [St.run] at ho
  | cons op ops ih =>
    intro s hi o ho id vals hs
    simp only [St.run, List.mem_cons] at ho
    rcases ho with rfl | ho
    · cases op with
      | hit k lazy qid => exact (hit_serves_snapshot s hi k qid lazy id vals hs).2
      | produce vals' => simp [St.step] at hs
      | store k c =>
        simp only [St.step] at hs
        split at hs <;> simp [allDeep] at hs
      | mutate c i v =>
        simp only [St.step] at hs
        split at hs
        · simp at hs
        · split at hs <;> simp at hs
    · exact ih _ (inv_step s op hi) o ho id vals hs

theorem hit_id (s : St) (k qid : Nat) (lazy : Bool) (cfg : Cfg) (id : Nat) (vals : List Nat)
    (hs : (s.step cfg (.hit k lazy qid)).2.served = some (id, vals)) : id = qid := by
  simp only [St.step] at hs
  cases hl : lookup s.cache k with
  | none => rw [hl] at hs; cases hs
  | some e =>
    rw [hl] at hs
    simp only at hs
    cases lazy <;> simp only [Bool.false_eq_true, ↓reduceIte] at hs <;> split at hs <;>
      (injection hs with h; injection h with h1 _; exact h1.symm)

/-! ## queries that miss at the same time; what a caller sees through its own handle -/

theorem step_served (s : St) (hi : s.Inv) (op : Op) (id : Nat) (vals : List Nat)
    (hs : (s.step allDeep op).2.served = some (id, vals)) : (s.step allDeep op).2.expected = some vals := by
  cases op with
  | hit k lazy qid => exact (hit_serves_snapshot s hi k qid lazy id vals hs).2
  | produce vals' => simp [St.step] at hs
  | store k c =>
    simp only [St.step] at hs
    split at hs <;> simp [allDeep] at hs
  | mutate c i v =>
    simp only [St.step] at hs
    split at hs
    · simp at hs
    · split at hs <;> simp at hs

theorem xstep_miss (s : St) (k qid : Nat) (vals : List Nat) (fl : Option Nat) :
    s.xstep allDeep (.miss k qid vals fl) =
      (((s.step allDeep (.produce vals)).1.step allDeep (.store k s.callers.length)).1,
        ⟨⟨some (qid, (s.heap.alloc vals).1.read (s.heap.alloc vals).2), some vals⟩, none⟩) := by
  simp [St.xstep, allDeep]

theorem xinv_step (s : St) (op : XOp) (hi : s.Inv) : (s.xstep allDeep op).1.Inv := by
  cases op with
  | base op => exact inv_step s op hi
  | miss k qid vals fl => rw [xstep_miss]; exact inv_step _ _ (inv_step s _ hi)
  | look c => exact hi

theorem disj_append (s : St) (hi : s.Inv) (hd : s.Disj) (vals : List Nat) :
    (s.callers ++ [(s.heap.alloc vals).2]).Pairwise (fun a b => ∀ l ∈ a, l ∉ b) := by
  rw [List.pairwise_append]
  refine ⟨hd, List.pairwise_singleton _ _, ?_⟩
  intro a ha b hb l hl hin
  simp only [List.mem_singleton] at hb
  subst hb
  have h1 := ((alloc_spec vals s.heap).2.1 l hin).1
  have h2 := hi.callersOk a ha l hl
  omega

theorem disj_step (s : St) (op : Op) (hi : s.Inv) (hd : s.Disj) : (s.step allDeep op).1.Disj := by
  cases op with
  | produce vals => exact disj_append s hi hd vals
  | store k c =>
    simp only [St.step]
    cases hcs : s.callers[c]? with
    | none => exact hd
    | some ls => simp only [allDeep, ↓reduceIte]; exact hd
  | hit k lazy qid =>
    simp only [St.step]
    cases hl : lookup s.cache k with
    | none => exact hd
    | some e0 =>
      have hdeep : (if lazy then allDeep.lazyHitDeep else allDeep.hitDeep) = true := by cases lazy <;> rfl
      simp only [hdeep, ↓reduceIte]
      exact disj_append s hi hd _
  | mutate c i v =>
    simp only [St.step]
    cases hcs : s.callers[c]? with
    | none => exact hd
    | some ls =>
      simp only
      cases hli : ls[i]? with
      | none => exact hd
      | some l => exact hd

theorem xdisj_step (s : St) (op : XOp) (hi : s.Inv) (hd : s.Disj) : (s.xstep allDeep op).1.Disj := by
  cases op with
  | base op => exact disj_step s op hi hd
  | miss k qid vals fl => rw [xstep_miss]; exact disj_step _ _ (inv_step s _ hi) (disj_step s _ hi hd)
  | look c => exact hd

theorem disj_at (s : St) (hd : s.Disj) (c c' : Nat) (a b : List Nat) (hne : c ≠ c')
    (ha : s.callers[c]? = some a) (hb : s.callers[c']? = some b) : ∀ l ∈ a, l ∉ b := by
  have hp := List.pairwise_iff_getElem.mp hd
  obtain ⟨h1, e1⟩ := List.getElem?_eq_some_iff.mp ha
  obtain ⟨h2, e2⟩ := List.getElem?_eq_some_iff.mp hb
  rcases Nat.lt_or_gt_of_ne hne with hlt | hgt
  · have := hp c c' h1 h2 hlt
    rw [e1, e2] at this
    exact this
  · have := hp c' c h2 h1 hgt
    rw [e1, e2] at this
    intro l hl hin
    exact this l hin hl

/-- an operation other than a write through handle `c'` itself leaves the handle and what it reads alone -/
theorem step_keeps (s : St) (hi : s.Inv) (hd : s.Disj) (op : Op) (c' : Nat) (ls : List Nat)
    (hc : s.callers[c']? = some ls) (hne : ∀ i v, op ≠ .mutate c' i v) :
    (s.step allDeep op).1.callers[c']? = some ls ∧ (s.step allDeep op).1.heap.read ls = s.heap.read ls := by
  have hlt : c' < s.callers.length := (List.getElem?_eq_some_iff.mp hc).1
  have hold : ∀ l ∈ ls, l < s.heap.next := hi.callersOk ls (List.mem_of_getElem? hc)
  cases op with
  | produce vals =>
    simp only [St.step]
    exact ⟨by rw [List.getElem?_append_left hlt]; exact hc, read_alloc_old _ _ _ hold⟩
  | store k c =>
    simp only [St.step]
    cases hcs : s.callers[c]? with
    | none => exact ⟨hc, rfl⟩
    | some ls0 => simp only [allDeep, ↓reduceIte]; exact ⟨hc, read_alloc_old _ _ _ hold⟩
  | hit k lazy qid =>
    simp only [St.step]
    cases hl : lookup s.cache k with
    | none => exact ⟨hc, rfl⟩
    | some e0 =>
      have hdeep : (if lazy then allDeep.lazyHitDeep else allDeep.hitDeep) = true := by cases lazy <;> rfl
      simp only [hdeep, ↓reduceIte]
      exact ⟨by rw [List.getElem?_append_left hlt]; exact hc, read_alloc_old _ _ _ hold⟩
  | mutate c i v =>
    simp only [St.step]
    cases hcs : s.callers[c]? with
    | none => exact ⟨hc, rfl⟩
    | some ls0 =>
      simp only
      cases hli : ls0[i]? with
      | none => exact ⟨hc, rfl⟩
      | some l =>
        refine ⟨hc, ?_⟩
        have hcc : c ≠ c' := fun e => hne i v (by rw [e])
        exact read_write_other _ _ _ _ (disj_at s hd c c' ls0 ls hcc hcs hc l (List.mem_of_getElem? hli))

/-- **Answers handed out around the cache are private.** With deep copies at the store and hit sites and every missing
query keeping the response of its own exchange, whatever happens — other queries produce, store, hit, miss at the same
time, rewrite what they hold — the message a caller holds reads the same before and after, unless the operation is a
write through that very handle. -/
theorem others_cannot_change_what_a_caller_holds (s : St) (hi : s.Inv) (hd : s.Disj) (op : XOp) (c' : Nat)
    (hlt : c' < s.callers.length) (hne : ∀ i v, op ≠ .base (.mutate c' i v)) :
    ((s.xstep allDeep op).1.xstep allDeep (.look c')).2.seen = (s.xstep allDeep (.look c')).2.seen := by
  obtain ⟨ls, hc⟩ : ∃ ls, s.callers[c']? = some ls := ⟨s.callers[c'], List.getElem?_eq_getElem hlt⟩
  have goal : ∀ s' : St, s'.callers[c']? = some ls → s'.heap.read ls = s.heap.read ls →
      (s'.xstep allDeep (.look c')).2.seen = (s.xstep allDeep (.look c')).2.seen := by
    intro s' h1 h2
    simp only [St.xstep, h1, hc, Option.map_some, h2]
  cases op with
  | base op =>
    have := step_keeps s hi hd op c' ls hc (fun i v e => hne i v (by rw [e]))
    exact goal _ this.1 this.2
  | miss k qid vals fl =>
    rw [xstep_miss]
    have k1 := step_keeps s hi hd (.produce vals) c' ls hc (fun i v e => by cases e)
    have k2 := step_keeps _ (inv_step s _ hi) (disj_step s _ hi hd) (.store k s.callers.length) c' ls k1.1 (fun i v e => by cases e)
    exact goal _ k2.1 (k2.2.trans k1.2)
  | look c => exact goal _ hc rfl

theorem xrun_inv (ops : List XOp) : ∀ (s : St), s.Inv → s.Disj → (s.xrun allDeep ops).1.Inv ∧ (s.xrun allDeep ops).1.Disj := by
  induction ops with
  | nil => intro s h d; exact ⟨h, d⟩
  | cons op ops ih => intro s h d; exact ih _ (xinv_step s op h) (xdisj_step s op h d)

/-- hits and misses alike are handed exactly the expected contents (the stored ones / their own upstream's) -/
theorem xserved_is_expected (ops : List XOp) : ∀ (s : St), s.Inv →
    ∀ o ∈ (s.xrun allDeep ops).2, ∀ id vals, o.out.served = some (id, vals) → o.out.expected = some vals := by
  induction ops with
  | nil => intro s _ o ho; simp [St.xrun] at ho
  | cons op ops ih =>
    intro s hi o ho id vals hs
    simp only [St.xrun, List.mem_cons] at ho
    rcases ho with rfl | ho
    · cases op with
      | base op => exact step_served s hi op id vals hs
      | miss k qid vals' fl =>
        rw [xstep_miss] at hs ⊢
        simp only [Option.some.injEq, Prod.mk.injEq] at hs ⊢
        rw [← hs.2, (alloc_spec vals' s.heap).2.2.1]
      | look c => simp [St.xstep] at hs
    · exact ih _ (xinv_step s op hi) o ho id vals hs

/-- a query that is handed a struct copy of another in-flight query's response: a write through the first query's
handle changes what the second one holds (and the other way round) -/
example : ((({} : St).xrun ⟨true, true, true, false⟩ [.miss 1 11 [7, 8] none, .miss 1 12 [7, 8] (some 0), .look 1,
      .base (.mutate 0 0 99), .look 1]).2.map (fun o => o.seen)) = [none, none, some [7, 8], none, some [99, 8]] := by decide

example : ((({} : St).xrun allDeep [.miss 1 11 [7, 8] none, .miss 1 12 [7, 8] (some 0), .look 1,
      .base (.mutate 0 0 99), .look 1, .base (.hit 1 false 5)]).2.map (fun o => (o.seen, o.out.served))) =
    [(none, some (11, [7, 8])), (none, some (12, [7, 8])), (some [7, 8], none), (none, none), (some [7, 8], none), (none, some (5, [7, 8]))] := by decide

/-! ## witnesses: a shallow copy at any one site breaks it -/

/-- the store keeps the caller's locations: a later write through the caller's handle changes what is served -/
example : ((({} : St).run ⟨false, true, true, true⟩ [.produce [7, 8], .store 1 0, .mutate 0 0 99, .hit 1 false 5]).2.getLast?.map
    (fun o => (o.served, o.expected))) = some (some (5, [99, 8]), some [7, 8]) := by decide

/-- a stale hit hands out the cache's own locations: a write through the served handle changes the next hit -/
example : ((({} : St).run ⟨true, true, false, true⟩ [.produce [7, 8], .store 1 0, .hit 1 true 5, .mutate 1 1 42, .hit 1 true 6]).2.getLast?.map
    (fun o => (o.served, o.expected))) = some (some (6, [7, 42]), some [7, 8]) := by decide

/-- a fresh hit that hands out the cache's own locations - even for an answer without any record (question element and
header element only): the header written through the first hit's handle is what the next query is served -/
example : ((({} : St).run ⟨true, false, true, true⟩ [.produce [7, 2], .store 1 0, .hit 1 false 5, .mutate 1 1 42, .hit 1 false 6]).2.getLast?.map
    (fun o => (o.served, o.expected))) = some (some (6, [7, 42]), some [7, 2]) := by decide

/-- with deep copies the same history over a record-less answer serves the stored contents twice -/
example : ((({} : St).run allDeep [.produce [7, 2], .store 1 0, .hit 1 false 5, .mutate 1 1 42, .mutate 1 0 43, .hit 1 false 6]).2.map
    (fun o => o.served)) = [none, none, some (5, [7, 2]), none, none, some (6, [7, 2])] := by decide

/-! ## tie to the source -/

theorem facts_guard :
    Gen.Facts.c10StoreCopies = some true ∧ Gen.Facts.c10CopyNoOptDeep = some true ∧ Gen.Facts.c10HitCopies = some true ∧
    Gen.Facts.c10LazyHitCopies = some true ∧ Gen.Facts.c10ItemRespWriters = some 2 ∧ Gen.Facts.c10ExecSetsId = some true ∧
    Gen.Facts.c10LazyUpdateUsesContextCopy = some true ∧ Gen.Facts.c10DumpLoadUnpacksFresh = some true ∧
    Gen.Facts.c10MissPrivate = some true ∧ Gen.Facts.c10HitServesOnlyCopies = some true := by decide

/-! ## non-vacuity -/

example : ((({} : St).run allDeep [.produce [7, 8], .store 1 0, .mutate 0 0 99, .hit 1 false 5, .mutate 1 1 42, .hit 1 true 6]).2.map
    (fun o => o.served)) = [none, none, none, some (5, [7, 8]), none, some (6, [7, 8])] := by decide

end Props.C10
