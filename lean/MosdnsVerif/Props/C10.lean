import MosdnsVerif.Model.C10
import MosdnsVerif.Base.Facts
import MosdnsVerif.Gen.Facts

/-!
# C10 — cached answers are isolated from every caller's mutations
-/
namespace Props.C10
open Model.C10

theorem alloc_spec : ∀ (vals : List Nat) (h : Heap),
    (h.alloc vals).1.next = h.next + vals.length ∧
    (∀ l ∈ (h.alloc vals).2, h.next ≤ l ∧ l < (h.alloc vals).1.next) ∧
    (h.alloc vals).1.read (h.alloc vals).2 = vals ∧
    (∀ x, x < h.next → (h.alloc vals).1.cells x = h.cells x) := by
  intro vals
  induction vals with
  | nil => intro h; simp [Heap.alloc, Heap.read]
  | cons v vs ih =>
    intro h
    let h1 : Heap := { cells := fun x => if x = h.next then v else h.cells x, next := h.next + 1 }
    have hi := ih h1
    have e1 : (h.alloc (v :: vs)).1 = (h1.alloc vs).1 := rfl
    have e2 : (h.alloc (v :: vs)).2 = h.next :: (h1.alloc vs).2 := rfl
    rw [e1, e2]
    obtain ⟨a1, a2, a3, a4⟩ := hi
    refine ⟨?_, ?_, ?_, ?_⟩
    · rw [a1]; simp only [List.length_cons, h1]; omega
    · intro l hl
      simp only [List.mem_cons] at hl
      rcases hl with rfl | hl
      · rw [a1]; simp only [h1]; omega
      · have := a2 l hl
        simp only [h1] at this
        exact ⟨by omega, this.2⟩
    · simp only [Heap.read, List.map_cons]
      have hv : (h1.alloc vs).1.cells h.next = v := by
        rw [a4 h.next (by simp only [h1]; omega)]
        simp [h1]
      rw [hv]
      congr 1
    · intro x hx
      rw [a4 x (by simp only [h1]; omega)]
      have : x ≠ h.next := by omega
      simp [h1, this]

theorem read_alloc_old (h : Heap) (vals : List Nat) (ls : List Nat) (hl : ∀ l ∈ ls, l < h.next) :
    (h.alloc vals).1.read ls = h.read ls := by
  simp only [Heap.read]
  apply List.map_congr_left
  intro l hm
  exact (alloc_spec vals h).2.2.2 l (hl l hm)

theorem read_write_other (h : Heap) (l v : Nat) (ls : List Nat) (hl : l ∉ ls) : (h.write l v).read ls = h.read ls := by
  simp only [Heap.read, Heap.write]
  apply List.map_congr_left
  intro x hx
  have : x ≠ l := fun e => hl (e ▸ hx)
  simp [this]

theorem init_inv : ({} : St).Inv := by
  constructor <;> simp

theorem lookup_mem (cache : List Entry) (k : Nat) (e : Entry) (h : lookup cache k = some e) : e ∈ cache :=
  List.mem_of_find?_eq_some h

theorem inv_step (s : St) (op : Op) (hi : s.Inv) : (s.step allDeep op).1.Inv := by
  obtain ⟨hc, hk⟩ := hi
  cases op with
  | produce vals =>
    simp only [St.step]
    have sp := alloc_spec vals s.heap
    refine ⟨?_, ?_⟩
    · intro e he
      have := hc e he
      refine ⟨?_, ?_, ?_⟩
      · rw [read_alloc_old _ _ _ this.2.1]; exact this.1
      · intro l hl; have := this.2.1 l hl; rw [sp.1]; omega
      · intro c hcm l hl
        simp only [List.mem_append, List.mem_singleton] at hcm
        rcases hcm with hcm | rfl
        · exact this.2.2 c hcm l hl
        · intro hin
          have h1 := (sp.2.1 l hin).1
          have h2 := this.2.1 l hl
          omega
    · intro c hcm l hl
      simp only [List.mem_append, List.mem_singleton] at hcm
      rcases hcm with hcm | rfl
      · have := hk c hcm l hl; rw [sp.1]; omega
      · exact (sp.2.1 l hl).2
  | store k c =>
    simp only [St.step]
    cases hcs : s.callers[c]? with
    | none => exact ⟨hc, hk⟩
    | some ls =>
      simp only [allDeep, ↓reduceIte]
      have hls : ls ∈ s.callers := List.mem_of_getElem? hcs
      have sp := alloc_spec (s.heap.read ls) s.heap
      refine ⟨?_, ?_⟩
      · intro e he
        simp only [List.mem_cons] at he
        rcases he with rfl | he
        · refine ⟨sp.2.2.1, fun l hl => (sp.2.1 l hl).2, ?_⟩
          intro c' hc' l hl hin
          have h1 := (sp.2.1 l hl).1
          have h2 := hk c' hc' l hin
          omega
        · have := hc e he
          refine ⟨?_, ?_, this.2.2⟩
          · rw [read_alloc_old _ _ _ this.2.1]; exact this.1
          · intro l hl; have := this.2.1 l hl; rw [sp.1]; omega
      · intro c' hc' l hl
        have := hk c' hc' l hl
        rw [sp.1]; omega
  | hit k lazy qid =>
    simp only [St.step]
    cases hl : lookup s.cache k with
    | none => exact ⟨hc, hk⟩
    | some e0 =>
      have hdeep : (if lazy then allDeep.lazyHitDeep else allDeep.hitDeep) = true := by cases lazy <;> rfl
      simp only [hdeep, ↓reduceIte]
      have sp := alloc_spec (s.heap.read e0.locs) s.heap
      refine ⟨?_, ?_⟩
      · intro e he
        have := hc e he
        refine ⟨?_, ?_, ?_⟩
        · rw [read_alloc_old _ _ _ this.2.1]; exact this.1
        · intro l hl; have := this.2.1 l hl; rw [sp.1]; omega
        · intro c hcm l hl
          simp only [List.mem_append, List.mem_singleton] at hcm
          rcases hcm with hcm | rfl
          · exact this.2.2 c hcm l hl
          · intro hin
            have h1 := (sp.2.1 l hin).1
            have h2 := this.2.1 l hl
            omega
      · intro c hcm l hl
        simp only [List.mem_append, List.mem_singleton] at hcm
        rcases hcm with hcm | rfl
        · have := hk c hcm l hl; rw [sp.1]; omega
        · exact (sp.2.1 l hl).2
  | mutate c i v =>
    simp only [St.step]
    cases hcs : s.callers[c]? with
    | none => exact ⟨hc, hk⟩
    | some ls =>
      simp only
      cases hli : ls[i]? with
      | none => exact ⟨hc, hk⟩
      | some l =>
        have hls : ls ∈ s.callers := List.mem_of_getElem? hcs
        have hlm : l ∈ ls := List.mem_of_getElem? hli
        refine ⟨?_, hk⟩
        intro e he
        have := hc e he
        refine ⟨?_, this.2.1, this.2.2⟩
        rw [read_write_other _ _ _ _ (fun hin => this.2.2 ls hls l hin hlm)]
        exact this.1

/-- what a hit serves, given the invariant -/
theorem hit_serves_snapshot (s : St) (hi : s.Inv) (k qid : Nat) (lazy : Bool) (id : Nat) (vals : List Nat)
    (hs : (s.step allDeep (.hit k lazy qid)).2.served = some (id, vals)) :
    id = qid ∧ (s.step allDeep (.hit k lazy qid)).2.expected = some vals := by
  simp only [St.step] at hs ⊢
  cases hl : lookup s.cache k with
  | none => rw [hl] at hs; cases hs
  | some e =>
    have hdeep : (if lazy then allDeep.lazyHitDeep else allDeep.hitDeep) = true := by cases lazy <;> rfl
    rw [hl] at hs
    simp only [hdeep, ↓reduceIte, Option.some.injEq, Prod.mk.injEq] at hs ⊢
    have he := hi.cacheOk e (lookup_mem _ _ _ hl)
    have sp := alloc_spec (s.heap.read e.locs) s.heap
    refine ⟨hs.1.symm, ?_⟩
    rw [← hs.2, sp.2.2.1, he.1]

theorem run_inv (ops : List Op) : ∀ (s : St), s.Inv → (s.run allDeep ops).1.Inv := by
  induction ops with
  | nil => intro s h; exact h
  | cons op ops ih => intro s h; exact ih _ (inv_step s op h)

/-- **Whatever callers do to responses they produced, stored or were served —
in any order, through any handle they hold — every hit (fresh or stale)
serves exactly the contents that were stored under that key, with the id of
the query it answers.** -/
theorem hits_are_isolated (ops : List Op) : ∀ (s : St), s.Inv →
    ∀ o ∈ (s.run allDeep ops).2, ∀ id vals, o.served = some (id, vals) → o.expected = some vals := by
  induction ops with
  | nil => intro s _ o ho; simp [St.run] at ho
  | cons op ops ih =>
    intro s hi o ho id vals hs
    simp only [St.run, List.mem_cons] at ho
    rcases ho with rfl | ho
    · cases op with
      | hit k lazy qid => exact (hit_serves_snapshot s hi k qid lazy id vals hs).2
      | produce vals' => simp [St.step] at hs
      | store k c =>
        simp only [St.step] at hs
        split at hs <;> simp [allDeep] at hs
      | mutate c i v =>
        simp only [St.step] at hs
        split at hs
        · simp at hs
        · split at hs <;> simp at hs
    · exact ih _ (inv_step s op hi) o ho id vals hs

theorem hit_id (s : St) (k qid : Nat) (lazy : Bool) (cfg : Cfg) (id : Nat) (vals : List Nat)
    (hs : (s.step cfg (.hit k lazy qid)).2.served = some (id, vals)) : id = qid := by
  simp only [St.step] at hs
  cases hl : lookup s.cache k with
  | none => rw [hl] at hs; cases hs
  | some e =>
    rw [hl] at hs
    simp only at hs
    cases lazy <;> simp only [Bool.false_eq_true, ↓reduceIte] at hs <;> split at hs <;>
      (injection hs with h; injection h with h1 _; exact h1.symm)

/-! ## witnesses: a shallow copy at any one site breaks it -/

/-- the store keeps the caller's locations: a later write through the caller's handle changes what is served -/
example : ((({} : St).run ⟨false, true, true⟩ [.produce [7, 8], .store 1 0, .mutate 0 0 99, .hit 1 false 5]).2.getLast?.map
    (fun o => (o.served, o.expected))) = some (some (5, [99, 8]), some [7, 8]) := by decide

/-- a stale hit hands out the cache's own locations: a write through the served handle changes the next hit -/
example : ((({} : St).run ⟨true, true, false⟩ [.produce [7, 8], .store 1 0, .hit 1 true 5, .mutate 1 1 42, .hit 1 true 6]).2.getLast?.map
    (fun o => (o.served, o.expected))) = some (some (6, [7, 42]), some [7, 8]) := by decide

/-! ## tie to the source -/

theorem facts_guard :
    Gen.Facts.c10StoreCopies = some true ∧ Gen.Facts.c10CopyNoOptDeep = some true ∧ Gen.Facts.c10HitCopies = some true ∧
    Gen.Facts.c10LazyHitCopies = some true ∧ Gen.Facts.c10ItemRespWriters = some 2 ∧ Gen.Facts.c10ExecSetsId = some true ∧
    Gen.Facts.c10LazyUpdateUsesContextCopy = some true ∧ Gen.Facts.c10DumpLoadUnpacksFresh = some true := by decide

/-! ## non-vacuity -/

example : ((({} : St).run allDeep [.produce [7, 8], .store 1 0, .mutate 0 0 99, .hit 1 false 5, .mutate 1 1 42, .hit 1 true 6]).2.map
    (fun o => o.served)) = [none, none, none, some (5, [7, 8]), none, some (6, [7, 8])] := by decide

end Props.C10
