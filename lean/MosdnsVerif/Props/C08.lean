import MosdnsVerif.Model.C08Inst

/-!
# C08 — failures of reused connections are retried, fresh ones reported
-/
namespace Props.C08
open Model.C08 Model.C08Inst Base

/-- If no retry is allowed from `B` on, the query is transmitted on at most
`B + 1` connections, whatever the environment does. -/
theorem attempts_le (allow : Nat → Bool) (cc : Bool) (B : Nat) (hB : ∀ r, B ≤ r → allow r = false) :
    ∀ (ts : List Turn) (retry n : Nat), retry ≤ B →
      (loop allow cc ts retry n).attempts ≤ n + (B - retry) + 1 := by
  intro ts
  induction ts with
  | nil => intro retry n _; simp only [loop]; omega
  | cons t ts ih =>
    intro retry n hr
    cases t with
    | closed => simp only [loop]; omega
    | dialFail => simp only [loop]; omega
    | cannotReserve => simp only [loop]; omega
    | fresh ok => cases ok <;> simp only [loop] <;> omega
    | pooled ok ce =>
      cases ok with
      | true => simp only [loop]; omega
      | false =>
        simp only [loop]
        by_cases hcond : (allow retry && !(cc && ce)) = true
        · have ha : allow retry = true := by
            simp only [Bool.and_eq_true] at hcond; exact hcond.1
          have hlt : retry < B := by
            rcases Nat.lt_or_ge retry B with h | h
            · exact h
            · rw [hB retry h] at ha; cases ha
          rw [if_pos hcond]
          have := ih (retry + 1) (n + 1) (by omega)
          omega
        · rw [if_neg hcond]
          show n + 1 ≤ n + (B - retry) + 1
          omega

/-- **An exchange reports failure only for one of the allowed reasons**: the
transport was closed, the dial / reservation of a new connection failed, the
attempt on a connection opened for it failed, the caller's context ended
(pipeline), or no further attempt was allowed. It never gives up on a reused
connection while another attempt is allowed and the context is alive. -/
theorem failure_only_if (allow : Nat → Bool) (cc : Bool) :
    ∀ (ts : List Turn) (retry n : Nat),
      (loop allow cc ts retry n).outcome = .errGaveUp →
        ∃ r, retry ≤ r ∧ (allow r = false ∨ (cc = true ∧ (loop allow cc ts retry n).lastPooledCtxEnded = true)) := by
  intro ts
  induction ts with
  | nil => intro retry n h; simp [loop] at h
  | cons t ts ih =>
    intro retry n h
    cases t with
    | closed => simp [loop] at h
    | dialFail => simp [loop] at h
    | cannotReserve => simp [loop] at h
    | fresh ok => cases ok <;> simp [loop] at h
    | pooled ok ce =>
      cases ok with
      | true => simp [loop] at h
      | false =>
        simp only [loop] at h ⊢
        by_cases hcond : (allow retry && !(cc && ce)) = true
        · simp only [hcond, if_true] at h ⊢
          obtain ⟨r, hr, hx⟩ := ih (retry + 1) (n + 1) h
          exact ⟨r, by omega, hx⟩
        · simp only [hcond, if_false] at h ⊢
          simp only [Bool.and_eq_true, Bool.not_eq_true', not_and, Bool.not_eq_false] at hcond
          by_cases ha : allow retry = true
          · have h2 := hcond ha
            refine ⟨retry, Nat.le_refl _, Or.inr ?_⟩
            cases cc <;> cases ce <;> simp_all
          · exact ⟨retry, Nat.le_refl _, Or.inl (by simpa using ha)⟩

/-- **Transparent retry succeeds when a fresh connection works**: with `stale`
silently dead pooled connections and a working server, the exchange succeeds
after `stale + 1` transmissions provided a retry is still allowed after each
of the `stale` failures. -/
theorem success_if_fresh_works (allow : Nat → Bool) (cc : Bool) (stale : Nat) :
    ∀ (retry n : Nat), (∀ r, retry ≤ r → r < retry + stale → allow r = true) →
      loop allow cc (staleThenFresh stale) retry n = ⟨.ok, n + stale + 1, false⟩ := by
  induction stale with
  | zero => intro retry n _; simp [staleThenFresh, loop]
  | succ k ih =>
    intro retry n h
    have h0 : allow retry = true := h retry (Nat.le_refl _) (by omega)
    have := ih (retry + 1) (n + 1) (fun r hr1 hr2 => h r (by omega) (by omega))
    simp only [staleThenFresh, List.replicate_succ, List.cons_append, loop, h0, Bool.and_false, Bool.not_false,
      Bool.and_self, if_true] at this ⊢
    rw [this]
    congr 1
    omega

/-! ### Instantiation with the regenerated facts -/


theorem reuseAllow_iff (r : Nat) : reuseAllow r = true ↔ r ≤ 2 := by
  simp only [reuseAllow, Gen.Facts.c08ReuseCmp, Gen.Facts.c08ReuseMaxRetry, Option.getD_some]
  exact Cmp.eval_le r 2

theorem pipelineAllow_iff (r : Nat) : pipelineAllow r = true ↔ r < 2 := by
  simp only [pipelineAllow, Gen.Facts.c08PipelineCmp, Gen.Facts.c08PipelineMaxRetry, Option.getD_some]
  exact Cmp.eval_lt r 2

theorem not_true_false {b : Bool} (h : ¬ b = true) : b = false := by cases b <;> simp_all

/-- **No query is ever transmitted on more than 4 connections** (non-pipelined)
resp. 3 (pipelined / UDP), for every behaviour of server and network. -/
theorem reuse_at_most_4 (ts : List Turn) : (loop reuseAllow false ts 0 0).attempts ≤ 4 := by
  have := attempts_le reuseAllow false 3 (by
    intro r hr
    exact not_true_false (fun h => by have := (reuseAllow_iff r).mp h; omega)) ts 0 0 (by omega)
  omega

theorem pipeline_at_most_3 (ts : List Turn) : (loop pipelineAllow true ts 0 0).attempts ≤ 3 := by
  have := attempts_le pipelineAllow true 2 (by
    intro r hr
    exact not_true_false (fun h => by have := (pipelineAllow_iff r).mp h; omega)) ts 0 0 (by omega)
  omega

/-- up to 3 (reuse) / 2 (pipeline) dead pooled connections are absorbed -/
theorem reuse_absorbs_3 (stale : Nat) (h : stale ≤ 3) :
    (loop reuseAllow false (staleThenFresh stale) 0 0).outcome = .ok := by
  rw [success_if_fresh_works reuseAllow false stale 0 0 (by
    intro r _ hr
    exact (reuseAllow_iff r).mpr (by omega))]

theorem pipeline_absorbs_2 (stale : Nat) (h : stale ≤ 2) :
    (loop pipelineAllow true (staleThenFresh stale) 0 0).outcome = .ok := by
  rw [success_if_fresh_works pipelineAllow true stale 0 0 (by
    intro r _ hr
    exact (pipelineAllow_iff r).mpr (by omega))]

/-! ### The history of a pooled connection does not matter -/

/-- A connection found in the pool (idle, or in use by others): `carriedAQuery = false` is a connection
that never carried a query - a dial that finished after the caller that asked for it had given up leaves
its connection in the pool -, `alive = false` one the server has dropped without the transport knowing. -/
structure PooledConn where
  carriedAQuery : Bool
  alive : Bool
  deriving DecidableEq, Repr

/-- the turns of a call that is handed these connections one after the other: each is a `pooled` turn,
whatever its history -/
def envOfPool (pool : List PooledConn) : List Turn := pool.map (fun c => .pooled c.alive false)

/-- **Any pool, any histories**: if a retry is allowed after each of the (at most `pool.length`) failures,
the call succeeds - on the first live pooled connection or on the connection dialed for it. -/
theorem success_any_history (allow : Nat → Bool) (cc : Bool) (pool : List PooledConn) :
    ∀ (retry n : Nat), (∀ r, retry ≤ r → r < retry + pool.length → allow r = true) →
      (loop allow cc (envOfPool pool ++ [.fresh true]) retry n).outcome = .ok := by
  induction pool with
  | nil => intro retry n _; simp [envOfPool, loop]
  | cons c rest ih =>
    intro retry n h
    cases hc : c.alive with
    | true => simp [envOfPool, loop, hc]
    | false =>
      have h0 : allow retry = true := h retry (Nat.le_refl _) (by simp only [List.length_cons]; omega)
      have := ih (retry + 1) (n + 1) (fun r hr1 hr2 => h r (by omega) (by simp only [List.length_cons]; omega))
      simp only [envOfPool, List.map_cons, List.cons_append, hc, loop, h0, Bool.and_false, Bool.not_false,
        Bool.and_self, if_true] at this ⊢
      exact this

theorem reuse_absorbs_any_history (pool : List PooledConn) (h : pool.length ≤ 3) :
    (loop reuseAllow false (envOfPool pool ++ [.fresh true]) 0 0).outcome = .ok :=
  success_any_history reuseAllow false pool 0 0 (by
    intro r _ hr
    exact (reuseAllow_iff r).mpr (by omega))

theorem pipeline_absorbs_any_history (pool : List PooledConn) (h : pool.length ≤ 2) :
    (loop pipelineAllow true (envOfPool pool ++ [.fresh true]) 0 0).outcome = .ok :=
  success_any_history pipelineAllow true pool 0 0 (by
    intro r _ hr
    exact (pipelineAllow_iff r).mpr (by omega))

/-- a pooled connection that never carried a query and was dropped by the server, then a working fresh one -/
example : loop reuseAllow false (envOfPool [⟨false, false⟩] ++ [.fresh true]) 0 0 = ⟨.ok, 2, false⟩ := by decide

/-! ### Queries queued behind a dial keep their slots (nothing failed: nothing may be reported)

"An exchange reports failure only after an attempt on a connection opened for it failed, ...": when the dial
of a pipeline connection succeeds, the queries that queued up on it (at most as many as the connection
takes) must all get a slot on it, whatever callers arrive at that moment and however the steps interleave;
otherwise one of them - possibly the one that opened the connection, for which the failure is final - fails
with nothing transmitted and no connection failed. -/
namespace Handoff
open Model.C08.Handoff

theorem step_inv (cap : Nat) (s : St) (e : Ev) (h : s.refused = 0 ∧ s.todo ≤ s.free) :
    (step true true cap s e).refused = 0 ∧ (step true true cap s e).todo ≤ (step true true cap s e).free := by
  obtain ⟨h0, h1⟩ := h
  cases e with
  | first =>
    by_cases ht : s.todo = 0
    · simp [step, ht, h0]
    · have hf : s.free ≠ 0 := by omega
      simp [step, ht, take, hf, h0]; omega
  | second =>
    by_cases hm : s.mid = 0
    · simp [step, hm, h0, h1]
    · simp [step, hm, h0, h1]
  | late =>
    simp only [step, wg, if_true, Bool.true_and]
    split
    · exact ⟨h0, h1⟩
    · rename_i hb
      split
      · exact ⟨h0, h1⟩
      · have ht : s.todo = 0 := by
          simp at hb; omega
        exact ⟨h0, by simp [ht]⟩
  | reply =>
    by_cases hc : s.free < cap
    · simp [step, hc, h0]; omega
    · simp [step, hc, h0, h1]

theorem run_inv (cap : Nat) (evs : List Ev) : ∀ (s : St), s.refused = 0 ∧ s.todo ≤ s.free →
    (run true true cap evs s).refused = 0 ∧ (run true true cap evs s).todo ≤ (run true true cap evs s).free := by
  induction evs with
  | nil => intro s h; exact h
  | cons e rest ih => intro s h; exact ih _ (step_inv cap s e h)

/-- **Reserve first, late callers wait: no queued query is refused**, for every number of queued queries up
to the limit of the dialed connection and every interleaving with late callers and replies. -/
theorem queued_queries_keep_their_slots (n cap : Nat) (h : n ≤ cap) (evs : List Ev) :
    (run true true cap evs (init n cap)).refused = 0 :=
  (run_inv cap evs (init n cap) ⟨rfl, h⟩).1

/-- the same about the order and the wait **the source has now** (regenerated facts) -/
theorem queued_queries_keep_their_slots_src (n cap : Nat) (h : n ≤ cap) (evs : List Ev) :
    (run (Gen.Facts.c08LazyEarlyReservesBeforeDone.getD false) (Gen.Facts.c08LazyLateWaitsForEarly.getD false)
      cap evs (init n cap)).refused = 0 := by
  have h1 : Gen.Facts.c08LazyEarlyReservesBeforeDone.getD false = true := by decide
  have h2 : Gen.Facts.c08LazyLateWaitsForEarly.getD false = true := by decide
  rw [h1, h2]; exact queued_queries_keep_their_slots n cap h evs

/-- hence the query that opened the connection succeeds when the server answers, whatever else arrives -/
theorem opener_succeeds_src (n cap : Nat) (h : n ≤ cap) (evs : List Ev) :
    (pipelineLoop [openerTurn (run (Gen.Facts.c08LazyEarlyReservesBeforeDone.getD false)
      (Gen.Facts.c08LazyLateWaitsForEarly.getD false) cap evs (init n cap))]).outcome = .ok := by
  simp [openerTurn, queued_queries_keep_their_slots_src n cap h evs, pipelineLoop, loop]

/-- Both facts are needed. Leaving the wait group first: a late caller gets in between, the query that opened
the connection finds no slot (capacity 1: the schedule the harness enforces). -/
theorem done_first_loses_a_queued_query : (run false true 1 (gateSchedule false 1 1) (init 1 1)).refused = 1 := by decide
theorem done_first_opener_fails :
    (pipelineLoop [openerTurn (run false true 1 (gateSchedule false 1 1) (init 1 1))]).outcome = .errFresh := by decide
/-- late callers that do not wait: the same -/
theorem no_wait_loses_a_queued_query : (run true false 1 [.late, .first, .second] (init 1 1)).refused = 1 := by decide

/-! non-vacuity: a full queue, two late callers, the enforced schedule; a partly filled queue admits a late caller -/
example : run true true 3 (gateSchedule true 3 2) (init 3 3) = ⟨0, 0, 0, 0, 0⟩ := by decide
example : run true true 3 (gateSchedule true 2 2) (init 2 3) = ⟨0, 0, 0, 0, 1⟩ := by decide

end Handoff

/-! ### The dialing branch: a query whose own connection works succeeds, whatever went idle during its dial -/
namespace DialHandOver
open Model.C08.DialHandOver

/-- over the regenerated fact about `getNewConn`: connections that go idle while a query is dialing (dead or
alive) do not matter; the query is sent on the connection opened for it, and succeeds iff that one works -/
theorem dialing_query_uses_its_own_connection (idle : Option Bool) (own : Bool) :
    loop reuseAllow false [dialTurn (Gen.Facts.c08ReuseNewConnIsTheDialedOne.getD false) idle own] 0 0 =
      ⟨if own then .ok else .errFresh, 1, false⟩ := by
  have h : Gen.Facts.c08ReuseNewConnIsTheDialedOne.getD false = true := by decide
  rw [h]; cases idle <;> cases own <;> simp [dialTurn, loop]

theorem dialing_query_succeeds_if_its_connection_works (idle : Option Bool) :
    (loop reuseAllow false [dialTurn (Gen.Facts.c08ReuseNewConnIsTheDialedOne.getD false) idle true] 0 0).outcome = .ok := by
  rw [dialing_query_uses_its_own_connection]; rfl

/-- the fact is needed: if `getNewConn` may hand out a connection that went idle during the dial, a dead one is
reported as a failure of a new connection after one attempt, although the connection opened for the call works -/
theorem dialed_only_is_needed :
    loop reuseAllow false [dialTurn false (some false) true] 0 0 = ⟨.errFresh, 1, false⟩ := by decide

end DialHandOver

/-! ### Guards over the other regenerated facts -/
theorem facts_guard :
    Gen.Facts.c08ReuseRetryOnlyIfReused = some true ∧ Gen.Facts.c08PipelineRetryOnlyIfReusedAndCtxAlive = some true ∧
    Gen.Facts.c08ReuseNewConnFlag = some true ∧ Gen.Facts.c08PipelineNewConnFlag = some true ∧
    Gen.Facts.c08DeadConnsLeavePool = some true ∧
    Gen.Facts.c08LazyEarlyReservesBeforeDone = some true ∧ Gen.Facts.c08LazyLateWaitsForEarly = some true ∧
    Gen.Facts.c08ReuseNewConnIsTheDialedOne = some true := by decide

/-! ### Non-vacuity -/
example : loop reuseAllow false (staleThenFresh 3) 0 0 = ⟨.ok, 4, false⟩ := by decide
example : (loop reuseAllow false (staleThenFresh 4) 0 0).outcome = .errGaveUp := by decide
example : loop pipelineAllow true [.pooled false true, .fresh true] 0 0 = ⟨.errGaveUp, 1, true⟩ := by decide
example : loop pipelineAllow true [.pooled false false, .fresh false] 0 0 = ⟨.errFresh, 2, false⟩ := by decide

end Props.C08
