import MosdnsVerif.Model.C02
import MosdnsVerif.Gen.Facts

/-!
# C02 — a reply that arrives in time is never lost
-/
namespace Props.C02
open Model.C02

def bools : List Bool := [true, false]
def phases : List Phase := [.sending, .waiting, .gotReply, .gotCloseErr, .gotCtxErr]

theorem mem_bools (b : Bool) : b ∈ bools := by cases b <;> simp [bools]
theorem mem_phases (p : Phase) : p ∈ phases := by cases p <;> simp [phases]
theorem mem_labels (l : Label) : l ∈ Label.all := by cases l <;> simp [Label.all]

def allSt : List St :=
  phases.flatMap fun p => bools.flatMap fun a => bools.flatMap fun b => bools.flatMap fun c =>
  bools.flatMap fun d => bools.map fun e => ⟨p, a, b, c, d, e⟩

theorem mem_allSt (s : St) : s ∈ allSt := by
  obtain ⟨p, a, b, c, d, e⟩ := s
  simp only [allSt, List.mem_flatMap, List.mem_map]
  exact ⟨p, mem_phases p, a, mem_bools a, b, mem_bools b, c, mem_bools c, d, mem_bools d, e, mem_bools e, rfl⟩

def good1 : Cfg := ⟨1, true⟩

def stateOk (s : St) : Bool :=
  !inv s || (good s && Label.all.all (fun l => match step good1 s l with | none => true | some s' => inv s'))

/-- every raw state (160) × every label, evaluated by the kernel -/
theorem check : (allSt.all stateOk) = true := by decide +kernel

/-- only "capacity 0 or not" matters -/
theorem step_cap (c : Cfg) (h : 1 ≤ c.cap) (s : St) (l : Label) : step c s l = step ⟨1, c.drainFirst⟩ s l := by
  have h0 : (c.cap == 0) = false := by simp; omega
  have h1 : decide (0 < c.cap) = true := by simp; omega
  cases l <;> simp [step, h0, h1]

theorem inv_step (c : Cfg) (hcap : 1 ≤ c.cap) (hd : c.drainFirst = true) (s s' : St) (l : Label)
    (hi : inv s = true) (hs : step c s l = some s') : inv s' = true ∧ good s = true := by
  rw [step_cap c hcap, hd] at hs
  have h := List.all_eq_true.mp check s (mem_allSt s)
  unfold stateOk at h
  rw [hi] at h
  simp only [Bool.not_true, Bool.false_or, Bool.and_eq_true, List.all_eq_true] at h
  have := h.2 l (mem_labels l)
  change (match step good1 s l with | none => true | some s' => inv s') = true at this
  unfold good1 at this
  rw [hs] at this
  exact ⟨this, h.1⟩

theorem inv_run (c : Cfg) (hcap : 1 ≤ c.cap) (hd : c.drainFirst = true) (ls : List Label) :
    ∀ s s', inv s = true → run c s ls = some s' → inv s' = true := by
  induction ls with
  | nil => intro s s' hi hr; simp [run] at hr; subst hr; exact hi
  | cons l ls ih =>
    intro s s' hi hr
    simp only [run] at hr
    cases hs : step c s l with
    | none => rw [hs] at hr; cases hr
    | some s1 => rw [hs] at hr; exact ih s1 s' (inv_step c hcap hd s s1 l hi hs).1 hr

/-- **C02.** With a reply channel of capacity at least one and a caller that
looks at it before honouring the close notification, for every schedule of
reader, caller, peer and clock (the reply may arrive before `Write` returns,
between send and wait, or while waiting; the peer may close right after it):
* a reply read from the connection is never released undelivered;
* the caller returns the close error only if no reply had arrived, the
  context error only if its context had ended;
* whenever the caller is parked and its reply has arrived, taking it is enabled. -/
theorem reply_not_lost (c : Cfg) (hcap : 1 ≤ c.cap) (hd : c.drainFirst = true) (ls : List Label) (s : St)
    (hr : run c {} ls = some s) :
    s.dropped = false ∧ (s.phase = .gotCloseErr → s.arrived = false) ∧ (s.phase = .gotCtxErr → s.ctxDone = true) ∧
    (s.phase = .waiting → s.arrived = true → step c s .pickReply = some { s with phase := .gotReply, buffered := false }) := by
  have hi := inv_run c hcap hd ls {} s (by decide) hr
  have h := List.all_eq_true.mp check s (mem_allSt s)
  unfold stateOk at h
  rw [hi] at h
  simp only [Bool.not_true, Bool.false_or, Bool.and_eq_true] at h
  have hg := h.1
  unfold good at hg
  simp only [Bool.and_eq_true, Bool.or_eq_true, Bool.not_eq_true', beq_iff_eq] at hg
  obtain ⟨⟨⟨g1, g2⟩, g3⟩, g4⟩ := hg
  refine ⟨g1, ?_, ?_, ?_⟩
  · intro hp; rcases g2 with g2 | g2
    · rw [hp] at g2; simp at g2
    · exact g2
  · intro hp; rcases g3 with g3 | g3
    · rw [hp] at g3; simp at g3
    · exact g3
  · intro hp ha
    rcases g4 with g4 | g4
    · rw [hp, ha] at g4; simp at g4
    · simp [step, hp, g4]

/-- The defects repaired by a8404aa and 665679f, as witness schedules of the
model: with an unbuffered channel a reply that arrives before the caller is
parked is dropped; without the drain the close error can win over a delivered reply. -/
theorem unbuffered_drops : ∃ s, run ⟨0, true⟩ {} [.readerDeliver] = some s ∧ s.dropped = true := ⟨_, rfl, rfl⟩
theorem no_drain_loses : ∃ s, run ⟨1, false⟩ {} [.readerDeliver, .readerClose, .writeReturns, .pickClose] = some s ∧
    s.phase = .gotCloseErr ∧ s.arrived = true := ⟨_, rfl, rfl, rfl⟩

/-! ### Guards over the regenerated facts -/
theorem facts_guard :
    (∃ n, Gen.Facts.c02TdcRespChanCap = some n ∧ 1 ≤ n) ∧ (∃ n, Gen.Facts.c02ReuseRespChanCap = some n ∧ 1 ≤ n) ∧
    Gen.Facts.c02TdcDrainsOnClose = some true ∧ Gen.Facts.c02ReuseDrainsOnClose = some true ∧
    Gen.Facts.c02ReaderHandsOffNonBlocking = some true ∧ Gen.Facts.c02ReuseChanInstalledBeforeWrite = some true ∧
    Gen.Facts.c02NoEarlyCloseCheckAfterWrite = some true := by
  refine ⟨⟨1, by decide⟩, ⟨1, by decide⟩, ?_⟩
  decide

/-! ### Non-vacuity: reply during the send, then EOF, then the caller parks -/
example : (run ⟨1, true⟩ {} [.readerDeliver, .readerClose, .writeReturns, .pickClose]).map (·.phase) = some .gotReply := by decide

end Props.C02
