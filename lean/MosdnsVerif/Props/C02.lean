import MosdnsVerif.Model.C02
import MosdnsVerif.Gen.Facts

/-!
# C02 — a reply that arrives in time is never lost
-/
namespace Props.C02
open Model.C02

def bools : List Bool := [true, false]
def phases : List Phase := [.sending, .waiting, .gotReply, .gotCloseErr, .gotCtxErr]

theorem mem_bools (b : Bool) : b ∈ bools := by cases b <;> simp [bools]
theorem mem_phases (p : Phase) : p ∈ phases := by cases p <;> simp [phases]
theorem mem_labels (l : Label) : l ∈ Label.all := by cases l <;> simp [Label.all]

def allSt : List St :=
  phases.flatMap fun p => bools.flatMap fun a => bools.flatMap fun b => bools.flatMap fun c =>
  bools.flatMap fun d => bools.flatMap fun e => bools.map fun f => ⟨p, a, b, c, d, e, f⟩

theorem mem_allSt (s : St) : s ∈ allSt := by
  obtain ⟨p, a, b, c, d, e, f⟩ := s
  simp only [allSt, List.mem_flatMap, List.mem_map]
  exact ⟨p, mem_phases p, a, mem_bools a, b, mem_bools b, c, mem_bools c, d, mem_bools d, e, mem_bools e, f, mem_bools f, rfl⟩

def good1 : Cfg := ⟨1, true, true⟩

def stateOk (s : St) : Bool :=
  !inv s || (good s && Label.all.all (fun l => match step good1 s l with | none => true | some s' => inv s'))

/-- every raw state (320) × every label, evaluated by the kernel -/
theorem check : (allSt.all stateOk) = true := by decide +kernel

/-- only "capacity 0 or not" matters -/
theorem step_cap (c : Cfg) (h : 1 ≤ c.cap) (s : St) (l : Label) : step c s l = step ⟨1, c.drainFirst, c.ownCtx⟩ s l := by
  have h0 : (c.cap == 0) = false := by simp; omega
  have h1 : decide (0 < c.cap) = true := by simp; omega
  cases l <;> simp [step, h0, h1]

theorem inv_step (c : Cfg) (hcap : 1 ≤ c.cap) (hd : c.drainFirst = true) (ho : c.ownCtx = true) (s s' : St) (l : Label)
    (hi : inv s = true) (hs : step c s l = some s') : inv s' = true ∧ good s = true := by
  rw [step_cap c hcap, hd, ho] at hs
  have h := List.all_eq_true.mp check s (mem_allSt s)
  unfold stateOk at h
  rw [hi] at h
  simp only [Bool.not_true, Bool.false_or, Bool.and_eq_true, List.all_eq_true] at h
  have := h.2 l (mem_labels l)
  change (match step good1 s l with | none => true | some s' => inv s') = true at this
  unfold good1 at this
  rw [hs] at this
  exact ⟨this, h.1⟩

theorem inv_run (c : Cfg) (hcap : 1 ≤ c.cap) (hd : c.drainFirst = true) (ho : c.ownCtx = true) (ls : List Label) :
    ∀ s s', inv s = true → run c s ls = some s' → inv s' = true := by
  induction ls with
  | nil => intro s s' hi hr; simp [run] at hr; subst hr; exact hi
  | cons l ls ih =>
    intro s s' hi hr
    simp only [run] at hr
    cases hs : step c s l with
    | none => rw [hs] at hr; cases hr
    | some s1 => rw [hs] at hr; exact ih s1 s' (inv_step c hcap hd ho s s1 l hi hs).1 hr

/-- **C02.** With a reply channel of capacity at least one, a caller that
looks at it before honouring the close notification, and the caller's own
context handed on unchanged down to the final select, for every schedule of
reader, caller, peer and clock (the reply may arrive before `Write` returns,
between send and wait, or while waiting; the peer may close right after it):
* a reply read from the connection is never released undelivered;
* the caller returns the close error only if no reply had arrived, the
  context error only if its context had ended;
* whenever the caller is parked and its reply has arrived, taking it is enabled. -/
theorem reply_not_lost (c : Cfg) (hcap : 1 ≤ c.cap) (hd : c.drainFirst = true) (ho : c.ownCtx = true) (ls : List Label) (s : St)
    (hr : run c {} ls = some s) :
    s.dropped = false ∧ (s.phase = .gotCloseErr → s.arrived = false) ∧ (s.phase = .gotCtxErr → s.ctxDone = true) ∧
    (s.phase = .waiting → s.arrived = true → step c s .pickReply = some { s with phase := .gotReply, buffered := false }) := by
  have hi := inv_run c hcap hd ho ls {} s (by decide) hr
  have h := List.all_eq_true.mp check s (mem_allSt s)
  unfold stateOk at h
  rw [hi] at h
  simp only [Bool.not_true, Bool.false_or, Bool.and_eq_true] at h
  have hg := h.1
  unfold good at hg
  simp only [Bool.and_eq_true, Bool.or_eq_true, Bool.not_eq_true', beq_iff_eq] at hg
  obtain ⟨⟨⟨g1, g2⟩, g3⟩, g4⟩ := hg
  refine ⟨g1, ?_, ?_, ?_⟩
  · intro hp; rcases g2 with g2 | g2
    · rw [hp] at g2; simp at g2
    · exact g2
  · intro hp; rcases g3 with g3 | g3
    · rw [hp] at g3; simp at g3
    · exact g3
  · intro hp ha
    rcases g4 with g4 | g4
    · rw [hp, ha] at g4; simp at g4
    · simp [step, hp, g4]

/-- The defects repaired by a8404aa and 665679f, as witness schedules of the
model: with an unbuffered channel a reply that arrives before the caller is
parked is dropped; without the drain the close error can win over a delivered reply. -/
theorem unbuffered_drops : ∃ s, run ⟨0, true, true⟩ {} [.readerDeliver] = some s ∧ s.dropped = true := ⟨_, rfl, rfl⟩
theorem no_drain_loses : ∃ s, run ⟨1, false, true⟩ {} [.readerDeliver, .readerClose, .writeReturns, .pickClose] = some s ∧
    s.phase = .gotCloseErr ∧ s.arrived = true := ⟨_, rfl, rfl, rfl⟩

/-- A layer that waits on a context of its own making (e.g. "the caller's context, but at most one dial timeout")
can give up with the context error while the caller's deadline is still ahead: the reply that arrives afterwards
finds nobody waiting. Hence the hypothesis `ownCtx` of `reply_not_lost` and the guard `c02CallerCtxReachesWait`. -/
theorem derived_ctx_loses : ∃ s, run ⟨1, true, false⟩ {} [.writeReturns, .innerExpire, .pickCtx, .readerDeliver] = some s ∧
    s.phase = .gotCtxErr ∧ s.ctxDone = false ∧ s.arrived = true := ⟨_, rfl, rfl, rfl, rfl⟩

/-! ### DoH: the reply is the response body, in whatever pieces it arrives -/
section Doh
open Model.C02.Doh

theorem readToEOF_eq (s : Go.Stream) : ∀ (lim : Nat) (acc : Bytes), readToEOF s lim acc = acc ++ s.flatten.take lim := by
  induction s with
  | nil => intro lim acc; simp [readToEOF]
  | cons c rest ih =>
    intro lim acc
    simp only [readToEOF, List.flatten_cons]
    by_cases h0 : lim = 0
    · simp [h0]
    · simp only [h0, if_false]
      by_cases hle : c.length ≤ lim
      · simp only [hle, if_true]
        rw [ih, List.take_append, List.take_of_length_le hle, List.append_assoc]
      · simp only [hle, if_false]
        have : lim ≤ c.length := by omega
        rw [List.take_append_of_le_length this]

/-- **C02 (DoH).** A 200 response whose body - however it is cut into pieces, one `Read` per piece or finer - adds
up to a DNS message `m` (12..65535 bytes) makes the exchange return `m` with the caller's id: no chunking of a
complete body turns it into an error or a different message. -/
theorem doh_reply_not_lost (body : Go.Stream) (m qid : Bytes) (hb : body.flatten = m)
    (h12 : 12 ≤ m.length) (hmax : m.length ≤ 65535) :
    exchange true qid body = .reply (qid ++ m.drop 2) := by
  have hr : readToEOF body maxMsgSize [] = m := by
    rw [readToEOF_eq, hb]; simp [maxMsgSize, List.take_of_length_le hmax]
  simp only [exchange, if_true, hr, headerLen]
  have : ¬ m.length < 12 := by omega
  simp [this]

theorem doh_chunking_irrelevant (b1 b2 : Go.Stream) (qid : Bytes) (h : b1.flatten = b2.flatten) :
    exchange true qid b1 = exchange true qid b2 := by
  simp only [exchange, if_true, readToEOF_eq, h]

/-- A reader that takes what ONE `Read` returns loses a complete reply as soon as it arrives in two pieces
(here: the 12-byte header, then the rest). Hence the guard `c02DohBodyReadToEOF`. -/
theorem doh_single_read_loses : ∃ (hdr rest : Bytes), hdr.length = 12 ∧ rest ≠ [] ∧
    exchange false [0, 7] [hdr, rest] ≠ exchange true [0, 7] [hdr, rest] :=
  ⟨List.replicate 12 0, [1], rfl, by decide, by decide⟩

end Doh

/-! ### The layer between transport and socket: data that comes together with an error -/
section Wrap
open Model.C02.Wrap

theorem wrap_keeps (r : Rd) : wrap true r = r := by simp [wrap]

/-- Through a layer whose `Read` is the wrapped connection's own, `io.ReadFull` sees what the connection gave. -/
theorem readFull_through_layer (rs : List Rd) (need : Nat) (acc : Bytes) :
    readFull (rs.map (wrap true)) need acc = readFull rs need acc := by
  have : wrap true = id := funext wrap_keeps
  simp [this]

/-- **C02 (stream reads).** If the pieces the `Read` calls hand out add up to at least the `need` bytes of the frame
and no call before the last one reports an error, `io.ReadFull` returns the frame - also when the last piece comes
together with EOF / a read error (the peer closed right behind the reply). -/
theorem readFull_complete : ∀ (rs : List Rd) (need : Nat) (acc : Bytes),
    need ≤ (rs.map (·.data)).flatten.length → (∀ r ∈ rs.dropLast, r.err = false) →
    readFull rs need acc = some (acc ++ (rs.map (·.data)).flatten.take need) := by
  intro rs
  induction rs with
  | nil => intro need acc h _; simp at h; simp [readFull, h]
  | cons r rs ih =>
    intro need acc h he
    simp only [readFull, List.map_cons, List.flatten_cons]
    by_cases h0 : need = 0
    · simp [h0]
    · simp only [h0, if_false]
      by_cases hle : need ≤ r.data.length
      · simp only [hle, if_true]; rw [List.take_append_of_le_length hle]
      · simp only [hle, if_false]
        have hne : rs ≠ [] := by
          intro hn; subst hn; simp at h; omega
        have hr : r.err = false := he r (by
          cases rs with
          | nil => exact absurd rfl hne
          | cons a t => simp [List.dropLast])
        simp only [hr]
        have hlen : need - r.data.length ≤ (rs.map (·.data)).flatten.length := by
          simp only [List.map_cons, List.flatten_cons, List.length_append] at h; omega
        have he' : ∀ x ∈ rs.dropLast, x.err = false := by
          intro x hx
          apply he x
          cases rs with
          | nil => simp at hx
          | cons a t => simp only [List.dropLast]; exact List.mem_cons_of_mem _ hx
        rw [ih (need - r.data.length) (acc ++ r.data) hlen he']
        have : r.data.length ≤ need := by omega
        rw [List.take_append, List.take_of_length_le this, List.append_assoc]
        simp

/-- The whole frame handed out by one `Read` together with EOF is delivered through a layer that keeps `Read` ... -/
theorem eof_with_data_kept (f : Bytes) : readFull ([⟨f, true⟩].map (wrap true)) f.length [] = some f := by
  rw [readFull_through_layer, readFull_complete] <;> simp

/-- ... and lost through one that answers an error with `(0, err)`. Hence the guard `c02ObserverLayerKeepsRead`. -/
theorem eof_with_data_dropped (f : Bytes) (h : f ≠ []) : readFull ([⟨f, true⟩].map (wrap false)) f.length [] = none := by
  have : f.length ≠ 0 := by intro hl; exact h (List.length_eq_zero_iff.mp hl)
  simp [readFull, wrap, this]

end Wrap

/-- The caller parked, the reply arrived and the close notification right behind it: a wait that honours the close
notification without looking at the reply channel first loses the reply (DoQ: the connection's context competing
with the reader's result). Hence the guards `c02QuicWaitOnlyCtxAndReply` / `c02*DrainsOnClose`. -/
theorem parked_no_drain_loses : ∃ s, run ⟨1, false, true⟩ {} [.writeReturns, .readerDeliver, .readerClose, .pickClose] = some s ∧
    s.phase = .gotCloseErr ∧ s.arrived = true := ⟨_, rfl, rfl, rfl⟩

/-- A wait without any close case (DoQ) is the schedules in which `pickClose` is never taken: `reply_not_lost` covers
them, and the parked caller whose reply arrived leaves with it whatever happened to the connection meanwhile. -/
theorem no_close_case_takes_reply : (run ⟨1, true, true⟩ {} [.writeReturns, .readerDeliver, .readerClose, .pickReply]).map (·.phase) = some .gotReply := by decide

/-! ### The waiter table over the life of a connection: the key registered is the key looked up -/
section Ids
open Model.C02.Ids

/-- **C02 (long-lived connections).** With the waiter registered under the id that goes on the wire, the reply to the
`ctr`-th query of a connection finds its waiter for EVERY `ctr` (also after the 16-bit id space has been used up, any
number of times), whatever the width of the counter. -/
theorem waiter_found_always (bits ctr : Nat) : finds true bits ctr = true := by
  simp [finds, regKey, lookupKey]

/-- A 16-bit counter used as the key directly is the same thing. -/
theorem waiter_found_16 (k : Bool) (ctr : Nat) : finds k 16 ctr = true := by
  cases k <;> simp [finds, regKey, lookupKey, wire, held]

/-- A wider counter used as the key: the first 65536 queries are fine, the 65537th reply finds nobody.
Hence the guards `c02TdcWaiterKeyIsWireId` / `c02TdcQidCounterBits`. -/
theorem wide_key_loses : finds false 32 65535 = true ∧ finds false 32 65536 = false := by decide

end Ids

/-! ### The datagram reader: junk in front of a reply costs nothing -/
namespace Udp
open Model.C02.Udp

/-- A reader that hands every `Read` the full buffer returns the first datagram that is a dns message, whole, whatever
shorter datagrams (any number, any lengths below a header, empty ones) came before it and whatever comes behind it. -/
theorem reply_after_junk (cap : Nat) (junk : List Nat) (d : Nat) (rest : List Nat)
    (hj : ∀ j ∈ junk, j < headerLen) (hd : headerLen ≤ d) (hc : d ≤ cap) :
    readMsg true cap (junk ++ d :: rest) = some d := by
  induction junk with
  | nil =>
    have : min cap d = d := Nat.min_eq_right hc
    simp [readMsg, this, hd]
  | cons j js ih =>
    have hjlt : j < headerLen := hj j (by simp)
    have hmin : ¬ headerLen ≤ min cap j := by
      have : min cap j ≤ j := Nat.min_le_right _ _
      omega
    have ih' := ih (fun x hx => hj x (by simp [hx]))
    simp [readMsg, hmin, ih']

/-- the size of the buffer does not matter beyond "at least the message" -/
theorem reply_after_junk_any_buffer (cap cap' : Nat) (junk : List Nat) (d : Nat) (rest : List Nat)
    (hj : ∀ j ∈ junk, j < headerLen) (hd : headerLen ≤ d) (hc : d ≤ cap) (hc' : d ≤ cap') :
    readMsg true cap (junk ++ d :: rest) = readMsg true cap' (junk ++ d :: rest) := by
  rw [reply_after_junk cap junk d rest hj hd hc, reply_after_junk cap' junk d rest hj hd hc']

/-- once the buffer is shorter than a header, a reader that keeps it that way returns nothing any more -/
theorem cut_buffer_returns_nothing (buf : Nat) (ds : List Nat) (hb : buf < headerLen) : readMsg false buf ds = none := by
  induction ds generalizing buf with
  | nil => simp [readMsg]
  | cons d ds ih =>
    have hle : min buf d ≤ buf := Nat.min_le_left _ _
    have hmin : ¬ headerLen ≤ min buf d := by omega
    have := ih (min buf d) (by omega)
    simp [readMsg, hmin, this]

/-- Witness that "every Read gets the full buffer" is needed: with a reader that re-slices the buffer to a skipped
datagram, ONE datagram shorter than a header loses every reply behind it, for every buffer size. -/
theorem resliced_buffer_loses (cap j : Nat) (ds : List Nat) (hj : j < headerLen) : readMsg false cap (j :: ds) = none := by
  have hle : min cap j ≤ j := Nat.min_le_right _ _
  have hmin : ¬ headerLen ≤ min cap j := by omega
  have := cut_buffer_returns_nothing (min cap j) ds (by omega)
  simp [readMsg, hmin, this]

example : readMsg true 4095 [5, 0, 1, 40, 30] = some 40 := by decide
example : readMsg false 4095 [5, 40] = none := by decide

/-- the reader as built: the regenerated buffer size, every Read gets all of it -/
theorem reply_after_junk_src (cap : Nat) (_ : Gen.Facts.c02UdpRxBufSize = some cap) (_ : Gen.Facts.c02UdpEveryReadGetsFullBuffer = some true)
    (junk : List Nat) (d : Nat) (rest : List Nat) (hj : ∀ j ∈ junk, j < headerLen) (hd : headerLen ≤ d) (hc : d ≤ cap) :
    readMsg true cap (junk ++ d :: rest) = some d := reply_after_junk cap junk d rest hj hd hc

end Udp

/-! ### Guards over the regenerated facts -/
theorem facts_guard :
    (∃ n, Gen.Facts.c02TdcRespChanCap = some n ∧ 1 ≤ n) ∧ (∃ n, Gen.Facts.c02ReuseRespChanCap = some n ∧ 1 ≤ n) ∧
    Gen.Facts.c02TdcDrainsOnClose = some true ∧ Gen.Facts.c02ReuseDrainsOnClose = some true ∧
    Gen.Facts.c02ReaderHandsOffNonBlocking = some true ∧ Gen.Facts.c02ReuseChanInstalledBeforeWrite = some true ∧
    Gen.Facts.c02NoEarlyCloseCheckAfterWrite = some true ∧
    Gen.Facts.c02CallerCtxReachesWait = some true ∧ Gen.Facts.c02DohBodyReadToEOF = some true ∧
    Gen.Facts.c02DohWaitsOnCallerCtx = some true ∧
    (∃ n, Gen.Facts.c02QuicRespChanCap = some n ∧ 1 ≤ n) ∧ Gen.Facts.c02QuicWaitOnlyCtxAndReply = some true ∧
    Gen.Facts.c02ObserverLayerKeepsRead = some true ∧
    Gen.Facts.c02TdcWaiterKeyIsWireId = some true ∧ Gen.Facts.c02TdcQidCounterBits = some 16 ∧
    (∃ n, Gen.Facts.c02UdpRxBufSize = some n ∧ 512 ≤ n) ∧ Gen.Facts.c02UdpEveryReadGetsFullBuffer = some true := by
  refine ⟨⟨1, by decide⟩, ⟨1, by decide⟩, ?_, ?_, ?_, ?_, ?_, ?_, ?_, ?_, ⟨1, by decide⟩, ?_, ?_, ?_, ?_, ⟨4095, by decide⟩, ?_⟩ <;> decide

/-! ### Non-vacuity: reply during the send, then EOF, then the caller parks -/
example : (run ⟨1, true, true⟩ {} [.readerDeliver, .readerClose, .writeReturns, .pickClose]).map (·.phase) = some .gotReply := by decide

end Props.C02
