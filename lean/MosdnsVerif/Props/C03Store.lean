import MosdnsVerif.Model.C03Store
import MosdnsVerif.Gen.Facts

/-! C03, redirect x cache over several queries (Model.C03Store): with `copyNoOpt` allocating the stored message's own
Question slice (fact `c03CacheStoreCopiesQuestion`) no entry of any cache is ever changed after it was stored, whatever
chain of redirects, caches and accepts runs whatever query (`run_keeps_entries`); with a shared slice the usual
configuration redirect -> cache -> forward answers a direct query for the redirect target with the alias as question
(`shared_question_is_wrong`). -/
namespace Props.C03Store
open Model.C03Store

def Unshared (w : World) : Prop := ∀ e ∈ w.entries, e.shared = none

theorem renameShared_unshared (es : List Entry) (h : ∀ e ∈ es, e.shared = none) (cell : Nat) (n : Bytes) :
    renameShared cell n es = es := by
  induction es with
  | nil => rfl
  | cons e t ih =>
    have he := h e (List.mem_cons_self ..)
    have ht := ih (fun x hx => h x (List.mem_cons_of_mem _ hx))
    simp only [renameShared, List.map_cons] at ht ⊢
    rw [ht]
    simp [he]

/-- what one query leaves behind: the entries that were there, unchanged, behind the new ones; all of them unshared -/
def Keeps (w w' : World) : Prop := Unshared w' ∧ ∃ new, w'.entries = new ++ w.entries

theorem keeps_refl (w : World) (h : Unshared w) : Keeps w w := ⟨h, [], rfl⟩

theorem keeps_store (w w' : World) (h : Keeps w w') (e : Entry) (he : e.shared = none) (f : Nat) :
    Keeps w { w' with entries := e :: w'.entries, fresh := f } := by
  obtain ⟨hu, new, hn⟩ := h
  refine ⟨?_, e :: new, by simp [hn]⟩
  intro x hx
  rcases List.mem_cons.mp hx with rfl | hx
  · exact he
  · exact hu x hx

/-- **Stored entries are immutable when the stored message has its own Question slice**: any chain, any query, any
earlier contents of the caches. -/
theorem run_keeps_entries (chain : List Plug) : ∀ (c : Ctx) (w : World), Unshared w → Keeps w (run true chain c w).2 := by
  induction chain with
  | nil =>
    intro c w hw
    simp only [run]
    split
    · exact keeps_refl w hw
    · exact ⟨hw, [], rfl⟩
  | cons p rest ih =>
    intro c w hw
    cases p with
    | accept =>
      simp only [run]
      split
      · exact keeps_refl w hw
      · exact ih c w hw
    | redirect pat target =>
      simp only [run]
      split
      · have h := ih { c with qname := target } w hw
        generalize run true rest { c with qname := target } w = res at h
        obtain ⟨c2, w2⟩ := res
        simp only at h ⊢
        split
        · split
          · simp only
            rw [renameShared_unshared _ h.1]
            exact h
          · exact h
        · exact h
      · exact ih c w hw
    | cache i =>
      simp only [run]
      split
      · next e _ =>
        have hw' : Unshared { w with fresh := w.fresh + 2 } := hw
        have h := ih { c with resp := some { id := c.qid, qname := e.qname, rcode := e.rcode, obj := w.fresh, qcell := w.fresh + 1 } }
          { w with fresh := w.fresh + 2 } hw'
        generalize run true rest { c with resp := some { id := c.qid, qname := e.qname, rcode := e.rcode, obj := w.fresh, qcell := w.fresh + 1 } }
          { w with fresh := w.fresh + 2 } = res at h
        obtain ⟨c2, w2⟩ := res
        simp only at h ⊢
        have h0 : Keeps w w2 := h
        split
        · split
          · exact h0
          · exact keeps_store w w2 h0 _ rfl _
        · exact h0
      · have h := ih c w hw
        generalize run true rest c w = res at h
        obtain ⟨c2, w2⟩ := res
        simp only at h ⊢
        split
        · exact keeps_store w w2 h _ rfl _
        · exact h

/-- over a whole history: the caches only ever grow by unshared entries -/
theorem history_keeps (chain : List Plug) (c : Ctx) (w : World) (hw : Unshared w) :
    Unshared (run true chain c w).2 := (run_keeps_entries chain c w hw).1

/-! ### The usual configuration: redirect(alias -> target) -> cache -> [has_resp] accept -> forward -/
def alias : Bytes := [97, 46]
def target : Bytes := [116, 46]
def usual : List Plug := [.redirect alias target, .cache 0, .accept]

/-- alias (miss: stored under the target's key), then the target asked directly (hit), then the alias again:
as built, every reply carries its own ID and question -/
theorem own_question_as_built :
    history true usual [(1001, alias, false), (1002, target, false), (1003, alias, false)] {} =
      [(1001, alias, 0), (1002, target, 0), (1003, alias, 0)] := by decide

/-- with the stored message sharing its Question slice with the live reply, redirect's in-place restore renames the
stored entry: the direct query for the target is answered with the alias as question -/
theorem shared_question_is_wrong :
    history false usual [(1001, alias, false), (1002, target, false), (1003, alias, false)] {} =
      [(1001, alias, 0), (1002, alias, 0), (1003, alias, 0)] := by decide

/-- the cache above the redirect is not affected either way -/
theorem cache_above_redirect_either_way (b : Bool) :
    history b [.cache 0, .accept, .redirect alias target] [(1, alias, false), (2, target, false), (3, alias, false)] {} =
      [(1, alias, 0), (2, target, 0), (3, alias, 0)] := by cases b <;> decide

theorem facts_guard_store : Gen.Facts.c03CacheStoreCopiesQuestion = some true := by decide

end Props.C03Store
