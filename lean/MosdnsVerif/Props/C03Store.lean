import MosdnsVerif.Model.C03Store
import MosdnsVerif.Gen.Facts

/-! C03, redirect x cache over several queries (Model.C03Store).

* With `copyNoOpt` allocating the stored message's own Question slice (fact `c03CacheStoreCopiesQuestion`) no entry of
  any cache is ever changed after it was stored, whatever chain of redirects, caches and accepts runs whatever query
  (`run_keeps_entries`); with a shared slice the usual configuration redirect -> cache -> forward answers a direct query
  for the redirect target with the alias as question (`shared_question_is_wrong`).
* With `cache.Exec` storing only a response that is new since the rest of its chain ran (fact
  `c03CacheStoresOnlyNewResponse`, finding F16) every entry a cache stores carries the question the cache was asked:
  `Sound` is preserved by every chain from every context, also one that already holds a response produced for another
  question (`run_post`), so every query of a history gets its own ID and question (`history_own_question`); comparing
  with the cache's own hit only, a response set in front of a redirect is stored under the target's key
  (`stores_earlier_response_is_wrong`). -/
namespace Props.C03Store
open Model.C03Store

def Unshared (w : World) : Prop := ∀ e ∈ w.entries, e.shared = none

theorem renameShared_unshared (es : List Entry) (h : ∀ e ∈ es, e.shared = none) (cell : Nat) (n : Bytes) :
    renameShared cell n es = es := by
  induction es with
  | nil => rfl
  | cons e t ih =>
    have he := h e (List.mem_cons_self ..)
    have ht := ih (fun x hx => h x (List.mem_cons_of_mem _ hx))
    simp only [renameShared, List.map_cons] at ht ⊢
    rw [ht]
    simp [he]

/-- what one query leaves behind: the entries that were there, unchanged, behind the new ones; all of them unshared -/
def Keeps (w w' : World) : Prop := Unshared w' ∧ ∃ new, w'.entries = new ++ w.entries

theorem keeps_refl (w : World) (h : Unshared w) : Keeps w w := ⟨h, [], rfl⟩

theorem keeps_finish (w : World) (i : Nat) (key : Bytes × Bool) (before : Option Nat) (res : Ctx × World)
    (h : Keeps w res.2) : Keeps w (finishCache true i key before res).2 := by
  unfold finishCache
  split
  · next r _ =>
    split
    · exact h
    · obtain ⟨hu, new, hn⟩ := h
      refine ⟨?_, { cache := i, key := key, qname := r.qname, rcode := r.rcode, shared := none } :: new, by simp [store, hn]⟩
      intro x hx
      simp only [store] at hx
      rcases List.mem_cons.mp hx with rfl | hx
      · rfl
      · exact hu x hx
  · exact h

/-- **Stored entries are immutable when the stored message has its own Question slice**: any chain, any query, any
earlier contents of the caches, either store condition. -/
theorem run_keeps_entries (sn : Bool) (chain : List Plug) :
    ∀ (c : Ctx) (w : World), Unshared w → Keeps w (run true sn chain c w).2 := by
  induction chain with
  | nil =>
    intro c w hw
    simp only [run]
    split
    · exact keeps_refl w hw
    · exact ⟨hw, [], rfl⟩
  | cons p rest ih =>
    intro c w hw
    cases p with
    | accept =>
      simp only [run]
      split
      · exact keeps_refl w hw
      · exact ih c w hw
    | redirect pat target =>
      simp only [run]
      split
      · have h := ih { c with qname := target } w hw
        generalize run true sn rest { c with qname := target } w = res at h
        obtain ⟨c2, w2⟩ := res
        simp only at h ⊢
        split
        · split
          · simp only
            rw [renameShared_unshared _ h.1]
            exact h
          · exact h
        · exact h
      · exact ih c w hw
    | cache i =>
      simp only [run]
      split
      · next e _ =>
        have hw' : Unshared { w with fresh := w.fresh + 2 } := hw
        exact keeps_finish w _ _ _ _ (ih { c with resp := some (hitResp c w e) } { w with fresh := w.fresh + 2 } hw')
      · exact keeps_finish w _ _ _ _ (ih c w hw)

/-! ### Every stored entry carries the question its cache was asked (F16) -/

/-- the caches' contents: unshared entries whose question is the question of their key -/
def Sound (w : World) : Prop := ∀ e ∈ w.entries, e.shared = none ∧ e.qname = e.key.1

theorem Sound.unshared {w : World} (h : Sound w) : Unshared w := fun e he => (h e he).1

/-- What a chain does to a context that may already hold a response (objects below `w.fresh` existed before):
the query is restored; a response object that is NEW carries the query's question and ID; an OLD one is the object the
context held before, possibly renamed by a redirect to the query's name. -/
structure Post (c : Ctx) (w : World) (c' : Ctx) (w' : World) : Prop where
  qname : c'.qname = c.qname
  qid : c'.qid = c.qid
  cd : c'.cd = c.cd
  mono : w.fresh ≤ w'.fresh
  sound : Sound w'
  wf : ∀ r', c'.resp = some r' → r'.obj < w'.fresh
  new : ∀ r', c'.resp = some r' → w.fresh ≤ r'.obj → r'.qname = c.qname ∧ r'.id = c.qid
  old : ∀ r', c'.resp = some r' → r'.obj < w.fresh →
    ∃ r, c.resp = some r ∧ r.obj = r'.obj ∧ r'.id = r.id ∧ (r'.qname = r.qname ∨ r'.qname = c.qname)

theorem post_stay (c : Ctx) (w : World) (hs : Sound w) (hp : ∀ r, c.resp = some r → r.obj < w.fresh) : Post c w c w :=
  ⟨rfl, rfl, rfl, Nat.le_refl _, hs, hp,
   fun r' hr hge => absurd (hp r' hr) (by omega),
   fun r' hr _ => ⟨r', hr, rfl, rfl, Or.inl rfl⟩⟩

theorem lookup_sound (w : World) (hs : Sound w) (i : Nat) (key : Bytes × Bool) (e : Entry)
    (h : lookup w i key = some e) : e.qname = key.1 := by
  unfold lookup at h
  have hm := List.mem_of_find?_eq_some h
  have hp := List.find?_some h
  simp only [Bool.and_eq_true, beq_iff_eq] at hp
  rw [(hs e hm).2, hp.2]

/-- `finishCache` with a store condition that only lets responses for the key's question through -/
theorem finish_sound (i : Nat) (key : Bytes × Bool) (before : Option Nat) (res : Ctx × World) (hs : Sound res.2)
    (h : ∀ r, res.1.resp = some r → before ≠ some r.obj → r.qname = key.1) :
    (finishCache true i key before res).1 = res.1 ∧ (finishCache true i key before res).2.fresh = res.2.fresh ∧
      Sound (finishCache true i key before res).2 := by
  unfold finishCache
  split
  · next r hr =>
    split
    · exact ⟨rfl, rfl, hs⟩
    · next hne =>
      refine ⟨rfl, rfl, ?_⟩
      intro x hx
      simp only [store] at hx
      rcases List.mem_cons.mp hx with rfl | hx
      · exact ⟨rfl, h r hr hne⟩
      · exact hs x hx
  · exact ⟨rfl, rfl, hs⟩

/-- **As built (own Question slice, only new responses are stored): any chain of redirects, caches and accepts in front
of an echoing upstream, from any context - also one that already holds a response for another question.** -/
theorem run_post (chain : List Plug) :
    ∀ (c : Ctx) (w : World), Sound w → (∀ r, c.resp = some r → r.obj < w.fresh) →
      Post c w (run true true chain c w).1 (run true true chain c w).2 := by
  induction chain with
  | nil =>
    intro c w hs hp
    simp only [run]
    split
    · exact post_stay c w hs hp
    · refine ⟨rfl, rfl, rfl, by simp, hs, ?_, ?_, ?_⟩
      · intro r' hr; simp only [Option.some.injEq] at hr; subst hr; simp
      · intro r' hr _; simp only [Option.some.injEq] at hr; subst hr; exact ⟨rfl, rfl⟩
      · intro r' hr hlt; simp only [Option.some.injEq] at hr; subst hr; simp at hlt
  | cons p rest ih =>
    intro c w hs hp
    cases p with
    | accept =>
      simp only [run]
      split
      · exact post_stay c w hs hp
      · exact ih c w hs hp
    | redirect pat target =>
      simp only [run]
      split
      · have h := ih { c with qname := target } w hs hp
        generalize run true true rest { c with qname := target } w = res at h
        obtain ⟨c2, w2⟩ := res
        simp only at h ⊢
        split
        · next r hr =>
          split
          · next hrt =>
            simp only
            rw [renameShared_unshared _ h.sound.unshared]
            refine ⟨rfl, h.qid, h.cd, h.mono, h.sound, ?_, ?_, ?_⟩
            · intro r' hr'; simp only [Option.some.injEq] at hr'; subst hr'; exact h.wf r hr
            · intro r' hr' hge; simp only [Option.some.injEq] at hr'; subst hr'
              exact ⟨rfl, (h.new r hr hge).2⟩
            · intro r' hr' hlt; simp only [Option.some.injEq] at hr'; subst hr'
              obtain ⟨r0, h0, ho, hi, _⟩ := h.old r hr hlt
              exact ⟨r0, h0, ho, hi, Or.inr rfl⟩
          · next hrt =>
            refine ⟨rfl, h.qid, h.cd, h.mono, h.sound, ?_, ?_, ?_⟩
            · intro r' hr'; exact h.wf r' hr'
            · intro r' hr' hge
              have hr'' : c2.resp = some r' := hr'
              rw [hr] at hr''; simp only [Option.some.injEq] at hr''; subst hr''
              exact absurd (h.new r hr hge).1 hrt
            · intro r' hr' hlt
              have hr'' : c2.resp = some r' := hr'
              rw [hr] at hr''; simp only [Option.some.injEq] at hr''; subst hr''
              obtain ⟨r0, h0, ho, hi, hq⟩ := h.old r hr hlt
              rcases hq with hq | hq
              · exact ⟨r0, h0, ho, hi, Or.inl hq⟩
              · exact absurd hq hrt
        · next hr =>
          refine ⟨rfl, h.qid, h.cd, h.mono, h.sound, ?_, ?_, ?_⟩
          · intro r' hr'; have : c2.resp = some r' := hr'; rw [hr] at this; cases this
          · intro r' hr'; have : c2.resp = some r' := hr'; rw [hr] at this; cases this
          · intro r' hr'; have : c2.resp = some r' := hr'; rw [hr] at this; cases this
      · exact ih c w hs hp
    | cache i =>
      simp only [run, ↓reduceIte]
      split
      · next e he =>
        have heq : e.qname = c.qname := lookup_sound w hs i (c.qname, c.cd) e he
        have hs1 : Sound { w with fresh := w.fresh + 2 } := hs
        have hp1 : ∀ r, ({ c with resp := some (hitResp c w e) } : Ctx).resp = some r → r.obj < ({ w with fresh := w.fresh + 2 } : World).fresh := by
          intro r hr; simp only [Option.some.injEq] at hr; subst hr; simp [hitResp]
        have h := ih { c with resp := some (hitResp c w e) } { w with fresh := w.fresh + 2 } hs1 hp1
        generalize run true true rest { c with resp := some (hitResp c w e) } { w with fresh := w.fresh + 2 } = res at h
        -- every response the rest hands back is the hit itself or a new one for the query's question
        have hold : ∀ r', res.1.resp = some r' → r'.obj < w.fresh + 2 →
            r'.obj = w.fresh ∧ r'.id = c.qid ∧ r'.qname = c.qname := by
          intro r' hr' hlt
          obtain ⟨r0, h0, ho, hi, hq⟩ := h.old r' hr' hlt
          simp only [Option.some.injEq] at h0; subst h0
          refine ⟨by rw [← ho]; rfl, by rw [hi]; rfl, ?_⟩
          rcases hq with hq | hq
          · rw [hq]; exact heq
          · exact hq
        obtain ⟨f1, f2, f3⟩ := finish_sound i (c.qname, c.cd) (some w.fresh) res h.sound (by
          intro r hr hne
          by_cases hlt : r.obj < w.fresh + 2
          · exact absurd (by rw [(hold r hr hlt).1]) hne
          · exact (h.new r hr (by simp only at hlt ⊢; omega)).1)
        refine ⟨by rw [f1]; exact h.qname, by rw [f1]; exact h.qid, by rw [f1]; exact h.cd,
          by rw [f2]; have := h.mono; simp only at this; omega, f3, ?_, ?_, ?_⟩
        · intro r' hr'; rw [f1] at hr'; rw [f2]; exact h.wf r' hr'
        · intro r' hr' hge
          rw [f1] at hr'
          by_cases hlt : r'.obj < w.fresh + 2
          · exact ⟨(hold r' hr' hlt).2.2, (hold r' hr' hlt).2.1⟩
          · exact h.new r' hr' (by simp only at hlt ⊢; omega)
        · intro r' hr' hlt
          rw [f1] at hr'
          have := (hold r' hr' (by omega)).1
          omega
      · have h := ih c w hs hp
        generalize run true true rest c w = res at h
        obtain ⟨f1, f2, f3⟩ := finish_sound i (c.qname, c.cd) (c.resp.map (·.obj)) res h.sound (by
          intro r hr hne
          by_cases hlt : r.obj < w.fresh
          · obtain ⟨r0, h0, ho, _, _⟩ := h.old r hr hlt
            exact absurd (by simp [h0, ho]) hne
          · exact (h.new r hr (by omega)).1)
        refine ⟨by rw [f1]; exact h.qname, by rw [f1]; exact h.qid, by rw [f1]; exact h.cd, by rw [f2]; exact h.mono, f3, ?_, ?_, ?_⟩
        · intro r' hr'; rw [f1] at hr'; rw [f2]; exact h.wf r' hr'
        · intro r' hr' hge; rw [f1] at hr'; exact h.new r' hr' hge
        · intro r' hr' hlt; rw [f1] at hr'; exact h.old r' hr' hlt

/-- every query of a history gets a reply with its own ID and question, and the caches stay sound -/
theorem history_own_question (chain : List Plug) :
    ∀ (qs : List (Nat × Bytes × Bool)) (w : World), Sound w →
      (history true true chain qs w).map (fun r => (r.1, r.2.1)) = qs.map (fun q => (q.1, q.2.1)) := by
  intro qs
  induction qs with
  | nil => intro w _; rfl
  | cons q t ih =>
    intro w hs
    obtain ⟨id, name, cd⟩ := q
    have h := run_post chain { qid := id, qname := name, cd := cd, resp := none } w hs (by intro r hr; cases hr)
    simp only [history, List.map_cons]
    rw [ih _ h.sound]
    congr 1
    unfold replyOf
    split
    · next r hr =>
      by_cases hlt : r.obj < w.fresh
      · obtain ⟨r0, h0, _⟩ := h.old r hr hlt
        cases h0
      · have := h.new r hr (by omega)
        simp [this.1, this.2]
    · simp [h.qid, h.qname]

/-! ### The usual configuration: redirect(alias -> target) -> cache -> [has_resp] accept -> forward -/
def alias : Bytes := [97, 46]
def target : Bytes := [116, 46]
def usual : List Plug := [.redirect alias target, .cache 0, .accept]

/-- alias (miss: stored under the target's key), then the target asked directly (hit), then the alias again:
as built, every reply carries its own ID and question -/
theorem own_question_as_built :
    history true true usual [(1001, alias, false), (1002, target, false), (1003, alias, false)] {} =
      [(1001, alias, 0), (1002, target, 0), (1003, alias, 0)] := by decide

/-- with the stored message sharing its Question slice with the live reply, redirect's in-place restore renames the
stored entry: the direct query for the target is answered with the alias as question -/
theorem shared_question_is_wrong :
    history false true usual [(1001, alias, false), (1002, target, false), (1003, alias, false)] {} =
      [(1001, alias, 0), (1002, alias, 0), (1003, alias, 0)] := by decide

/-- the cache above the redirect is not affected either way -/
theorem cache_above_redirect_either_way (b : Bool) :
    history b true [.cache 0, .accept, .redirect alias target] [(1, alias, false), (2, target, false), (3, alias, false)] {} =
      [(1, alias, 0), (2, target, 0), (3, alias, 0)] := by cases b <;> decide

/-! ### F16: cache -> redirect(alias -> target) -> cache -> [!has_resp] forward, the upper cache holding an entry for the
alias the lower cache has none for (the lower one did not keep the empty answer; the upper one kept it with redirect's
CNAME) -/
def twoCaches : List Plug := [.cache 0, .redirect alias target, .cache 1]
def upperOnly : World := { entries := [{ cache := 0, key := (alias, false), qname := alias, rcode := 0, shared := none }], fresh := 0 }

theorem upperOnly_sound : Sound upperOnly := by
  intro e he
  simp only [upperOnly, List.mem_singleton] at he
  subst he
  exact ⟨rfl, rfl⟩

/-- the store condition before F16 (`cachedResp != r`): the upper cache's hit for the alias reaches the lower cache
behind the redirect, which misses and stores it under the TARGET's key; the direct query for the target is answered
with the alias as question -/
theorem stores_earlier_response_is_wrong :
    history true false twoCaches [(1002, alias, false), (1003, target, false)] upperOnly =
      [(1002, alias, 0), (1003, alias, 0)] := by decide

/-- as built (`rBefore != r`) -/
theorem stores_only_new_response_as_built :
    history true true twoCaches [(1002, alias, false), (1003, target, false)] upperOnly =
      [(1002, alias, 0), (1003, target, 0)] := by decide

/-! ### F17: the background refresh of a lazy cache runs on a copy of the context that may already carry a response -/

/-- as built (`rBefore != r` in the refresh): whatever the copied context carries and whatever the plugins behind the
cache are, the caches stay sound - the refresh stores only a response for the question the cache was asked -/
theorem lazyRefresh_sound (i : Nat) (rest : List Plug) (c : Ctx) (w : World) (hs : Sound w) :
    Sound (lazyRefresh true i rest c w) := by
  unfold lazyRefresh
  have hs1 : Sound { w with fresh := w.fresh + 2 } := hs
  have h := run_post rest { c with resp := c.resp.map (fun r => { r with obj := w.fresh, qcell := w.fresh + 1 }) }
    { w with fresh := w.fresh + 2 } hs1 (by
      intro r hr
      cases hc : c.resp with
      | none => simp [hc] at hr
      | some r0 => simp [hc] at hr; subst hr; simp)
  refine (finish_sound i (c.qname, c.cd) _ _ h.sound ?_).2.2
  intro r hr hne
  by_cases hlt : r.obj < w.fresh + 2
  · obtain ⟨r0, h0, hobj, _⟩ := h.old r hr hlt
    exfalso
    apply hne
    have h0' : (c.resp.map (fun r => { r with obj := w.fresh, qcell := w.fresh + 1 })) = some r0 := h0
    show Option.map (·.obj) (c.resp.map (fun r => { r with obj := w.fresh, qcell := w.fresh + 1 })) = some r.obj
    rw [h0']
    simp [hobj]
  · exact (h.new r hr (by simp; omega)).1

/-- the lower, lazy cache of `twoCaches` has a stale hit for the target while the context carries the upper cache's hit
for the alias; behind the lower cache is only the `[!has_resp]` upstream -/
def carriesAliasHit : Ctx :=
  { qid := 7, qname := target, cd := false, resp := some { id := 7, qname := alias, rcode := 0, obj := 0, qcell := 1 } }
def noEntries : World := { entries := [], fresh := 2 }

/-- the refresh before F17 (`r != nil`): the alias answer is stored under the TARGET's key -/
theorem lazy_refresh_stores_earlier_response_is_wrong :
    (lazyRefresh false 1 [] carriesAliasHit noEntries).entries =
      [{ cache := 1, key := (target, false), qname := alias, rcode := 0, shared := none }] := by decide

/-- as built -/
theorem lazy_refresh_as_built : (lazyRefresh true 1 [] carriesAliasHit noEntries).entries = [] := by decide

theorem facts_guard_store :
    Gen.Facts.c03CacheStoreCopiesQuestion = some true ∧ Gen.Facts.c03CacheStoresOnlyNewResponse = some true ∧
      Gen.Facts.c03LazyUpdateStoresOnlyNewResponse = some true := by decide

end Props.C03Store
