import MosdnsVerif.Model.C19
import MosdnsVerif.Gen.Facts

/-!
# C19 — cache dumps reload faithfully; damaged dumps are harmless
-/
namespace Props.C19
open Model.C19

theorem be64_length (n : Nat) : (be64 n).length = 8 := rfl

theorem unbe64_be64 (n : Nat) (h : n < 2 ^ 64) (rest : Bytes) : unbe64 (be64 n ++ rest) = n := by
  unfold unbe64 be64
  simp only [List.cons_append, List.take_succ_cons, List.take_zero, List.nil_append, List.foldl_cons, List.foldl_nil]
  simp only [UInt8.toNat_ofNat']
  have e : ∀ x, x % 256 % 2 ^ 8 = x % 256 := by intro x; omega
  simp only [e]
  omega

variable {E : Type}

theorem readN_ok (a r : Bytes) (clean : Bool) : readN (a ++ r) clean a.length = .ok (a, r) := by
  simp [readN]

theorem readN_short (p : Bytes) (n : Nat) (h : p.length < n) :
    readN p false n = .error .unexpected := by
  have : ¬ n ≤ p.length := by omega
  simp [readN, this]

/-- **C19 (truncation safety and faithful block decoding).**
Let `blocks` be the blocks the writer formed (each within the size limit,
`dec ∘ enc = id`). For *every* prefix `p` of the plaintext - every crash point
of the periodic dump, every truncated copy - with `clean` true only for the
complete stream:
* the entries handed to the store are exactly the entries of the blocks that
  are wholly contained in `p` (so only entries of the intact dump, in order,
  and all of them when `p` is complete), and
* an error is reported iff the stream did not end cleanly. -/
theorem load_prefix (enc : List E → Bytes) (dec : Bytes → Option (List E))
    (hcodec : ∀ b, dec (enc b) = some b) :
    ∀ (blocks : List (List E)), (∀ b ∈ blocks, (enc b).length ≤ maxBlock) →
    ∀ (p : Bytes) (clean : Bool) (fuel : Nat),
      p <+: plain enc blocks → (clean = true → p = plain enc blocks) → blocks.length < fuel →
      load dec fuel p clean = ((whole enc blocks p).flatten, !clean) := by
  intro blocks
  induction blocks with
  | nil =>
    intro _ p clean fuel hp hc hf
    have hp0 : p = [] := by simpa [plain] using hp
    subst hp0
    cases fuel with
    | zero => omega
    | succ f =>
      cases clean <;> simp [load, readN, whole]
  | cons b bs ih =>
    intro hfit p clean fuel hp hc hf
    have hb : (enc b).length ≤ maxBlock := hfit b List.mem_cons_self
    have hb64 : (enc b).length < 2 ^ 64 := by unfold maxBlock at hb; omega
    cases fuel with
    | zero => omega
    | succ f =>
      have hplain : plain enc (b :: bs) = (be64 (enc b).length ++ enc b) ++ plain enc bs := by
        simp [plain]
      rw [hplain] at hp hc
      by_cases hlen : (be64 (enc b).length ++ enc b).length ≤ p.length
      · -- the whole block is in p
        obtain ⟨p', hp'⟩ : ∃ p', p = (be64 (enc b).length ++ enc b) ++ p' := by
          have hpre : (be64 (enc b).length ++ enc b) <+: p := by
            apply List.prefix_of_prefix_length_le (List.prefix_append _ _) hp hlen
          obtain ⟨t, ht⟩ := hpre
          exact ⟨t, ht.symm⟩
        subst hp'
        have hp2 : p' <+: plain enc bs := (List.prefix_append_right_inj _).mp hp
        have hc2 : clean = true → p' = plain enc bs := fun h => List.append_cancel_left (hc h)
        have ih' := ih (fun x hx => hfit x (List.mem_cons_of_mem _ hx)) p' clean f hp2 hc2 (by simp at hf; omega)
        have h8 : readN ((be64 (enc b).length ++ enc b) ++ p') clean 8 = .ok (be64 (enc b).length, enc b ++ p') := by
          have := readN_ok (be64 (enc b).length) (enc b ++ p') clean
          simpa [be64_length, List.append_assoc] using this
        have hu : unbe64 (be64 (enc b).length) = (enc b).length := by
          have := unbe64_be64 (enc b).length hb64 []
          simpa using this
        unfold load
        rw [h8]
        simp only [hu]
        have : ¬ (enc b).length > maxBlock := by omega
        simp only [this, if_false, readN_ok, hcodec, ih']
        simp only [whole]
        simp [hlen]
      · -- p ends inside this block
        have hlt : p.length < (be64 (enc b).length ++ enc b).length := Nat.lt_of_not_le hlen
        have hcf : clean = false := by
          cases clean with
          | false => rfl
          | true =>
            have := hc rfl
            rw [this] at hlt
            simp at hlt
            omega
        subst hcf
        have hw : whole enc (b :: bs) p = [] := by
          simp only [whole]; rw [if_neg hlen]
        rw [hw]
        simp only [List.flatten_nil, Bool.not_false]
        have hpre : p <+: be64 (enc b).length ++ enc b :=
          List.prefix_of_prefix_length_le hp (List.prefix_append _ _) (Nat.le_of_lt hlt)
        unfold load
        by_cases h8 : 8 ≤ p.length
        · -- header complete, body short
          obtain ⟨q, hq⟩ : ∃ q, p = be64 (enc b).length ++ q := by
            have : be64 (enc b).length <+: p :=
              List.prefix_of_prefix_length_le (List.prefix_append _ _) hpre (by simpa [be64_length] using h8)
            obtain ⟨t, ht⟩ := this
            exact ⟨t, ht.symm⟩
          subst hq
          have hr : readN (be64 (enc b).length ++ q) false 8 = .ok (be64 (enc b).length, q) := by
            have := readN_ok (be64 (enc b).length) q false
            simpa [be64_length] using this
          rw [hr]
          have hu : unbe64 (be64 (enc b).length) = (enc b).length := by
            have := unbe64_be64 (enc b).length hb64 []
            simpa using this
          simp only [hu]
          have : ¬ (enc b).length > maxBlock := by omega
          simp only [this, if_false]
          have hq : q.length < (enc b).length := by simp at hlt; omega
          rw [readN_short q _ hq]
        · have : p.length < 8 := by omega
          rw [readN_short p 8 this]

/-- **Oversized blocks are refused before allocating**: a length field above
1 MiB makes the loader stop with an error; nothing of that block is read. -/
theorem bounded_alloc (dec : Bytes → Option (List E)) (fuel : Nat) (h rest : Bytes) (clean : Bool)
    (hl : h.length = 8) (hbig : unbe64 h > maxBlock) : load dec (fuel + 1) (h ++ rest) clean = ([], true) := by
  unfold load
  have : readN (h ++ rest) clean 8 = .ok (h, rest) := by
    have := readN_ok h rest clean
    simpa [hl] using this
  rw [this]
  simp [hbig]

/-- Whatever the bytes, the loader is a total function (the model cannot
panic or diverge) and every entry it stores came out of a successfully
decoded block. -/
theorem load_total (dec : Bytes → Option (List E)) (fuel : Nat) (p : Bytes) (clean : Bool) :
    ∃ es err, load dec fuel p clean = (es, err) := ⟨_, _, rfl⟩

/-- The blocks wholly inside a prefix are an initial segment of all blocks:
a truncated dump never adds an entry the intact dump does not contain. -/
theorem whole_prefix (enc : List E → Bytes) : ∀ (blocks : List (List E)) (p : Bytes), whole enc blocks p <+: blocks := by
  intro blocks
  induction blocks with
  | nil => intro p; simp [whole]
  | cons b bs ih =>
    intro p
    simp only [whole]
    split
    · exact List.cons_prefix_cons.mpr ⟨rfl, ih _⟩
    · exact List.nil_prefix

/-- Loading the complete, cleanly closed dump returns every entry, in order, without error. -/
theorem reload_all (enc : List E → Bytes) (dec : Bytes → Option (List E)) (hcodec : ∀ b, dec (enc b) = some b)
    (blocks : List (List E)) (hfit : ∀ b ∈ blocks, (enc b).length ≤ maxBlock) :
    load dec (blocks.length + 1) (plain enc blocks) true = (blocks.flatten, false) := by
  have h := load_prefix enc dec hcodec blocks hfit (plain enc blocks) true (blocks.length + 1)
    (List.prefix_refl _) (fun _ => rfl) (by omega)
  rw [h]
  congr 2
  clear h
  induction blocks with
  | nil => simp [whole]
  | cons b bs ih =>
    have hplain : plain enc (b :: bs) = (be64 (enc b).length ++ enc b) ++ plain enc bs := by simp [plain]
    simp only [whole, hplain]
    have : (be64 (enc b).length ++ enc b).length ≤ ((be64 (enc b).length ++ enc b) ++ plain enc bs).length := by
      simp
    simp only [this, if_true, List.drop_left']
    rw [ih (fun x hx => hfit x (List.mem_cons_of_mem _ hx))]

/-! ### Times survive to the second -/

/-- Stored, message-expiry and cache-expiry times are written as Unix seconds;
a reloaded entry therefore ages by `δ'` with `δ ≤ δ' ≤ δ + 1` whole seconds
where `δ` is what the original entry would have aged - the served TTLs agree
to the second. (`s` = stored time, `t` = now, in ns.) -/
theorem reload_age (s t : Nat) (h : s ≤ t) :
    let sec := 1000000000
    let δ := (t - s) / sec
    let δ' := (t - s / sec * sec) / sec
    δ ≤ δ' ∧ δ' ≤ δ + 1 := by
  intro sec δ δ'
  simp only [sec, δ, δ']
  omega

/-! ### Overlapping dumps of one cache

The periodic dump, the dump in `Close` and `GET /dump` are not serialised. As
long as every `writeDump` call keeps the marshaled block in a buffer of its own
(`localBuf = true`, the regenerated fact `c19WriterStateLocal`), a step of one
dump changes nothing another dump will emit: under *every* interleaving of any
number of dumps each one emits exactly the stream of its own blocks, and so
reloads to exactly the entries it collected. -/

theorem step_other (enc : List E → Bytes) (lb : Bool) (w : World E) (i j : Nat) (h : j ≠ i) :
    (step enc lb w i).dumps j = w.dumps j := by
  simp only [step]
  split
  · split
    · rfl
    · split <;> simp [World.set, h]
  · simp [World.set, h]
  · simp [World.set, h]

theorem step_self (enc : List E → Bytes) (w : World E) (i : Nat) :
    ((step enc true w i).dumps i).out ++ ((step enc true w i).dumps i).rest enc
      = (w.dumps i).out ++ (w.dumps i).rest enc := by
  simp only [step]
  split
  · rename_i hpc
    split
    · rfl
    · rename_i b t htodo
      simp [World.set, Dump.rest, hpc, htodo, plain]
  · rename_i hpc
    simp [World.set, Dump.rest, hpc]
  · rename_i n hpc
    simp [World.set, Dump.rest, hpc]

/-- What a dump has emitted plus what it still has to emit never changes,
whichever dump moves. -/
theorem step_keeps (enc : List E → Bytes) (w : World E) (i j : Nat) :
    ((step enc true w i).dumps j).out ++ ((step enc true w i).dumps j).rest enc
      = (w.dumps j).out ++ (w.dumps j).rest enc := by
  by_cases h : j = i
  · subst h; exact step_self enc w j
  · rw [step_other enc true w i j h]

theorem run_keeps (enc : List E → Bytes) (sched : List Nat) : ∀ (w : World E) (j : Nat),
    ((run enc true sched w).dumps j).out ++ ((run enc true sched w).dumps j).rest enc
      = (w.dumps j).out ++ (w.dumps j).rest enc := by
  induction sched with
  | nil => intro w j; rfl
  | cons i s ih => intro w j; simp only [run]; rw [ih, step_keeps]

/-- **C19 (overlapping dumps are independent).** Any number of dumps of one
cache, started with the blocks each collected, interleaved in any order, with
any leftover content in memory: a dump that has finished has emitted exactly
the stream of its own blocks. -/
theorem overlapping_dumps_independent (enc : List E → Bytes) (blocksOf : Nat → List (List E))
    (scratch : Bytes) (sched : List Nat) (i : Nat)
    (hfin : ((run enc true sched ⟨fun j => Dump.fresh (blocksOf j), scratch⟩).dumps i).finished = true) :
    ((run enc true sched ⟨fun j => Dump.fresh (blocksOf j), scratch⟩).dumps i).out = plain enc (blocksOf i) := by
  have h := run_keeps enc sched ⟨fun j => Dump.fresh (blocksOf j), scratch⟩ i
  generalize (run enc true sched ⟨fun j => Dump.fresh (blocksOf j), scratch⟩).dumps i = d at h hfin
  simp only [Dump.finished, Bool.and_eq_true, beq_iff_eq, List.isEmpty_iff] at hfin
  simp [Dump.rest, Dump.fresh, hfin.1, hfin.2, plain] at h
  simpa [plain] using h

/-- ... and therefore reloads to exactly the entries it collected, without error. -/
theorem overlapping_dump_reloads (enc : List E → Bytes) (dec : Bytes → Option (List E))
    (hcodec : ∀ b, dec (enc b) = some b) (blocksOf : Nat → List (List E))
    (scratch : Bytes) (sched : List Nat) (i : Nat)
    (hfit : ∀ b ∈ blocksOf i, (enc b).length ≤ maxBlock)
    (hfin : ((run enc true sched ⟨fun j => Dump.fresh (blocksOf j), scratch⟩).dumps i).finished = true) :
    load dec ((blocksOf i).length + 1)
      ((run enc true sched ⟨fun j => Dump.fresh (blocksOf j), scratch⟩).dumps i).out true
      = ((blocksOf i).flatten, false) := by
  rw [overlapping_dumps_independent enc blocksOf scratch sched i hfin]
  exact reload_all enc dec hcodec (blocksOf i) hfit

/-- Where this tree's `writeDump` keeps the marshaled block (regenerated). -/
def writerLocal : Bool := Gen.Facts.c19WriterStateLocal == some true

/-- The same statement for the writer as it is in the source now. -/
theorem overlapping_dumps_on_this_tree (enc : List E → Bytes) (dec : Bytes → Option (List E))
    (hcodec : ∀ b, dec (enc b) = some b) (blocksOf : Nat → List (List E))
    (scratch : Bytes) (sched : List Nat) (i : Nat)
    (hfit : ∀ b ∈ blocksOf i, (enc b).length ≤ maxBlock)
    (hfin : ((run enc writerLocal sched ⟨fun j => Dump.fresh (blocksOf j), scratch⟩).dumps i).finished = true) :
    load dec ((blocksOf i).length + 1)
      ((run enc writerLocal sched ⟨fun j => Dump.fresh (blocksOf j), scratch⟩).dumps i).out true
      = ((blocksOf i).flatten, false) := by
  have hl : writerLocal = true := by decide
  rw [hl] at hfin ⊢
  exact overlapping_dump_reloads enc dec hcodec blocksOf scratch sched i hfit hfin

/-! ### The key field of a dumped entry takes any octets

Cache keys are binary. With the key in a proto3 `bytes` field (regenerated fact
`c19KeyFieldIsBytes`: dump.proto, the Go field type and the raw descriptor
agree) every block marshals whatever the questions are, so `writeDump` writes
every block it formed and the reload returns ALL entries. With a validated
(`string`) field the first entry whose key is not valid UTF-8 - a question of
type ANY / AXFR / TYPE128..255, class ANY / NONE, a name of 128 octets or more -
makes the dump end there with an error. -/

theorem written_bytes (keyOf : E → Bytes) : ∀ blocks : List (List E), written .bytes keyOf blocks = (blocks, false) := by
  intro blocks
  induction blocks with
  | nil => rfl
  | cons b bs ih => simp [written, marshals, ih]

/-- **C19 (every live entry is reproduced, whatever its question).** -/
theorem reload_all_keys (enc : List E → Bytes) (dec : Bytes → Option (List E)) (hcodec : ∀ b, dec (enc b) = some b)
    (keyOf : E → Bytes) (blocks : List (List E)) (hfit : ∀ b ∈ blocks, (enc b).length ≤ maxBlock) :
    (written .bytes keyOf blocks).2 = false ∧
    load dec (blocks.length + 1) (plain enc (written .bytes keyOf blocks).1) true = (blocks.flatten, false) := by
  rw [written_bytes]
  exact ⟨rfl, reload_all enc dec hcodec blocks hfit⟩

/-- The kind of the key field in this tree's dump schema (regenerated). -/
def keyKind : FieldKind := if Gen.Facts.c19KeyFieldIsBytes == some true then .bytes else .utf8

theorem reload_all_keys_on_this_tree (enc : List E → Bytes) (dec : Bytes → Option (List E)) (hcodec : ∀ b, dec (enc b) = some b)
    (keyOf : E → Bytes) (blocks : List (List E)) (hfit : ∀ b ∈ blocks, (enc b).length ≤ maxBlock) :
    (written keyKind keyOf blocks).2 = false ∧
    load dec (blocks.length + 1) (plain enc (written keyKind keyOf blocks).1) true = (blocks.flatten, false) := by
  have hk : keyKind = .bytes := by decide
  rw [hk]
  exact reload_all_keys enc dec hcodec keyOf blocks hfit

/-- A validated key field loses the dump: one entry whose key is not valid
UTF-8 in the first block, and nothing is written (the hypothesis on the field
kind is needed). -/
theorem utf8_key_field_loses_dump (keyOf : E → Bytes) (b : List E) (bs : List (List E)) (e : E) (he : e ∈ b)
    (hbad : validUtf8 (keyOf e) = false) : written .utf8 keyOf (b :: bs) = ([], true) := by
  have : b.all (fun e => marshals .utf8 (keyOf e)) = false := by
    apply Bool.eq_false_iff.mpr
    intro hall
    have := List.all_eq_true.mp hall e he
    simp [marshals, hbad] at this
  simp [written, this]

theorem inR_ascii (lo hi : Nat) (b : UInt8) (hlo : 128 ≤ lo) (hb : b.toNat < 128) : inR lo hi b = false := by
  simp [inR]; omega

/-- An octet >= 0x80 followed by an ASCII octet is never well-formed UTF-8. -/
theorem high_then_ascii (f : Nat) (a b : UInt8) (rest : Bytes) (ha : 128 ≤ a.toNat) (hb : b.toNat < 128) :
    validUtf8Aux (f + 1) (a :: b :: rest) = false := by
  have na : ¬ a.toNat < 128 := by omega
  have l1 : inR 0x80 0xBF b = false := inR_ascii _ _ b (by omega) hb
  have l2 : ∀ hi, inR (if a.toNat = 0xE0 then 0xA0 else 0x80) hi b = false := fun hi =>
    inR_ascii _ _ b (by split <;> omega) hb
  have l3 : ∀ hi, inR (if a.toNat = 0xF0 then 0x90 else 0x80) hi b = false := fun hi =>
    inR_ascii _ _ b (by split <;> omega) hb
  rw [validUtf8Aux]
  simp only [na, if_false, l1, Bool.false_and]
  split
  · rfl
  · split
    · cases rest with
      | nil => rfl
      | cons c r => simp only [l2, Bool.false_and]
    · split
      · cases rest with
        | nil => rfl
        | cons c r =>
          cases r with
          | nil => rfl
          | cons d r => simp only [l3, Bool.false_and]
      · rfl

/-- Keys of questions whose type has a low octet >= 0x80 (ANY, AXFR, IXFR,
MAILA/B, TSIG, TKEY, TYPE128..255, ...) are not valid UTF-8, whatever the name. -/
theorem high_qtype_key_not_utf8 (flags qtype qclass : Nat) (name : Bytes)
    (hf : flags < 128) (h1 : qtype / 256 < 128) (h2 : 128 ≤ qtype % 256) (h3 : qclass / 256 < 128) :
    validUtf8 (msgKey flags qtype qclass name) = false := by
  have e0 : (UInt8.ofNat flags).toNat < 128 := by simp [UInt8.toNat_ofNat']; omega
  have e1 : (UInt8.ofNat (qtype / 256)).toNat < 128 := by simp [UInt8.toNat_ofNat']; omega
  have e2 : 128 ≤ (UInt8.ofNat qtype).toNat := by simp [UInt8.toNat_ofNat']; omega
  have e3 : (UInt8.ofNat (qclass / 256)).toNat < 128 := by simp [UInt8.toNat_ofNat']; omega
  simp only [validUtf8, msgKey, List.length_cons]
  rw [validUtf8Aux]; simp only [e0, if_true]
  rw [validUtf8Aux]; simp only [e1, if_true]
  exact high_then_ascii _ _ _ _ e2 e3

/-- Keys of ordinary questions with a name of 128..255 octets are not valid
UTF-8 either: the length octet is >= 0x80 and an ASCII label octet follows. -/
theorem long_name_key_not_utf8 (flags qtype qclass : Nat) (c : UInt8) (rest : Bytes)
    (hf : flags < 128) (h1 : qtype / 256 < 128) (h2 : qtype % 256 < 128) (h3 : qclass / 256 < 128) (h4 : qclass % 256 < 128)
    (hl : 128 ≤ (c :: rest).length % 256) (hc : c.toNat < 128) :
    validUtf8 (msgKey flags qtype qclass (c :: rest)) = false := by
  have e0 : (UInt8.ofNat flags).toNat < 128 := by simp [UInt8.toNat_ofNat']; omega
  have e1 : (UInt8.ofNat (qtype / 256)).toNat < 128 := by simp [UInt8.toNat_ofNat']; omega
  have e2 : (UInt8.ofNat qtype).toNat < 128 := by simp [UInt8.toNat_ofNat']; omega
  have e3 : (UInt8.ofNat (qclass / 256)).toNat < 128 := by simp [UInt8.toNat_ofNat']; omega
  have e4 : (UInt8.ofNat qclass).toNat < 128 := by simp [UInt8.toNat_ofNat']; omega
  have e5 : 128 ≤ (UInt8.ofNat (c :: rest).length).toNat := by simp [UInt8.toNat_ofNat'] at hl ⊢; omega
  simp only [validUtf8, msgKey, List.length_cons]
  rw [validUtf8Aux]; simp only [e0, if_true]
  rw [validUtf8Aux]; simp only [e1, if_true]
  rw [validUtf8Aux]; simp only [e2, if_true]
  rw [validUtf8Aux]; simp only [e3, if_true]
  rw [validUtf8Aux]; simp only [e4, if_true]
  exact high_then_ascii _ _ _ _ (by simpa using e5) hc

example : validUtf8 (msgKey 0 255 1 [97, 46]) = false := by decide          -- `a. IN ANY`
example : validUtf8 (msgKey 0 1 255 [97, 46]) = false := by decide          -- `a. ANY A`
example : validUtf8 (msgKey 7 1 1 [97, 46]) = true := by decide             -- `a. IN A` with AD, CD, DO
example : written .utf8 (fun (e : Nat × Bytes) => e.2) [[(0, msgKey 0 1 1 [97, 46]), (1, msgKey 0 255 1 [97, 46])], [(2, msgKey 0 28 1 [98, 46])]]
    = ([], true) := by decide

/-! ### Guards over the regenerated facts -/
theorem facts_guard :
    Gen.Facts.c19EntryFields = some true ∧ Gen.Facts.c19BlockSize = some 128 ∧
    Gen.Facts.c19MaxBlockLen = some 1048576 ∧ Gen.Facts.c19MaxBlockCmp = Base.Cmp.gt ∧
    Gen.Facts.c19HeaderEofOnly = some true ∧ Gen.Facts.c19HeaderNameChecked = some true ∧
    Gen.Facts.c19ReadUsesAllTimes = some true ∧ Gen.Facts.c19WriterSplitsBySize = some true ∧
    Gen.Facts.c19WriterStateLocal = some true ∧ Gen.Facts.c19KeyFieldIsBytes = some true ∧
    Gen.Facts.c19LoadApiWholeBody = some true ∧
    (∃ m, Gen.Facts.c19MaxCachedRcode = some m ∧ m < 16) := by
  refine ⟨by decide, by decide, by decide, by decide, by decide, by decide, by decide, by decide, by decide, by decide, by decide, ?_⟩
  exact ⟨_, rfl, by decide⟩

/-! ### Every entry the plugin stores can be packed by `writeDump`; the API load reads the whole dump -/

/-- With the rcodes of stored responses bounded by an arm below 16, every
stored message (no OPT) packs. -/
theorem stored_packs (m rc : Nat) (hm : m < 16) (h : admitted (some m) rc) : packs rc false = true := by
  simp only [admitted] at h
  simp only [packs, Bool.or_false, decide_eq_true_eq]
  omega

theorem dump_packs_all (m : Nat) (hm : m < 16) (rcs : List Nat) (h : ∀ rc ∈ rcs, admitted (some m) rc) :
    dumpPacks rcs = true := by
  unfold dumpPacks
  rw [List.all_eq_true]
  intro rc hrc
  exact stored_packs m rc hm (h rc hrc)

/-- **C19 (the dump of what the plugin stored never aborts on an unpackable
entry)**, instantiated with the regenerated fact: whatever responses
`saveRespToCache` admitted, `writeDump` packs them all. Fails to type-check
when the switch gains a default arm or an arm for an extended rcode. -/
theorem dump_packs_on_this_tree (rcs : List Nat) (h : ∀ rc ∈ rcs, admitted Gen.Facts.c19MaxCachedRcode rc) :
    dumpPacks rcs = true :=
  dump_packs_all 3 (by decide) rcs h

/-- A default arm admits BADCOOKIE (23) next to ordinary answers, and that dump aborts: the bound is needed. -/
example : admitted none 23 ∧ dumpPacks [0, 23, 0] = false := ⟨trivial, by decide⟩

/-- **C19 (the API load is the file load).** A handler that hands the whole
body to `readDump` reloads every entry of an intact dump of any size. -/
theorem api_reload_all (enc : List E → Bytes) (dec : Bytes → Option (List E)) (hcodec : ∀ b, dec (enc b) = some b)
    (blocks : List (List E)) (hfit : ∀ b ∈ blocks, (enc b).length ≤ maxBlock) :
    apiLoad dec (blocks.length + 1) none (plain enc blocks) = (blocks.flatten, false) :=
  reload_all enc dec hcodec blocks hfit

/-- The same on this tree: whatever number `l` a cap would have, the handler described by the regenerated fact has none. -/
theorem api_reload_all_on_this_tree (enc : List E → Bytes) (dec : Bytes → Option (List E)) (hcodec : ∀ b, dec (enc b) = some b)
    (blocks : List (List E)) (hfit : ∀ b ∈ blocks, (enc b).length ≤ maxBlock) (l : Nat) :
    apiLoad dec (blocks.length + 1) (apiLimit Gen.Facts.c19LoadApiWholeBody l) (plain enc blocks) = (blocks.flatten, false) :=
  api_reload_all enc dec hcodec blocks hfit

/-- A handler that caps the body below the size of an intact dump reports an
error for it and loads only the blocks wholly inside the cap: the hypothesis
`limit = none` of `api_reload_all` is needed. -/
theorem api_limit_loses_dump (enc : List E → Bytes) (dec : Bytes → Option (List E)) (hcodec : ∀ b, dec (enc b) = some b)
    (blocks : List (List E)) (hfit : ∀ b ∈ blocks, (enc b).length ≤ maxBlock) (l : Nat)
    (hl : l < (plain enc blocks).length) :
    apiLoad dec (blocks.length + 1) (some l) (plain enc blocks) =
      ((whole enc blocks ((plain enc blocks).take l)).flatten, true) := by
  have hn : ¬ (plain enc blocks).length ≤ l := by omega
  simp only [apiLoad, hn, if_false]
  exact load_prefix enc dec hcodec blocks hfit _ false _ (List.take_prefix _ _) (fun h => by cases h) (by omega)

/-- What the backend holds for a configured `size` (`pkg/cache` `Opts.init`:
"If size is < 1024, 1024 will be used"). -/
def backendCap (size : Nat) : Nat := if size < 1024 then 1024 else size

/-- A body cap computed from the CONFIGURED size (`size * perEntry + room`) is
below the dump of a cache this mosdns can hold, for every size under the
documented minimum: the backend holds 1024 entries whatever `size` says, and
1024 entries of `entryLen` octets each outgrow the cap as soon as
`size * perEntry + room < 1024 * entryLen` (size 4, 8 KiB per entry, 4 KiB room:
entries of 37 octets). -/
theorem size_derived_cap_too_small (size perEntry room entryLen : Nat) (hs : size < 1024)
    (h : size * perEntry + room < 1024 * entryLen) :
    ∃ n, n ≤ backendCap size ∧ size * perEntry + room < n * entryLen :=
  ⟨1024, by simp [backendCap, hs], h⟩

/-- ... and such a handler loses that dump: an error and only the blocks inside the cap. -/
theorem size_derived_limit_loses_dump (enc : List E → Bytes) (dec : Bytes → Option (List E)) (hcodec : ∀ b, dec (enc b) = some b)
    (blocks : List (List E)) (hfit : ∀ b ∈ blocks, (enc b).length ≤ maxBlock) (size perEntry room : Nat)
    (_hheld : blocks.flatten.length ≤ backendCap size)
    (hbig : size * perEntry + room < (plain enc blocks).length) :
    (apiLoad dec (blocks.length + 1) (some (size * perEntry + room)) (plain enc blocks)).2 = true := by
  rw [api_limit_loses_dump enc dec hcodec blocks hfit _ hbig]

example : backendCap 4 = 1024 ∧ backendCap 0 = 1024 ∧ backendCap 1023 = 1024 ∧ backendCap 65536 = 65536 := by decide

/-- `backendCap` is the clamp the source has: the minimum read from `pkg/cache` `Opts.init` by the extractor
(`if opts.Size < N { opts.Size = N }`, fact `c11MinSize`) is the 1024 used above. Fails `by decide` when the
source's minimum changes. -/
theorem backendCap_is_the_source_clamp :
    Gen.Facts.c11MinSize = some 1024 ∧
    ∀ n, Gen.Facts.c11MinSize = some n → ∀ size, backendCap size = (if size < n then n else size) := by
  refine ⟨by decide, ?_⟩
  intro n hn size
  have : n = 1024 := by
    have h : Gen.Facts.c11MinSize = some 1024 := by decide
    rw [h] at hn; exact (Option.some.inj hn).symm
  subst this
  rfl
example : 4 * 8192 + 4096 < 1024 * 37 := by decide

/-! ### Non-vacuity: two blocks over a toy codec (`enc` = identity on byte lists) -/
def encT : List UInt8 → Bytes := id
def decT : Bytes → Option (List UInt8) := some
example : load decT 5 (plain encT [[1, 2, 3], [4]]) true = ([1, 2, 3, 4], false) := by decide
example : load decT 5 ((plain encT [[1, 2, 3], [4]]).take 14) false = ([1, 2, 3], true) := by decide   -- cut inside the 2nd header
example : load decT 5 ((plain encT [[1, 2, 3], [4]]).take 10) false = ([], true) := by decide          -- cut inside the 1st body
example : load decT 5 (plain encT [[1, 2, 3], [4]]) false = ([1, 2, 3, 4], true) := by decide          -- trailer missing
example : load decT 5 (be64 (2 ^ 20 + 1) ++ [0]) true = ([], true) := by decide                         -- oversized length field


/-! Overlapping dumps: dump 0 marshals its block and is held up in `gw.Write(l)`; dump 1 runs to the end; dump 0 resumes. -/
def twoDumps : World UInt8 := ⟨fun j => Dump.fresh (if j = 0 then [[1, 2, 3]] else if j = 1 then [[7, 8, 9]] else []), []⟩
example : ((run encT true [0, 1, 1, 1, 0, 0] twoDumps).dumps 0).finished = true ∧
    ((run encT true [0, 1, 1, 1, 0, 0] twoDumps).dumps 0).out = plain encT [[1, 2, 3]] ∧
    ((run encT true [0, 1, 1, 1, 0, 0] twoDumps).dumps 1).out = plain encT [[7, 8, 9]] := by decide
/-- With a scratch buffer shared through the `Cache` the same schedule makes dump 0 emit dump 1's block: the hypothesis is needed. -/
example : ((run encT false [0, 1, 1, 1, 0, 0] twoDumps).dumps 0).finished = true ∧
    ((run encT false [0, 1, 1, 1, 0, 0] twoDumps).dumps 0).out = plain encT [[7, 8, 9]] := by decide

end Props.C19
