import MosdnsVerif.Refine.C16
import MosdnsVerif.Lemmas.Stream
import MosdnsVerif.Gen.Facts

/-!
# C16 — stream framing is exact in both directions

All statements are about the definitions regenerated from
`pkg/dnsutils/net_io.go` and `pkg/upstream/transport/utils.go`
(`Gen.writeRawMsgToTCP`, `Gen.copyMsgWithLenHdr`, `Gen.readRawMsgFromTCP`).
A stream is a list of chunks; a theorem "for every `cs` with
`cs.flatten = …`" is a theorem for every chunking of those bytes (1-byte
reads, split header, empty reads included).
-/
namespace Props.C16
open Model.C16 Go Lemmas.Stream

theorem announced_hdr (n : Nat) (h : n ≤ 65535) : announced (hdr n) = n := by
  unfold announced hdr
  simp
  omega

/-- Model-level round trip. -/
theorem readRaw_frame (m rest : Bytes) (cs : Stream) (h12 : 12 ≤ m.length) (hmax : m.length ≤ 65535)
    (hcs : cs.flatten = hdr m.length ++ m ++ rest) :
    ∃ cs', readRaw cs = .ok (m, cs') ∧ cs'.flatten = rest := by
  unfold readRaw readFull
  obtain ⟨c1, h1, h1f⟩ := readFullAux_spec cs 2 [] (hdr m.length) (m ++ rest) (by simpa using hcs) (by simp [hdr])
  simp only [List.nil_append] at h1
  rw [h1]
  simp only [announced_hdr m.length hmax]
  have : ¬ m.length < 12 := by omega
  simp only [this, if_false]
  obtain ⟨c2, h2, h2f⟩ := readFullAux_spec c1 m.length [] m rest h1f rfl
  simp only [List.nil_append] at h2
  exact ⟨c2, h2, h2f⟩

/-- **C16 (round trip).** Writing any message of 12..65535 bytes (12 = a bare DNS header; the
property quantifies over 13..65535, the header-only message is covered since the repair of F18) and reading
it back returns it unchanged, however the stream is chunked, and leaves
exactly the bytes that followed it. -/
theorem roundtrip (m w rest : Bytes) (cs : Stream) (h12 : 12 ≤ m.length)
    (hw : Gen.writeRawMsgToTCP m = some w) (hcs : cs.flatten = w ++ rest) :
    ∃ cs', Gen.readRawMsgFromTCP cs = .ok (m, cs') ∧ cs'.flatten = rest := by
  rw [Refine.C16.writeRawMsgToTCP_eq] at hw
  rw [Refine.C16.readRawMsgFromTCP_eq]
  unfold frame at hw
  split at hw
  · cases hw
  · rename_i hle
    injection hw with hw
    subst hw
    exact readRaw_frame m rest cs (by omega) (by omega) hcs

/-- The client-side framer builds the same frame. -/
theorem same_frame (m : Bytes) : Gen.copyMsgWithLenHdr m = Gen.writeRawMsgToTCP m := by
  rw [Refine.C16.copyMsgWithLenHdr_eq, Refine.C16.writeRawMsgToTCP_eq]

/-- **C16 (size limit).** Messages longer than 65535 bytes are refused and
nothing is handed to `Write`; all others produce exactly one buffer of
`len + 2` bytes. -/
theorem oversize_refused (m : Bytes) :
    (65535 < m.length → Gen.writeRawMsgToTCP m = none ∧ Gen.copyMsgWithLenHdr m = none) ∧
    (m.length ≤ 65535 → ∃ w, Gen.writeRawMsgToTCP m = some w ∧ w.length = m.length + 2) := by
  rw [same_frame, Refine.C16.writeRawMsgToTCP_eq]
  unfold frame
  constructor
  · intro h; simp [h]
  · intro h
    have : ¬ m.length > 65535 := by omega
    refine ⟨hdr m.length ++ m, by simp [this], ?_⟩
    simp [hdr]

/-- **C16 (exact size, no other buffer).** Whatever the input stream, a
successful read returns a buffer of exactly the announced length (at least
12, a bare DNS header), the stream started with that header and that body, and the remainder is
untouched. -/
theorem exact_size (cs cs' : Stream) (b : Bytes) (h : Gen.readRawMsgFromTCP cs = .ok (b, cs')) :
    ∃ hd, hd.length = 2 ∧ b.length = announced hd ∧ 12 ≤ b.length ∧
      cs.flatten = hd ++ b ++ cs'.flatten := by
  rw [Refine.C16.readRawMsgFromTCP_eq] at h
  unfold readRaw readFull at h
  cases h1 : readFullAux cs 2 [] with
  | error e => rw [h1] at h; cases h
  | ok p =>
    obtain ⟨hd, c1⟩ := p
    rw [h1] at h
    simp only at h
    split at h
    · cases h
    · rename_i hbig
      have l1 := readFullAux_length cs 2 [] hd c1 h1
      have k1 := readFullAux_conserve cs 2 [] hd c1 h1
      have l2 := readFullAux_length c1 _ [] b cs' h
      have k2 := readFullAux_conserve c1 _ [] b cs' h
      simp at l1 l2 k1 k2
      refine ⟨hd, l1, l2, by omega, ?_⟩
      rw [k1, k2, List.append_assoc]

/-- **C16 (garbage is an error).** A header announcing less than 12 bytes (less than a DNS header), a
stream shorter than a header, or a stream that ends before the announced
length all yield an error - in the model nothing else can happen (the
functions are total: no panic, no buffer of another size). -/
theorem small_or_short_errors (cs : Stream) :
    (cs.flatten.length < 2 → ∃ e, Gen.readRawMsgFromTCP cs = .error e) ∧
    (∀ hd rest, cs.flatten = hd ++ rest → hd.length = 2 →
      (announced hd < 12 → Gen.readRawMsgFromTCP cs = .error .tooSmall) ∧
      (rest.length < announced hd → ∃ e, Gen.readRawMsgFromTCP cs = .error e)) := by
  rw [Refine.C16.readRawMsgFromTCP_eq]
  unfold readRaw readFull
  constructor
  · intro h
    obtain ⟨e, he⟩ := readFullAux_short cs 2 [] h
    exact ⟨e, by rw [he]⟩
  · intro hd rest hcs hl
    obtain ⟨c1, h1, h1f⟩ := readFullAux_spec cs 2 [] hd rest hcs hl
    simp only [List.nil_append] at h1
    rw [h1]
    constructor
    · intro hs; simp [hs]
    · intro hshort
      simp only
      split
      · exact ⟨_, rfl⟩
      · exact readFullAux_short c1 _ [] (by rw [h1f]; exact hshort)

/-- **C16 (sequences of frames).** Any number of in-range messages written
back to back decode to the same list, for every chunking of the byte stream
(so concurrently written replies, each handed to one `Write`, arrive as
intact frames in some order). -/
theorem frames_decode (ms : List Bytes) (hr : ∀ m ∈ ms, 13 ≤ m.length ∧ m.length ≤ 65535) :
    ∀ (cs : Stream), cs.flatten = (ms.map (fun m => hdr m.length ++ m)).flatten →
      ∀ fuel, ms.length < fuel → decodeAll fuel cs = (ms, none) := by
  induction ms with
  | nil =>
    intro cs hcs fuel hf
    cases fuel with
    | zero => omega
    | succ f => simp [decodeAll, hcs]
  | cons m tl ih =>
    intro cs hcs fuel hf
    cases fuel with
    | zero => omega
    | succ f =>
      have hm := hr m (by simp)
      simp only [List.map_cons, List.flatten_cons] at hcs
      obtain ⟨cs', h1, h2⟩ := readRaw_frame m _ cs (Nat.le_of_succ_le hm.1) hm.2 hcs
      have hne : cs.flatten.isEmpty = false := by
        rw [hcs]; simp [hdr]
      unfold decodeAll
      simp only [hne, h1]
      rw [ih (fun x hx => hr x (by simp [hx])) cs' h2 f (by simp at hf; omega)]
      simp

/-- **C16 (all three writers agree).** The server-side packer `pool.PackTCPBuffer` (used by `WriteMsgToTCP`,
`ServeTCP` and the DoQ server), the raw writer and the client-side framer build byte-identical frames
from the same packed message, and refuse the same messages. -/
theorem all_writers_same_frame (w : Bytes) :
    Gen.packTCPBuffer w = Gen.writeRawMsgToTCP w ∧ Gen.packTCPBuffer w = Gen.copyMsgWithLenHdr w := by
  rw [Refine.C16.packTCPBuffer_eq, Refine.C16.writeRawMsgToTCP_eq, Refine.C16.copyMsgWithLenHdr_eq]
  exact ⟨rfl, rfl⟩

/-- **C16 (server writer round trip).** What `pool.PackTCPBuffer` produces for a packed message of
13..65535 bytes is read back unchanged by `ReadRawMsgFromTCP` under every chunking, leaving exactly
what followed; a longer message is refused (nothing is produced). -/
theorem packTCP_roundtrip (m f rest : Bytes) (cs : Stream) (h12 : 12 ≤ m.length)
    (hf : Gen.packTCPBuffer m = some f) (hcs : cs.flatten = f ++ rest) :
    ∃ cs', Gen.readRawMsgFromTCP cs = .ok (m, cs') ∧ cs'.flatten = rest := by
  rw [(all_writers_same_frame m).1] at hf
  exact roundtrip m f rest cs h12 hf hcs

theorem packTCP_oversize_refused (m : Bytes) (h : 65535 < m.length) : Gen.packTCPBuffer m = none := by
  rw [(all_writers_same_frame m).1]
  exact ((oversize_refused m).1 h).1

/-- The datagram packer hands out the packed message itself (no header, no truncation, any length). -/
theorem packBuffer_exact (w : Bytes) : Gen.packBuffer w = w := Refine.C16.packBuffer_eq w

/-! Non-vacuity: a concrete 13-byte message, split mid-header and mid-body. -/
def msg13 : Bytes := [1, 2, 3, 4, 5, 6, 7, 8, 9, 10, 11, 12, 13]
example : Gen.packTCPBuffer msg13 = some (0 :: 13 :: msg13) := by decide
example : Gen.packBuffer msg13 = msg13 := by decide
example : Gen.writeRawMsgToTCP msg13 = some (0 :: 13 :: msg13) := by decide
example : Gen.readRawMsgFromTCP [[0], [13, 1, 2, 3], [], [4, 5, 6, 7, 8, 9, 10, 11, 12, 13, 99]] = .ok (msg13, [[99]]) := by rfl
example : Gen.readRawMsgFromTCP [[0, 11], msg13] = .error .tooSmall := by rfl
/-- a frame announcing exactly a DNS header (12 bytes) is a message, not an error (F18) -/
example : Gen.readRawMsgFromTCP [[0, 12], msg13] = .ok (msg13.take 12, [msg13.drop 12]) := by rfl
example : Gen.readRawMsgFromTCP [[0, 14], msg13] = .error .unexpectedEOF := by rfl
example : Gen.readRawMsgFromTCP [] = .error .eof := by rfl

/-! ## The connection loop of `ServeTCP` under read deadlines (Model.C16.serve) -/

theorem serve_read_error (fuel : Nat) (cs : Stream) (e : ReadErr)
    (rest : List Stream)
    (h : readRaw cs = .error e) : serve false (fuel + 1) (cs :: rest) = [] := by
  cases e <;> simp [serve, h]

/-- A frame of which only a strict prefix has arrived cannot be read. -/
theorem readRaw_cut (m r t : Bytes) (cs : Stream) (h13 : 13 ≤ m.length) (hmax : m.length ≤ 65535)
    (hcs : cs.flatten ++ t = hdr m.length ++ m ++ r) (hlt : cs.flatten.length < 2 + m.length) :
    ∃ e, readRaw cs = .error e := by
  unfold readRaw readFull
  by_cases h2 : cs.flatten.length < 2
  · obtain ⟨e, he⟩ := readFullAux_short cs 2 [] h2
    exact ⟨e, by rw [he]⟩
  · have htake : cs.flatten.take 2 = hdr m.length := by
      have := congrArg (List.take 2) hcs
      simp [List.take_append_of_le_length (by omega : 2 ≤ cs.flatten.length)] at this
      simpa [hdr] using this
    obtain ⟨c1, h1, h1f⟩ := readFullAux_spec cs 2 [] (cs.flatten.take 2) (cs.flatten.drop 2)
      (List.take_append_drop 2 _).symm (by rw [List.length_take]; omega)
    simp only [List.nil_append] at h1
    rw [h1, htake]
    simp only [announced_hdr m.length hmax]
    have : ¬ m.length < 12 := by omega
    simp only [this, if_false]
    exact readFullAux_short c1 _ [] (by rw [h1f, List.length_drop]; omega)

/-- **C16 (the server handles only what was framed).** The client sends the frames of `ms` (or any prefix of that
byte stream: `t` is what it has not sent); the bytes arrive in any chunking and read deadlines fire wherever the
environment likes (`cs :: rest` is any list of segments). A loop that gives the connection up on a failed read hands
to the handler a prefix of `ms`: never bytes from inside a message, never a message twice, nothing out of order. -/
theorem serve_handles_prefix (ms : List Bytes) (hr : ∀ m ∈ ms, 13 ≤ m.length ∧ m.length ≤ 65535) :
    ∀ (fuel : Nat) (cs : Stream) (rest : List Stream) (t : Bytes), cs.flatten ++ t = enc ms →
      ∃ k, serve false fuel (cs :: rest) = ms.take k := by
  induction ms with
  | nil =>
    intro fuel cs rest t h
    cases fuel with
    | zero => exact ⟨0, by simp [serve]⟩
    | succ f =>
      have hl : cs.flatten.length < 2 := by
        have := congrArg List.length h
        simp only [enc, List.map_nil, List.flatten_nil, List.length_append, List.length_nil] at this
        omega
      obtain ⟨e, he⟩ := (show ∃ e, readRaw cs = .error e by
        unfold readRaw readFull
        obtain ⟨e, he⟩ := readFullAux_short cs 2 [] hl
        exact ⟨e, by rw [he]⟩)
      exact ⟨0, by rw [serve_read_error f cs e rest he]; rfl⟩
  | cons m tl ih =>
    intro fuel cs rest t h
    have hm := hr m (by simp)
    cases fuel with
    | zero => exact ⟨0, by simp [serve]⟩
    | succ f =>
      have h' : cs.flatten ++ t = hdr m.length ++ m ++ enc tl := by
        rw [h]; simp [enc]
      by_cases hlt : cs.flatten.length < 2 + m.length
      · obtain ⟨e, he⟩ := readRaw_cut m (enc tl) t cs hm.1 hm.2 h' hlt
        exact ⟨0, by rw [serve_read_error f cs e rest he]; rfl⟩
      · have hlen : (hdr m.length ++ m).length = 2 + m.length := by simp [hdr]; omega
        have hn : 2 + m.length ≤ cs.flatten.length := by omega
        have htake : cs.flatten.take (2 + m.length) = hdr m.length ++ m := by
          have := congrArg (List.take (2 + m.length)) h'
          rw [List.take_append_of_le_length hn, List.take_append_of_le_length (by omega)] at this
          rw [this, ← hlen, List.take_length]
        have hdrop : cs.flatten.drop (2 + m.length) ++ t = enc tl := by
          have := congrArg (List.drop (2 + m.length)) h'
          rw [List.drop_append_of_le_length hn, List.drop_append_of_le_length (by omega)] at this
          rw [this, ← hlen, List.drop_length, List.nil_append]
        obtain ⟨cs', h1, h2⟩ := readRaw_frame m (cs.flatten.drop (2 + m.length)) cs (Nat.le_of_succ_le hm.1) hm.2
          (by rw [← htake, List.take_append_drop])
        obtain ⟨k, hk⟩ := ih (fun x hx => hr x (by simp [hx])) f cs' rest t (by rw [h2]; exact hdrop)
        exact ⟨k + 1, by simp [serve, h1, hk]⟩

/-- The same loop with whatever follows the first failed read: it is never looked at. -/
theorem serve_false_ignores_rest (fuel : Nat) (cs : Stream) (rest rest' : List Stream) :
    serve false fuel (cs :: rest) = serve false fuel (cs :: rest') := by
  induction fuel generalizing cs with
  | zero => simp [serve]
  | succ f ih =>
    cases h : readRaw cs with
    | error e => cases e <;> simp [serve, h]
    | ok p => obtain ⟨m, cs'⟩ := p; simp [serve, h, ih cs']

/-- **C16 (chunking alone loses nothing).** When no deadline fires, every frame is handled, in order, however the
stream is chunked (whatever the loop would do on a deadline). -/
theorem serve_all_without_deadline (b : Bool) (ms : List Bytes) (hr : ∀ m ∈ ms, 13 ≤ m.length ∧ m.length ≤ 65535) :
    ∀ (cs : Stream), cs.flatten = enc ms → ∀ fuel, ms.length < fuel → serve b fuel [cs] = ms := by
  induction ms with
  | nil =>
    intro cs hcs fuel hf
    cases fuel with
    | zero => omega
    | succ f =>
      have hl : cs.flatten.length < 2 := by rw [hcs]; simp [enc]
      obtain ⟨e, he⟩ := readFullAux_short cs 2 [] hl
      have : readRaw cs = .error e := by unfold readRaw readFull; rw [he]
      cases e <;> simp [serve, this]
  | cons m tl ih =>
    intro cs hcs fuel hf
    cases fuel with
    | zero => omega
    | succ f =>
      have hm := hr m (by simp)
      obtain ⟨cs', h1, h2⟩ := readRaw_frame m (enc tl) cs (Nat.le_of_succ_le hm.1) hm.2 (by rw [hcs]; simp [enc])
      simp only [serve, h1]
      rw [ih (fun x hx => hr x (by simp [hx])) cs' h2 f (by simp at hf; omega)]

/-- What the connection loop of the source does after a failed read, as regenerated (T2). -/
def srcResumes : Bool := Gen.Facts.c16ReadErrEndsConn != some true

/-- `serve_handles_prefix` for the loop as it is in the source now. -/
theorem serve_handles_prefix_src (ms : List Bytes) (hr : ∀ m ∈ ms, 13 ≤ m.length ∧ m.length ≤ 65535)
    (fuel : Nat) (segs : List Stream) (t : Bytes) (h : (segs.map List.flatten).flatten ++ t = enc ms) :
    ∃ k, serve srcResumes fuel segs = ms.take k := by
  have hs : srcResumes = false := by decide
  rw [hs]
  cases segs with
  | nil => exact ⟨0, by cases fuel <;> simp [serve]⟩
  | cons cs rest =>
    simp only [List.map_cons, List.flatten_cons, List.append_assoc] at h
    exact serve_handles_prefix ms hr fuel cs rest _ h

/-- **Witness: resuming after a deadline is wrong.** One 28-byte message whose last 15 bytes happen to be a framed
13-byte message, delivered in two pieces with a deadline firing between them. The loop that starts a new read after
the deadline error hands those 13 bytes from inside the message to the handler; the loop of the source hands over
nothing. -/
def outer28 : Bytes := List.replicate 13 0xAA ++ (0 :: 13 :: msg13)
def cutSegs : List Stream := [[0 :: 28 :: List.replicate 13 0xAA], [0 :: 13 :: msg13]]

theorem resume_after_deadline_is_wrong :
    (cutSegs.map List.flatten).flatten = enc [outer28] ∧
    serve true 3 cutSegs = [msg13] ∧ msg13 ∉ [outer28] ∧ serve false 3 cutSegs = [] := by decide

/-! ### DoQ: the reply of a slow handler / to a slowly draining client -/

theorem credit_none (t0 : Nat) (gs : Grants) : credit none t0 gs = (gs.map (·.2)).sum := by
  have h : gs.filter (usable none t0) = gs := List.filter_eq_self.mpr (fun _ _ => rfl)
  simp [credit, h]

/-- **C16 on a DoQ stream, write direction.** If the deadline of the stream bounds reads only, the client finds
exactly the frame of the reply on the stream: whatever the limit is, however long the handler took and in whatever
portions (and however late) the client's flow control lets the bytes through, provided it lets them through at all. -/
theorem doq_reply_intact (limit tHandler : Nat) (gs : Grants) (reply : Bytes) (hmax : reply.length ≤ 65535)
    (hc : reply.length + 2 ≤ (gs.map (·.2)).sum) :
    doqStream false limit tHandler gs reply = hdr reply.length ++ reply := by
  have hlen : ¬ reply.length > 65535 := by omega
  simp only [doqStream, frame, hlen, if_false, doqWrite, credit_none, Bool.false_eq_true]
  apply List.take_of_length_le
  simp [hdr]
  omega

/-- ... and any chunking of what is on the stream reads back as that one reply with nothing left over. -/
theorem doq_reply_reads_back (limit tHandler : Nat) (gs : Grants) (reply : Bytes) (h13 : 13 ≤ reply.length)
    (hmax : reply.length ≤ 65535) (hc : reply.length + 2 ≤ (gs.map (·.2)).sum) (cs : Stream)
    (hcs : cs.flatten = doqStream false limit tHandler gs reply) :
    ∃ cs', readRaw cs = .ok (reply, cs') ∧ cs'.flatten = [] := by
  rw [doq_reply_intact limit tHandler gs reply hmax hc] at hcs
  exact readRaw_frame reply [] cs (by omega) hmax (by simpa using hcs)

/-- Does the stream deadline of the source bound writes, as regenerated (T2)? -/
def srcDoqWriteBounded : Bool := Gen.Facts.c16DoqStreamDeadlineReadOnly != some true

/-- `doq_reply_reads_back` for `ServeDoQ` as it is in the source now. -/
theorem doq_reply_reads_back_src (limit tHandler : Nat) (gs : Grants) (reply : Bytes) (h13 : 13 ≤ reply.length)
    (hmax : reply.length ≤ 65535) (hc : reply.length + 2 ≤ (gs.map (·.2)).sum) (cs : Stream)
    (hcs : cs.flatten = doqStream srcDoqWriteBounded limit tHandler gs reply) :
    ∃ cs', readRaw cs = .ok (reply, cs') ∧ cs'.flatten = [] := by
  have hs : srcDoqWriteBounded = false := by decide
  rw [hs] at hcs
  exact doq_reply_reads_back limit tHandler gs reply h13 hmax hc cs hcs

/-- **Witness: a stream deadline that also bounds the write is wrong.** Limit 2000 ms. (1) The handler returns after
2300 ms: nothing but FIN is on the stream. (2) The handler is quick, the client lets 4 bytes through and the rest
from 2500 ms on: the stream holds a header announcing 13 bytes and 2 of them. Neither reads back as a message; with
a read-only deadline both streams hold the whole frame. -/
theorem write_deadline_cuts_reply :
    doqStream true 2000 2300 [(0, 4096)] msg13 = [] ∧
    doqStream true 2000 0 [(0, 4), (2500, 4096)] msg13 = [0, 13, 1, 2] ∧
    (readRaw [doqStream true 2000 2300 [(0, 4096)] msg13]).toBool = false ∧
    (readRaw [doqStream true 2000 0 [(0, 4), (2500, 4096)] msg13]).toBool = false ∧
    doqStream false 2000 2300 [(0, 4096)] msg13 = 0 :: 13 :: msg13 ∧
    doqStream false 2000 0 [(0, 4), (2500, 4096)] msg13 = 0 :: 13 :: msg13 := by decide

/-! ### The read loop of a pipelined upstream connection: a short frame between valid frames -/
/-- **C16 (a short frame between valid frames).** A reader that decodes frame after frame and stops at the first
failed read (the read loop of a pipelined upstream connection, `TraditionalDnsConn.readLoop`) hands out exactly the
frames written before a frame announcing `l < 12` bytes and then fails with `tooSmall`, whatever follows the short
header (its body, further valid frames) and however the stream is chunked: nothing behind the short header is ever
cut into a message. -/
theorem frames_then_small (ms : List Bytes) (hr : ∀ m ∈ ms, 13 ≤ m.length ∧ m.length ≤ 65535)
    (l : Nat) (hl : l < 12) (rest : Bytes) :
    ∀ (cs : Stream), cs.flatten = (ms.map (fun m => hdr m.length ++ m)).flatten ++ (hdr l ++ rest) →
      ∀ fuel, ms.length < fuel → decodeAll fuel cs = (ms, some .tooSmall) := by
  induction ms with
  | nil =>
    intro cs hcs fuel hf
    cases fuel with
    | zero => omega
    | succ f =>
      simp only [List.map_nil, List.flatten_nil, List.nil_append] at hcs
      have hne : cs.flatten.isEmpty = false := by rw [hcs]; simp [hdr]
      have hs := ((small_or_short_errors cs).2 (hdr l) rest hcs (by simp [hdr])).1
        (by rw [announced_hdr l (by omega)]; exact hl)
      rw [Refine.C16.readRawMsgFromTCP_eq] at hs
      unfold decodeAll
      simp only [hne, hs]
      simp
  | cons m tl ih =>
    intro cs hcs fuel hf
    cases fuel with
    | zero => omega
    | succ f =>
      have hm := hr m (by simp)
      simp only [List.map_cons, List.flatten_cons, List.append_assoc] at hcs
      obtain ⟨cs', h1, h2⟩ := readRaw_frame m _ cs (Nat.le_of_succ_le hm.1) hm.2 hcs
      have hne : cs.flatten.isEmpty = false := by
        rw [hcs]; simp [hdr]
      unfold decodeAll
      simp only [hne, h1]
      rw [ih (fun x hx => hr x (by simp [hx])) cs' (by rw [h2]) f (by simp at hf; omega)]
      simp

/-- A read loop that treats `tooSmall` like a runt datagram and reads on behind the two header bytes (the body of
the short frame is still on the stream). -/
def decodeSkipping : Nat → Stream → List Bytes
  | 0, _ => []
  | fuel + 1, c =>
    match readFull c 2 with
    | .error _ => []
    | .ok (h, c') =>
      if announced h < 12 then decodeSkipping fuel c' else
      match readFull c' (announced h) with
      | .error _ => []
      | .ok (m, c'') => m :: decodeSkipping fuel c''

/-- Witness: such a loop cuts a "message" out of the body of the short frame and the header of the next frame - bytes
the peer never framed as one message (here the only message sent is `msg13`). -/
theorem skipping_small_is_wrong :
    decodeSkipping 4 [[0, 6, 0, 13, 0, 0, 0x81, 0x80] ++ (0 :: 13 :: msg13)]
      = [[0, 0, 0x81, 0x80, 0, 13, 1, 2, 3, 4, 5, 6, 7]] ∧
    decodeAll 4 [[0, 6, 0, 13, 0, 0, 0x81, 0x80] ++ (0 :: 13 :: msg13)] = ([], some .tooSmall) := by decide

/-! ### Guard over the regenerated facts -/
theorem facts_guard :
    Gen.Facts.c16ReadErrEndsConn = some true ∧ Gen.Facts.c16DoqStreamDeadlineReadOnly = some true ∧
    Gen.Facts.c16ClientReadErrEndsConn = some true := by decide

end Props.C16
