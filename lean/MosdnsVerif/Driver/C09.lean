import MosdnsVerif.Base.Hex
import MosdnsVerif.Model.C09
import MosdnsVerif.Gen.Facts

namespace Driver.C09
open Model.C09

def showOut : Out → String
  | .none => "-" | .admitted => "a" | .refused => "r" | .closed => "c"

def tlabel? : String → Option TLabel
  | "reserve" => some .reserve | "withdraw" => some .withdraw | "enter1" => some (.enter true) | "enter0" => some (.enter false)
  | "reply" => some .reply | "stray" => some .stray | "exit1" => some .exit1 | "exit0" => some .exit0 | "close" => some .close
  | _ => none

def llabel? : String → Option LLabel
  | "reserve" => some .reserve | "withdraw" => some .withdraw | "enter" => some .enter | "ctxDone" => some .ctxDone
  | "dialOk" => some .dialOk | "dialFail" => some .dialFail | "proceed" => some .proceed | "finish" => some .finish
  | _ => none

def slabel? (s : String) : Option SLabel :=
  if s.startsWith "l." then (llabel? (s.drop 2).toString).map .lz
  else if s.startsWith "t." then (tlabel? (s.drop 2).toString).map .tdc
  else none

def rlabel? : String → Option RLabel
  | "take" => some .take | "send" => some .send | "reply" => some .reply | "close" => some .close | _ => none

/-- one composite operation: labels joined by `+`; reports the first output
other than `none` and `obs` of the state after the last label -/
def composite {σ β : Type} (step : σ → β → Option (σ × Out)) (s : σ) (ls : List β) : Option (σ × Out) :=
  match ls with
  | [] => some (s, .none)
  | l :: rest =>
    match step s l with
    | none => none
    | some (s1, o) =>
      rest.foldl (fun acc l => acc.bind (fun (s, o) => (step s l).map (fun (s', o') => (s', if o = .none then o' else o)))) (some (s1, o))

def runOps {σ β : Type} (step : σ → β → Option (σ × Out)) (obs : σ → String) (parse1 : String → Option β)
    (s : σ) (ops : List String) (mac : String → Option (List β) := fun _ => none) : String :=
  -- a part of a composite operation is one label, or a macro that stands for a list of labels
  let parse : String → Option (List β) := fun t => match mac t with
    | some ls => some ls
    | none => (parse1 t).map (fun l => [l])
  let rec go (s : σ) (ops : List String) (acc : List String) : String :=
    match ops with
    | [] => ";".intercalate acc.reverse
    | op :: rest =>
      match (op.splitOn "+").mapM parse with
      | none => "bad-op"
      | some lss =>
        match composite step s (lss.foldr (· ++ ·) []) with
        | none => ";".intercalate (("not-enabled@" ++ op) :: acc).reverse
        | some (s', o) => go s' rest ((showOut o ++ ":" ++ obs s') :: acc)
  go s ops []

/-- `fill:N`: N queries one after the other, each reserved, sent, answered and returned
before the next one (the 16-bit wire id counter of the real connection advances by N or more) -/
def tfill? (t : String) : Option (List TLabel) :=
  match t.splitOn ":" with
  | ["fill", n] => n.toNat?.map (fun n => (List.replicate n [TLabel.reserve, .enter true, .reply, .exit0]).foldr (· ++ ·) [])
  | _ => none

def handle : List String → String
  | ["tdc", max, ops] =>
    match max.toNat? with
    | some m => runOps Tdc.step (fun s => toString s.free) tlabel? (Tdc.init m) (ops.splitOn ",") tfill?
    | none => "bad-op"
  | ["lazy", max, ops] =>
    match max.toNat? with
    | some m => runOps Lazy.step (fun s => toString s.free) llabel? (Lazy.init m) (ops.splitOn ",")
    | none => "bad-op"
  | ["sys", a, b, ops] =>
    match a.toNat?, b.toNat? with
    | some a, some b => runOps Sys.step (fun s => if s.lz.dial = .dialing then toString s.lz.free else if s.lz.dial = .ok then toString s.tdc.free else "0")
        slabel? (Sys.init a b) (ops.splitOn ",")
    | _, _ => "bad-op"
  | ["reuse", ops] =>
    runOps (fun (s : Reuse) l => (s.step l).map (fun s' => (s', Out.none))) (fun s => toString s.outstanding) rlabel? ({} : Reuse) (ops.splitOn ",")
  | ["pick", n, rooms] =>
    -- n queries one after the other over connections with the given rooms, with the loop as the source has it now
    match n.toNat?, (rooms.splitOn ",").mapM String.toNat? with
    | some n, some rs =>
      let p := pickN (Gen.Facts.c09PipelinePickStopsAtFirstReservation == some true) (Gen.Facts.c09PipelineMaxReserveAttempt.getD 0) n rs
      toString p.1 ++ ":" ++ toString (total p.2)
    | _, _ => "bad-op"
  | _ => "bad-op"

end Driver.C09
