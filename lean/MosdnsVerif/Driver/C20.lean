import MosdnsVerif.Base.Hex
import MosdnsVerif.Model.C20
import MosdnsVerif.Model.C20Pool
import MosdnsVerif.Model.C20Time
import MosdnsVerif.Gen.FnFallback

namespace Driver.C20
open Model.C20

def label? : String → Option Label
  | "pFinish" => some .pFinish | "pOp" => some .pOp | "sPickDone" => some .sPickDone
  | "sPickFailed" => some .sPickFailed | "sPickTimer" => some .sPickTimer | "sStart" => some .sStart
  | "sFinish" => some .sFinish | "sSend" => some .sSend | "sWaitCtx" => some .sWaitCtx
  | "sWaitDone" => some .sWaitDone | "sWaitFailed" => some .sWaitFailed | "sWaitTimer" => some .sWaitTimer
  | "timerFire" => some .timerFire | "ctxCancel" => some .ctxCancel | "secCtxFire" => some .secCtxFire
  | "mRecv" => some .mRecv | "mCtx" => some .mCtx | _ => none

def showRes : Res → String
  | .none => "pending" | .prim => "primary" | .sec => "secondary" | .failed => "failed" | .ctx => "ctx"

/-- like `run`, but a caller receive that is not enabled (nothing queued yet /
already returned) is skipped: the harness cannot see when the caller polls -/
def runLenient (c : Cfg) : St → List Label → Option St
  | s, [] => some s
  | s, l :: ls => match step c s l with
    | none => if l = .mRecv then runLenient c s ls else none
    | some s' => runLenient c s' ls

/-- one borrow of the pooled timer: `f` the duration passes, `r` the holder receives the tick, `-` nothing -/
def borrow? (s : String) : Option (List Model.C20Pool.Use) :=
  if s == "-" then some [] else
  s.toList.mapM (fun c => if c == 'f' then some .fire else if c == 'r' then some .recv else none)

/-- `<ms>:<label>`: a step with the time at which it is taken (ms since the start of the call) -/
def tlabel? (s : String) : Option TLabel :=
  match s.splitOn ":" with
  | [t, l] => match t.toInt?, label? l with
    | some t, some l => some (t * 1000000, l)
    | _, _ => none
  | _ => none

/-- `pool <borrow;borrow;...>` (oldest first): the timer `pool.GetTimer` hands out after these borrows of it,
with the draining `ReleaseTimer` the facts guard demands.

`sched <pAns> <sAns> <standby> <label,label,...>`: run the schedule; it must be
enabled step by step. Output: result, whether the secondary was started.

`thr <ms>`: the timer duration (ns) of a plugin configured with `threshold: ms` (the regenerated
`Gen.fallbackThreshold`).

`tsched <ms> <pAns> <sAns> <standby> <t:label,t:label,...>`: a timed schedule for a plugin configured with
`threshold: ms`: times must not go backwards and the timer must not fire before `Gen.fallbackThreshold ms`;
then as `sched`. -/
def handle : List String → String
  | ["sched", p, s, sb, ls] =>
    match Hex.bool? p, Hex.bool? s, Hex.bool? sb, (ls.splitOn ",").mapM label? with
    | some p, some s, some sb, some ls =>
      match runLenient ⟨p, s, sb, true⟩ init ls with
      | none => "not-enabled"
      | some st => s!"{showRes st.result} secStarted={Hex.showBool (secStarted st)}"
    | _, _, _, _ => "bad-op"
  | ["thr", ms] =>
    match ms.toInt? with
    | some ms => s!"{Gen.fallbackThreshold ms}"
    | none => "bad-op"
  | ["tsched", ms, p, s, sb, ls] =>
    match ms.toInt?, Hex.bool? p, Hex.bool? s, Hex.bool? sb, (ls.splitOn ",").mapM tlabel? with
    | some ms, some p, some s, some sb, some tls =>
      if !mono tls then "time-goes-backwards"
      else if !admissible (Gen.fallbackThreshold ms) tls then "timer-fires-before-the-plugin's-threshold"
      else match runLenient ⟨p, s, sb, true⟩ init (labelsOf tls) with
        | none => "not-enabled"
        | some st => s!"{showRes st.result} secStarted={Hex.showBool (secStarted st)}"
    | _, _, _, _, _ => "bad-op"
  | ["pool", hist] =>
    match (hist.splitOn ";").mapM borrow? with
    | some bs =>
      let t := Model.C20Pool.handedOut true bs.reverse
      s!"armed={Hex.showBool t.armed} tick={Hex.showBool t.tick}"
    | none => "bad-op"
  | _ => "bad-op"

end Driver.C20
