import MosdnsVerif.Base.Hex
import MosdnsVerif.Model.C20
import MosdnsVerif.Model.C20Pool
import MosdnsVerif.Model.C20Time
import MosdnsVerif.Model.C20Copy
import MosdnsVerif.Gen.FnFallback

namespace Driver.C20
open Model.C20

def label? : String → Option Label
  | "pFinish" => some .pFinish | "pOp" => some .pOp | "sPickDone" => some .sPickDone
  | "sPickFailed" => some .sPickFailed | "sPickTimer" => some .sPickTimer | "sStart" => some .sStart
  | "sFinish" => some .sFinish | "sSend" => some .sSend | "sWaitCtx" => some .sWaitCtx
  | "sWaitDone" => some .sWaitDone | "sWaitFailed" => some .sWaitFailed | "sWaitTimer" => some .sWaitTimer
  | "timerFire" => some .timerFire | "ctxCancel" => some .ctxCancel | "secCtxFire" => some .secCtxFire
  | "mRecv" => some .mRecv | "mCtx" => some .mCtx | _ => none

def showRes : Res → String
  | .none => "pending" | .prim => "primary" | .sec => "secondary" | .failed => "failed" | .ctx => "ctx"

/-- like `run`, but a caller receive that is not enabled (nothing queued yet /
already returned) is skipped: the harness cannot see when the caller polls -/
def runLenient (c : Cfg) : St → List Label → Option St
  | s, [] => some s
  | s, l :: ls => match step c s l with
    | none => if l = .mRecv then runLenient c s ls else none
    | some s' => runLenient c s' ls

/-- one borrow of the pooled timer: `f` the duration passes, `r` the holder receives the tick, `-` nothing -/
def borrow? (s : String) : Option (List Model.C20Pool.Use) :=
  if s == "-" then some [] else
  s.toList.mapM (fun c => if c == 'f' then some .fire else if c == 'r' then some .recv else none)

/-- `<ms>:<label>`: a step with the time at which it is taken (ms since the start of the call) -/
def tlabel? (s : String) : Option TLabel :=
  match s.splitOn ":" with
  | [t, l] => match t.toInt?, label? l with
    | some t, some l => some (t * 1000000, l)
    | _, _ => none
  | _ => none

/-- `8.10.8` option codes in order, `-` none -/
def opts? (s : String) : Option Model.C20Copy.Opts :=
  if s == "-" then some [] else (s.splitOn ".").mapM (·.toNat?)

def showOpts (o : Model.C20Copy.Opts) : String :=
  if o.isEmpty then "-" else ".".intercalate (o.map toString)

/-- `pl` / `sl` the primary / secondary looks at its query; `pa<code>` / `sa<code>` appends an option, `pd<code>` /
`sd<code>` deletes the options with that code, `pc` / `sc` drops all options -/
def qev? (s : String) : Option Model.C20Copy.Ev :=
  match s.toList with
  | w :: k :: rest =>
    let who? : Option Model.C20Copy.Who := if w == 'p' then some .prim else if w == 's' then some .sec else none
    match who? with
    | none => none
    | some who =>
      let arg := String.ofList rest
      if k == 'l' && rest.isEmpty then some (.look who)
      else if k == 'c' && rest.isEmpty then some (.edit who .clear)
      else if k == 'a' then arg.toNat?.map (fun c => .edit who (.add c))
      else if k == 'd' then arg.toNat?.map (fun c => .edit who (.del c))
      else none
  | _ => none

/-- `pool <borrow;borrow;...>` (oldest first): the timer `pool.GetTimer` hands out after these borrows of it,
with the draining `ReleaseTimer` the facts guard demands.

`sched <pAns> <sAns> <standby> <label,label,...>`: run the schedule; it must be
enabled step by step. Output: result, whether the secondary was started.

`thr <ms>`: the timer duration (ns) of a plugin configured with `threshold: ms` (the regenerated
`Gen.fallbackThreshold`).

`qfork <opts> <ev,ev,...>`: the caller's query has these options; `qCtx.Copy()` twice (deep copies, as the facts
guard demands); then the events in this order. Output: what the primary read at each of its looks, what the
secondary read, and the caller's options afterwards.

`tsched <ms> <pAns> <sAns> <standby> <t:label,t:label,...>`: a timed schedule for a plugin configured with
`threshold: ms`: times must not go backwards and the timer must not fire before `Gen.fallbackThreshold ms`;
then as `sched`. -/
def handle : List String → String
  | ["sched", p, s, sb, ls] =>
    match Hex.bool? p, Hex.bool? s, Hex.bool? sb, (ls.splitOn ",").mapM label? with
    | some p, some s, some sb, some ls =>
      match runLenient ⟨p, s, sb, true⟩ init ls with
      | none => "not-enabled"
      | some st => s!"{showRes st.result} secStarted={Hex.showBool (secStarted st)}"
    | _, _, _, _ => "bad-op"
  | ["thr", ms] =>
    match ms.toInt? with
    | some ms => s!"{Gen.fallbackThreshold ms}"
    | none => "bad-op"
  | ["tsched", ms, p, s, sb, ls] =>
    match ms.toInt?, Hex.bool? p, Hex.bool? s, Hex.bool? sb, (ls.splitOn ",").mapM tlabel? with
    | some ms, some p, some s, some sb, some tls =>
      if !mono tls then "time-goes-backwards"
      else if !admissible (Gen.fallbackThreshold ms) tls then "timer-fires-before-the-plugin's-threshold"
      else match runLenient ⟨p, s, sb, true⟩ init (labelsOf tls) with
        | none => "not-enabled"
        | some st => s!"{showRes st.result} secStarted={Hex.showBool (secStarted st)}"
    | _, _, _, _, _ => "bad-op"
  | ["qfork", q, evs] =>
    match opts? q, (if evs == "-" then some [] else (evs.splitOn ",").mapM qev?) with
    | some q, some evs =>
      let c := Model.C20Copy.fork q
      let sh := fun (l : List Model.C20Copy.Opts) => if l.isEmpty then "none" else "|".intercalate (l.map showOpts)
      s!"prim={sh (Model.C20Copy.sees true .prim c evs)} sec={sh (Model.C20Copy.sees true .sec c evs)} caller={showOpts (Model.C20Copy.final true c evs).caller}"
    | _, _ => "bad-op"
  | ["pool", hist] =>
    match (hist.splitOn ";").mapM borrow? with
    | some bs =>
      let t := Model.C20Pool.handedOut true bs.reverse
      s!"armed={Hex.showBool t.armed} tick={Hex.showBool t.tick}"
    | none => "bad-op"
  | _ => "bad-op"

end Driver.C20
