import MosdnsVerif.Base.Hex
import MosdnsVerif.Model.C02

namespace Driver.C02
open Model.C02

def label? : String → Option Label
  | "readerDeliver" => some .readerDeliver | "readerClose" => some .readerClose | "writeReturns" => some .writeReturns
  | "pickReply" => some .pickReply | "pickClose" => some .pickClose | "pickCtx" => some .pickCtx
  | "ctxExpire" => some .ctxExpire | _ => none

def showPhase : Phase → String
  | .sending => "sending" | .waiting => "waiting" | .gotReply => "reply" | .gotCloseErr => "close-error" | .gotCtxErr => "ctx-error"

/-- `sched <cap> <drainFirst> <labels>` -/
def handle : List String → String
  | ["sched", cap, d, ls] =>
    match cap.toNat?, Hex.bool? d, (ls.splitOn ",").mapM label? with
    | some cap, some d, some ls =>
      match run ⟨cap, d⟩ {} ls with
      | none => "not-enabled"
      | some s => showPhase s.phase ++ (if s.dropped then " dropped" else "")
    | _, _, _ => "bad-op"
  | _ => "bad-op"

end Driver.C02
