import MosdnsVerif.Base.Hex
import MosdnsVerif.Model.C02

namespace Driver.C02
open Model.C02

def label? : String → Option Label
  | "readerDeliver" => some .readerDeliver | "readerClose" => some .readerClose | "writeReturns" => some .writeReturns
  | "pickReply" => some .pickReply | "pickClose" => some .pickClose | "pickCtx" => some .pickCtx
  | "ctxExpire" => some .ctxExpire | "innerExpire" => some .innerExpire | _ => none

def showPhase : Phase → String
  | .sending => "sending" | .waiting => "waiting" | .gotReply => "reply" | .gotCloseErr => "close-error" | .gotCtxErr => "ctx-error"

def sched (cap d own ls : String) : String :=
  match cap.toNat?, Hex.bool? d, Hex.bool? own, (ls.splitOn ",").mapM label? with
  | some cap, some d, some own, some ls =>
    match run ⟨cap, d, own⟩ {} ls with
    | none => "not-enabled"
    | some s => showPhase s.phase ++ (if s.dropped then " dropped" else "")
  | _, _, _, _ => "bad-op"

/-- `sched <cap> <drainFirst> [<ownCtx>] <labels>`;
`ids <keyIsWire> <counterBits> <n>` (the reply to the n-th query of a connection: found / lost);
`udprd <everyReadGetsFullBuffer> <buffer size> <len>,<len>,...` (the datagram reader over the datagrams in the socket);
`body <readsToEOF> <qid: 4 hex digits> <piece>,<piece>,...` (DoH: the response body as the pieces `Read` returns) -/
def handle : List String → String
  | ["sched", cap, d, ls] => sched cap d "1" ls
  | ["sched", cap, d, own, ls] => sched cap d own ls
  | ["body", toEOF, qid, pieces] =>
    match Hex.bool? toEOF, Hex.decode qid, (pieces.splitOn ",").mapM Hex.decode with
    | some toEOF, some qid, some body =>
      match Doh.exchange toEOF qid body with
      | .reply m => "reply:" ++ Hex.encode m
      | .tooSmall => "error:too-small"
    | _, _, _ => "bad-op"
  | ["ids", k, bits, ctr] =>
    match Hex.bool? k, bits.toNat?, ctr.toNat? with
    | some k, some bits, some ctr => if Ids.finds k bits ctr then "found" else "lost"
    | _, _, _ => "bad-op"
  | ["udprd", full, cap, lens] =>
    match Hex.bool? full, cap.toNat?, (lens.splitOn ",").mapM String.toNat? with
    | some full, some cap, some ds =>
      match Udp.readMsg full cap ds with
      | some n => s!"msg {n}"
      | none => "none"
    | _, _, _ => "bad-op"
  | _ => "bad-op"

end Driver.C02
