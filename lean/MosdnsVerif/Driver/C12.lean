import MosdnsVerif.Base.Hex
import MosdnsVerif.Model.C12

namespace Driver.C12
open Model.C12

def kind? (s : String) : Option (Option Kind) :=
  if s == "-" then some none
  else if s == "full" then some (some .full)
  else if s == "domain" then some (some .domain)
  else if s == "regexp" then some (some .regexp)
  else if s == "keyword" then some (some .keyword)
  else none

def items (s : String) : List String := if s == "-" then [] else s.splitOn ";"

/-- `<value>=<hex rule text>` -/
def rule? (s : String) : Option (Nat × Bytes) :=
  match s.splitOn "=" with
  | [v, h] => do pure (← v.toNat?, ← Hex.decode h)
  | _ => none

/-- `<hex expr>@<hex normalised name>`: pairs on which the Go regexp engine says "match" -/
def rePair? (s : String) : Option (Bytes × Bytes) :=
  match s.splitOn "@" with
  | [e, n] => do pure (← Hex.decode e, ← Hex.decode n)
  | _ => none

def insertSorted (x : Nat) : List Nat → List Nat
  | [] => [x]
  | y :: ys => if x < y then x :: y :: ys else if x = y then y :: ys else y :: insertSorted x ys

def list (s : String) : List String := if s == "_" then [] else s.splitOn ","

/-- `<hex rule>,<hex rule>...|<position>,<position>...` (`_` = none): one `domain_set` plugin -/
def setCfg? (s : String) : Option (List Bytes × List Nat) :=
  match s.splitOn "|" with
  | [rs, js] => do pure (← (list rs).mapM Hex.decode, ← (list js).mapM String.toNat?)
  | _ => none

/-- the rules (value, text) added in order; `none` if one is rejected -/
def buildMix (dflt : Option Kind) (rules : List (Nat × Bytes)) : Option (Mix Nat) :=
  rules.foldl (fun (acc : Option (Mix Nat)) r =>
    match acc with
    | none => none
    | some m => match splitRule dflt r.2 with
      | none => none
      | some (k, pat) => some (m.add k pat r.1)) (some {})

/-- `mix <default kind> <rules> <names> <regexp truth table>` -> per name the
set of values `Match` may return (`a|b`), or `none`; `error` if a rule is rejected. -/
def handle : List String → String
  | ["mix", d, rs, ns, tbl] =>
    match kind? d, (items rs).mapM rule?, (items ns).mapM Hex.decode, (items tbl).mapM rePair? with
    | some dflt, some rules, some names, some table =>
      let re : Bytes → Bytes → Bool := fun e n => table.any (fun p => p.1 == e && p.2 == n)
      match buildMix dflt rules with
      | none => "error"
      | some m =>
        String.intercalate ";" (names.map (fun n =>
          match (m.candidates re n).foldr insertSorted [] with
          | [] => "none"
          | vs => String.intercalate "|" (vs.map toString)))
    | _, _, _, _ => "bad-op"
  | ["len", d, rs] =>
    -- `MixMatcher.Len` after the rules were added
    match kind? d, (items rs).mapM rule? with
    | some dflt, some rules =>
      match buildMix dflt rules with
      | none => "error"
      | some m => toString m.len
    | _, _ => "bad-op"
  | ["sets", cfgs, ns, tbl] =>
    -- the plugins of one configuration in order -> per set one 0/1 per name; `error` if a set is rejected
    match (items cfgs).mapM setCfg?, (items ns).mapM Hex.decode, (items tbl).mapM rePair? with
    | some cfgs, some names, some table =>
      let re : Bytes → Bytes → Bool := fun e n => table.any (fun p => p.1 == e && p.2 == n)
      match (cfgs.mapM (fun c => setOfRules re c.1 c.2)).bind (buildSets []) with
      | none => "error"
      | some ms => String.intercalate ";" (ms.map (fun m => String.join (names.map (fun n => Hex.showBool (m n)))))
    | _, _, _ => "bad-op"
  | ["scan", s] => match Hex.decode s with
    | some s => String.intercalate "," ((scan s).map Hex.encode)
    | none => "bad-op"
  | ["norm", s] => match Hex.decode s with
    | some s => Hex.encode (norm s)
    | none => "bad-op"
  | _ => "bad-op"

end Driver.C12
