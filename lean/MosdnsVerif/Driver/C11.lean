import MosdnsVerif.Base.Hex
import MosdnsVerif.Base.Facts
import MosdnsVerif.Gen.Facts
import MosdnsVerif.Model.C11

namespace Driver.C11
open Model.C11

/-- the hash of the harness's key type: `Sum() = key / 1000` -/
def sumOf (k : Nat) : Nat := k / 1000

def nats? (s : String) : Option (List Nat) := if s.isEmpty then some [] else (s.splitOn ".").mapM (·.toNat?)

def op? (s : String) : Option Op :=
  match s.splitOn ":" with
  | ["s", k, v, e, n, vs] => do some (.store (← k.toNat?) (← v.toNat?) (← e.toNat?) (← n.toNat?) (← nats? vs))
  | ["s", k, v, e, n] => do some (.store (← k.toNat?) (← v.toNat?) (← e.toNat?) (← n.toNat?) [])
  | ["g", k, n] => do some (.get (← k.toNat?) (← n.toNat?))
  | ["f"] => some .flush
  | ["gc", n] => do some (.gc (← n.toNat?))
  | ["l"] => some .len
  | _ => none

def showRet : Ret → String
  | .none => "-" | .hit v e => s!"hit:{v}:{e}" | .miss => "miss" | .len n => s!"len:{n}"

/-- `cache <configured size> <ops>`; the minimum size is the one read from the source -/
def handle : List String → String
  | ["cache", size, ops] =>
    match size.toInt?, (ops.splitOn ",").mapM op? with
    | some size, some ops =>
      let c := Cache.new (Gen.Facts.c11MinSize.getD 0) size
      ";".intercalate ((c.run sumOf ops).2.map showRet)
    | _, _ => "bad-op"
  | _ => "bad-op"

end Driver.C11
