import MosdnsVerif.Base.Hex
import MosdnsVerif.Base.Facts
import MosdnsVerif.Gen.Facts
import MosdnsVerif.Model.C11

namespace Driver.C11
open Model.C11

/-- the hash of the harness's key type: `Sum() = key / 1000` -/
def sumOf (k : Nat) : Nat := k / 1000

def nats? (s : String) : Option (List Nat) := if s.isEmpty then some [] else (s.splitOn ".").mapM (·.toNat?)

def op? (s : String) : Option Op :=
  match s.splitOn ":" with
  | ["s", k, v, e, n, vs] => do some (.store (← k.toNat?) (← v.toNat?) (← e.toNat?) (← n.toNat?) (← nats? vs))
  | ["s", k, v, e, n] => do some (.store (← k.toNat?) (← v.toNat?) (← e.toNat?) (← n.toNat?) [])
  | ["g", k, n] => do some (.get (← k.toNat?) (← n.toNat?))
  | ["f"] => some .flush
  | ["gc", n] => do some (.gc (← n.toNat?))
  | ["l"] => some .len
  | _ => none

def showRet : Ret → String
  | .none => "-" | .hit v e => s!"hit:{v}:{e}" | .miss => "miss" | .len n => s!"len:{n}"

/-! `concurrent_map.Map` lines -/

def act? (s : String) : Option Act :=
  if s == "d" then some .del
  else if s == "o" then some .delOdd
  else if s.startsWith "a" then (s.drop 1).toNat?.map .setAdd
  else none

def mop? (s : String) : Option MOp :=
  match s.splitOn ":" with
  | ["s", k, v, vs] => do some (.base (.store (← k.toNat?) (← v.toNat?) 0 0 (← nats? vs)))
  | ["s", k, v] => do some (.base (.store (← k.toNat?) (← v.toNat?) 0 0 []))
  | ["g", k] => do some (.base (.get (← k.toNat?) 0))
  | ["d", k] => do some (.del (← k.toNat?))
  | ["f"] => some (.base .flush)
  | ["l"] => some (.base .len)
  | ["r", m, r, a] => do some (.range ⟨← m.toNat?, ← r.toNat?, ← act? a⟩)
  | ["t", k, a] => do some (.tas (← k.toNat?) (← act? a))
  | _ => none

def mops? (s : String) : Option (List MOp) := if s == "-" then some [] else (s.splitOn ",").mapM mop?

/-- results of the trailing `post` operations of a run -/
def lastRets (c : Cache) (ops : List MOp) (post : Nat) : List String :=
  let rs := (c.mrun sumOf ops).2
  (rs.drop (rs.length - post)).map showRet

/-! `lru.LRU` / `concurrent_lru` lines -/

def lop? (s : String) : Option LOp :=
  match s.splitOn ":" with
  | ["a", k, v] => do some (.add (← k.toNat?) (← v.toNat?))
  | ["g", k] => do some (.get (← k.toNat?))
  | ["d", k] => do some (.del (← k.toNat?))
  | ["p"] => some .pop
  | ["c", m, r] => do some (.clean (← m.toNat?) (← r.toNat?))
  | ["f"] => some .flush
  | ["l"] => some .len
  | _ => none

def showLRet : LRet → String
  | .evicted l => "ev:" ++ ".".intercalate (l.map (fun e => s!"{e.key}={e.val}"))
  | .hit v => s!"hit:{v}" | .miss => "miss" | .len n => s!"len:{n}" | .none => "-"

/-- does an update through `LRU.Add` always write the value (read from the source) -/
def lruStores : Bool := Gen.Facts.c11LruUpdateStoresFirst == some true

/-- `cache <configured size> <ops>`; the minimum size is the one read from the source.
`map <size> <ops>`: `concurrent_map.NewMapCache(size)`.
`maprace <size> <pre> <pass> <competitors> <post>`: a `RangeDo` pass and operations of other goroutines (at most one
per shard) that overlap it; every shard operation being one critical section, the outcome is that of one of the two orders: per `post`
result both are printed (`a|b`) when they differ.
`lru <shards> <max per shard> <ops>`. -/
def handle : List String → String
  | ["cache", size, ops] =>
    match size.toInt?, (ops.splitOn ",").mapM op? with
    | some size, some ops =>
      let c := Cache.new (Gen.Facts.c11MinSize.getD 0) size
      ";".intercalate ((c.run sumOf ops).2.map showRet)
    | _, _ => "bad-op"
  | ["map", size, ops] =>
    match size.toInt?, mops? ops with
    | some size, some ops => ";".intercalate (((Cache.new 0 size).mrun sumOf ops).2.map showRet)
    | _, _ => "bad-op"
  | ["maprace", size, pre, pass, comp, post] =>
    match size.toInt?, mops? pre, mop? pass, mops? comp, mops? post with
    | some size, some pre, some pass, some comp, some post =>
      let c := Cache.new 0 size
      let a := lastRets c (pre ++ [pass] ++ comp ++ post) post.length
      let b := lastRets c (pre ++ comp ++ [pass] ++ post) post.length
      ";".intercalate ((a.zip b).map (fun (x, y) => if x == y then x else x ++ "|" ++ y))
    | _, _, _, _, _ => "bad-op"
  | ["lru", n, max, ops] =>
    match n.toNat?, max.toNat?, (ops.splitOn ",").mapM lop? with
    | some n, some max, some ops => ";".intercalate (((SLru.new n max).run lruStores sumOf ops).2.map showLRet)
    | _, _, _ => "bad-op"
  | _ => "bad-op"

end Driver.C11
