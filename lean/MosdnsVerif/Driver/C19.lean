import MosdnsVerif.Base.Hex
import MosdnsVerif.Model.C19
import MosdnsVerif.Gen.Facts

namespace Driver.C19
open Model.C19

/-- Toy codec with the same *lengths* as the real protobuf block: an entry is
its encoded size `s ≥ 4`; it is encoded as `s` bytes whose first four hold `s`. -/
def encEntry (s : Nat) : Bytes :=
  [UInt8.ofNat (s / 16777216 % 256), UInt8.ofNat (s / 65536 % 256), UInt8.ofNat (s / 256 % 256), UInt8.ofNat (s % 256)]
    ++ List.replicate (s - 4) 0

def enc (b : List Nat) : Bytes := (b.map encEntry).flatten

def decAux : Nat → Bytes → Option (List Nat)
  | 0, _ => none
  | fuel + 1, bs =>
    if bs.isEmpty then some [] else
    match bs with
    | a :: b :: c :: d :: _ =>
      let s := a.toNat * 16777216 + b.toNat * 65536 + c.toNat * 256 + d.toNat
      if s < 4 ∨ bs.length < s then none else (decAux fuel (bs.drop s)).map (s :: ·)
    | _ => none

def dec (bs : Bytes) : Option (List Nat) := decAux (bs.length + 1) bs

def blocks? (s : String) : Option (List (List Nat)) :=
  if s == "-" then some [] else (s.splitOn ",").mapM (fun b => (b.splitOn "+").mapM (·.toNat?))

/-- One digit per step: the dump that moves next. -/
def sched? (s : String) : Option (List Nat) :=
  s.toList.mapM (fun c => if '0' ≤ c ∧ c ≤ '9' then some (c.toNat - 48) else none)

/-- Where this tree's `writeDump` keeps a marshaled block (regenerated fact). -/
def writerLocal : Bool := Gen.Facts.c19WriterStateLocal == some true

/-- The kind of the key field in this tree's dump schema (regenerated fact). -/
def keyKind : FieldKind := if Gen.Facts.c19KeyFieldIsBytes == some true then .bytes else .utf8

/-- `load <entry sizes: s1+s2,s3> <plaintext bytes available> <clean 0|1>`
 -> `<entries stored> <error 0|1>`;  `raw <hex plaintext> <clean>` for crafted streams. -/
def handle : List String → String
  | ["load", bl, cut, clean] =>
    match blocks? bl, cut.toNat?, Hex.bool? clean with
    | some blocks, some cut, some clean =>
      let p := (plain enc blocks).take cut
      let r := load dec (blocks.length + 2) p clean
      s!"{r.1.length} {Hex.showBool r.2}"
    | _, _, _ => "bad-op"
  -- `ovl <blocks of dump 0> <blocks of dump 1> <schedule>`: two overlapping dumps of one cache, then each output is loaded
  --   -> `<entries 0> <error 0> <entries 1> <error 1>`
  | ["ovl", bl0, bl1, sc] =>
    match blocks? bl0, blocks? bl1, sched? sc with
    | some b0, some b1, some sc =>
      let w := run enc writerLocal sc ⟨fun j => Dump.fresh (if j = 0 then b0 else if j = 1 then b1 else []), []⟩
      let clean := fun (j : Nat) => (w.dumps j).finished
      let r0 := load dec (b0.length + b1.length + 2) (w.dumps 0).out (clean 0)
      let r1 := load dec (b0.length + b1.length + 2) (w.dumps 1).out (clean 1)
      s!"{r0.1.length} {Hex.showBool r0.2} {r1.1.length} {Hex.showBool r1.2}"
    | _, _, _ => "bad-op"
  -- `wr <hex key>,<hex key>,...`: writeDump of a one-block cache holding these keys -> `<entries written> <error 0|1>`
  | ["wr", ks] =>
    match (ks.splitOn ",").mapM Hex.decode with
    | some keys =>
      let r := written keyKind id [keys]
      s!"{r.1.flatten.length} {Hex.showBool r.2}"
    | none => "bad-op"
  | ["raw", h, clean] =>
    match Hex.decode h, Hex.bool? clean with
    | some p, some clean =>
      let r := load dec (p.length + 2) p clean
      s!"{r.1.length} {Hex.showBool r.2}"
    | _, _ => "bad-op"
  | _ => "bad-op"

end Driver.C19
