import MosdnsVerif.Base.Hex
import MosdnsVerif.Model.C17

namespace Driver.C17

/-- `xchg <first 4 bytes of the UDP reply, hex> <ans|fail> <tcp side observable 0|1>` -/
def handle : List String → String
  | ["xchg", hdr, mode, obs] =>
    match Hex.decode hdr with
    | some udpReply =>
      let tcpReply : Bytes := [0x54]
      let tcp : Bytes → Except Nat Bytes := fun _ => if mode == "ans" then .ok tcpReply else .error 1
      let (res, used) := Model.C17.exchange (fun _ => .ok udpReply) tcp [0]
      let what := match res with
        | .ok r => if r == tcpReply then "tcp" else "udp"
        | .error _ => "err"
      what ++ " " ++ (if obs == "1" then Hex.showBool used else "-")
    | none => "bad-op"
  | _ => "bad-op"

end Driver.C17
