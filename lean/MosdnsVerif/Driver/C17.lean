import MosdnsVerif.Base.Hex
import MosdnsVerif.Model.C17
import MosdnsVerif.Gen.Facts

namespace Driver.C17

/-- `xchg <first 4 bytes of the UDP reply, hex> <ans|fail> <tcp side observable 0|1>` -/
def handle : List String → String
  | ["xchg", hdr, mode, obs] =>
    match Hex.decode hdr with
    | some udpReply =>
      let tcpReply : Bytes := [0x54]
      let tcp : Bytes → Except Nat Bytes := fun _ => if mode == "ans" then .ok tcpReply else .error 1
      let (res, used) := Model.C17.exchange (fun _ => .ok udpReply) tcp [0]
      let what := match res with
        | .ok r => if r == tcpReply then "tcp" else "udp"
        | .error _ => "err"
      what ++ " " ++ (if obs == "1" then Hex.showBool used else "-")
    | none => "bad-op"
  -- `route <first 4 bytes of the UDP reply, hex> <ans|fail> <Opt.Socks5 set 0|1>`: the server is endpoint 1,
  -- the proxy endpoint 2 (never relays); how the two halves dial is read from the source.
  | ["route", hdr, mode, s5] =>
    match Hex.decode hdr with
    | some udpReply =>
      let tcpReply : Bytes := [0x54]
      let cfg : Model.C17.DialCfg := ⟨1, if s5 == "1" then some 2 else none⟩
      let udpNet : Nat → Bytes → Except Nat Bytes := fun e _ => if e == 1 then .ok udpReply else .error 2
      let tcpNet : Nat → Bytes → Except Nat Bytes := fun e _ => if e == 1 && mode == "ans" then .ok tcpReply else .error 1
      match Model.C17.exchangeRouted Model.C17.exchange (.ofFact Gen.Facts.c17UdpDialVia) (.ofFact Gen.Facts.c17TcpDialVia)
          cfg udpNet tcpNet [0] with
      | some (res, _, at_) =>
        let what := match res with
          | .ok r => if r == tcpReply then "tcp" else "udp"
          | .error _ => "err"
        let wher := match at_ with
          | none => "none" | some 1 => "server" | some 2 => "proxy" | some _ => "other"
        what ++ " " ++ wher
      | none => "unknown-dial-shape"
    | none => "bad-op"
  -- `faultx <query hex> <flag bytes of the UDP reply, hex> <ans|fail> <failed sends> <id a dead socket assigns>`:
  -- the buffer-threading model; whether the UDP side only reads the query is read from the source.
  | ["faultx", qh, fl, mode, nfail, qid] =>
    match Hex.decode qh, Hex.decode fl with
    | some q, some flags =>
      let n := nfail.toNat!
      let k := qid.toNat!
      let dead : List Model.C17.Attempt := (List.range n).map fun i => ⟨UInt8.ofNat ((k + i) / 256), UInt8.ofNat (k + i), false⟩
      let atts := dead ++ [⟨0, 0, true⟩]
      let srv : Bytes → Except Nat Bytes := fun w => .ok (w.take 2 ++ flags ++ [0x55])
      let tcp : Bytes → Except Nat Bytes := fun b => if mode == "ans" then .ok (b.take 2 ++ [0x80, 0x54]) else .error 1
      let ro := Gen.Facts.c17UdpSideReadsQueryOnly == some true
      let (res, frame, buf) := Model.C17.exchangeBuf ro srv tcp atts q
      let what := match res, frame with
        | .ok _, some _ => "tcp"
        | .ok _, none => "udp"
        | .error _, _ => "err"
      let tcpq := match frame with
        | none => "-"
        | some f => Hex.showBool (f == q)
      let idok := match res with
        | .ok r => Hex.showBool (Model.C17.idOf r == Model.C17.idOf q)
        | .error _ => "-"
      what ++ " tcpq=" ++ tcpq ++ " buf=" ++ Hex.showBool (buf == q) ++ " id=" ++ idok
    | _, _ => "bad-op"
  -- `tcpconn <event>...`: the life of one TCP connection of the fallback transport as the server saw it:
  -- `t<k>` query number k was read on it, `g` the caller waiting on it gave up (context ended),
  -- `r` a reply was written (to the oldest query without reply). Prints who got which reply
  -- (`<k of the caller>:<k the reply answers>`); what a give-up does to the connection is read from the source.
  | "tcpconn" :: evs =>
    let ev : String → Option Model.C17.CEv := fun s =>
      if s == "g" then some .giveUp
      else if s == "r" then some .reply
      else if s.startsWith "t" then (s.drop 1).toNat?.map fun k => .take [UInt8.ofNat k]
      else none
    match evs.mapM ev with
    | some es =>
      let idle := Gen.Facts.c17TcpConnIdleOnlyWhenNothingOwed != some true
      let ds := Model.C17.crun idle Model.C17.TConn.fresh es
      let one : Bytes × Bytes → String := fun d => toString (d.1.getD 0 0).toNat ++ ":" ++ toString (d.2.getD 0 0).toNat
      if ds.isEmpty then "-" else ",".intercalate (ds.map one)
    | none => "bad-op"
  | _ => "bad-op"

end Driver.C17
