import MosdnsVerif.Base.Hex
import MosdnsVerif.Model.C18
import MosdnsVerif.Gen.Facts
import MosdnsVerif.Gen.FnUpstream

namespace Driver.C18
open Model.C18

def showHP : Except Unit (Bytes × UInt16) → String
  | .error _ => "err"
  | .ok (h, p) => s!"{Hex.encode h} {p.toNat}"

/-- one upstream of a `boot` line: raw URL host / dial_addr / scheme default port / was a dial observed -/
def bootItem? (s : String) : Option (Bytes × Bytes × UInt16 × Bool) :=
  match s.splitOn "/" with
  | [u, a, d, o] => do
    let u ← Hex.decode u
    let a ← Hex.decode a
    let d ← d.toNat?
    some (u, a, UInt16.ofNat d, o == "1")
  | _ => none

/-- Several bootstrapped upstreams created one after the other in one process:
for each, the name asked at the bootstrap server and the port dialled. The
dial target is `parseDialAddr` on `Gen.tryTrimIpv6Brackets` of the URL host; what
`bootstrap.New` and `updateAddr` do with it is read from the regenerated facts;
when they do not hold the model does not constrain the outcome. -/
def boot (items : List (Bytes × Bytes × UInt16 × Bool)) : String :=
  let perCall := Gen.Facts.c18BootNewPerCall == some true
  let ownPort := Gen.Facts.c18BootAddrOwnPort == some true
  if !(perCall && ownPort && Gen.Facts.c18BootCallsPassTarget == some true) then "unconstrained" else
  match items.mapM (fun (u, a, d, _) =>
      match parseDialAddr splitHostPort parseUint16 (Gen.tryTrimIpv6Brackets u) a d with
      | .ok t => some t
      | .error _ => none) with
  | none => "err"
  | some targets =>
    let boots := createAll perCall (fun _ h p => ⟨fqdn h, p⟩) [] targets
    let outs := (boots.zip items).map (fun (b, (_, _, _, obs)) =>
      if obs then
        let (q, p) := bootDial ownPort (fun b => b.port) b
        s!"{Hex.encode q}:{p.toNat}"
      else "?")
    ",".intercalate outs

/-- the two facts the DoH part of the model is read from -/
def dohKeeps : Bool :=
  Gen.Facts.c18DohEndpointIsAddrUrl == some true && Gen.Facts.c18DohRequestKeepsEndpointHost == some true

def dohRestores : Bool := Gen.Facts.c18DohRestoresV6Brackets == some true

def handle : List String → String
  | ["boot", spec] =>
    match (spec.splitOn ",").mapM bootItem? with
    | some items => boot items
    | none => "bad-op"
  | ["split", s] =>
    match Hex.decode s with
    | some s => match splitHostPort s with
      | none => "none"
      | some (h, p) => s!"{Hex.encode h} {Hex.encode p}"
    | none => "bad-op"
  | ["puint", s] =>
    match Hex.decode s with
    | some s => match parseUint16 s with
      | none => "none"
      | some n => toString n.toNat
    | none => "bad-op"
  | ["trim", s] => match Hex.decode s with
    | some s => Hex.encode (trimBrackets s)
    | none => "bad-op"
  | ["rmport", s] => match Hex.decode s with
    | some s => Hex.encode (tryRemovePort splitHostPort s)
    | none => "bad-op"
  | ["tsplit", s] => match Hex.decode s with
    | some s => showHP (trySplitHostPort splitHostPort parseUint16 s)
    | none => "bad-op"
  | ["pda", u, a, d] =>
    match Hex.decode u, Hex.decode a, d.toNat? with
    | some u, some a, some d => showHP (parseDialAddr splitHostPort parseUint16 u a (UInt16.ofNat d))
    | _, _, _ => "bad-op"
  -- what NewUpstream dials / uses as SNI for a raw URL host
  | ["target", u, a, d] =>
    match Hex.decode u, Hex.decode a, d.toNat? with
    | some u, some a, some d => showHP (parseDialAddr splitHostPort parseUint16 (trimBrackets u) a (UInt16.ofNat d))
    | _, _, _ => "bad-op"
  -- what a stream upstream behind a SOCKS5 proxy (bootstrap configured or not) asks the proxy to connect to
  | ["s5target", u, a, d] =>
    match Hex.decode u, Hex.decode a, d.toNat? with
    | some u, some a, some d =>
      if Gen.Facts.c18Socks5ConnectsToTarget == some true then
        showHP ((parseDialAddr splitHostPort parseUint16 (trimBrackets u) a (UInt16.ofNat d)).map
          (connectTarget true (fun t _ => t) none))
      else "unconstrained"
    | _, _, _ => "bad-op"
  -- the upstreams of one forward plugin built from configuration: per entry, the target dialled
  | ["fwd", spec] =>
    match (spec.splitOn ",").mapM bootItem? with
    | some items =>
      if !(Gen.Facts.c18FwdUpstreamPerEntry == some true && Gen.Facts.c18Socks5ConnectsToTarget == some true) then "unconstrained" else
      let ups := fwdUpstreams true (fun _ c => c) [] (items.map (fun (u, a, d, _) => (u, a, d)))
      ",".intercalate ((ups.zip items).map (fun (c, (_, _, _, obs)) =>
        if obs then showHP (parseDialAddr splitHostPort parseUint16 (trimBrackets c.1) c.2.1 c.2.2) else "?"))
    | none => "bad-op"
  | ["sni", u] => match Hex.decode u with
    | some u => Hex.encode (tryRemovePort splitHostPort (trimBrackets u))
    | none => "bad-op"
  -- DoH / HTTP3: TLS server name and Host / :authority of the requests, for a raw URL host; the third field is what
  -- netip.ParseAddr(host) said (1 = an IPv6 address), the library being a parameter of the model
  | ["dohsni", u, v6] => match Hex.decode u, Hex.bool? v6 with
    | some u, some v6 =>
      if dohKeeps then Hex.encode (dohServerName true dohRestores id (fun _ => v6) u) else "unconstrained"
    | _, _ => "bad-op"
  | ["dohhost", u, v6] => match Hex.decode u, Hex.bool? v6 with
    | some u, some v6 =>
      if dohKeeps then Hex.encode (dohEndpointHost true dohRestores id (fun _ => v6) u) else "unconstrained"
    | _, _ => "bad-op"
  | _ => "bad-op"

end Driver.C18
