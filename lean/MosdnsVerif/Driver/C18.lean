import MosdnsVerif.Base.Hex
import MosdnsVerif.Model.C18

namespace Driver.C18
open Model.C18

def showHP : Except Unit (Bytes × UInt16) → String
  | .error _ => "err"
  | .ok (h, p) => s!"{Hex.encode h} {p.toNat}"

def handle : List String → String
  | ["split", s] =>
    match Hex.decode s with
    | some s => match splitHostPort s with
      | none => "none"
      | some (h, p) => s!"{Hex.encode h} {Hex.encode p}"
    | none => "bad-op"
  | ["puint", s] =>
    match Hex.decode s with
    | some s => match parseUint16 s with
      | none => "none"
      | some n => toString n.toNat
    | none => "bad-op"
  | ["trim", s] => match Hex.decode s with
    | some s => Hex.encode (trimBrackets s)
    | none => "bad-op"
  | ["rmport", s] => match Hex.decode s with
    | some s => Hex.encode (tryRemovePort splitHostPort s)
    | none => "bad-op"
  | ["tsplit", s] => match Hex.decode s with
    | some s => showHP (trySplitHostPort splitHostPort parseUint16 s)
    | none => "bad-op"
  | ["pda", u, a, d] =>
    match Hex.decode u, Hex.decode a, d.toNat? with
    | some u, some a, some d => showHP (parseDialAddr splitHostPort parseUint16 u a (UInt16.ofNat d))
    | _, _, _ => "bad-op"
  -- what NewUpstream dials / uses as SNI for a raw URL host
  | ["target", u, a, d] =>
    match Hex.decode u, Hex.decode a, d.toNat? with
    | some u, some a, some d => showHP (parseDialAddr splitHostPort parseUint16 (trimBrackets u) a (UInt16.ofNat d))
    | _, _, _ => "bad-op"
  | ["sni", u] => match Hex.decode u with
    | some u => Hex.encode (tryRemovePort splitHostPort (trimBrackets u))
    | none => "bad-op"
  | _ => "bad-op"

end Driver.C18
