import MosdnsVerif.Base.Hex
import MosdnsVerif.Model.C08Inst
import MosdnsVerif.Refine.C08

namespace Driver.C08
open Model.C08 Model.C08Inst

def turn? : String → Option Turn
  | "closed" => some .closed | "dialFail" => some .dialFail | "cannotReserve" => some .cannotReserve
  | "fresh1" => some (.fresh true) | "fresh0" => some (.fresh false)
  | "pooled1" => some (.pooled true false) | "pooled0" => some (.pooled false false)
  | "pooled0c" => some (.pooled false true) | _ => none

def showOutcome : Outcome → String
  | .ok => "ok" | .errClosed => "errClosed" | .errDial => "errDial" | .errReserve => "errReserve"
  | .errFresh => "errFresh" | .errGaveUp => "errGaveUp" | .stuck => "stuck"

/-- `loop <reuse|pipeline> <turns>`: runs the loop over the *regenerated* loop body
(`Refine.C08.reuseLoopGen_eq` / `pipelineLoopGen_eq`: it is the model's loop) -/
def handle : List String → String
  | ["loop", kind, ts] =>
    match (ts.splitOn ",").mapM turn? with
    | some ts =>
      let r? := match kind with
        | "reuse" => some (Refine.C08.reuseLoopGen ts) | "pipeline" => some (Refine.C08.pipelineLoopGen ts) | _ => none
      match r? with
      | some r => showOutcome r.outcome ++ " attempts=" ++ toString r.attempts ++ (if r.lastPooledCtxEnded then " ctx" else "")
      | none => "bad-op"
    | none => "bad-op"
  | ["handoff", n, cap, k] =>
    -- the schedule the harness enforces at the end of a dial (`Model.C08.Handoff.gateSchedule`), over the
    -- regenerated statement order / wait facts: how many queued queries find no slot
    match n.toNat?, cap.toNat?, k.toNat? with
    | some n, some cap, some k =>
      let rf := Gen.Facts.c08LazyEarlyReservesBeforeDone.getD false
      let lw := Gen.Facts.c08LazyLateWaitsForEarly.getD false
      let s := Model.C08.Handoff.run rf lw cap (Model.C08.Handoff.gateSchedule rf n k) (Model.C08.Handoff.init n cap)
      "refused=" ++ toString s.refused
    | _, _, _ => "bad-op"
  | ["dialed", idle, own] =>
    -- the dialing branch of the reuse loop (`Model.C08.DialHandOver.dialTurn`) over the regenerated fact about getNewConn
    let idle? : Option (Option Bool) := match idle with
      | "none" => some none | "1" => some (some true) | "0" => some (some false) | _ => none
    match idle?, own with
    | some i, "1" | some i, "0" =>
      let r := Refine.C08.reuseLoopGen [Model.C08.DialHandOver.dialTurn (Gen.Facts.c08ReuseNewConnIsTheDialedOne.getD false) i (own == "1")]
      showOutcome r.outcome ++ " attempts=" ++ toString r.attempts
    | _, _ => "bad-op"
  | _ => "bad-op"

end Driver.C08
