import MosdnsVerif.Base.Hex
import MosdnsVerif.Model.C08Inst
import MosdnsVerif.Refine.C08

namespace Driver.C08
open Model.C08 Model.C08Inst

def turn? : String → Option Turn
  | "closed" => some .closed | "dialFail" => some .dialFail | "cannotReserve" => some .cannotReserve
  | "fresh1" => some (.fresh true) | "fresh0" => some (.fresh false)
  | "pooled1" => some (.pooled true false) | "pooled0" => some (.pooled false false)
  | "pooled0c" => some (.pooled false true) | _ => none

def showOutcome : Outcome → String
  | .ok => "ok" | .errClosed => "errClosed" | .errDial => "errDial" | .errReserve => "errReserve"
  | .errFresh => "errFresh" | .errGaveUp => "errGaveUp" | .stuck => "stuck"

/-- `loop <reuse|pipeline> <turns>`: runs the loop over the *regenerated* loop body
(`Refine.C08.reuseLoopGen_eq` / `pipelineLoopGen_eq`: it is the model's loop) -/
def handle : List String → String
  | ["loop", kind, ts] =>
    match (ts.splitOn ",").mapM turn? with
    | some ts =>
      let r? := match kind with
        | "reuse" => some (Refine.C08.reuseLoopGen ts) | "pipeline" => some (Refine.C08.pipelineLoopGen ts) | _ => none
      match r? with
      | some r => showOutcome r.outcome ++ " attempts=" ++ toString r.attempts ++ (if r.lastPooledCtxEnded then " ctx" else "")
      | none => "bad-op"
    | none => "bad-op"
  | _ => "bad-op"

end Driver.C08
