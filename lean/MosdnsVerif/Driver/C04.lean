import MosdnsVerif.Base.Hex
import MosdnsVerif.Model.C04

namespace Driver.C04
open Base

def parseQuery : List String → Option Query
  | [r, op, nq, ad, cd, d, qt, qc, name] => do
    pure { response := ← Hex.bool? r, opcode := ← op.toInt?, nQuestion := ← nq.toInt?,
           ad := ← Hex.bool? ad, cd := ← Hex.bool? cd, dnssecOk := ← Hex.bool? d,
           qtype := UInt16.ofNat (← qt.toNat?), qclass := UInt16.ofNat (← qc.toNat?),
           name := ← Hex.decode name }
  | _ => none

/-- Events of a plugin chain: `S|H <cache> <query: 9 fields> <answer serial>`, twelve fields each. -/
def parseEvents : List String → Option (List Model.C04.Ev)
  | [] => some []
  | k :: c :: r :: op :: nq :: ad :: cd :: d :: qt :: qc :: name :: v :: rest => do
    let q ← parseQuery [r, op, nq, ad, cd, d, qt, qc, name]
    let c ← c.toNat?
    let v ← v.toNat?
    let e ← (match k with
      | "S" => some (Model.C04.Ev.store c ⟨q, []⟩ v)
      | "H" => some (Model.C04.Ev.hit c ⟨q, []⟩ v)
      | _ => none)
    let es ← parseEvents rest
    pure (e :: es)
  | _ => none

/-- `key <query>`: the model key; `chain <events>`: the observed store / hit events of
one plugin chain with several cache plugins, run through the trace acceptor
`Model.C04.accept` with the key of the question each `Exec` was handed. (`Gen.getMsgKey = Model.C04.msgKey` is
`Refine.C04.getMsgKey_eq`, proved for every query, so the driver does not
depend on the regenerated file.) -/
def handle : List String → String
  | "key" :: rest =>
    match parseQuery rest with
    | some q =>
      Hex.encode (Model.C04.msgKey q)
    | none => "bad-op"
  | "chain" :: rest =>
    match parseEvents rest with
    | some evs =>
      match Model.C04.firstRejected (fun ctx => Model.C04.msgKey ctx.q) [] evs 0 with
      | none => "accept"
      | some i => s!"reject event {i}"
    | none => "bad-op"
  | _ => "bad-op"

end Driver.C04
