import MosdnsVerif.Base.Hex
import MosdnsVerif.Model.C04

namespace Driver.C04
open Base

def parseQuery : List String → Option Query
  | [r, op, nq, ad, cd, d, qt, qc, name] => do
    pure { response := ← Hex.bool? r, opcode := ← op.toInt?, nQuestion := ← nq.toInt?,
           ad := ← Hex.bool? ad, cd := ← Hex.bool? cd, dnssecOk := ← Hex.bool? d,
           qtype := UInt16.ofNat (← qt.toNat?), qclass := UInt16.ofNat (← qc.toNat?),
           name := ← Hex.decode name }
  | _ => none

/-- `key <query>`: the model key. (`Gen.getMsgKey = Model.C04.msgKey` is
`Refine.C04.getMsgKey_eq`, proved for every query, so the driver does not
depend on the regenerated file.) -/
def handle : List String → String
  | "key" :: rest =>
    match parseQuery rest with
    | some q =>
      Hex.encode (Model.C04.msgKey q)
    | none => "bad-op"
  | _ => "bad-op"

end Driver.C04
