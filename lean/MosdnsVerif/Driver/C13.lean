import MosdnsVerif.Base.Hex
import MosdnsVerif.Model.C13

namespace Driver.C13
open Model.C13

/-- `4:<hex u32>/<bits>` or `6:<hex u128>/<bits>` -> the stored prefix (what `Append` keeps). -/
def prefix? (s : String) : Option Prefix :=
  match s.splitOn "/" with
  | [a, b] =>
    match a.splitOn ":", b.toNat? with
    | ["4", h], some n => (Hex.nat? h).map (fun x => appendV4 x n)
    | ["6", h], some n => (Hex.nat? h).map (fun x => appendV6 x n)
    | _, _ => none
  | _ => none

/-- `4:<hex>` or `6:<hex>` -> the 128-bit address `Contains` looks up (`to6`). -/
def addr? (s : String) : Option Nat :=
  match s.splitOn ":" with
  | ["4", h] => (Hex.nat? h).map v4mapped
  | ["6", h] => Hex.nat? h
  | _ => none

def listOf (s : String) : List String := if s == "-" then [] else s.splitOn ","

/-- `set <prefixes> <addresses>` -> one 0/1 per address. -/
def handle : List String → String
  | ["set", ps, as] =>
    match (listOf ps).mapM prefix?, (listOf as).mapM addr? with
    | some ps, some as =>
      let l := sortByLo (ps.map Iv.ofPrefix)
      let out := mergeRev l
      String.ofList (as.map (fun a => if containsRev out a then '1' else '0'))
    | _, _ => "bad-op"
  | _ => "bad-op"

end Driver.C13
