import MosdnsVerif.Base.Hex
import MosdnsVerif.Model.C13

namespace Driver.C13
open Model.C13

/-- `4:<hex u32>` / `6:<hex u128>` -> the parsed address (4-byte / 16-byte form). -/
def paddr? (s : String) : Option PAddr :=
  match s.splitOn ":" with
  | ["4", h] => (Hex.nat? h).map (fun x => (false, x))
  | ["6", h] => (Hex.nat? h).map (fun x => (true, x))
  | _ => none

/-- One rule line -> the stored prefix (what `Append` keeps): `<addr>/<bits>` is a CIDR line,
`<addr>` alone a single-address line whose length the loader model `loadLine` chooses. -/
def prefix? (s : String) : Option Prefix :=
  match s.splitOn "/" with
  | [a, b] =>
    match paddr? a, b.toNat? with
    | some a, some n => (loadLine true (some (a, (n : Int))) none).map storeLine
    | _, _ => none
  | [a] => (paddr? a).bind (fun a => (loadLine false none (some a)).map storeLine)
  | _ => none

/-- `4:<hex>` or `6:<hex>` -> the 128-bit address `Contains` looks up (`to6`). -/
def addr? (s : String) : Option Nat :=
  match s.splitOn ":" with
  | ["4", h] => (Hex.nat? h).map v4mapped
  | ["6", h] => Hex.nat? h
  | _ => none

def listOf (s : String) : List String := if s == "-" then [] else s.splitOn ","

/-- `<own rules>|<indices of referenced sets>` -> one `ip_set` plugin of a configuration. -/
def setDef? (s : String) : Option SetDef :=
  match s.splitOn "|" with
  | [own, refs] =>
    match (listOf own).mapM prefix?, (listOf refs).mapM String.toNat? with
    | some own, some refs => some ⟨own, refs⟩
    | _, _ => none
  | _ => none

/-- `set <prefixes> <addresses>` -> one 0/1 per address;
`sets <plugin>;<plugin>;... <addresses>` -> the plugins are built in that order (`buildSets`), one 0/1 string per plugin. -/
def handle : List String → String
  | ["set", ps, as] =>
    match (listOf ps).mapM prefix?, (listOf as).mapM addr? with
    | some ps, some as =>
      let l := sortByLo (ps.map Iv.ofPrefix)
      let out := mergeRev l
      String.ofList (as.map (fun a => if containsRev out a then '1' else '0'))
    | _, _ => "bad-op"
  | ["sets", ds, as] =>
    match (ds.splitOn ";").mapM setDef?, (listOf as).mapM addr? with
    | some ds, some as =>
      match buildSets [] ds with
      | some ms => "/".intercalate (ms.map (fun m => String.ofList (as.map (fun a => if m a then '1' else '0'))))
      | none => "unknown-set"
    | _, _ => "bad-op"
  | _ => "bad-op"

end Driver.C13
