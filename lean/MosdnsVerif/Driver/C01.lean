import MosdnsVerif.Base.Hex
import MosdnsVerif.Model.C01Exec
import MosdnsVerif.Model.C01Doq
import MosdnsVerif.Gen.Facts

namespace Driver.C01
open Model.C01

/-- runs on the executable refinement `XPipe` (`Refine.C01.step_abs`: each step is the model's step).
labels: `add`, `reply:<w>:<origin>`, `leave:<c>`, `fill:<n>` (n times: a caller enters and is answered at once) -/
def pipeOp (tries : Nat) (s : XPipe) (op : String) : Option (XPipe × String) :=
  match op.splitOn ":" with
  | ["add"] =>
    let c := s.nextCaller
    (s.step tries .add).map fun s' => (s', match s'.widOf.fn c with | some w => s!"wid={w}" | none => "wid=none")
  | ["reply", w, o] =>
    match w.toNat?, o.toNat? with
    | some w, some o =>
      match s.step tries (.reply w o) with
      | none => some (s, "not-enabled")
      | some s' => some (s', if s'.log.length > s.log.length then (match s'.log.head? with | some (c, _) => s!"to={c}" | none => "?") else "dropped")
    | _, _ => none
  | ["leave", c] => c.toNat?.bind fun c => (s.step tries (.leave c)).map fun s' => (s', "-")
  | ["fill", n] =>
    n.toNat?.bind fun n =>
      let rec go (k : Nat) (s : XPipe) (last : String) : Option (XPipe × String) :=
        match k with
        | 0 => some (s, last)
        | k + 1 =>
          let c := s.nextCaller
          match s.step tries .add with
          | none => none
          | some s1 =>
            match s1.widOf.fn c with
            | none => go k s1 "wid=none"
            | some w =>
              match s1.step tries (.reply w c) with
              | none => none
              | some s2 => go k s2 s!"wid={w}"
      go n s "-"
  | _ => none

def runPipe (tries : Nat) (ops : List String) : String :=
  let rec go (s : XPipe) (ops : List String) (acc : List String) : String :=
    match ops with
    | [] => ";".intercalate acc.reverse
    | op :: rest =>
      match pipeOp tries s op with
      | none => ";".intercalate (("bad-op@" ++ op) :: acc).reverse
      | some (s', out) => go s' rest (out :: acc)
  go {} ops []

def rlabel? : String → Option RLabel
  | "take" => some .take | "send" => some .send | "reply" => some .reply | "surplus" => some .surplus
  | "leave" => some .leave | "close" => some .close | _ => none

def runReuse (ops : List String) : String :=
  let rec go (s : Reuse) (ops : List String) (acc : List String) : String :=
    match ops with
    | [] => ";".intercalate acc.reverse
    | op :: rest =>
      match rlabel? op with
      | none => "bad-op"
      | some l =>
        match s.step l with
        | none => ";".intercalate (("not-enabled@" ++ op) :: acc).reverse
        | some s' =>
          let out := if s'.log.length > s.log.length then (match s'.log.head? with | some (c, _) => s!"to={c}" | none => "?")
                     else if l == .reply || l == .surplus then (if s'.closed && !s.closed then "closed" else "dropped") else "-"
          go s' rest (out :: acc)
  go {} ops []

/-- DoH: `build:<c>` / `serve:<c>` events on the request model; whether a call's URL is its own is the regenerated fact -/
def dlabel? (op : String) : Option DLabel :=
  match op.splitOn ":" with
  | ["build", c] => c.toNat?.map .build
  | ["serve", c] => c.toNat?.map .serve
  | _ => none

def runDoh (ops : List String) : String :=
  let perCall := Gen.Facts.c01DohRequestPerCall == some true
  let rec go (s : Doh) (ops : List String) (acc : List String) : String :=
    match ops with
    | [] => ";".intercalate acc.reverse
    | op :: rest =>
      match dlabel? op with
      | none => "bad-op"
      | some l =>
        match s.step perCall l with
        | none => ";".intercalate (("not-enabled@" ++ op) :: acc).reverse
        | some s' =>
          let out := if s'.log.length > s.log.length then (match s'.log.head? with | some (c, o) => s!"{c}<-{o}" | none => "?") else "-"
          go s' rest (out :: acc)
  go {} ops []

def fnv (b : Bytes) : UInt32 := b.foldl (fun h x => (h ^^^ x.toUInt32) * 16777619) 2166136261

/-- cut `b` into chunks of the given sizes; what is left is one final chunk -/
def chunk : Bytes → List Nat → Go.Stream
  | [], [] => []
  | b, [] => [b]
  | b, n :: ns => b.take n :: chunk (b.drop n) ns

def handle : List String → String
  | ["pipe", tries, ops] =>
    match tries.toNat? with
    | some t => runPipe t (ops.splitOn ",")
    | none => "bad-op"
  | ["reuse", ops] => runReuse (ops.splitOn ",")
  | ["restore", qid, wid, body] =>
    match qid.toNat?, wid.toNat?, body.toNat? with
    | some q, some w, some b =>
      let qm : Msg := ⟨q, b⟩
      let onWire := rewrite qm w
      let r := restore qm ⟨onWire.id, b + 1⟩
      s!"wire={onWire.id} id={r.id} body={r.body}"
    | _, _, _ => "bad-op"
  | ["doh", ops] => runDoh (ops.splitOn ",")
  | ["doq", id, stream, sizes] =>
    -- the bytes the server put on the query's stream, the sizes of the pieces they arrive in, the caller's id
    match id.toNat?, Hex.decode stream, (if sizes == "-" then some [] else (sizes.splitOn ",").mapM (·.toNat?)) with
    | some id, some b, some ns =>
      match doqReturn (UInt8.ofNat (id / 256)) (UInt8.ofNat (id % 256)) (chunk b ns) with
      | .error .eof => "err:eof"
      | .error .unexpectedEOF => "err:unexpectedEOF"
      | .error .tooSmall => "err:tooSmall"
      | .ok r => s!"ok {r.length} {(fnv r).toNat}"
    | _, _, _ => "bad-op"
  | _ => "bad-op"

end Driver.C01
