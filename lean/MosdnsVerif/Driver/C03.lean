import MosdnsVerif.Driver.Handler
import MosdnsVerif.Model.C03Sel
import MosdnsVerif.Model.C03Store

/-! Driver of C03: the `reply` lines of `Driver.Handler` plus `sel` lines - chains of redirect and the
dual-stack selector in front of a last plugin scripted per query type, run on `Model.C03Sel`. -/
namespace Driver.C03
open Model.Handler Model.C03Sel

def lower (b : Bytes) : Bytes := b.map (fun c => if 65 ≤ c ∧ c ≤ 90 then c + 32 else c)

/-- `NormalizeDomain` for ASCII names: lower case, without the trailing dot -/
def norm (b : Bytes) : Bytes :=
  let l := lower b
  if l.getLast? = some 46 then l.dropLast else l

/-- the `full` (f) and `domain` (d) matchers -/
def ruleMatches (kind : String) (pat name : Bytes) : Bool :=
  let n := norm name
  let p := norm pat
  if kind == "f" then n == p else n == p || (46 :: p).isSuffixOf n

/-- `r:<f|d>:<pattern>:<target>` or `s:<preferred type>` -/
def plug? (s : String) : Option Plug :=
  match s.splitOn ":" with
  | ["r", kind, pat, target] => do
    let pat ← Hex.decode pat
    let target ← Hex.decode target
    pure (.redirect (fun qq => if qq.qclass = 1 && ruleMatches kind pat qq.name then some target else none))
  | ["s", p] => p.toNat?.map (fun p => .selector p false)
  | _ => none

/-- outcome of the last plugin: `err`, `none`, `errresp:<rcode>`, `ans:<rcode>:<n>:<a|t>:<upstream OPT codes|->`;
a context that already has a response is left alone unless the outcome is an error -/
def out? (s : String) : Option (Ctx → Ctx × Bool) :=
  match s.splitOn ":" with
  | ["err"] => some (fun c => (c, true))
  | ["errresp", rc] => rc.toNat?.map (fun rc c => (localAnswer rc [] [] c, true))
  | ["none"] => some (fun c => (c, false))
  | ["ans", rc, n, kind, up] => do
    let rc ← rc.toNat?
    let n ← n.toNat?
    let upExtra ← (if up == "-" then some [] else (Driver.Handler.codes? up).map (fun cs => [RR.opt { udpSize := 1232, doBit := true, options := cs }]))
    pure (fun c =>
      if c.resp.isSome then (c, false) else
      let t := if kind == "t" then 16 else match c.q.question with
        | [x] => if x.qtype = 28 then 28 else 1
        | _ => 1
      (upstreamAnswer { setReply c.q with rcode := rc, answer := (List.range n).map (fun i => RR.rr [97] t 300 i), extra := upExtra } c, false))
  | _ => none

def typed (a aaaa other : Ctx → Ctx × Bool) (c : Ctx) : Ctx × Bool :=
  match c.q.question with
  | [x] => if x.qtype = 1 then a c else if x.qtype = 28 then aaaa c else other c
  | _ => other c

def mkQuery (id : Nat) (qr : Bool) (opc : Nat) (rd cd : Bool) (nq : Nat) (name : Bytes) (qt qc na nn : Nat) (ex : List RR) : Msg :=
  { id := id, qr := qr, opcode := opc, rd := rd, cd := cd,
    question := (List.range nq).map (fun i => ⟨if i = 0 then name else 120 :: name, qt, qc⟩),
    answer := (List.range na).map (fun i => RR.rr name 1 1 i),
    ns := (List.range nn).map (fun i => RR.rr name 2 1 i), extra := ex }

def showOut : Option Msg → String
  | none => "drop"
  | some r => if packable r then Driver.Handler.showReply r else "drop"

/-- the caller of a sub-sequence: `call:rej:<n>` (`$sub` returns, then `reject n`) or `jump:rej:<n>` (`jump sub`:
the caller's `reject n` runs where the sub-sequence ends, inside every scope that is open there) -/
def entrySub? (s : String) (up : Ctx → Ctx × Bool) (chain : List Plug) : Option (St → St × Bool) :=
  match s.splitOn ":" with
  | ["call", "rej", n] => n.toNat?.map (fun n => seq (runChain true up chain) (localRule n [] []))
  | ["jump", "rej", n] => n.toNat?.map (fun n =>
      runChain true (fun c => let r := up c; if r.2 then r else (localAnswer n [] [] r.1, false)) chain)
  | _ => none

/-- chain of `store` lines: `r:<pattern>:<target>` (a `full` redirect rule), `c` (a cache, numbered in chain order),
`a` (`[has_resp] accept`) -/
def storeChain? : List String → Nat → Option (List Model.C03Store.Plug)
  | [], _ => some []
  | s :: rest, n =>
    match s.splitOn ":" with
    | ["r", pat, target] => do
      let pat ← Hex.decode pat
      let target ← Hex.decode target
      let t ← storeChain? rest n
      pure (.redirect pat target :: t)
    | ["c"] => (storeChain? rest (n + 1)).map (fun t => .cache n :: t)
    | ["a"] => (storeChain? rest n).map (fun t => .accept :: t)
    | _ => none

/-- one query of a history: `<id>:<name>:<cd>` -/
def storeOp? (s : String) : Option (Nat × Bytes × Bool) :=
  match s.splitOn ":" with
  | [id, name, cd] => do
    let id ← id.toNat?
    let name ← Hex.decode name
    let cd ← Hex.bool? cd
    pure (id, name, cd)
  | _ => none

/- `store <qtype> <qclass> <chain> <history>`: the reply to the LAST query of the history (Model.C03Store, as built:
the stored message has its own Question slice, a cache stores only a response that is new since the rest of its chain ran) -/
/-- `sel <id> <qr> <opcode> <rd> <cd> <nq> <name> <qtype> <qclass> <nAns> <nNs> <extras> <chain> <outA> <outAAAA> <outOther>` -/
def handle : List String → String
  | ["sel", id, qr, opc, rd, cd, nq, name, qt, qc, na, nn, ex, chain, oa, o4, oo] =>
    match id.toNat?, Hex.bool? qr, opc.toNat?, Hex.bool? rd, Hex.bool? cd, nq.toNat?, Hex.decode name, qt.toNat?, qc.toNat?,
          na.toNat?, nn.toNat?, Driver.Handler.extras? ex, (chain.splitOn ",").mapM plug?, out? oa, out? o4, out? oo with
    | some id, some qr, some opc, some rd, some cd, some nq, some name, some qt, some qc, some na, some nn, some ex,
      some chain, some oa, some o4, some oo =>
      let q : Msg := { id := id, qr := qr, opcode := opc, rd := rd, cd := cd,
                       question := (List.range nq).map (fun i => ⟨if i = 0 then name else 120 :: name, qt, qc⟩),
                       answer := (List.range na).map (fun i => RR.rr name 1 1 i),
                       ns := (List.range nn).map (fun i => RR.rr name 2 1 i), extra := ex }
      match replyS true (runChain true (typed oa o4 oo) chain) (fun m _ => m) false q with
      | none => "drop"
      | some r => if packable r then Driver.Handler.showReply r else "drop"
    | _, _, _, _, _, _, _, _, _, _, _, _, _, _, _, _ => "bad-op"
  | ["selsub", id, qr, opc, rd, cd, nq, name, qt, qc, na, nn, ex, chain, oa, o4, oo, caller] =>
    match id.toNat?, Hex.bool? qr, opc.toNat?, Hex.bool? rd, Hex.bool? cd, nq.toNat?, Hex.decode name, qt.toNat?, qc.toNat?,
          na.toNat?, nn.toNat?, Driver.Handler.extras? ex, (chain.splitOn ",").mapM plug?, out? oa, out? o4, out? oo with
    | some id, some qr, some opc, some rd, some cd, some nq, some name, some qt, some qc, some na, some nn, some ex,
      some chain, some oa, some o4, some oo =>
      match entrySub? caller (typed oa o4 oo) chain with
      | some entry => showOut (replyS true entry (fun m _ => m) false (mkQuery id qr opc rd cd nq name qt qc na nn ex))
      | none => "bad-op"
    | _, _, _, _, _, _, _, _, _, _, _, _, _, _, _, _ => "bad-op"
  | ["store", qt, qc, chain, ops] =>
    match qt.toNat?, qc.toNat?, storeChain? (chain.splitOn ",") 0, (ops.splitOn ",").mapM storeOp? with
    | some qt, some qc, some chain, some ops =>
      match (Model.C03Store.history true true chain ops {}).getLast? with
      | some (id, name, rc) => s!"id={id} q={Hex.encode name}/{qt}/{qc} qr=1 ra=1 rcode={rc}"
      | none => "bad-op"
    | _, _, _, _ => "bad-op"
  | l => Driver.Handler.handle l

end Driver.C03
