import MosdnsVerif.Driver.Handler
import MosdnsVerif.Model.C15

/-! Model driver of C15: `reply ...` lines go to the shared handler driver (`replyx ...`: the same with VERSION / extended-rcode byte of the
client's OPT); `life <chain> <tx> ...` lines run
successive client transactions over one cache entry (`Model.C15.transact` with the regenerated facts, `genCode`);
`fork <mode> <query> <adopted branch> <discarded branches>` lines run one transaction through a plugin that runs
sub-queries on copies of the context (`Model.C15.fork`). -/
namespace Driver.C15
open Model.Handler Model.C15

/-- `-` or `code.payload+code.payload` -/
def opts? (s : String) : Option (List (Nat × Nat)) :=
  if s == "-" then some [] else
  (s.splitOn "+").mapM (fun x => match x.splitOn "." with
    | [c, p] => do pure (← c.toNat?, ← p.toNat?)
    | _ => none)

def showOpts (l : List (Nat × Nat)) : String :=
  if l.isEmpty then "-" else String.intercalate "+" (l.map (fun p => s!"{p.1}.{p.2}"))

/-- `f:<codes|->`, `c`, `t`, `e:<forward>:<own payload|->` -/
def plugin? (s : String) : Option Plugin :=
  match s.splitOn ":" with
  | ["c"] => some .cache
  | ["t"] => some .ttl
  | ["f", cs] => if cs == "-" then some (.fwd []) else ((cs.splitOn "+").mapM String.toNat?).map .fwd
  | ["e", fw, own] => do
    let fw ← Hex.bool? fw
    if own == "-" then pure (.ecs fw none) else pure (.ecs fw (some (← own.toNat?)))
  | _ => none

/-- `-`, `<size>:<do>:<opts>` or `<size>:<do>:<opts>:<version>:<ext-rcode byte>:<z>` (the Z bits are not part of the
model's OPT) -/
def copt? (s : String) : Option (List RR) :=
  if s == "-" then some [] else
  match s.splitOn ":" with
  | [size, d, os] => do pure [.opt { udpSize := ← size.toNat?, doBit := ← Hex.bool? d, options := ← opts? os }]
  | [size, d, os, ver, ext, z] => do
    let _ ← z.toNat?
    pure [.opt { udpSize := ← size.toNat?, doBit := ← Hex.bool? d, extRcode := ← ext.toNat?, version := ← ver.toNat?, options := ← opts? os }]
  | _ => none

/-- `err`, `none`, `a:<rcode>:<nAns>:<-|o=<opts>>:<glue>` -/
def up? (s : String) : Option Up :=
  match s.splitOn ":" with
  | ["err"] => some .err
  | ["none"] => some .none
  | ["a", rc, n, uo, glue] => do
    let g ← Hex.bool? glue
    let ex ← (if uo == "-" then some [] else
      match uo.splitOn "=" with
      | ["o", os] => (opts? os).map (fun os => [RR.opt { udpSize := 1232, doBit := true, options := os }] ++ (if g then [RR.rr [103] 1 60 200] else []))
      | _ => none)
    pure (.ans (← rc.toNat?) (← n.toNat?) ex)
  | _ => none

/-- `<id>/<cd>/<client opt>/<upstream>` -/
def tx? (s : String) : Option (Msg × Up) :=
  match s.splitOn "/" with
  | [id, cd, co, up] => do
    pure ({ id := ← id.toNat?, cd := ← Hex.bool? cd, question := [⟨[97], 1, 1⟩], extra := ← copt? co }, ← up? up)
  | _ => none

def optsOf (l : List RR) : List Opt := l.filterMap (fun x => match x with | .opt o => some o | _ => none)

def showOptSide (l : List RR) : String :=
  match optsOf l with
  | [o] => s!"1:{Hex.showBool o.doBit}:{showOpts o.options}"
  | os => s!"{os.length}:-:-"

def showTx (t : Tx) : String :=
  let rep := match t.reply with
    | none => "drop"
    | some r => if packable r then s!"id={r.id} rc={r.rcode} opt={showOptSide r.extra}" else "drop"
  let st := match t.slot with
    | .empty => "-"
    | .own m => toString (optsOf m.extra).length
    | .live => "live"
  let uq := match t.upQ with | some q => showOptSide q.extra | none => "-"
  s!"{rep} st={st} uq={uq}"

def life (chain : List Plugin) : List (Msg × Up) → Slot → List String
  | [], _ => []
  | (q, up) :: rest, s =>
    let t := transact genCode chain up q s
    showTx t :: life chain rest t.slot

/-- `<chain|->@<up>` -/
def branch? (s : String) : Option Branch :=
  match s.splitOn "@" with
  | [ch, u] => do
    let ps ← (if ch == "-" then some [] else (ch.splitOn ",").mapM plugin?)
    pure ⟨ps, ← up? u⟩
  | _ => none

def mode? (s : String) : Option Adopt :=
  match s with
  | "fb" => some .fallback
  | "sel" => some .selector
  | "lazy" => some (.lazy { id := 0, qr := true, question := [⟨[97], 1, 1⟩], answer := [.rr [97] 1 300 0] })
  | _ => none

/-- the header fields of the client's OPT record(s) -/
def withHdr (ver ext : Nat) : RR → RR
  | .opt o => .opt { o with version := ver, extRcode := ext }
  | r => r

/-- `replyx <version> <ext-rcode byte> <z> <udp> <id> ... <extras> <entry>`: a `reply` line of the shared handler driver
whose client OPT has these header fields -/
def replyx : List String → String
  | [ver, ext, z, _udp, id, qr, opc, rd, cd, nq, name, qt, qc, na, nn, ex, en] =>
    match ver.toNat?, ext.toNat?, z.toNat?, id.toNat?, Hex.bool? qr, opc.toNat?, Hex.bool? rd, Hex.bool? cd, nq.toNat?, Hex.decode name,
          qt.toNat?, qc.toNat?, na.toNat?, nn.toNat?, Driver.Handler.extras? ex, Driver.Handler.entry? en with
    | some ver, some ext, some _, some id, some qr, some opc, some rd, some cd, some nq, some name, some qt, some qc, some na, some nn,
      some ex, some en =>
      let q : Msg := { id := id, qr := qr, opcode := opc, rd := rd, cd := cd,
                       question := (List.range nq).map (fun i => ⟨if i = 0 then name else 120 :: name, qt, qc⟩),
                       answer := (List.range na).map (fun i => RR.rr name 1 1 i),
                       ns := (List.range nn).map (fun i => RR.rr name 2 1 i), extra := ex.map (withHdr ver ext) }
      match reply en (fun m _ => m) false q with
      | none => "drop"
      | some r => if packable r then Driver.Handler.showReply r else "drop"
    | _, _, _, _, _, _, _, _, _, _, _, _, _, _, _, _ => "bad-op"
  | _ => "bad-op"

def handle : List String → String
  | "replyx" :: rest => replyx rest
  | ["fork", mode, q, w, ds] =>
    match mode? mode, tx? (q ++ "/none"), (if w == "-" then some none else (branch? w).map some),
          (if ds == "-" then some [] else (ds.splitOn ";").mapM branch?) with
    | some mode, some (q, _), some w, some ds =>
      match reply (fork genCode mode ds w) (fun m _ => m) false q with
      | none => "drop"
      | some r => if packable r then s!"id={r.id} rc={r.rcode} opt={showOptSide r.extra}" else "drop"
    | _, _, _, _ => "bad-op"
  | "life" :: chain :: txs =>
    match (chain.splitOn ",").mapM plugin?, txs.mapM tx? with
    | some ch, some ts => String.intercalate " ~ " (life ch ts .empty)
    | _, _ => "bad-op"
  | l => Driver.Handler.handle l

end Driver.C15
