import MosdnsVerif.Base.Hex
import MosdnsVerif.Model.C07
import MosdnsVerif.Model.C07R
import MosdnsVerif.Model.C07U
import MosdnsVerif.Gen.Facts

namespace Driver.C07
open Model.C07 Model.C07R

def showDl : Dl → String
  | .none => "none" | .idle => "idle" | .short => "short"

/-- harness-level operations, each run to quiescence (the reader blocked in Read again):
 `start` the reader's first arm; `q` a query is written and its caller parks; `r` a parked caller is answered;
 `c` a parked caller gives up; `s` a reply nobody waits for; `x` the peer closes / the deadline in force expires -/
def opLabels : String → Option (List CLabel)
  | "start" => some [.readerArm]
  | "q" => some [.callerAdd, .callerArm]
  | "r" => some [.readerGotParked, .readerArm]
  | "c" => some [.callerLeave]
  | "s" => some [.readerGotStray, .readerArm]
  | "g" => some [.readerGotStray, .readerArm, .callerAdd, .callerArm]  -- a stray reply, then a query, with the reader's deadline call delayed by the harness
  | "x" => some [.readerFail]
  | _ => none

def runOps (ops : List String) : String :=
  let rec go (s : Conn) (ops : List String) (acc : List String) : String :=
    match ops with
    | [] => ";".intercalate acc.reverse
    | op :: rest =>
      match opLabels op with
      | none => "bad-op"
      | some ls =>
        match s.run ls with
        | none => ";".intercalate (("not-enabled@" ++ op) :: acc).reverse
        | some s' => go s' rest ((if s'.closed then "closed" else showDl s'.dl) :: acc)
  go {} ops []

/-- the reader's action list of reusableConn.readLoop as regenerated from the source -/
def readerOrder : List RAct := Gen.Facts.c07ReuseReaderOrder.map RAct.ofCode

/-- operations on one reused (non-pipelined) connection, each run to quiescence:
 `q` a caller takes the connection, arms, writes and waits; `r` its reply arrives and it returns; `k` its reply arrives, the
 reader's deadline call is held up and the caller issues its next query as soon as it has the reply; `c` the waiting caller
 gives up; `l` the reply to a caller that gave up arrives; `s` data nobody waits for; `x` read error / expiry -/
def reuseOp (s : RConn) : String → Option RConn
  | "q" => s.run readerOrder [.callerTake, .callerInstall, .callerArm, .callerWrite]
  | "r" => (s.step readerOrder .readerGot).bind (·.drain readerOrder)
  | "l" => (s.step readerOrder .readerGot).bind (·.drain readerOrder)
  | "k" => s.replyThenReuse readerOrder
  | "c" => s.step readerOrder .callerLeave
  | "s" => s.step readerOrder .readerStray
  | "x" => s.step readerOrder .readerFail
  | _ => none

def runReuse (ops : List String) : String :=
  let rec go (s : RConn) (ops : List String) (acc : List String) : String :=
    match ops with
    | [] => ";".intercalate acc.reverse
    | op :: rest =>
      match reuseOp s op with
      | none => ";".intercalate (("not-enabled@" ++ op) :: acc).reverse
      | some s' => go s' rest ((if s'.closed then "closed" else showDl s'.dl) :: acc)
  go {} ops []

/-- one call on an upstream wrapper (`direct`: a transport used as the upstream, one phase on the caller's context), each operation
 run to quiescence: `next` the inner exchange in progress ends and the wrapper starts the next one; `ctx` the caller's context ends
 (and the inner exchange in progress returns if its own context has ended with it); `fin` the inner exchange ends by itself -/
def wrapPhases (name : String) : List Nat :=
  if name == "direct" then [0] else Model.C07U.phasesOf Gen.Facts.c07UpstreamCtxArgs name

def wrapOp (ph : List Nat) (s : Model.C07U.W) : String → Option Model.C07U.W
  | "next" => s.step ph .next
  | "fin" => s.step ph .final
  | "ctx" => (s.step ph .ctxEnd).map (fun s1 => (s1.step ph .wake).getD s1)
  | _ => none

def runWrap (name : String) (ops : List String) : String :=
  let ph := wrapPhases name
  let rec go (s : Model.C07U.W) (ops : List String) (acc : List String) : String :=
    match ops with
    | [] => ";".intercalate acc.reverse
    | op :: rest =>
      match wrapOp ph s op with
      | none => ";".intercalate (("not-enabled@" ++ op) :: acc).reverse
      | some s' => go s' rest ((if s'.returned then "returned" else "running") :: acc)
  go {} ops []

def handle : List String → String
  | ["wrap", name, ops] => runWrap name (ops.splitOn ",")
  | ["conn", ops] => runOps (ops.splitOn ",")
  | ["reuse", ops] => runReuse (ops.splitOn ",")
  | _ => "bad-op"

end Driver.C07
