import MosdnsVerif.Base.Hex
import MosdnsVerif.Model.C07

namespace Driver.C07
open Model.C07

def showDl : Dl → String
  | .none => "none" | .idle => "idle" | .short => "short"

/-- harness-level operations, each run to quiescence (the reader blocked in Read again):
 `start` the reader's first arm; `q` a query is written and its caller parks; `r` a parked caller is answered;
 `c` a parked caller gives up; `s` a reply nobody waits for; `x` the peer closes / the deadline in force expires -/
def opLabels : String → Option (List CLabel)
  | "start" => some [.readerArm]
  | "q" => some [.callerAdd, .callerArm]
  | "r" => some [.readerGotParked, .readerArm]
  | "c" => some [.callerLeave]
  | "s" => some [.readerGotStray, .readerArm]
  | "g" => some [.readerGotStray, .readerArm, .callerAdd, .callerArm]  -- a stray reply, then a query, with the reader's deadline call delayed by the harness
  | "x" => some [.readerFail]
  | _ => none

def runOps (ops : List String) : String :=
  let rec go (s : Conn) (ops : List String) (acc : List String) : String :=
    match ops with
    | [] => ";".intercalate acc.reverse
    | op :: rest =>
      match opLabels op with
      | none => "bad-op"
      | some ls =>
        match s.run ls with
        | none => ";".intercalate (("not-enabled@" ++ op) :: acc).reverse
        | some s' => go s' rest ((if s'.closed then "closed" else showDl s'.dl) :: acc)
  go {} ops []

def handle : List String → String
  | ["conn", ops] => runOps (ops.splitOn ",")
  | _ => "bad-op"

end Driver.C07
