/-! Shared read-eval-print loop of the model drivers: one operation per input
line, one result line per operation. -/
namespace Driver

partial def loop (handle : List String → String) (h : IO.FS.Stream) (out : IO.FS.Stream) : IO Unit := do
  let line ← h.getLine
  if line.isEmpty then return ()
  match (line.trimAscii.toString.splitOn " ").filter (· ≠ "") with
  | _prop :: rest => out.putStrLn (handle rest)
  | [] => out.putStrLn "bad-op"
  loop handle h out

def run (handle : List String → String) : IO Unit := do
  let out ← IO.getStdout
  loop handle (← IO.getStdin) out
  out.flush

end Driver
