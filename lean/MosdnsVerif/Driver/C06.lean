import MosdnsVerif.Base.Hex
import MosdnsVerif.Model.C06

namespace Driver.C06
open Model.C06

/-- State: the invocation log and the rcode of the response set by `reject`. -/
structure S where
  log : List String
  resp : Option Nat
  /-- what continuations that a wrapper kept and ran after it had returned logged:
  `{`, events, [`ERR`,] nested blocks, `}` per continuation, in the order they were kept -/
  later : List String := []

abbrev Err := List String   -- the log at the moment of the error, failing item last

/-- the block a kept continuation contributes -/
def laterBlock (r : Except Err S) : List String :=
  match r with
  | .ok t => ["{"] ++ t.log ++ t.later ++ ["}"]
  | .error e => ["{"] ++ e ++ ["ERR", "}"]

/-- Matcher ids: `1000*kind + n`, kind 0 = true, 1 = false, 2 = error,
3 = "a response is present", 4 = "true only the first time it is asked" (its name is not in the log yet),
5 / 6 = the stock `_true` / `_false` (constant, log nothing).
Plain action ids: kind 0 = ok (log only), 1 = error, 2 = answer the query with rcode `n`, 3 = drop the response.
Wrapper ids: kind 0 continue, 1 stop, 2 post-process, 3 run the continuation twice,
4 run it on two copies (the harness does that concurrently),
5 return at once and run the continuation later (after the top-level run has
returned) on a copy of the query as it was, 6 the same and also run it now.
A continuation is a function of the state only, so "later" is the same value. -/
def sem : Sem S Err where
  matchFn id s :=
    let name := s!"m{id}"
    match id / 1000 with
    | 0 => .ok (true, { s with log := s.log ++ [name] })
    | 1 => .ok (false, { s with log := s.log ++ [name] })
    | 3 => .ok (s.resp.isSome, { s with log := s.log ++ [name] })
    | 4 => .ok (!s.log.contains name, { s with log := s.log ++ [name] })
    | 5 => .ok (true, s)
    | 6 => .ok (false, s)
    | _ => .error (s.log ++ [name])
  execFn id s :=
    let name := s!"a{id}"
    match id / 1000 with
    | 0 => .ok { s with log := s.log ++ [name] }
    | 2 => .ok { s with log := s.log ++ [name], resp := some (id % 1000) }
    | 3 => .ok { s with log := s.log ++ [name], resp := none }
    | _ => .error (s.log ++ [name])
  wrapFn id k s :=
    let name := s!"w{id}"
    let s1 : S := { s with log := s.log ++ [name] }
    match id / 1000 with
    | 0 => k s1
    | 1 => .ok s1
    | 2 => match k s1 with
      | .ok r => .ok { r with log := r.log ++ [name ++ "-"] }
      | .error e => .error e
    | 3 => match k s1 with
      | .ok r => k r
      | .error e => .error e
    | 5 => .ok { s1 with later := s1.later ++ laterBlock (k { log := [], resp := s1.resp }) }
    | 6 => k { s1 with later := s1.later ++ laterBlock (k { log := [], resp := s1.resp }) }
    | _ =>
      let copyLog := fun (r : Except Err S) => match r with
        | .ok t => t.log
        | .error e => e ++ ["ERR"]
      let copyLater := fun (r : Except Err S) => match r with
        | .ok t => t.later
        | .error _ => []
      let r1 := k { log := [], resp := s1.resp }
      let r2 := k { log := [], resp := s1.resp }
      .ok { s1 with log := s1.log ++ ["["] ++ copyLog r1 ++ ["|"] ++ copyLog r2 ++ ["]"],
                    later := s1.later ++ copyLater r1 ++ copyLater r2 }
  setResp rc s := { s with resp := some rc }

/-- matcher item: `m<id>` or `!m<id>` -/
def matcher? (t : String) : Option (Bool × Nat) :=
  if t.startsWith "!m" then (t.drop 2).toNat?.map (true, ·)
  else if t.startsWith "m" then (t.drop 1).toNat?.map (false, ·)
  else none

def action? (seqs : List (List Rule)) (t : String) : Option Action :=
  if t == "A" then some .accept
  else if t == "r" then some .ret
  else if t.startsWith "R" then (t.drop 1).toNat?.map .reject
  else if t.startsWith "a" then (t.drop 1).toNat?.map .plain
  else if t.startsWith "w" then (t.drop 1).toNat?.map .wrap
  else if t.startsWith "J" then (t.drop 1).toNat?.bind (fun k => seqs[k]?.map .jump)
  else if t.startsWith "G" then (t.drop 1).toNat?.bind (fun k => seqs[k]?.map .goto)
  else none

/-- rule: `m1+!m1002>a5`  (no matchers: `>a5`) -/
def rule? (seqs : List (List Rule)) (t : String) : Option Rule :=
  match t.splitOn ">" with
  | [ms, a] => do
    let ml ← (if ms.isEmpty then some [] else (ms.splitOn "+").mapM matcher?)
    let act ← action? seqs a
    pure (.mk ml act)
  | _ => none

def seq? (seqs : List (List Rule)) (t : String) : Option (List Rule) :=
  if t == "-" then some [] else (t.splitOn ",").mapM (rule? seqs)

/-- `run <seq0;seq1;...;seqN>`: sequences may reference lower-numbered ones;
the last one is executed at top level. Output: `ok|err <log> resp=<rcode|->`. -/
def handle : List String → String
  | ["run", prog] =>
    let built := (prog.splitOn ";").foldl (fun (acc : Option (List (List Rule))) t =>
      acc.bind (fun seqs => (seq? seqs t).map (fun s => seqs ++ [s]))) (some [])
    match built with
    | none => "bad-op"
    | some seqs =>
      match seqs.getLast? with
      | none => "bad-op"
      | some top =>
        match execNext sem top [] { log := [], resp := none } with
        | .ok s => "ok " ++ String.intercalate "," (s.log ++ s.later) ++ " resp=" ++ (match s.resp with | some r => toString r | none => "-")
        | .error e => "err " ++ String.intercalate "," e
  | _ => "bad-op"

end Driver.C06
