import MosdnsVerif.Base.Hex
import MosdnsVerif.Model.C05

namespace Driver.C05
open Model.C05

/-- `a:0:300` = section (a|n|e), isOpt, ttl -/
def rr? (s : String) : Option (Char × RR) :=
  match s.splitOn ":" with
  | [sec, o, t] => do
    let c ← sec.toList.head?
    pure (c, ⟨← Hex.bool? o, UInt32.ofNat (← t.toNat?)⟩)
  | _ => none

def msg? (rcode tc rrs : String) : Option Msg := do
  let rc ← rcode.toNat?
  let tc ← Hex.bool? tc
  let items ← (if rrs == "-" then some [] else (rrs.splitOn ",").mapM rr?)
  let pick := fun (c : Char) => (items.filter (fun p => p.1 == c)).map (·.2)
  pure ⟨rc, tc, pick 'a', pick 'n', pick 'e'⟩

def ttls (m : Msg) : String :=
  let l := m.rrs.map (fun r => toString r.ttl.toNat)
  if l.isEmpty then "-" else String.intercalate "," l

/-- `hit.<ns>` | `fix.<ttl>` | `mm.<min>.<max>` | `aff.<a>.<b>` (ttl := a * ttl + b) -/
def ev? (s : String) : Option Ev :=
  match s.splitOn "." with
  | ["hit", t] => do pure (.hit (← t.toNat?))
  | ["fix", t] => do pure (.rewrite (setRR (UInt32.ofNat (← t.toNat?))))
  | ["mm", a, b] => do pure (.rewrite (clampRR (UInt32.ofNat (← a.toNat?)) (UInt32.ofNat (← b.toNat?))))
  | ["aff", a, b] => do
    let a ← a.toNat?
    let b ← b.toNat?
    pure (.rewrite (fun r => if r.isOpt then r else { r with ttl := UInt32.ofNat a * r.ttl + UInt32.ofNat b }))
  | _ => none

def handle : List String → String
  | ["adm", lazy, rcode, tc, rrs] =>
    match lazy.toInt?, msg? rcode tc rrs with
    | some lz, some m => match admission lz m with
      | none => "none"
      | some (a, b) => s!"{a} {b}"
    | _, _ => "bad-op"
  | ["serve", lazy, st, elapsed, msgIn, cacheIn, rrs] =>
    match Hex.bool? lazy, st.toNat?, elapsed.toNat?, msgIn.toInt?, cacheIn.toInt?, msg? "0" "0" rrs with
    | some lz, some st, some el, some mi, some ci, some m =>
      let T : Nat := 1000000000000000000
      let it : Item := ⟨m, T - el, (T + mi).toNat, (T + ci).toNat⟩
      match serve lz (UInt32.ofNat st) it T T with
      | .miss => "miss"
      | .fresh r => "fresh " ++ ttls r
      | .stale r => "stale " ++ ttls r
    | _, _, _, _, _, _ => "bad-op"
  | ["lazyseq", cbs, lazy, st, elapsed, msgIn, cacheIn, rrs, chain, nrcode, ntc, nrrs, hits] =>
    match Hex.bool? cbs, lazy.toInt?, st.toNat?, elapsed.toNat?, msgIn.toInt?, cacheIn.toInt?, msg? "0" "0" rrs, msg? nrcode ntc nrrs,
          (hits.splitOn ",").mapM (·.toNat?) with
    | some cbs, some lz, some st, some el, some mi, some ci, some m, some nm, some hs =>
      let T : Nat := 1000000000000000000
      let it : Item := ⟨m, T - el, (T + mi).toNat, (T + ci).toNat⟩
      let ch : Option Chain := if chain == "keep" then some id else if chain == "guard" then some (guarded nm)
        else if chain == "answer" then some (fun _ => some nm) else none
      match ch with
      | none => "bad-op"
      | some ch =>
        let out := lazyRun cbs lz (UInt32.ofNat st) ch it (hs.map (T + ·))
        -- the harness gives the upstream's new answer a different number of answer records than the old one
        let tag := fun (r : Msg) => if r.answer.length == m.answer.length then "old" else "new"
        String.intercalate "/" (out.map fun
          | .miss => "miss"
          | .fresh r => s!"{tag r} fresh {ttls r}"
          | .stale r => s!"{tag r} stale {ttls r}")
    | _, _, _, _, _, _, _, _, _ => "bad-op"
  | ["alias", sc, hc, lazy, st, rcode, tc, rrs, evs] =>
    -- the reply `rrs` is stored at T (if admitted); then in-place rewrites of the live reply and queries at T + offset
    match Hex.bool? sc, Hex.bool? hc, lazy.toInt?, st.toNat?, msg? rcode tc rrs, (evs.splitOn "/").mapM ev? with
    | some sc, some hc, some lz, some st, some m, some es =>
      let T : Nat := 1000000000000000000
      match store lz m T with
      | none => "none"
      | some it =>
        let out := aliasRun sc hc (decide (lz > 0)) (UInt32.ofNat st) (!sc) it (es.map fun
          | .hit t => .hit (T + t)
          | e => e)
        String.intercalate "/" (out.map fun
          | .miss => "miss"
          | .fresh r => s!"fresh {ttls r}"
          | .stale r => s!"stale {ttls r}")
    | _, _, _, _, _, _ => "bad-op"
  | ["reload", keeps, wl, rl, st, rcode, tc, rrs, loadAfter, askAfter] =>
    -- the reply is stored at T by an instance with lazy_cache_ttl wl, dumped, loaded at T + loadAfter by an
    -- instance with lazy_cache_ttl rl and asked at T + askAfter
    match Hex.bool? keeps, wl.toInt?, rl.toInt?, st.toNat?, msg? rcode tc rrs, loadAfter.toNat?, askAfter.toNat? with
    | some kp, some wl, some rl, some st, some m, some la, some aa =>
      let T : Nat := 1000000000000000000
      match reloadRun kp wl rl (UInt32.ofNat st) m T (T + la) (T + aa) with
      | none => "none"
      | some .miss => "miss"
      | some (.fresh r) => "fresh " ++ ttls r
      | some (.stale r) => "stale " ++ ttls r
    | _, _, _, _, _, _, _ => "bad-op"
  | _ => "bad-op"

end Driver.C05
