import MosdnsVerif.Base.Hex
import MosdnsVerif.Model.C16
import MosdnsVerif.Gen.FnFraming
import MosdnsVerif.Gen.Facts

namespace Driver.C16
open Model.C16

/-- Deterministic test bytes shared with the Go harness: byte i = (seed + 131*i) mod 251. -/
def gen (len seed : Nat) : Bytes := (List.range len).map (fun i => UInt8.ofNat ((seed + 131 * i) % 251))

def fnv (b : Bytes) : UInt32 := b.foldl (fun h x => (h ^^^ x.toUInt32) * 16777619) 2166136261

/-- `gen:<len>:<seed>` or hex. -/
def bytes? (s : String) : Option Bytes :=
  match s.splitOn ":" with
  | ["gen", l, sd] => do pure (gen (← l.toNat?) (← sd.toNat?))
  | [h] => Hex.decode h
  | _ => none

def sizes? (s : String) : Option (List Nat) :=
  if s == "-" then some [] else (s.splitOn ",").mapM (·.toNat?)

/-- Cut `b` into chunks of the given sizes (a size 0 is an empty read); what is
left after the last size is one final chunk. -/
def chunk : Bytes → List Nat → Go.Stream
  | [], [] => []
  | b, [] => [b]
  | b, n :: ns => b.take n :: chunk (b.drop n) ns

/-- `a,b/c/d,e`: segments (what arrives between two firings of the read deadline) separated by `/`, each a list of
chunk sizes; the last segment also takes whatever is left. -/
def segs? (s : String) : Option (List (List Nat)) := (s.splitOn "/").mapM sizes?

def segChunks : Bytes → List (List Nat) → List Go.Stream
  | _, [] => []
  | b, [ns] => [chunk b ns]
  | b, ns :: rest => chunk (b.take ns.sum) ns :: segChunks (b.drop ns.sum) rest

/-- What the connection loop of the source does after a failed read (T2 fact). -/
def srcResumes : Bool := Gen.Facts.c16ReadErrEndsConn != some true

/-- Does the stream deadline of ServeDoQ bound the reply write (T2 fact)? -/
def srcDoqWriteBounded : Bool := Gen.Facts.c16DoqStreamDeadlineReadOnly != some true

/-- `t:n,t:n`: flow-control grants. -/
def grants? (s : String) : Option Grants :=
  (s.splitOn ",").mapM (fun g => match g.splitOn ":" with
    | [t, n] => do pure ((← t.toNat?), (← n.toNat?))
    | _ => none)

def showErr : Go.ReadErr → String
  | .eof => "err:eof" | .unexpectedEOF => "err:unexpectedEOF" | .tooSmall => "err:tooSmall"

def summary (b : Bytes) : String := s!"{b.length} {(fnv b).toNat}"

def handle : List String → String
  | ["write", m] =>
    match bytes? m with
    | some m => match frame m with
      | none => "refused"
      | some w => "ok " ++ summary w
    | none => "bad-op"
  | ["packtcp", w] =>
    match bytes? w with
    | some w => match Gen.packTCPBuffer w with
      | none => "refused"
      | some f => "ok " ++ summary f
    | none => "bad-op"
  | ["packudp", w] =>
    match bytes? w with
    | some w => "ok " ++ summary (Gen.packBuffer w)
    | none => "bad-op"
  | ["read", stream, sizes] =>
    match bytes? stream, sizes? sizes with
    | some b, some ns =>
      match readRaw (chunk b ns) with
      | .error e => showErr e
      | .ok (m, rest) => s!"ok {summary m} rest={rest.flatten.length}"
    | _, _ => "bad-op"
  | ["readall", stream, sizes] =>
    match bytes? stream, sizes? sizes with
    | some b, some ns =>
      let (ms, e) := decodeAll (b.length + 1) (chunk b ns)
      let tail := match e with | none => "end" | some e => showErr e
      String.intercalate ";" (ms.map summary) ++ " " ++ tail
    | _, _ => "bad-op"
  | ["serve", stream, segs] =>
    -- the ServeTCP connection loop (as the regenerated fact says it reacts to a failed read) on a client stream of
    -- whole frames cut into segments by read deadlines: how many handled messages are not frames of the client
    match bytes? stream, segs? segs with
    | some b, some ss =>
      let sent := (decodeAll (b.length + 1) [b]).1
      let handled := serve srcResumes (b.length + ss.length + 2) (segChunks b ss)
      s!"foreign={(handled.filter (fun m => !sent.contains m)).length}"
    | _, _ => "bad-op"
  | ["doq", limit, tHandler, grants, reply] =>
    -- one ServeDoQ stream: what is on the stream before FIN when the stream deadline is what the regenerated fact
    -- says it is (read-only / read+write)
    match limit.toNat?, tHandler.toNat?, grants? grants, bytes? reply with
    | some l, some t, some gs, some m => "delivered " ++ summary (doqStream srcDoqWriteBounded l t gs m)
    | _, _, _, _ => "bad-op"
  | _ => "bad-op"

end Driver.C16
