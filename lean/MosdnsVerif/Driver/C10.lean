import MosdnsVerif.Base.Hex
import MosdnsVerif.Base.Facts
import MosdnsVerif.Gen.Facts
import MosdnsVerif.Model.C10

namespace Driver.C10
open Model.C10

def nats? (s : String) : Option (List Nat) := if s.isEmpty then some [] else (s.splitOn ".").mapM (·.toNat?)

def op? (s : String) : Option Op :=
  match s.splitOn ":" with
  | ["p", vs] => do some (.produce (← nats? vs))
  | ["s", k, c] => do some (.store (← k.toNat?) (← c.toNat?))
  | ["h", k, lazy, qid] => do some (.hit (← k.toNat?) (lazy == "1") (← qid.toNat?))
  | ["m", c, i, v] => do some (.mutate (← c.toNat?) (← i.toNat?) (← v.toNat?))
  | _ => none

def xop? (s : String) : Option XOp :=
  match s.splitOn ":" with
  | ["x", k, qid, vs, fl] => do
    let fl ← if fl == "-" then some none else (fl.toNat?).map some
    some (.miss (← k.toNat?) (← qid.toNat?) (← nats? vs) fl)
  | ["o", c] => do some (.look (← c.toNat?))
  | _ => (op? s).map .base

def showOut (o : Out) : String :=
  match o.served with
  | none => "-"
  | some (id, vals) => s!"id={id},vals={".".intercalate (vals.map toString)}"

/-- which kind of copy each site makes is read from the source -/
def cfg : Cfg :=
  ⟨Gen.Facts.c10StoreCopies == some true && Gen.Facts.c10CopyNoOptDeep == some true,
   Gen.Facts.c10HitCopies == some true, Gen.Facts.c10LazyHitCopies == some true,
   Gen.Facts.c10MissPrivate == some true⟩

def showXOut (o : XOut) : String :=
  match o.seen with
  | some vals => s!"vals={".".intercalate (vals.map toString)}"
  | none => showOut o.out

def handle : List String → String
  | ["iso", ops] =>
    match (ops.splitOn ",").mapM xop? with
    | some ops => ";".intercalate ((({} : St).xrun cfg ops).2.map showXOut)
    | none => "bad-op"
  | _ => "bad-op"

end Driver.C10
