import MosdnsVerif.Base.Hex
import MosdnsVerif.Model.Handler

namespace Driver.Handler
open Model.Handler

def codes? (s : String) : Option (List (Nat × Nat)) :=
  if s == "-" then some [] else (s.splitOn "+").mapM (fun c => c.toNat?.map (·, 0))

/-- extra record: `r` or `o:<size>:<do>:<codes>` -/
def extra? (s : String) : Option RR :=
  match s.splitOn ":" with
  | ["r"] => some (.rr [120] 1 60 7)
  | ["o", size, d, cs] => do
    pure (.opt { udpSize := ← size.toNat?, doBit := ← Hex.bool? d, options := ← codes? cs })
  | _ => none

def extras? (s : String) : Option (List RR) := if s == "-" then some [] else (s.splitOn ",").mapM extra?

/-- scripted entry: `err`, `errresp:<rcode>`, `none`, `ans:<rcode>:<nAns>:<upstream OPT codes | ->` -/
def entry? (s : String) : Option (Ctx → Ctx × Bool) :=
  match s.splitOn ":" with
  | ["err"] => some (fun c => (c, true))
  | ["errresp", rc] => rc.toNat?.map (fun rc c => (localAnswer rc [] [] c, true))
  | ["none"] => some (fun c => (c, false))
  | ["ans", rc, n, up] => do
    let rc ← rc.toNat?
    let n ← n.toNat?
    let upExtra ← (if up == "-" then some [] else (codes? up).map (fun cs => [RR.opt { udpSize := 1232, doBit := true, options := cs }]))
    pure (fun c => (upstreamAnswer { setReply c.q with rcode := rc, answer := (List.range n).map (fun i => RR.rr [97] 16 300 i), extra := upExtra } c, false))
  | _ => none

def showReply (r : Msg) : String :=
  let q := match r.question with
    | [x] => s!"{Hex.encode x.name}/{x.qtype}/{x.qclass}"
    | _ => s!"#{r.question.length}"
  let opts := r.extra.filterMap (fun x => match x with | .opt o => some o | _ => none)
  let d := match opts with | [o] => Hex.showBool o.doBit | _ => "-"
  let cs := match opts with
    | [o] => if o.options.isEmpty then "-" else String.intercalate "+" (o.options.map (fun (p : Nat × Nat) => toString p.1))
    | _ => "-"
  s!"id={r.id} q={q} qr={Hex.showBool r.qr} ra={Hex.showBool r.ra} rcode={r.rcode} opt={opts.length} do={d} codes={cs}"

/-- `reply <udp> <id> <qr> <opcode> <rd> <cd> <nq> <name> <qtype> <qclass> <nAns> <nNs> <extras> <entry>` -/
def handle : List String → String
  | ["reply", _udp, id, qr, opc, rd, cd, nq, name, qt, qc, na, nn, ex, en] =>
    match id.toNat?, Hex.bool? qr, opc.toNat?, Hex.bool? rd, Hex.bool? cd, nq.toNat?, Hex.decode name, qt.toNat?, qc.toNat?,
          na.toNat?, nn.toNat?, extras? ex, entry? en with
    | some id, some qr, some opc, some rd, some cd, some nq, some name, some qt, some qc, some na, some nn, some ex, some en =>
      let q : Msg := { id := id, qr := qr, opcode := opc, rd := rd, cd := cd,
                       question := (List.range nq).map (fun i => ⟨if i = 0 then name else 120 :: name, qt, qc⟩),
                       answer := (List.range na).map (fun i => RR.rr name 1 1 i),
                       ns := (List.range nn).map (fun i => RR.rr name 2 1 i), extra := ex }
      match reply en (fun m _ => m) false q with
      | none => "drop"
      | some r => if packable r then showReply r else "drop"   -- an extended rcode without OPT cannot be packed
    | _, _, _, _, _, _, _, _, _, _, _, _, _ => "bad-op"
  | _ => "bad-op"

end Driver.Handler
