import MosdnsVerif.Base.Hex
import MosdnsVerif.Base.Facts
import MosdnsVerif.Gen.Facts
import MosdnsVerif.Model.C14
import MosdnsVerif.Refine.C14

namespace Driver.C14
open Model.C14

def ev? (s : String) : Option Ev :=
  if s == "ctx" then some .ctxDone
  else if s == "e" then some (.res .fail)
  else
    let rc? : Option Nat := match s.take 1 |>.toString with
      | "g" => some 0 | "x" => some 3 | "b" => some 2 | "f" => some 5 | _ => none
    match rc?, (s.drop 1).toString.toNat? with
    | some rc, some i => some (.res (.reply rc i))
    | _, _ => none

def showOut : Out → String
  | .reply rc f => s!"reply:{rc}:{f}" | .errAllFailed => "errAll" | .errCtx => "errCtx" | .pending => "pending"

def insertSorted (x : Nat) : List Nat → List Nat
  | [] => [x]
  | y :: ys => if x ≤ y then x :: y :: ys else y :: insertSorted x ys

/-- `fwd <n> <concurrent> <r> <events|->`; the clamp uses `maxConcurrentQueries` as read from the source -/
def handle : List String → String
  | ["fwd", n, c, r, evs] =>
    match n.toNat?, c.toInt?, r.toNat?, (if evs == "-" then some [] else (evs.splitOn ",").mapM ev?) with
    | some n, some c, some r, some evs =>
      let cl := clamp (Gen.Facts.c14MaxConcurrent.getD 0) c
      let picked := pick n r cl
      -- the collection loop runs the case body regenerated from the source (proved equal to `collect`)
      let out := Refine.C14.collectGen cl 0 evs
      let sorted := picked.foldl (fun acc x => insertSorted x acc) []
      s!"picked={".".intercalate (sorted.map toString)} out={showOut out}"
    | _, _, _, _ => "bad-op"
  -- `fwdx <n> <concurrent> <r> <events|-> <prev>`: the same call on a context that already holds `prev` (`-` = nothing,
  -- `rc:from` otherwise); additionally what the context holds after the call (`Exec` as the regenerated fact describes it)
  | ["fwdx", n, c, r, evs, prev] =>
    let slot? : Option Slot :=
      if prev == "-" then some none
      else match prev.splitOn ":" with
        | [a, b] => match a.toNat?, b.toNat? with
          | some a, some b => some (some (a, b))
          | _, _ => none
        | _ => none
    match n.toNat?, c.toInt?, r.toNat?, (if evs == "-" then some [] else (evs.splitOn ",").mapM ev?), slot? with
    | some n, some c, some r, some evs, some slot =>
      let cl := clamp (Gen.Facts.c14MaxConcurrent.getD 0) c
      let picked := pick n r cl
      let out := Refine.C14.collectGen cl 0 evs
      let sorted := picked.foldl (fun acc x => insertSorted x acc) []
      let ctx := match keepOf (Gen.Facts.c14ExecInstallsReply.getD false) with
        | none => "unknown"   -- the entry points are no longer exchange / return the error / SetResponse
        | some k => match (execWith k slot out).1 with
          | none => "-"
          | some (a, b) => s!"{a}:{b}"
      s!"picked={".".intercalate (sorted.map toString)} out={showOut out} ctx={ctx}"
    | _, _, _, _, _ => "bad-op"
  -- `cfg <targets> <subset|-> <concurrent> <r>`: the servers (dot-separated ids, sorted) that receive one query of a
  -- forward built by `NewForward` from entries whose own options designate `targets`, through all of them or a tag subset
  | ["cfg", ts, sub, c, r] =>
    let nats (s : String) : Option (List Nat) := (s.splitOn ".").mapM (·.toNat?)
    match nats ts, (if sub == "-" then some none else (nats sub).map some), c.toInt?, r.toNat? with
    | some ts, some sub, some c, some r =>
      match build (Gen.Facts.c14UpstreamPerEntry.getD false && Gen.Facts.c14EntryOptions.getD false) ts,
            wrapOf (Gen.Facts.c14WrapperTransparent.getD false) with
      | none, _ => "servers=unknown"   -- the source no longer builds one upstream per entry from its own options
      | _, none => "servers=unknown"   -- the wrapper is no longer one unconditional call of its upstream
      | some u, some _ =>
        let got := contacted (Gen.Facts.c14MaxConcurrent.getD 0) (inUse u sub) c r
        let sorted := got.foldl (fun acc x => insertSorted x acc) []
        s!"servers={".".intercalate (sorted.map toString)}"
    | _, _, _, _ => "bad-op"
  | _ => "bad-op"

end Driver.C14
