import MosdnsVerif.Lemmas.C20Inv.Core
namespace Lemmas.C20Inv
/-- configuration pAns=true sAns=true standby=false: every raw state, evaluated by the kernel -/
theorem check1 : checkCfg ⟨true, true, false, true⟩ = true := by decide +kernel
end Lemmas.C20Inv
