import MosdnsVerif.Lemmas.C20Inv.Core
namespace Lemmas.C20Inv
/-- configuration pAns=false sAns=false standby=true: every raw state, evaluated by the kernel -/
theorem check6 : checkCfg ⟨false, false, true, true⟩ = true := by decide +kernel
end Lemmas.C20Inv
