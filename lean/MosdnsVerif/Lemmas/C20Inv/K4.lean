import MosdnsVerif.Lemmas.C20Inv.Core
namespace Lemmas.C20Inv
/-- configuration pAns=false sAns=true standby=true: every raw state, evaluated by the kernel -/
theorem check4 : checkCfg ⟨false, true, true, true⟩ = true := by decide +kernel
end Lemmas.C20Inv
