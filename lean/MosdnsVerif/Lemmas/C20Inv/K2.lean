import MosdnsVerif.Lemmas.C20Inv.Core
namespace Lemmas.C20Inv
/-- configuration pAns=true sAns=false standby=true: every raw state, evaluated by the kernel -/
theorem check2 : checkCfg ⟨true, false, true, true⟩ = true := by decide +kernel
end Lemmas.C20Inv
