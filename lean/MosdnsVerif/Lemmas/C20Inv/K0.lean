import MosdnsVerif.Lemmas.C20Inv.Core
namespace Lemmas.C20Inv
/-- configuration pAns=true sAns=true standby=true: every raw state, evaluated by the kernel -/
theorem check0 : checkCfg ⟨true, true, true, true⟩ = true := by decide +kernel
end Lemmas.C20Inv
