import MosdnsVerif.Model.C20

/-! Kernel-checked inductiveness of `Model.C20.inv`: shared definitions.
(No dependency on the regenerated facts: these expensive modules are rebuilt
only when the model changes. One module per configuration so that lake
checks them in parallel.) -/
namespace Lemmas.C20Inv
open Model.C20

def bools : List Bool := [true, false]
def ress : List Res := [.none, .prim, .sec, .failed, .ctx]

def allSt : List St :=
  (List.finRange 4).flatMap fun a => (List.finRange 5).flatMap fun b => bools.flatMap fun pf =>
  (List.finRange 3).flatMap fun r => ress.flatMap fun res => bools.flatMap fun t => bools.flatMap fun cd =>
  bools.flatMap fun sc => bools.map fun sq => ⟨a, b, pf, r, res, t, cd, sc, sq⟩

theorem mem_bools (b : Bool) : b ∈ bools := by cases b <;> simp [bools]
theorem mem_ress (r : Res) : r ∈ ress := by cases r <;> simp [ress]
theorem mem_labels (l : Label) : l ∈ Label.all := by cases l <;> simp [Label.all]

theorem mem_allSt (s : St) : s ∈ allSt := by
  obtain ⟨a, b, pf, r, res, t, cd, sc, sq⟩ := s
  simp only [allSt, List.mem_flatMap, List.mem_map]
  exact ⟨a, List.mem_finRange a, b, List.mem_finRange b, pf, mem_bools pf, r, List.mem_finRange r, res, mem_ress res,
    t, mem_bools t, cd, mem_bools cd, sc, mem_bools sc, sq, mem_bools sq, rfl⟩

/-- a raw state is fine if it violates the invariant, or satisfies the
property's predicate and every enabled step keeps the invariant and starts
the secondary only with an excuse -/
def stateOk (c : Cfg) (s : St) : Bool :=
  !inv c s || (good c s && Label.all.all (fun l =>
    match step c s l with
    | none => true
    | some s' => inv c s' && goodStart c s s'))

def checkCfg (c : Cfg) : Bool := allSt.all fun s => stateOk c s

end Lemmas.C20Inv
