import MosdnsVerif.Lemmas.C20Inv.Core
namespace Lemmas.C20Inv
/-- configuration pAns=false sAns=false standby=false: every raw state, evaluated by the kernel -/
theorem check7 : checkCfg ⟨false, false, false, true⟩ = true := by decide +kernel
end Lemmas.C20Inv
