import MosdnsVerif.Base.Go

/-! Bit-level lemmas about 16-bit big-endian encoding (core-only, kernel-only). -/
namespace Lemmas.Bits

theorem u16_hi (n : Nat) (h : n < 65536) : ((UInt16.ofNat n) >>> 8).toUInt8 = UInt8.ofNat (n / 256) := by
  apply UInt8.toNat_inj.mp
  simp [UInt16.toNat_shiftRight, Nat.shiftRight_eq_div_pow]
  omega

theorem u16_lo (n : Nat) : (UInt16.ofNat n).toUInt8 = UInt8.ofNat (n % 256) := by
  apply UInt8.toNat_inj.mp
  simp

theorem getU16_toNat (x y : UInt8) : ((x.toUInt16 <<< 8) ||| y.toUInt16).toNat = x.toNat * 256 + y.toNat := by
  have hx := x.toNat_lt
  have hy := y.toNat_lt
  simp [UInt16.toNat_or, UInt16.toNat_shiftLeft]
  have : x.toNat <<< 8 % 65536 = x.toNat <<< 8 := by
    rw [Nat.shiftLeft_eq]; omega
  rw [this, ← Nat.shiftLeft_add_eq_or_of_lt (by omega), Nat.shiftLeft_eq]

end Lemmas.Bits
