import MosdnsVerif.Base.Go

/-! `io.ReadFull` on a chunked stream: independent of the chunking. -/
namespace Lemmas.Stream
open Go

/-- If the stream's bytes are `a ++ rest` with `a.length = n`, reading `n`
bytes yields exactly `a` whatever the chunk boundaries, and leaves a stream
whose bytes are `rest`. -/
theorem readFullAux_spec (cs : Stream) : ∀ (n : Nat) (acc a rest : Bytes),
    cs.flatten = a ++ rest → a.length = n →
    ∃ cs', readFullAux cs n acc = .ok (acc ++ a, cs') ∧ cs'.flatten = rest := by
  induction cs with
  | nil =>
    intro n acc a rest h hl
    simp at h
    obtain ⟨rfl, rfl⟩ := h
    simp at hl
    subst hl
    exact ⟨[], by simp [readFullAux], rfl⟩
  | cons chunk tl ih =>
    intro n acc a rest h hl
    cases n with
    | zero =>
      have : a = [] := List.eq_nil_of_length_eq_zero hl
      subst this
      exact ⟨chunk :: tl, by simp [readFullAux], by simpa using h⟩
    | succ n =>
      simp only [List.flatten_cons] at h
      unfold readFullAux
      by_cases hc : chunk.length ≤ n + 1
      · simp only [hc, if_true]
        -- chunk is a prefix of a
        have hpre : a = chunk ++ a.drop chunk.length := by
          have := congrArg (List.take chunk.length) h
          simp [List.take_append_of_le_length (by omega : chunk.length ≤ a.length)] at this
          conv => lhs; rw [← List.take_append_drop chunk.length a]
          rw [← this]
        have htl : tl.flatten = a.drop chunk.length ++ rest := by
          have := congrArg (List.drop chunk.length) h
          simp [List.drop_append_of_le_length (by omega : chunk.length ≤ a.length)] at this
          exact this
        obtain ⟨cs', h1, h2⟩ := ih (n + 1 - chunk.length) (acc ++ chunk) (a.drop chunk.length) rest htl (by simp; omega)
        refine ⟨cs', ?_, h2⟩
        rw [h1, List.append_assoc, ← hpre]
      · simp only [hc, if_false]
        have hlt : n + 1 < chunk.length := by omega
        have ha : a = chunk.take (n + 1) := by
          have := congrArg (List.take (n + 1)) h
          simp [List.take_append_of_le_length (by omega : n + 1 ≤ chunk.length)] at this
          rw [← hl] at this ⊢
          simpa using this.symm
        have hrest : rest = chunk.drop (n + 1) ++ tl.flatten := by
          have := congrArg (List.drop (n + 1)) h
          simp [List.drop_append_of_le_length (by omega : n + 1 ≤ chunk.length)] at this
          rw [← hl] at this ⊢
          simpa using this.symm
        exact ⟨chunk.drop (n + 1) :: tl, by rw [ha], by simp [hrest]⟩

/-- A successful read returns exactly `n` more bytes. -/
theorem readFullAux_length (cs : Stream) : ∀ (n : Nat) (acc r : Bytes) (cs' : Stream),
    readFullAux cs n acc = .ok (r, cs') → r.length = acc.length + n := by
  induction cs with
  | nil =>
    intro n acc r cs' h
    cases n with
    | zero => simp [readFullAux] at h; simp [← h.1]
    | succ n => simp [readFullAux] at h; split at h <;> cases h
  | cons chunk tl ih =>
    intro n acc r cs' h
    cases n with
    | zero => simp [readFullAux] at h; simp [← h.1]
    | succ n =>
      unfold readFullAux at h
      by_cases hc : chunk.length ≤ n + 1
      · simp only [hc, if_true] at h
        have := ih _ _ _ _ h
        simp at this; omega
      · simp only [hc, if_false] at h
        injection h with h
        injection h with h1 h2
        subst h1
        simp; omega

/-- The bytes are conserved: what was read followed by what is left is the
original stream content (after `acc`). -/
theorem readFullAux_conserve (cs : Stream) : ∀ (n : Nat) (acc r : Bytes) (cs' : Stream),
    readFullAux cs n acc = .ok (r, cs') → acc ++ cs.flatten = r ++ cs'.flatten := by
  induction cs with
  | nil =>
    intro n acc r cs' h
    cases n with
    | zero => simp [readFullAux] at h; simp [← h.1, ← h.2]
    | succ n => simp [readFullAux] at h; split at h <;> cases h
  | cons chunk tl ih =>
    intro n acc r cs' h
    cases n with
    | zero => simp [readFullAux] at h; simp [← h.1, ← h.2]
    | succ n =>
      unfold readFullAux at h
      by_cases hc : chunk.length ≤ n + 1
      · simp only [hc, if_true] at h
        have := ih _ _ _ _ h
        simpa using this
      · simp only [hc, if_false] at h
        injection h with h
        injection h with h1 h2
        subst h1; subst h2
        simp only [List.flatten_cons, List.append_assoc]
        rw [← List.append_assoc (List.take (n + 1) chunk), List.take_append_drop]

/-- A stream that holds fewer than `n` bytes makes the read fail. -/
theorem readFullAux_short (cs : Stream) : ∀ (n : Nat) (acc : Bytes),
    cs.flatten.length < n → ∃ e, readFullAux cs n acc = .error e := by
  induction cs with
  | nil =>
    intro n acc h
    cases n with
    | zero => simp at h
    | succ n => unfold readFullAux; split <;> exact ⟨_, rfl⟩
  | cons chunk tl ih =>
    intro n acc h
    cases n with
    | zero => simp at h
    | succ n =>
      simp only [List.flatten_cons, List.length_append] at h
      unfold readFullAux
      have hc : chunk.length ≤ n + 1 := by omega
      simp only [hc, if_true]
      exact ih _ _ (by omega)

end Lemmas.Stream
