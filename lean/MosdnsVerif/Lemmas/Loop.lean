import MosdnsVerif.Base.Go

/-! Reasoning principle for the `Go.loop` the translator emits for `for` loops:
an invariant `P` and a measure `m` that every iteration decreases. With at
least `m s` fuel the loop runs to the point where its condition is false. -/
namespace Go

theorem loop_inv {σ : Type} (P : σ → Prop) (m : σ → Nat) (cond : σ → Bool) (body : σ → σ)
    (hstep : ∀ s, P s → cond s = true → P (body s) ∧ m (body s) < m s) :
    ∀ (fuel : Nat) (s : σ), P s → m s ≤ fuel →
      P (loop fuel cond body s) ∧ cond (loop fuel cond body s) = false := by
  intro fuel
  induction fuel with
  | zero =>
    intro s hP hm
    unfold loop
    refine ⟨hP, ?_⟩
    cases hc : cond s with
    | false => rfl
    | true => have := (hstep s hP hc).2; omega
  | succ n ih =>
    intro s hP hm
    unfold loop
    cases hc : cond s with
    | false => simp [hP, hc]
    | true =>
      simp only [if_true]
      have := hstep s hP hc
      exact ih (body s) this.1 (by omega)

end Go
