import MosdnsVerif.Lemmas.C20Inv.K0
import MosdnsVerif.Lemmas.C20Inv.K1
import MosdnsVerif.Lemmas.C20Inv.K2
import MosdnsVerif.Lemmas.C20Inv.K3
import MosdnsVerif.Lemmas.C20Inv.K4
import MosdnsVerif.Lemmas.C20Inv.K5
import MosdnsVerif.Lemmas.C20Inv.K6
import MosdnsVerif.Lemmas.C20Inv.K7

namespace Lemmas.C20Inv
open Model.C20

theorem checkCfg_true : ∀ (a b d : Bool), checkCfg ⟨a, b, d, true⟩ = true
  | true, true, true => check0
  | true, true, false => check1
  | true, false, true => check2
  | true, false, false => check3
  | false, true, true => check4
  | false, true, false => check5
  | false, false, true => check6
  | false, false, false => check7

theorem stateOk_of (c : Cfg) (hsf : c.sendFirst = true) (s : St) : stateOk c s = true := by
  obtain ⟨a, b, d, e⟩ := c
  simp only at hsf; subst hsf
  have h := checkCfg_true a b d
  unfold checkCfg at h
  simp only [List.all_eq_true] at h
  exact h s (mem_allSt s)

end Lemmas.C20Inv
