import MosdnsVerif.Model.C07

/-! Kernel-evaluated exploration of the lock protocols of C07 (no dependency on
regenerated files: rebuilt only when the model changes). -/
namespace Lemmas.C07Locks
open Model.C07

def reuseInit : Sys := Sys.init reuseProgs 1 1 0
def reuseR : List Sys := explore reuseProgs 100 [reuseInit] [reuseInit]
def pipeInit : Sys := Sys.init pipeProgs 3 0 2
def pipeR : List Sys := explore pipeProgs 100 [pipeInit] [pipeInit]

def closedUnder (progs : List (List Act)) (R : List Sys) : Bool := R.all (fun s => (s.next progs).all (fun s' => R.contains s'))
def noDeadlock (progs : List (List Act)) (R : List Sys) : Bool := R.all (fun s => !s.deadlocked progs)

theorem reuse_check : (reuseR.contains reuseInit && closedUnder reuseProgs reuseR && noDeadlock reuseProgs reuseR) = true := by decide +kernel
theorem pipe_check : (pipeR.contains pipeInit && closedUnder pipeProgs pipeR && noDeadlock pipeProgs pipeR) = true := by decide +kernel


end Lemmas.C07Locks
