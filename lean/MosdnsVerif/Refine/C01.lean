import MosdnsVerif.Model.C01Exec
import MosdnsVerif.Gen.FnConn

/-! The executable hash-map state refines the model state. -/
namespace Refine.C01
open Model.C01

theorem fn_upd (t : Tbl) (k : Nat) (v : Option Nat) : (t.upd k v).fn = upd t.fn k v := by
  funext x
  cases v with
  | some v =>
    simp only [Tbl.upd, Tbl.fn, upd, Std.HashMap.getElem?_insert]
    by_cases h : x = k
    · subst h; simp
    · have : (k == x) = false := by simp; omega
      simp [this, h]
  | none =>
    simp only [Tbl.upd, Tbl.fn, upd, Std.HashMap.getElem?_erase]
    by_cases h : x = k
    · subst h; simp
    · have : (k == x) = false := by simp; omega
      simp [this, h]

theorem fn_empty : ({} : Tbl).fn = fun _ => none := by
  funext x; simp [Tbl.fn]

theorem abs_init : ({} : XPipe).abs = {} := by
  simp [XPipe.abs, fn_empty]

/-- **every step of the executable state is the model's step** -/
theorem step_abs (tries : Nat) (x : XPipe) (l : Label) :
    (x.step tries l).map XPipe.abs = x.abs.step tries l := by
  cases l with
  | add =>
    simp only [XPipe.step, Pipe.step]
    have : x.abs.table = x.table.fn := rfl
    have hn : x.abs.next = x.next := rfl
    rw [this, hn]
    cases alloc x.table.fn tries x.next with
    | mk r next' =>
      cases r with
      | none => simp [XPipe.abs]
      | some qid => simp [XPipe.abs, fn_upd]
  | reply w origin =>
    simp only [XPipe.step, Pipe.step]
    split
    · have : x.abs.table w = x.table.fn w := rfl
      rw [this]
      cases x.table.fn w with
      | none => simp
      | some c => simp [XPipe.abs, fn_upd]
    · simp
  | leave c =>
    simp only [XPipe.step, Pipe.step]
    have h1 : x.abs.widOf c = x.widOf.fn c := rfl
    rw [h1]
    cases x.widOf.fn c with
    | none => simp
    | some w =>
      simp only
      have h2 : x.abs.table w = x.table.fn w := rfl
      rw [h2]
      split
      · simp [XPipe.abs, fn_upd]
      · simp

def xrun (tries : Nat) : XPipe → List Label → Option XPipe
  | x, [] => some x
  | x, l :: ls => match x.step tries l with
    | none => none
    | some x' => xrun tries x' ls

theorem run_abs (tries : Nat) (ls : List Label) : ∀ x : XPipe, (xrun tries x ls).map XPipe.abs = x.abs.run tries ls := by
  induction ls with
  | nil => intro x; simp [xrun, Pipe.run]
  | cons l ls ih =>
    intro x
    simp only [xrun, Pipe.run]
    have := step_abs tries x l
    cases hx : x.step tries l with
    | none => rw [hx] at this; simp only [Option.map_none] at this; rw [← this]; simp
    | some x' => rw [hx] at this; simp only [Option.map_some] at this; rw [← this]; exact ih x'

/-! ## the id search, one try at a time

The body of `addQueueC`'s search loop is regenerated (T1): take `nextQid`, advance the 16-bit counter,
skip the id if it is still in the waiter table. -/

theorem try_spec (q0 : UInt16) (next : Nat) (h : next < 65536) (dup : Bool) :
    let r := Gen.addQueueTry q0 (UInt16.ofNat next) dup
    r.1 = !dup ∧ r.2.1.toNat = next ∧ r.2.2.toNat = (next + 1) % idSpace := by
  have e : (UInt16.ofNat next).toNat = next := by simp [UInt16.toNat_ofNat']; omega
  have e2 : (UInt16.ofNat next + 1).toNat = (next + 1) % 65536 := by
    rw [UInt16.toNat_add, e]; rfl
  cases dup <;> simp [Gen.addQueueTry, e, e2, idSpace]

/-- **one try of the model's id search is the regenerated loop body of `addQueueC`**, 16-bit wrap included -/
theorem alloc_step_eq_gen (table : Nat → Option Nat) (k next : Nat) (h : next < 65536) (q0 : UInt16) :
    alloc table (k + 1) next =
      (let r := Gen.addQueueTry q0 (UInt16.ofNat next) (table next).isSome
       if r.1 then (some r.2.1.toNat, r.2.2.toNat) else alloc table k r.2.2.toNat) := by
  have sp := try_spec q0 next h (table next).isSome
  simp only at sp
  obtain ⟨s1, s2, s3⟩ := sp
  simp only [alloc, s1, s2, s3]
  cases (table next).isSome <;> simp


end Refine.C01
