import MosdnsVerif.Model.C17
import MosdnsVerif.Gen.FnUpstream

namespace Refine.C17
open Model.C17

/-- All 256 values of the flags byte: the mask test of the code is the TC bit. -/
theorem mask_is_tc : ∀ x : Fin 256, ((UInt8.ofNat x.val &&& 2) != 0) = ((UInt8.ofNat x.val).toNat / 2 % 2 == 1) := by
  decide +kernel

theorem mask_is_tc' (x : UInt8) : ((x &&& 2) != 0) = (x.toNat / 2 % 2 == 1) := by
  have h := mask_is_tc ⟨x.toNat, x.toNat_lt⟩
  simpa using h

theorem msgTruncated_eq (b : Bytes) : Gen.msgTruncated b = tcBit b := by
  unfold Gen.msgTruncated tcBit Go.idx
  simpa using mask_is_tc' (b.getD 2 0)

theorem exchange_eq (udp tcp : Bytes → Except Nat Bytes) (q : Bytes) :
    Gen.udpWithFallbackExchange udp tcp q = exchange udp tcp q := by
  unfold Gen.udpWithFallbackExchange exchange
  cases h : udp q with
  | error e => rfl
  | ok r => simp [msgTruncated_eq]

end Refine.C17
