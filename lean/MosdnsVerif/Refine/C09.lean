import MosdnsVerif.Model.C09
import MosdnsVerif.Gen.FnConn
import MosdnsVerif.Gen.Facts

/-! The counter updates of the C09 model are the ones regenerated from the source (T1). -/
namespace Refine.C09
open Model.C09

/-- **`Tdc.step · .reserve` = regenerated `TraditionalDnsConn.ReserveNewQuery`** -/
theorem reserve_eq_gen (s : Tdc) :
    s.step .reserve =
      (match Gen.tdcReserveNewQuery s.closed s.queued s.reserved s.max with
       | (true, _, r) => some ({ s with reserved := r, h := s.h + 1, nres := s.nres + 1 }, .admitted)
       | (false, true, _) => some (s, .closed)
       | (false, false, _) => some (s, .refused)) := by
  unfold Gen.tdcReserveNewQuery
  simp only [Tdc.step]
  cases s.closed
  · by_cases h : s.queued + s.reserved ≥ (s.max : Int)
    · simp [h]
    · simp [h]
  · simp

/-- **`Tdc.step · .withdraw` = regenerated `WithdrawReserved`** -/
theorem withdraw_eq_gen (s : Tdc) (h : s.h ≠ 0) :
    s.step .withdraw = some ({ s with reserved := Gen.tdcWithdrawReserved s.reserved, h := s.h - 1 }, .none) := by
  simp [Tdc.step, h, Gen.tdcWithdrawReserved]

/-- **`Lazy.step · .withdraw` = regenerated early `WithdrawReserved`** -/
theorem lazy_withdraw_eq_gen (s : Lazy) (h : s.eh ≠ 0) :
    s.step .withdraw = some ({ s with wg := (Gen.lazyWithdrawReserved s.wg s.reserved).1,
                                      reserved := (Gen.lazyWithdrawReserved s.wg s.reserved).2, eh := s.eh - 1 }, .none) := by
  simp [Lazy.step, h, Gen.lazyWithdrawReserved]

/-! ### the waiter table counts the unanswered queries

`Tdc.step · (.enter true)` adds one to `queued` (= `len(dc.queue)`) for every
query that enters. In the code the entry is a map assignment `dc.queue[qid] = c`,
which adds an entry only if `qid` has none yet. The table is modelled as the list
of wire ids that have an entry; one try of the id search is the regenerated
`Gen.addQueueTry`, with `dup` = "the loop looks the id up in the table"
(`Gen.Facts.c01AllocSkipsIdsInUse`) and finds it. -/

/-- `dc.queue[qid] = c` on a Go map, seen from `len` -/
def tblSet (tbl : List UInt16) (qid : UInt16) : List UInt16 := if tbl.contains qid then tbl else qid :: tbl

/-- one try of `addQueueC`: the table after it if an id was assigned, and the counter -/
def addQueueStep (looksUp : Bool) (tbl : List UInt16) (next : UInt16) : Option (List UInt16) × UInt16 :=
  match Gen.addQueueTry 0 next (looksUp && tbl.contains next) with
  | (true, qid, n) => (some (tblSet tbl qid), n)
  | (false, _, n) => (none, n)

/-- **A query that is assigned an id adds one entry to the waiter table**, whatever
ids are waiting and wherever the 16-bit counter stands (also after it wrapped onto
the id of a query that is still unanswered): `queued := queued + 1` of the model is
what the code does, so `len(queue)` keeps counting the unanswered queries. -/
theorem enter_adds_one_entry (tbl tbl' : List UInt16) (next n : UInt16)
    (h : addQueueStep (Gen.Facts.c01AllocSkipsIdsInUse == some true) tbl next = (some tbl', n)) :
    tbl'.length = tbl.length + 1 := by
  have hf : (Gen.Facts.c01AllocSkipsIdsInUse == some true) = true := by decide
  rw [hf] at h
  unfold addQueueStep Gen.addQueueTry at h
  by_cases hc : next ∈ tbl
  · simp [hc] at h
  · simp [hc, tblSet] at h
    obtain ⟨h1, _⟩ := h
    subst h1
    simp

/-- witness: a search that does not look the id up overwrites the entry of a waiting
query when the counter comes back to its id: two unanswered queries, one entry -/
theorem no_lookup_loses_entry : addQueueStep false [5] 5 = (some [5], 6) := by decide

end Refine.C09
