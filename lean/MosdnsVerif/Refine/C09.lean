import MosdnsVerif.Model.C09
import MosdnsVerif.Gen.FnConn

/-! The counter updates of the C09 model are the ones regenerated from the source (T1). -/
namespace Refine.C09
open Model.C09

/-- **`Tdc.step · .reserve` = regenerated `TraditionalDnsConn.ReserveNewQuery`** -/
theorem reserve_eq_gen (s : Tdc) :
    s.step .reserve =
      (match Gen.tdcReserveNewQuery s.closed s.queued s.reserved s.max with
       | (true, _, r) => some ({ s with reserved := r, h := s.h + 1, nres := s.nres + 1 }, .admitted)
       | (false, true, _) => some (s, .closed)
       | (false, false, _) => some (s, .refused)) := by
  unfold Gen.tdcReserveNewQuery
  simp only [Tdc.step]
  cases s.closed
  · by_cases h : s.queued + s.reserved ≥ (s.max : Int)
    · simp [h]
    · simp [h]
  · simp

/-- **`Tdc.step · .withdraw` = regenerated `WithdrawReserved`** -/
theorem withdraw_eq_gen (s : Tdc) (h : s.h ≠ 0) :
    s.step .withdraw = some ({ s with reserved := Gen.tdcWithdrawReserved s.reserved, h := s.h - 1 }, .none) := by
  simp [Tdc.step, h, Gen.tdcWithdrawReserved]

/-- **`Lazy.step · .withdraw` = regenerated early `WithdrawReserved`** -/
theorem lazy_withdraw_eq_gen (s : Lazy) (h : s.eh ≠ 0) :
    s.step .withdraw = some ({ s with wg := (Gen.lazyWithdrawReserved s.wg s.reserved).1,
                                      reserved := (Gen.lazyWithdrawReserved s.wg s.reserved).2, eh := s.eh - 1 }, .none) := by
  simp [Lazy.step, h, Gen.lazyWithdrawReserved]

end Refine.C09
