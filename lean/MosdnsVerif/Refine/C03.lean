import MosdnsVerif.Model.Handler
import MosdnsVerif.Gen.FnHandler

/-! `Model.Handler.validUDPSize` is `getValidUDPSize` as regenerated from the source (T1),
for every advertised size that fits the 16-bit field it is carried in. -/
namespace Refine.C03
open Model.Handler

theorem validUDPSize_eq_gen (o : Option Opt) (h : ∀ x, o = some x → x.udpSize < 65536) :
    (validUDPSize o : Int) =
      Gen.getValidUDPSize o.isSome (match o with | some x => UInt16.ofNat x.udpSize | none => 0) := by
  unfold Gen.getValidUDPSize validUDPSize
  cases o with
  | none => simp
  | some x =>
    have hx := h x rfl
    have e : (UInt16.ofNat x.udpSize).toNat = x.udpSize := by
      simp [UInt16.toNat_ofNat']; omega
    simp only [Option.isSome_some, ↓reduceIte]
    by_cases hlt : UInt16.ofNat x.udpSize < 512
    · have : x.udpSize < 512 := by
        rw [UInt16.lt_iff_toNat_lt, e] at hlt; exact hlt
      simp only [hlt, decide_true, ↓reduceIte]
      rw [Nat.max_eq_right (by omega)]; rfl
    · have : ¬ x.udpSize < 512 := by
        intro hc; apply hlt; rw [UInt16.lt_iff_toNat_lt, e]; exact hc
      simp only [hlt, decide_false, Bool.false_eq_true, ↓reduceIte, e]
      rw [Nat.max_eq_left (by omega)]

end Refine.C03
