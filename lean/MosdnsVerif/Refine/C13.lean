import MosdnsVerif.Gen.FnNetlist
import MosdnsVerif.Lemmas.Loop
import MosdnsVerif.Props.C13

/-!
# Refinement for C13: the regenerated `List.Contains`

`Gen.listContains` is the Go function translated statement by statement
(binary search with `i, j, h`, then `list.e[i-1].Contains(addr)`). For a list
sorted by base address and enough fuel (`len(list.e)` iterations always
suffice) it computes: the **last** stored prefix whose base is `≤ addr`
decides - which is the model's `containsRev` on the reversed list.
-/
namespace Refine.C13

def SortedBase (e : List Go.Pfx) : Prop := e.Pairwise (fun p q => p.1 ≤ q.1)

/-- the last element whose base is `≤ a` -/
def lastLe (e : List Go.Pfx) (a : Nat) : Option Go.Pfx := e.reverse.find? (fun p => decide (p.1 ≤ a))

/-- Invariant of the search loop: everything left of `i` has base `≤ a`,
everything from `j` on has base `> a`. -/
structure SInv (e : List Go.Pfx) (a : Nat) (s : Int × Int) : Prop where
  lo : 0 ≤ s.1
  le : s.1 ≤ s.2
  hi : s.2 ≤ e.length
  left : ∀ k : Nat, (k : Int) < s.1 → (e.getD k (0, 0)).1 ≤ a
  right : ∀ k : Nat, s.2 ≤ (k : Int) → k < e.length → a < (e.getD k (0, 0)).1

theorem sorted_le {e : List Go.Pfx} (hs : SortedBase e) {k h : Nat} (hkh : k ≤ h) (hh : h < e.length) :
    (e.getD k (0, 0)).1 ≤ (e.getD h (0, 0)).1 := by
  have hk : k < e.length := by omega
  simp only [List.getD_eq_getElem?_getD, List.getElem?_eq_getElem hk, List.getElem?_eq_getElem hh, Option.getD_some]
  rcases Nat.lt_or_eq_of_le hkh with hlt | rfl
  · exact (List.pairwise_iff_getElem.mp hs) k h hk hh hlt
  · exact Nat.le_refl _

/-- One iteration keeps the invariant and shrinks `j - i`. -/
theorem search_step (e : List Go.Pfx) (hs : SortedBase e) (a : Nat) (i j : Int)
    (hP : SInv e a (i, j)) (hc : i < j) :
    let h : Int := (i + j) / 2
    (Go.cmpNat (Go.pfxAt e h).1 a ≤ 0 → SInv e a (h + 1, j) ∧ (j - (h + 1)).toNat < (j - i).toNat) ∧
    (¬ Go.cmpNat (Go.pfxAt e h).1 a ≤ 0 → SInv e a (i, h) ∧ (h - i).toNat < (j - i).toNat) := by
  intro h
  obtain ⟨h0, h1, h2, hl, hr⟩ := hP
  simp only at h0 h1 h2 hl hr
  have hih : i ≤ h := by omega
  have hhj : h < j := by omega
  have hh0 : 0 ≤ h := by omega
  have hhn : h.toNat < e.length := by omega
  constructor
  · intro hcmp
    have hle : (e.getD h.toNat (0, 0)).1 ≤ a := by
      unfold Go.cmpNat Go.pfxAt at hcmp
      split at hcmp
      · omega
      · split at hcmp
        · omega
        · omega
    refine ⟨⟨by simp only; omega, by simp only; omega, h2, ?_, hr⟩, by omega⟩
    intro k hk
    simp only at hk
    have hkh : k ≤ h.toNat := by omega
    exact Nat.le_trans (sorted_le hs hkh hhn) hle
  · intro hcmp
    have hgt : a < (e.getD h.toNat (0, 0)).1 := by
      unfold Go.cmpNat Go.pfxAt at hcmp
      split at hcmp
      · omega
      · split at hcmp
        · omega
        · omega
    refine ⟨⟨h0, by simp only; omega, by simp only; omega, hl, ?_⟩, by omega⟩
    intro k hk hkn
    simp only at hk
    have hhk : h.toNat ≤ k := by omega
    exact Nat.lt_of_lt_of_le hgt (sorted_le hs hhk hkn)

/-- If everything left of `n` has base `≤ a` and everything from `n` on has
base `> a`, the last element with base `≤ a` is `e[n-1]` (none if `n = 0`). -/
theorem lastLe_of_partition (e : List Go.Pfx) (a n : Nat) (hn : n ≤ e.length)
    (hl : ∀ k, k < n → (e.getD k (0, 0)).1 ≤ a)
    (hr : ∀ k, n ≤ k → k < e.length → a < (e.getD k (0, 0)).1) :
    lastLe e a = if n = 0 then none else some (e.getD (n - 1) (0, 0)) := by
  unfold lastLe
  have hsplit : e = e.take n ++ e.drop n := (List.take_append_drop n e).symm
  have hnone : (e.drop n).reverse.find? (fun p => decide (p.1 ≤ a)) = none := by
    rw [List.find?_eq_none]
    intro x hx
    rw [List.mem_reverse] at hx
    obtain ⟨k, hk, rfl⟩ := List.mem_iff_getElem.mp hx
    rw [List.length_drop] at hk
    rw [List.getElem_drop]
    have := hr (n + k) (by omega) (by omega)
    simp only [List.getD_eq_getElem?_getD, List.getElem?_eq_getElem (show n + k < e.length by omega), Option.getD_some] at this
    simp only [decide_eq_true_eq]; omega
  rw [hsplit, List.reverse_append, List.find?_append, hnone]
  simp only [Option.none_or]
  rw [← hsplit]
  by_cases h0 : n = 0
  · subst h0; simp
  · simp only [h0, if_false]
    have hlen : (e.take n).length = n := by rw [List.length_take]; omega
    have hne : e.take n ≠ [] := by intro h; rw [h] at hlen; simp at hlen; omega
    have hlast : (e.take n).getLast hne = e.getD (n - 1) (0, 0) := by
      rw [List.getLast_eq_getElem]
      simp only [hlen, List.getElem_take, List.getD_eq_getElem?_getD,
        List.getElem?_eq_getElem (show n - 1 < e.length by omega), Option.getD_some]
    obtain ⟨l', hl'⟩ : ∃ l', (e.take n).reverse = (e.take n).getLast hne :: l' := by
      refine ⟨(e.take n).dropLast.reverse, ?_⟩
      conv => lhs; rw [← List.dropLast_concat_getLast hne]
      simp
    rw [hl', List.find?_cons, hlast]
    have := hl (n - 1) (by omega)
    simp only [this, decide_true]

/-- **The regenerated `Contains` computes "the last prefix with base ≤ addr decides"** for every list
sorted by base, every address, and any fuel of at least `len(list.e)`. -/
theorem listContains_eq (e : List Go.Pfx) (hs : SortedBase e) (a fuel : Nat) (hf : e.length ≤ fuel) :
    Gen.listContains e true a fuel =
      (match lastLe e a with | none => false | some p => Go.pfxContains p a) := by
  unfold Gen.listContains
  simp only [Bool.not_true, Bool.false_eq_true, if_false]
  have hinit : SInv e a ((0 : Int), (e.length : Int)) :=
    ⟨by simp, by simp, by simp, by intro k hk; simp at hk; omega, by intro k hk hkn; simp at hk; omega⟩
  have hloop := Go.loop_inv (SInv e a) (fun s => (s.2 - s.1).toNat)
    (fun ((i, j) : Int × Int) => decide (i < j))
    (fun ((i, j) : Int × Int) =>
        let h : Int := ((i + j) / 2)
        let (i, j) :=
          if (decide ((Go.cmpNat (Go.pfxAt e h).1 a) ≤ (0 : Int))) then
            let i : Int := (h + (1 : Int))
            (i, j)
          else
            let j : Int := h
            (i, j)
        (i, j))
    (by
      rintro ⟨i, j⟩ hP hc
      simp only [decide_eq_true_eq] at hc
      have := search_step e hs a i j hP hc
      simp only at this
      by_cases hcmp : Go.cmpNat (Go.pfxAt e ((i + j) / 2)).1 a ≤ 0
      · simp only [hcmp, decide_true, if_true]
        exact this.1 hcmp
      · simp only [hcmp, decide_false, Bool.false_eq_true, if_false]
        exact this.2 hcmp)
    fuel ((0 : Int), (e.length : Int)) hinit (by simp; omega)
  generalize Go.loop fuel _ _ ((0 : Int), (e.length : Int)) = r at hloop
  obtain ⟨i, j⟩ := r
  obtain ⟨⟨h0, h1, h2, hl, hr⟩, hc⟩ := hloop
  simp only [decide_eq_false_iff_not] at hc h0 h1 h2 hl hr
  have hij : i = j := by omega
  subst hij
  have hpart := lastLe_of_partition e a i.toNat (by omega)
    (by intro k hk; exact hl k (by omega))
    (by intro k hk hkn; exact hr k (by omega) hkn)
  rw [hpart]
  by_cases hi0 : i = 0
  · subst hi0; simp
  · have : i.toNat ≠ 0 := by omega
    simp only [beq_iff_eq, hi0, if_false, this]
    unfold Go.pfxAt
    have : (i - 1).toNat = i.toNat - 1 := by omega
    rw [this]

theorem listContains_invalid (e : List Go.Pfx) (a fuel : Nat) : Gen.listContains e false a fuel = false := by
  unfold Gen.listContains; simp

/-- A stored `netip.Prefix` as the model's interval. -/
def toIv (p : Go.Pfx) : Model.C13.Iv := Model.C13.Iv.ofPrefix ⟨p.1, p.2⟩

open Model.C13 in
/-- **The regenerated `Contains` is the model's `containsRev`** (on the reversed slice) for every slice
of masked prefixes sorted by base - so the binary search is no longer a trusted specification. -/
theorem listContains_model (e : List Go.Pfx) (hs : SortedBase e)
    (hst : ∀ p ∈ e, Props.C13.Stored ⟨p.1, p.2⟩) (a fuel : Nat) (hf : e.length ≤ fuel) :
    Gen.listContains e true a fuel = containsRev (e.reverse.map toIv) a := by
  rw [listContains_eq e hs a fuel hf]
  unfold lastLe containsRev
  rw [List.find?_map]
  have hfun : ((fun p : Iv => decide (p.lo ≤ a)) ∘ toIv) = (fun p : Go.Pfx => decide (p.1 ≤ a)) := rfl
  rw [hfun]
  cases hfind : e.reverse.find? (fun p : Go.Pfx => decide (p.1 ≤ a)) with
  | none => rfl
  | some p =>
    have hmem : p ∈ e := List.mem_reverse.mp (List.mem_of_find?_eq_some hfind)
    simp only [Option.map_some]
    exact Props.C13.covers_iff_interval ⟨p.1, p.2⟩ (hst p hmem).1 a

/-! ## The regenerated text loaders

`Gen.loadFromTextPrefix` (`netlist.LoadFromText`, list files) and
`Gen.ipSetParsePrefix` (`ip_set.parseNetipPrefix`, inline `ips`) are the Go
functions with the `netip` parsers as parameters; both are the model's
`loadLine`, so the two loaders store the same prefix for the same line, and
a single-address line covers exactly that address. -/

open Model.C13 in
theorem loadFromText_eq (hasSlash : Bool) (pp : Option (PAddr × Int)) (pa : Option PAddr) :
    Gen.loadFromTextPrefix hasSlash pp pa = loadLine hasSlash pp pa := by
  unfold Gen.loadFromTextPrefix loadLine hostBits
  cases hasSlash
  · cases pa with
    | none => rfl
    | some a => obtain ⟨is6, x⟩ := a; cases is6 <;> rfl
  · cases pp <;> rfl

open Model.C13 in
theorem ipSetParse_eq (hasSlash : Bool) (pp : Option (PAddr × Int)) (pa : Option PAddr) :
    Gen.ipSetParsePrefix hasSlash pp pa = loadLine hasSlash pp pa := by
  unfold Gen.ipSetParsePrefix loadLine hostBits
  cases hasSlash
  · cases pa with
    | none => rfl
    | some a => obtain ⟨is6, x⟩ := a; cases is6 <;> rfl
  · rfl

/-- **The file loader and the inline loader agree on every line.** -/
theorem loaders_agree (hasSlash : Bool) (pp : Option ((Bool × Nat) × Int)) (pa : Option (Bool × Nat)) :
    Gen.loadFromTextPrefix hasSlash pp pa = Gen.ipSetParsePrefix hasSlash pp pa := by
  rw [loadFromText_eq, ipSetParse_eq]

open Model.C13 in
/-- **A single-address line of a list file**, in whatever form (`a.b.c.d`, `::ffff:a.b.c.d`, IPv6), is
accepted and the prefix `Append` stores for it covers exactly that address. -/
theorem text_host_line_single (pp : Option (PAddr × Int)) (a : PAddr) :
    ∃ r, Gen.loadFromTextPrefix false pp (some a) = some r ∧ ∀ y, (storeLine r).covers y = true ↔ y = a.to6 := by
  refine ⟨(a, hostBits a), by rw [loadFromText_eq]; rfl, ?_⟩
  intro y
  exact Props.C13.host_line_single a y

open Model.C13 in
theorem ipset_host_line_single (pp : Option (PAddr × Int)) (a : PAddr) :
    ∃ r, Gen.ipSetParsePrefix false pp (some a) = some r ∧ ∀ y, (storeLine r).covers y = true ↔ y = a.to6 := by
  refine ⟨(a, hostBits a), by rw [ipSetParse_eq]; rfl, ?_⟩
  intro y
  exact Props.C13.host_line_single a y

/-! ### the merge loop of `Sort` (regenerated body) is the model's `mergeStep` -/

open Model.C13 in
/-- What the regenerated body of `Sort`'s loop decides for the prefix `n`, given the last prefix kept so far
(`lv`, the head of the reversed `out`): 1 = append, 2 = replace `lv`, 0 = drop. On intervals `n.Bits() < lv.Bits()`
with equal base addresses is `lv.hi < n.hi`. -/
def applyMergeDecision (out : List Iv) (n : Iv) : List Iv :=
  match out with
  | [] => if Gen.sortMergeDecision 0 false false false == 1 then [n] else []
  | lv :: rest =>
    let d := Gen.sortMergeDecision 1 (decide (n.lo = lv.lo)) (decide (lv.hi < n.hi)) (lv.covers n.lo)
    if d == 1 then n :: lv :: rest else if d == 2 then n :: rest else lv :: rest

open Model.C13 in
/-- **Refinement**: one iteration of the loop in `List.Sort`, as regenerated from the source, is the model's
`mergeStep`; hence `Sort`'s merge is `mergeRev` and the theorems about `contains` apply to it. -/
theorem mergeStep_eq_gen (out : List Iv) (n : Iv) : mergeStep out n = applyMergeDecision out n := by
  cases out with
  | nil => simp [mergeStep, applyMergeDecision, Gen.sortMergeDecision]
  | cons lv rest =>
    simp only [mergeStep, applyMergeDecision, Gen.sortMergeDecision]
    by_cases h1 : n.lo = lv.lo
    · by_cases h2 : lv.hi < n.hi <;> simp [h1, h2]
    · by_cases h3 : lv.covers n.lo = true <;> simp [h1, h3]

open Model.C13 in
theorem mergeRev_eq_gen (l : List Iv) : mergeRev l = l.foldl applyMergeDecision [] := by
  unfold mergeRev
  congr 1
  funext out n
  exact mergeStep_eq_gen out n

end Refine.C13
