import MosdnsVerif.Model.C18
import MosdnsVerif.Gen.FnUpstream

namespace Refine.C18
open Model.C18

theorem tryTrimIpv6Brackets_eq (s : Bytes) : Gen.tryTrimIpv6Brackets s = trimBrackets s := by
  unfold Gen.tryTrimIpv6Brackets trimBrackets Go.idx Go.slice
  by_cases h : s.length < 2
  · have : ((s.length : Int) < 2) := by omega
    simp [h, this]
  · have h' : ¬ ((s.length : Int) < 2) := by omega
    have e1 : ((s.length : Int) - 1).toNat = s.length - 1 := by omega
    have e2 : ((s.length : Int) - 1).toNat - (1 : Int).toNat = s.length - 2 := by
      have : (1 : Int).toNat = 1 := rfl
      omega
    simp only [h, h', decide_false, Bool.false_eq_true, if_false, e1, e2]
    have e0 : (0 : Int).toNat = 0 := rfl
    have e3 : (1 : Int).toNat = 1 := rfl
    rw [e0, e3]
    have e4 : s.length - 1 - 1 = s.length - 2 := by omega
    by_cases c : s.getD 0 0 = lbr ∧ s.getD (s.length - 1) 0 = rbr
    · have c' := c
      simp only [List.getD_eq_getElem?_getD] at c'
      simp [c', e4, lbr, rbr] at c' ⊢
    · simp only [c, if_false]
      simp only [List.getD_eq_getElem?_getD] at c
      simp
      intro a b
      exact absurd ⟨a, b⟩ c

end Refine.C18
