import MosdnsVerif.Gen.FnNetlist
import MosdnsVerif.Model.C13

/-! T1 for `ip_set` plugins that reference other sets: the regenerated bodies of the two loops
(`MatcherGroup.Match` over the members, `NewIPSet` over `sets:`), iterated the way the Go `for … range`
statements iterate them (their shape: facts `c13GroupMatchShape`, `c13IPSetRangesSets`,
`c13IPSetOwnListFirst`), are the model's `groupMatch` and `addSets`. -/
namespace Refine.C13

/-- `for _, m := range mg { <regenerated body> }; return false`. -/
def groupLoop (ms : List (Nat → Bool)) (a : Nat) : Bool :=
  match ms with
  | [] => false
  | m :: t => if Gen.matcherGroupMatchStep (m a) then true else groupLoop t a

theorem groupLoop_eq (ms : List (Nat → Bool)) (a : Nat) : groupLoop ms a = Model.C13.groupMatch ms a := by
  induction ms with
  | nil => rfl
  | cons m t ih =>
    unfold groupLoop
    rw [ih]
    cases h : m a <;> simp [Gen.matcherGroupMatchStep, Model.C13.groupMatch, h]

/-- `for _, tag := range args.Sets { <regenerated body> }`: `built[j]?` is the plugin a tag names. -/
def setsLoop {M : Type} (built : List M) : List M → List Nat → Option (List M)
  | mg, [] => some mg
  | mg, j :: js => match Gen.newIPSetAddSet mg built[j]? with
    | none => none
    | some mg' => setsLoop built mg' js

/-- One pass of the loop body is one self-append of the referenced plugin's matcher (or the error). -/
theorem addSet_value {M : Type} (mg : List M) (r : Option M) :
    Gen.newIPSetAddSet mg r = r.map (fun m => mg ++ [m]) := by
  cases r <;> rfl

theorem setsLoop_eq (built : List (Nat → Bool)) (refs : List Nat) :
    ∀ mg, setsLoop built mg refs = Model.C13.addSets built mg refs := by
  induction refs with
  | nil => intro mg; rfl
  | cons j js ih =>
    intro mg
    unfold setsLoop Model.C13.addSets
    rw [addSet_value]
    cases built[j]? with
    | none => rfl
    | some m => exact ih _

end Refine.C13
