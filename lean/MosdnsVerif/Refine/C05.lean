import MosdnsVerif.Model.C05
import MosdnsVerif.Gen.FnCache

/-! The admission decision of the C05 model is the decision part of
`saveRespToCache` as regenerated from the source (T1), for every message:
truncation, the rcode switch, the constants 30 s / 5 s / 300 s, the lazy-cache
lifetime and the final `<= 0` test. -/
namespace Refine.C05
open Model.C05

theorem toNat_min_300 (t : UInt32) : (min t (300 : UInt32)).toNat = min t.toNat 300 := by
  show (if t ≤ 300 then t else 300).toNat = _
  split
  · rename_i h
    rw [UInt32.le_iff_toNat_le] at h
    have : (300 : UInt32).toNat = 300 := rfl
    rw [Nat.min_eq_left (by omega)]
  · rename_i h
    rw [UInt32.le_iff_toNat_le] at h
    have h3 : (300 : UInt32).toNat = 300 := rfl
    rw [Nat.min_eq_right (by omega)]; exact h3

/-- **`Model.C05.admission` = regenerated `saveRespToCache` decision** (lifetimes in ns) -/
theorem admission_eq_gen (lazyTtl : Int) (m : Msg) :
    Gen.saveRespToCacheTtl m.tc (m.rcode : Int) (minTTL m) (m.answer.length : Int) lazyTtl =
      (admission lazyTtl m).map (fun p => ((p.1 : Int) * 1000000000, (p.2 : Int) * 1000000000)) := by
  unfold Gen.saveRespToCacheTtl admission lifetimes
  cases htc : m.tc
  · simp only [Bool.false_eq_true, ↓reduceIte, bne_self_eq_false]
    by_cases h3 : m.rcode = 3
    · simp [h3]
    · by_cases h2 : m.rcode = 2
      · simp [h2]
      · by_cases h0 : m.rcode = 0
        · by_cases ha : m.answer.length = 0
          · simp [h0, ha, toNat_min_300]
            have e : min ((minTTL m).toNat : Int) 300 = ((min (minTTL m).toNat 300 : Nat) : Int) := by omega
            rw [e]
            rcases Nat.eq_zero_or_pos (minTTL m).toNat with hz | hp
            · simp [hz]
            · have h1 : ¬ ((min (minTTL m).toNat 300 : Nat) : Int) * 1000000000 ≤ 0 := by omega
              have h4 : ¬ (minTTL m).toNat = 0 := by omega
              simp [h1, h4]
          · simp [h0, ha]
            rcases Nat.eq_zero_or_pos (minTTL m).toNat with hz | hp
            · simp [hz]
            · have h1 : ¬ ((minTTL m).toNat : Int) * 1000000000 ≤ 0 := by omega
              have h4 : ¬ (minTTL m).toNat = 0 := by omega
              by_cases hl : 0 < lazyTtl
              · have h5 : ¬ lazyTtl * 1000000000 ≤ 0 := by omega
                have h6 : ¬ lazyTtl ≤ 0 := by omega
                have h7 : ((lazyTtl.toNat : Nat) : Int) = lazyTtl := Int.toNat_of_nonneg (by omega)
                simp [hl, h1, h4, h5, h6, h7]
              · simp [hl, h1, h4]
        · have i3 : ¬ (m.rcode : Int) = 3 := by omega
          have i2 : ¬ (m.rcode : Int) = 2 := by omega
          simp [h0, h2, h3, i3, i2]
  · simp
end Refine.C05
