import MosdnsVerif.Model.C05
import MosdnsVerif.Gen.FnCache
import MosdnsVerif.Gen.FnTtl

/-! The admission decision of the C05 model is the decision part of
`saveRespToCache` as regenerated from the source (T1), for every message:
truncation, the rcode switch, the constants 30 s / 5 s / 300 s, the lazy-cache
lifetime and the final `<= 0` test. -/
namespace Refine.C05
open Model.C05

theorem toNat_min_300 (t : UInt32) : (min t (300 : UInt32)).toNat = min t.toNat 300 := by
  show (if t ≤ 300 then t else 300).toNat = _
  split
  · rename_i h
    rw [UInt32.le_iff_toNat_le] at h
    have : (300 : UInt32).toNat = 300 := rfl
    rw [Nat.min_eq_left (by omega)]
  · rename_i h
    rw [UInt32.le_iff_toNat_le] at h
    have h3 : (300 : UInt32).toNat = 300 := rfl
    rw [Nat.min_eq_right (by omega)]; exact h3

/-- **`Model.C05.admission` = regenerated `saveRespToCache` decision** (lifetimes in ns) -/
theorem admission_eq_gen (lazyTtl : Int) (m : Msg) :
    Gen.saveRespToCacheTtl m.tc (m.rcode : Int) (minTTL m) (m.answer.length : Int) lazyTtl =
      (admission lazyTtl m).map (fun p => ((p.1 : Int) * 1000000000, (p.2 : Int) * 1000000000)) := by
  unfold Gen.saveRespToCacheTtl admission lifetimes
  cases htc : m.tc
  · simp only [Bool.false_eq_true, ↓reduceIte, bne_self_eq_false]
    by_cases h3 : m.rcode = 3
    · simp [h3]
    · by_cases h2 : m.rcode = 2
      · simp [h2]
      · by_cases h0 : m.rcode = 0
        · by_cases ha : m.answer.length = 0
          · simp [h0, ha, toNat_min_300]
            have e : min ((minTTL m).toNat : Int) 300 = ((min (minTTL m).toNat 300 : Nat) : Int) := by omega
            rw [e]
            rcases Nat.eq_zero_or_pos (minTTL m).toNat with hz | hp
            · simp [hz]
            · have h1 : ¬ ((min (minTTL m).toNat 300 : Nat) : Int) * 1000000000 ≤ 0 := by omega
              have h4 : ¬ (minTTL m).toNat = 0 := by omega
              simp [h1, h4]
          · simp [h0, ha]
            rcases Nat.eq_zero_or_pos (minTTL m).toNat with hz | hp
            · simp [hz]
            · have h1 : ¬ ((minTTL m).toNat : Int) * 1000000000 ≤ 0 := by omega
              have h4 : ¬ (minTTL m).toNat = 0 := by omega
              by_cases hl : 0 < lazyTtl
              · have h5 : ¬ lazyTtl * 1000000000 ≤ 0 := by omega
                have h6 : ¬ lazyTtl ≤ 0 := by omega
                have h7 : ((lazyTtl.toNat : Nat) : Int) = lazyTtl := Int.toNat_of_nonneg (by omega)
                simp [hl, h1, h4, h5, h6, h7]
              · simp [hl, h1, h4]
        · have i3 : ¬ (m.rcode : Int) = 3 := by omega
          have i2 : ¬ (m.rcode : Int) = 2 := by omega
          simp [h0, h2, h3, i3, i2]
  · simp
/-! ## the TTL helpers, record by record

The bodies of the innermost loops of `SubtractTTL`, `SetTTL` and `GetMinimalTTL` are regenerated (T1);
the loops themselves (one pass over Answer, Ns, Extra, every record once) are the fact
`c05TtlHelpersVisitEveryRecordOnce`. `ty` gives a record's type; the model only knows whether it is OPT (41). -/

theorem subRR_eq_gen (r : RR) (delta : UInt32) (ov : Bool) (rrtype : UInt16) (h : (rrtype == 41) = r.isOpt) :
    (Gen.subtractTTLStep rrtype r.ttl delta ov).1 = (subRR delta r).ttl := by
  unfold Gen.subtractTTLStep subRR
  cases ho : r.isOpt <;> simp [ho] at h ⊢
  · have : ¬ rrtype = 41 := h
    simp [this]
    split <;> simp_all
  · simp [h]

theorem setRR_eq_gen (r : RR) (t : UInt32) (rrtype : UInt16) (h : (rrtype == 41) = r.isOpt) :
    Gen.setTTLStep rrtype r.ttl t = (setRR t r).ttl := by
  unfold Gen.setTTLStep setRR
  cases ho : r.isOpt <;> simp [ho] at h ⊢
  · have : ¬ rrtype = 41 := h
    simp [this]
  · simp [h]

/-- the loops of `GetMinimalTTL` over the three sections, with the regenerated body -/
def codeMinTTL (ty : RR → UInt16) (m : Msg) : UInt32 :=
  let r := m.rrs.foldl (fun (acc : Bool × UInt32) rr => Gen.getMinimalTTLStep (ty rr) rr.ttl acc.1 acc.2) (false, 0xFFFFFFFF)
  if !r.1 then 0 else r.2

def minStep (a b : UInt32) : UInt32 := if b < a then b else a

theorem fold_inv (ty : RR → UInt16) (hty : ∀ rr, (ty rr == 41) = rr.isOpt) :
    ∀ (l : List RR) (acc : Bool × UInt32),
      l.foldl (fun (acc : Bool × UInt32) rr => Gen.getMinimalTTLStep (ty rr) rr.ttl acc.1 acc.2) acc =
      (acc.1 || (l.filter (fun r => !r.isOpt)).length != 0,
       ((l.filter (fun r => !r.isOpt)).map (·.ttl)).foldl minStep acc.2) := by
  intro l
  induction l with
  | nil => intro acc; simp
  | cons r rs ih =>
    intro acc
    simp only [List.foldl_cons]
    rw [ih]
    have h := hty r
    cases ho : r.isOpt
    · have hne : ¬ ty r = 41 := by simpa [ho] using h
      simp [Gen.getMinimalTTLStep, hne, ho, minStep]
    · have he : ty r = 41 := by simpa [ho] using h
      simp [Gen.getMinimalTTLStep, he, ho]

theorem minStep_max (t : UInt32) : minStep 0xFFFFFFFF t = t := by
  unfold minStep
  split
  · rfl
  · rename_i h
    have h1 : ¬ t.toNat < (0xFFFFFFFF : UInt32).toNat := by rwa [UInt32.lt_iff_toNat_lt] at h
    have h2 : (0xFFFFFFFF : UInt32).toNat = 4294967295 := rfl
    have h3 := t.toNat_lt
    apply UInt32.toNat_inj.mp
    omega

theorem minTTL_eq_gen (ty : RR → UInt16) (hty : ∀ rr, (ty rr == 41) = rr.isOpt) (m : Msg) :
    codeMinTTL ty m = minTTL m := by
  unfold codeMinTTL minTTL
  rw [fold_inv ty hty]
  cases hl : (m.rrs.filter (fun r => !r.isOpt)) with
  | nil => simp
  | cons r rs =>
    simp only [Bool.false_or, List.length_cons, List.map_cons, List.foldl_cons, minStep_max]
    have : minStep = (fun a b : UInt32 => if b < a then b else a) := by funext a b; rfl
    rw [this]
    simp


end Refine.C05
