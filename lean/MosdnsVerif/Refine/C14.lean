import MosdnsVerif.Model.C14
import MosdnsVerif.Gen.FnForward

/-! C14: the regenerated body of `case res := <-resChan` of the collection loop in
`Forward.exchange` is the step of the model's `collect`. -/
namespace Refine.C14
open Model.C14

/-- what the regenerated case body is given for a result -/
def failedOf : Res → Bool
  | .fail => true
  | .reply _ _ => false

def rcodeOf : Res → Int
  | .fail => 0
  | .reply rc _ => (rc : Int)

/-- one result at iteration `i < c`: the model's `collect` returns the reply exactly when the regenerated
case body says "return", and otherwise continues with iteration `i + 1`. -/
theorem collect_res_eq_gen (c i : Nat) (r : Res) (rest : List Ev) (hi : i < c) :
    collect c i (.res r :: rest) =
      if Gen.forwardCollectStep (i : Int) (c : Int) (failedOf r) (rcodeOf r) then
        (match r with | .reply rc f => Out.reply rc f | .fail => Out.errAllFailed)
      else collect c (i + 1) rest := by
  cases r with
  | fail => simp [collect, hi, Gen.forwardCollectStep, failedOf]
  | reply rc f =>
    have h1 : ((i : Int) < (c : Int) - 1) ↔ i < c - 1 := by omega
    have h0 : ((rc : Int) != 0) = !(rc == 0) := by
      cases hrc : (rc == 0) <;> simp_all <;> omega
    have h3 : ((rc : Int) != 3) = !(rc == 3) := by
      cases hrc : (rc == 3) <;> simp_all <;> omega
    simp only [collect, hi, if_true, Gen.forwardCollectStep, failedOf, rcodeOf, good, h0, h3]
    by_cases hl : i < c - 1
    · have hl' : ((i : Int) < (c : Int) - 1) := h1.mpr hl
      by_cases e0 : rc = 0
      · subst e0; simp [hl, hl']
      · by_cases e3 : rc = 3
        · subst e3; simp [hl, hl']
        · have b0 : (rc == 0) = false := by simp [e0]
          have b3 : (rc == 3) = false := by simp [e3]
          simp [hl, hl', b0, b3]
    · have hl' : ¬ ((i : Int) < (c : Int) - 1) := fun h => hl (h1.mp h)
      simp [hl, hl']

/-- a failed result is never returned by the regenerated step -/
theorem gen_step_fail (i c : Int) (rc : Int) : Gen.forwardCollectStep i c true rc = false := by
  simp [Gen.forwardCollectStep]

/-- a NOERROR / NXDOMAIN reply is always returned by the regenerated step, whatever the iteration -/
theorem gen_step_good (i c : Int) (rc : Int) (h : rc = 0 ∨ rc = 3) : Gen.forwardCollectStep i c false rc = true := by
  rcases h with h | h <;> simp [Gen.forwardCollectStep, h]

/-- the last iteration returns whatever reply arrives -/
theorem gen_step_last (c : Int) (rc : Int) : Gen.forwardCollectStep (c - 1) c false rc = true := by
  simp [Gen.forwardCollectStep]

/-- before the last iteration a reply with another rcode is skipped -/
theorem gen_step_bad_skipped (i c : Int) (rc : Int) (hi : i < c - 1) (h0 : rc ≠ 0) (h3 : rc ≠ 3) :
    Gen.forwardCollectStep i c false rc = false := by
  simp [Gen.forwardCollectStep, hi, h0, h3]

/-- The collection loop of `Forward.exchange` with the *regenerated* case body as its step: the loop
structure (`for i := 0; i < concurrent; i++`, the two select cases, the final error) is what the
T2 fact `c14CollectShape` pins; what is done with one result is `Gen.forwardCollectStep`. -/
def collectGen (c : Nat) : Nat → List Ev → Out
  | i, [] => if i < c then .pending else .errAllFailed
  | i, ev :: rest =>
    if i < c then
      match ev with
      | .ctxDone => .errCtx
      | .res r =>
        if Gen.forwardCollectStep (i : Int) (c : Int) (failedOf r) (rcodeOf r) then
          (match r with | .reply rc f => Out.reply rc f | .fail => Out.errAllFailed)
        else collectGen c (i + 1) rest
    else .errAllFailed

/-- **Refinement**: for every limit, iteration and arrival sequence the loop over the regenerated step is the
model's `collect`; every theorem of `Props.C14` about `collect` is a theorem about `collectGen`. -/
theorem collectGen_eq (c : Nat) : ∀ (evs : List Ev) (i : Nat), collectGen c i evs = collect c i evs := by
  intro evs
  induction evs with
  | nil => intro i; simp [collectGen, collect]
  | cons ev rest ih =>
    intro i
    by_cases hi : i < c
    · cases ev with
      | ctxDone => simp [collectGen, collect, hi]
      | res r =>
        rw [collect_res_eq_gen c i r rest hi]
        simp only [collectGen, hi, if_true, ih]
    · simp [collectGen, collect, hi]

end Refine.C14
