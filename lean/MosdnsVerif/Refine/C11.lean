import MosdnsVerif.Model.C11
import MosdnsVerif.Gen.FnStore

/-! The size clamp of the C11 model is `cache.Opts.init` as regenerated from the source (T1). -/
namespace Refine.C11
open Model.C11

/-- **`clampSize 1024` = regenerated `Opts.init`** for every configured size -/
theorem clamp_eq_gen (size : Int) : (clampSize 1024 size : Int) = Gen.cacheOptsInitSize size := by
  unfold clampSize Gen.cacheOptsInitSize
  by_cases h : size < 1024
  · simp [h]
  · simp [h]; omega

end Refine.C11
