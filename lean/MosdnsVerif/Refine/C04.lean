import MosdnsVerif.Model.C04
import MosdnsVerif.Gen.FnCache
/-! Refinement: the regenerated translation of `getMsgKey` (T1) equals the model. -/
namespace Refine.C04
open Base Model.C04

theorem flags_eq (q : Query) :
    (let b : UInt8 := 0
     let b := if q.ad then b ||| 1 else b
     let b := if q.cd then b ||| 2 else b
     let b := if q.dnssecOk then b ||| 4 else b
     b) = flags q := by
  unfold flags
  cases q.ad <;> cases q.cd <;> cases q.dnssecOk <;> decide

theorem getMsgKey_eq (q : Query) : Gen.getMsgKey q = msgKey q := by
  unfold Gen.getMsgKey msgKey cacheable
  by_cases hr : q.response = true
  · simp [hr]
  · by_cases ho : q.opcode = 0
    · by_cases hn : q.nQuestion = 1
      · have hf := flags_eq q
        simp only [Bool.not_eq_true] at hr
        have hlen : (6 + (q.name.length : Int)).toNat = q.name.length + 6 := by omega
        simp [hr, ho, hn, Go.make, Go.set, Go.copyAt, hlen, List.replicate_succ]
        simp at hf
        exact ⟨hf, by omega⟩
      · simp [hr, ho, hn]
    · simp [hr, ho]

end Refine.C04
