import MosdnsVerif.Model.C16
import MosdnsVerif.Lemmas.Bits
import MosdnsVerif.Gen.FnFraming

namespace Refine.C16
open Model.C16 Go Lemmas.Bits

theorem frame_lemma (b : Bytes) (h : b.length ≤ 65535) :
    Go.copyAt (Go.putU16 (Go.make ((b.length : Int) + 2)) 0 (Go.int16 b.length)) 2 b = hdr b.length ++ b := by
  have hlen : ((b.length : Int) + 2).toNat = b.length + 2 := by omega
  have hmod : ((b.length : Int) % 65536).toNat = b.length := by omega
  unfold Go.int16
  rw [hmod]
  simp [Go.make, Go.putU16, Go.set, Go.copyAt, hlen, List.replicate_succ, hdr, u16_hi b.length (by omega)]
  refine ⟨?_, by omega⟩
  apply UInt8.toNat_inj.mp
  simp

theorem writeRawMsgToTCP_eq (b : Bytes) : Gen.writeRawMsgToTCP b = frame b := by
  unfold Gen.writeRawMsgToTCP frame
  by_cases h : b.length > 65535
  · have : ((b.length : Int) > 65535) := by omega
    simp [h, this]
  · have : ¬ ((b.length : Int) > 65535) := by omega
    have hb : b.length ≤ 65535 := by omega
    simp only [this, decide_false, h, if_false, Bool.false_eq_true]
    simpa using frame_lemma b hb

theorem copyMsgWithLenHdr_eq (m : Bytes) : Gen.copyMsgWithLenHdr m = frame m := by
  unfold Gen.copyMsgWithLenHdr frame
  by_cases h : m.length > 65535
  · have : ((m.length : Int) > 65535) := by omega
    simp [h, this]
  · have : ¬ ((m.length : Int) > 65535) := by omega
    have hb : m.length ≤ 65535 := by omega
    simp only [this, decide_false, h, if_false, Bool.false_eq_true]
    simpa using frame_lemma m hb

theorem getU16_announced (h : Bytes) : (Go.getU16 h).toNat = announced h := by
  unfold Go.getU16 announced Go.idx
  simpa using getU16_toNat (h.getD 0 0) (h.getD 1 0)

theorem readRawMsgFromTCP_eq (c : Stream) : Gen.readRawMsgFromTCP c = readRaw c := by
  unfold Gen.readRawMsgFromTCP readRaw
  have h2 : (Go.make 2).length = 2 := by simp [Go.make]
  simp only [h2]
  cases hr : Go.readFull c 2 with
  | error e => rfl
  | ok p =>
    obtain ⟨h, c'⟩ := p
    simp only
    have hle : (Go.getU16 h < (12 : UInt16)) ↔ announced h < 12 := by
      rw [UInt16.lt_iff_toNat_lt, getU16_announced]; rfl
    by_cases ha : announced h < 12
    · simp [hle, ha]
    · simp only [hle, ha, decide_false, if_false, Bool.false_eq_true]
      have hm : (Go.make ((Go.getU16 h).toNat : Int)).length = announced h := by
        simp [Go.make, getU16_announced]
      simp only [hm]
      cases Go.readFull c' (announced h) with
      | error e => rfl
      | ok q => obtain ⟨b, c''⟩ := q; rfl

/-- `pool.PackTCPBuffer` (regenerated) frames the packed message exactly like the two raw writers. -/
theorem packTCPBuffer_eq (w : Bytes) : Gen.packTCPBuffer w = frame w := by
  unfold Gen.packTCPBuffer frame
  by_cases h : w.length > 65535
  · have : ((w.length : Int) > 65535) := by omega
    simp [h, this]
  · have : ¬ ((w.length : Int) > 65535) := by omega
    have hb : w.length ≤ 65535 := by omega
    have hc : (2 : Int) + (w.length : Int) = (w.length : Int) + 2 := by omega
    simp only [this, decide_false, h, if_false, Bool.false_eq_true, hc]
    simpa using frame_lemma w hb

/-- `pool.PackBuffer` (regenerated) hands out an exact private copy of the packed message. -/
theorem packBuffer_eq (w : Bytes) : Gen.packBuffer w = w := by
  unfold Gen.packBuffer
  simp [Go.make, Go.copyAt]

end Refine.C16
