import MosdnsVerif.Model.C20Time
import MosdnsVerif.Gen.FnFallback

/-!
# C20 - T1: the threshold `newFallbackPlugin` builds the plugin with

`Gen.fallbackThreshold` is regenerated from `newFallbackPlugin` (the value that
reaches `fastFallbackDuration` as a function of the configured `threshold`
argument). It is the model's `thresholdOf` with the default of 500 ms: every
positive configured threshold is used as it is, whatever its size.
-/
namespace Refine.C20
open Model.C20

theorem fallbackThreshold_eq (ms : Int) : Gen.fallbackThreshold ms = thresholdOf 500 ms := by
  unfold Gen.fallbackThreshold thresholdOf msNs
  by_cases h : ms ≤ 0
  · have h' : ms * 1000000 ≤ 0 := by omega
    simp [h, h']
  · have h' : ¬ ms * 1000000 ≤ 0 := by omega
    simp [h, h']

/-- **A configured threshold is the threshold.** For every positive `threshold`
argument - 1 ms, 4999 ms, 5000 ms, an hour - the plugin's timer duration is
exactly that many milliseconds. -/
theorem configured_threshold_honoured (ms : Int) (h : 0 < ms) : Gen.fallbackThreshold ms = ms * 1000000 := by
  rw [fallbackThreshold_eq]
  unfold thresholdOf msNs
  have : ¬ ms ≤ 0 := by omega
  simp [this]

/-- only a missing (non-positive) threshold gets the default -/
theorem default_only_when_unset (ms : Int) (h : ms ≤ 0) : Gen.fallbackThreshold ms = 500 * 1000000 := by
  rw [fallbackThreshold_eq]
  unfold thresholdOf msNs
  simp [h]

end Refine.C20
