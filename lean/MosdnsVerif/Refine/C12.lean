import MosdnsVerif.Model.C12
import MosdnsVerif.Base.Go
import MosdnsVerif.Gen.FnDomain

/-! The label sequence of the C12 model is what the code's scanner produces: `TrimDot`,
`ReverseDomainScanner.Scan` and `NextLabel` are regenerated from the source (T1); iterating the
regenerated `Scan` / `NextLabel` from the scanner's initial state (`p = t = len`) yields exactly
`Model.C12.scan`, for every byte string (`scan_refines`), and the regenerated `TrimDot` is the
model's (`trimDot_eq`); the regenerated `NormalizeDomain`, with `strings.ToLower` instantiated by byte-wise
ASCII lower-casing, is the model's `norm` (`normalize_refines`). -/
namespace Refine.C12
open Model.C12

theorem splitDots_ne_nil (s : Bytes) : splitDots s ≠ [] := by
  induction s with
  | nil => simp [splitDots]
  | cons c cs ih =>
    simp only [splitDots]
    split
    · simp
    · split <;> simp

theorem splitDots_append_dot (x y : Bytes) : splitDots (x ++ dot :: y) = splitDots x ++ splitDots y := by
  induction x with
  | nil => simp [splitDots]
  | cons c cs ih =>
    simp only [List.cons_append, splitDots]
    split
    · simp [ih]
    · rw [ih]
      cases h : splitDots cs with
      | nil => exact absurd h (splitDots_ne_nil cs)
      | cons l ls => simp

theorem splitDots_nodot (s : Bytes) (h : dot ∉ s) : splitDots s = [s] := by
  induction s with
  | nil => simp [splitDots]
  | cons c cs ih =>
    have hc : c ≠ dot := fun e => h (by simp [e])
    have hcs : dot ∉ cs := fun e => h (by simp [e])
    simp [splitDots, hc, ih hcs]

theorem last_dot_split (u : Bytes) (h : dot ∈ u) : ∃ pre lbl, u = pre ++ dot :: lbl ∧ dot ∉ lbl := by
  induction u with
  | nil => simp at h
  | cons c cs ih =>
    by_cases hcs : dot ∈ cs
    · obtain ⟨pre, lbl, e, hl⟩ := ih hcs
      exact ⟨c :: pre, lbl, by simp [e], hl⟩
    · have : c = dot := by
        simp only [List.mem_cons] at h
        rcases h with h | h
        · exact h.symm
        · exact absurd h hcs
      exact ⟨[], cs, by simp [this], hcs⟩

theorem lastIndexByte_nodot (s : Bytes) (c : UInt8) (h : c ∉ s) : Go.lastIndexByte s c = -1 := by
  induction s with
  | nil => rfl
  | cons x xs ih =>
    have hx : ¬ (x == c) = true := by simp; exact fun e => h (by simp [e])
    have hxs : c ∉ xs := fun e => h (by simp [e])
    simp [Go.lastIndexByte, ih hxs, hx]

theorem lastIndexByte_split (pre lbl : Bytes) (c : UInt8) (h : c ∉ lbl) :
    Go.lastIndexByte (pre ++ c :: lbl) c = pre.length := by
  induction pre with
  | nil => simp [Go.lastIndexByte, lastIndexByte_nodot lbl c h]
  | cons x xs ih =>
    simp only [List.cons_append, Go.lastIndexByte, ih]
    have : ((xs.length : Nat) : Int) ≥ 0 := by omega
    simp [this]

/-- the closed form of the model -/
def closed (u : Bytes) : List Label :=
  if u.isEmpty then [] else
  if u.head? = some dot then (splitDots u).reverse.dropLast else (splitDots u).reverse

theorem scan_eq_closed (s : Bytes) : scan s = closed (trimDot s) := by
  simp [scan, closed]

theorem closed_nodot (u : Bytes) (hne : u ≠ []) (h : dot ∉ u) : closed u = [u] := by
  have hh : u.head? ≠ some dot := by
    cases u with
    | nil => exact absurd rfl hne
    | cons c cs => simp; exact fun e => h (by simp [e])
  have : u.isEmpty = false := by cases u <;> simp_all
  simp [closed, this, hh, splitDots_nodot u h]

theorem closed_split (pre lbl : Bytes) (h : dot ∉ lbl) : closed (pre ++ dot :: lbl) = lbl :: closed pre := by
  have hne : (pre ++ dot :: lbl).isEmpty = false := by cases pre <;> simp
  simp only [closed, hne, Bool.false_eq_true, ↓reduceIte, splitDots_append_dot, splitDots_nodot lbl h, List.reverse_append,
    List.reverse_cons, List.reverse_nil, List.nil_append, List.singleton_append]
  cases pre with
  | nil => simp [splitDots]
  | cons c cs =>
    have hx : (splitDots (c :: cs)).reverse ≠ [] := by simp [splitDots_ne_nil]
    simp only [List.cons_append, List.head?_cons, List.isEmpty_cons, Bool.false_eq_true, ↓reduceIte]
    by_cases hc : some c = some dot
    · simp only [hc, ↓reduceIte]; rw [List.dropLast_cons_of_ne_nil hx]
    · simp only [hc, ↓reduceIte]

theorem slice_prefix (u rest : Bytes) : Go.slice (u ++ rest) 0 (u.length : Int) = u := by
  simp [Go.slice]

theorem slice_mid (pre lbl rest : Bytes) (x : UInt8) :
    Go.slice (pre ++ x :: lbl ++ rest) ((pre.length : Int) + 1) ((pre.length + 1 + lbl.length : Nat) : Int) = lbl := by
  simp only [Go.slice]
  have h1 : ((pre.length : Int) + 1).toNat = pre.length + 1 := by omega
  have h2 : (((pre.length + 1 + lbl.length : Nat) : Int)).toNat - (pre.length + 1) = lbl.length := by omega
  rw [h1, h2]
  have : pre ++ x :: lbl ++ rest = (pre ++ [x]) ++ (lbl ++ rest) := by simp
  rw [this]
  have hl : (pre ++ [x]).length = pre.length + 1 := by simp
  rw [← hl, List.drop_left]
  simp

def scanLoop (str : Bytes) : Nat → Int → Int → List Label
  | 0, _, _ => []
  | fuel + 1, p, t =>
    match Gen.scannerScan str p t with
    | (false, _, _) => []
    | (true, p', t') => Gen.scannerNextLabel str p' t' :: scanLoop str fuel p' t'

theorem scanLoop_stop (str : Bytes) (fuel : Nat) (p t : Int) (h : p ≤ 0) : scanLoop str fuel p t = [] := by
  cases fuel with
  | zero => rfl
  | succ f => simp [scanLoop, Gen.scannerScan, h]

theorem loop_spec (str : Bytes) : ∀ (n : Nat) (u rest : Bytes) (t : Int) (fuel : Nat),
    u.length ≤ n → str = u ++ rest → u.length < fuel → scanLoop str fuel (u.length : Int) t = closed u := by
  intro n
  induction n with
  | zero =>
    intro u rest t fuel hn _ _
    have : u = [] := by cases u <;> simp_all
    subst this
    rw [scanLoop_stop _ _ _ _ (by simp)]; rfl
  | succ n ih =>
    intro u rest t fuel hn hstr hfuel
    by_cases hu : u = []
    · subst hu; rw [scanLoop_stop _ _ _ _ (by simp)]; rfl
    · have hpos : 0 < u.length := List.length_pos_iff.mpr hu
      cases fuel with
      | zero => omega
      | succ f =>
        have hp : ¬ ((u.length : Int) ≤ 0) := by omega
        have hsl : Go.slice str 0 (u.length : Int) = u := by rw [hstr]; exact slice_prefix u rest
        by_cases hd : dot ∈ u
        · obtain ⟨pre, lbl, e, hl⟩ := last_dot_split u hd
          have hi : Go.lastIndexByte u (46 : UInt8) = pre.length := by rw [e]; exact lastIndexByte_split pre lbl dot hl
          have hlen : u.length = pre.length + 1 + lbl.length := by rw [e]; simp; omega
          have hlab : Go.slice str ((pre.length : Int) + 1) (u.length : Int) = lbl := by
            rw [hlen, hstr, e]
            exact slice_mid pre lbl rest dot
          simp only [scanLoop, Gen.scannerScan, hp, decide_false, Bool.false_eq_true, ↓reduceIte, hsl, hi, Gen.scannerNextLabel, hlab]
          rw [ih pre (dot :: lbl ++ rest) _ f (by omega) (by rw [hstr, e]; simp) (by omega)]
          rw [e, closed_split pre lbl hl]
        · have hi : Go.lastIndexByte u (46 : UInt8) = -1 := lastIndexByte_nodot u dot hd
          simp only [scanLoop, Gen.scannerScan, hp, decide_false, Bool.false_eq_true, ↓reduceIte, hsl, hi, Gen.scannerNextLabel]
          rw [scanLoop_stop _ _ _ _ (by omega)]
          have : Go.slice str (-1 + 1) (u.length : Int) = u := by simpa using hsl
          rw [this, closed_nodot u hu hd]

theorem trimDot_eq (s : Bytes) : Gen.trimDot s = trimDot s := by
  rcases List.eq_nil_or_concat s with rfl | ⟨init, x, rfl⟩
  · simp [Gen.trimDot, trimDot]
  · have hlen : (((init ++ [x]).length : Nat) : Int) - 1 = (init.length : Int) := by simp
    have hge : decide ((((init ++ [x]).length : Nat) : Int) ≥ 1) = true := by simp; omega
    have hidx : Go.idx (init ++ [x]) (init.length : Int) = x := by simp [Go.idx]
    have hsl : Go.slice (init ++ [x]) 0 (init.length : Int) = init := slice_prefix init [x]
    have hlen2 : (((init ++ [x]).length : Nat) : Int) = (init.length : Int) + 1 := by simp
    by_cases hx : x = dot
    · subst hx
      have hd : Go.idx (init ++ [dot]) (init.length : Int) = (46 : UInt8) := hidx
      simp [Gen.trimDot, trimDot, hlen2, hd, hsl]
      omega
    · have hne : ¬ Go.idx (init ++ [x]) (init.length : Int) = (46 : UInt8) := by rw [hidx]; exact hx
      simp [Gen.trimDot, trimDot, hlen2, hne, hx]

/-- `strings.ToLower` on an ASCII string: the 26 upper-case letters move down by 32, every
other byte stays (trusted library semantics, stated here once). -/
def asciiToLower (s : Bytes) : Bytes := s.map lower

/-- **The regenerated `NormalizeDomain` is the model's `norm`**, for every byte string: whatever
the body of the Go function is, it has to compute "lower-case every byte of `TrimDot s`". -/
theorem normalize_refines (s : Bytes) : Gen.normalizeDomain asciiToLower s = norm s := by
  simp [Gen.normalizeDomain, asciiToLower, norm, trimDot_eq]

/-- **Iterating the regenerated `Scan` / `NextLabel` from the scanner's initial state yields exactly the
label sequence of the model**, for every byte string. -/
theorem scan_refines (s : Bytes) :
    scanLoop (Gen.trimDot s) ((Gen.trimDot s).length + 1) ((Gen.trimDot s).length : Int) ((Gen.trimDot s).length : Int) = scan s := by
  rw [scan_eq_closed, ← trimDot_eq]
  exact loop_spec _ _ (Gen.trimDot s) [] _ _ (Nat.le_refl _) (by simp) (by omega)

end Refine.C12
