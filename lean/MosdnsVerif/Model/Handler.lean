import MosdnsVerif.Base.Go

/-! Model of the query context (`pkg/query_context`) and of
`EntryHandler.Handle` (`pkg/server_handler`), shared by C03, C10 and C15.

A message keeps the fields mosdns reads or writes. Records are either the OPT
pseudo-record (with its UDP size, DO bit and option list) or an ordinary
record of which only owner name, type, TTL and an opaque payload id matter. -/
namespace Model.Handler

structure Opt where
  udpSize : Nat
  doBit : Bool
  extRcode : Nat := 0
  version : Nat := 0
  options : List (Nat × Nat)      -- (option code, opaque payload id)
  deriving DecidableEq, Repr

inductive RR where
  | opt (o : Opt)
  | rr (name : Bytes) (rtype : Nat) (ttl : Nat) (data : Nat)
  deriving DecidableEq, Repr

def RR.isOpt : RR → Bool | .opt _ => true | .rr .. => false

@[simp] theorem RR.isOpt_opt (o : Opt) : (RR.opt o).isOpt = true := rfl
@[simp] theorem RR.isOpt_rr (n : Bytes) (t l d : Nat) : (RR.rr n t l d).isOpt = false := rfl

structure Question where
  name : Bytes
  qtype : Nat
  qclass : Nat
  deriving DecidableEq, Repr

structure Msg where
  id : Nat
  qr : Bool := false
  opcode : Nat := 0
  rd : Bool := false
  ra : Bool := false
  cd : Bool := false
  tc : Bool := false
  rcode : Nat := 0
  question : List Question
  answer : List RR := []
  ns : List RR := []
  extra : List RR := []
  deriving DecidableEq, Repr

def Msg.countOpt (m : Msg) : Nat := (m.extra.filter RR.isOpt).length

/-- `(*dns.Msg).SetReply` -/
def setReply (q : Msg) : Msg :=
  { id := q.id, qr := true, opcode := q.opcode,
    rd := if q.opcode = 0 then q.rd else false,
    cd := if q.opcode = 0 then q.cd else false,
    rcode := 0,
    question := q.question.take 1 }

/-- `query_context.newOpt`: UDP size 1200, no option, DO clear. -/
def freshOpt : Opt := { udpSize := 1200, doBit := false, options := [] }

/-- replace the last OPT of a record list by a fresh one; `none` if there is no OPT -/
def swapOptAux : List RR → Option (List RR × Opt)
  | [] => none
  | r :: rs =>
    match swapOptAux rs with
    | some (rs', o) => some (r :: rs', o)
    | none =>
      match r with
      | .opt o => some (.opt freshOpt :: rs, o)
      | .rr .. => none

/-- `addNewAndSwapOldOpt`: the last OPT (if any) is replaced by a fresh one
and returned; otherwise a fresh one is appended. -/
def swapOpt (extra : List RR) : List RR × Option Opt :=
  match swapOptAux extra with
  | some (l, o) => (l, some o)
  | none => (extra ++ [.opt freshOpt], none)

/-- `popOpt`: remove and return the last OPT. -/
def popOpt : List RR → List RR × Option Opt
  | [] => ([], none)
  | r :: rs =>
    match popOpt rs with
    | (rs', some o) => (r :: rs', some o)
    | (_, none) =>
      match r with
      | .opt o => (rs, some o)
      | .rr .. => (r :: rs, none)

structure Ctx where
  q : Msg                    -- the query as plugins and upstreams see it
  clientOpt : Option Opt
  resp : Option Msg
  respOpt : Option Opt
  upstreamOpt : Option Opt
  deriving DecidableEq, Repr

/-- `query_context.NewContext` -/
def newContext (q : Msg) : Ctx :=
  let (extra, old) := swapOpt q.extra
  { q := { q with extra := extra }, clientOpt := old, resp := none,
    respOpt := old.map (fun o => { freshOpt with doBit := o.doBit }),
    upstreamOpt := none }

/-- `Context.SetResponse` -/
def Ctx.setResponse (c : Ctx) (m : Option Msg) : Ctx :=
  match m with
  | none => { c with resp := none, upstreamOpt := none }
  | some m =>
    let (extra, o) := popOpt m.extra
    { c with resp := some { m with extra := extra }, upstreamOpt := o }

/-- the first check of `Handle` -/
def validQuery (q : Msg) : Bool :=
  !q.qr && q.question.length == 1 && (q.answer.length + q.ns.length == 0) && q.extra.length ≤ 1

/-- `getValidUDPSize` -/
def validUDPSize (o : Option Opt) : Nat :=
  match o with
  | some o => max o.udpSize 512
  | none => 512

/-- the response `Handle` starts from: SERVFAIL built from the query if the
entry failed, the plugins' response, or REFUSED built from the query -/
def base (c : Ctx) (failed : Bool) : Msg :=
  if failed then { setReply c.q with rcode := 2 }
  else match c.resp with
    | some r => r
    | none => { setReply c.q with rcode := 5 }

/-- RA forced, response OPT attached, then (UDP) truncation to the client's size -/
def finish (truncate : Msg → Nat → Msg) (fromUDP : Bool) (c : Ctx) (m : Msg) : Msg :=
  let m := { m with ra := true }
  let m := match c.respOpt with
    | some o => { m with extra := m.extra ++ [.opt o] }
    | none => m
  if fromUDP then truncate m (validUDPSize c.clientOpt) else m

/-- The message `EntryHandler.Handle` hands to the packer; `none` = the query
is dropped. The entry sequence maps a context to the final context and an
error flag (plugins mutate the context in place, so the final context exists
on the error path too); `truncate` is `(*dns.Msg).Truncate`. -/
def reply (entry : Ctx → Ctx × Bool) (truncate : Msg → Nat → Msg) (fromUDP : Bool) (q : Msg) : Option Msg :=
  if !validQuery q then none else
  let r := entry (newContext q)
  some (finish truncate fromUDP r.1 (base r.1 r.2))

/-- What miekg's packer refuses whatever the size: an extended rcode (above 15) lives in the OPT record's TTL
field, so a message that carries one and no OPT cannot be put on the wire (`ErrExtendedRcode`); `Handle` then logs
and sends nothing. -/
def packable (m : Msg) : Bool := decide (m.rcode ≤ 15) || decide (0 < m.countOpt)

/-- `EntryHandler.Handle`: `pack` is the wire packer of the transport; `none` = no reply is sent. -/
def handle (entry : Ctx → Ctx × Bool) (truncate : Msg → Nat → Msg) (pack : Msg → Option Bytes)
    (fromUDP : Bool) (q : Msg) : Option Bytes :=
  (reply entry truncate fromUDP q).bind pack

/-! ### Plugin models (what they do to the context) -/

/-- locally generated answer: `SetReply(qCtx.Q())` + rcode + records
(reject, hosts, black_hole, arbitrary, `GenEmptyReply`) -/
def localAnswer (rcode : Nat) (answer ns : List RR) (c : Ctx) : Ctx :=
  c.setResponse (some { setReply c.q with rcode := rcode, answer := answer, ns := ns })

/-- cache hit: the stored message (a copy) with the ID of the query -/
def cacheHit (stored : Msg) (c : Ctx) : Ctx :=
  c.setResponse (some { stored with id := c.q.id })

/-- an upstream (forward) answered `r`: the transports restore the caller's ID (C01) -/
def upstreamAnswer (r : Msg) (c : Ctx) : Ctx := c.setResponse (some r)

def renameQ (m : Msg) (from_ to : Bytes) : Msg :=
  { m with question := m.question.map (fun x => if x.name = from_ then { x with name := to } else x) }

/-- `redirect.Exec` around the rest of the chain `next` for a matching rule
`org ↦ target` (class IN, one question). -/
def redirect (target : Bytes) (next : Ctx → Ctx × Bool) (c : Ctx) : Ctx × Bool :=
  match c.q.question with
  | [qq] =>
    let c1 := { c with q := { c.q with question := [{ qq with name := target }] } }
    let (c2, err) := next c1
    -- reply: names equal to the target are restored, a CNAME is put in front
    let c3 := match c2.resp with
      | some r => { c2 with resp := some { renameQ r target qq.name with answer := .rr qq.name 5 1 0 :: r.answer } }
      | none => c2
    -- deferred: the query's name is restored on every path
    ({ c3 with q := { c3.q with question := c3.q.question.map (fun x => { x with name := qq.name }) } }, err)
  | _ => next c

end Model.Handler
