import MosdnsVerif.Base.Go

/-! Model of C03, section (7): `redirect` (rewrites the question name of the query and, when the rest of the chain has
returned, restores it IN PLACE in query and reply) composed with `cache` (keeps a copy of the reply across queries), in
any order, one chain asked several names.

Messages are heap objects. What matters here is the backing array of a message's `Question` slice: `copyNoOpt` (the copy
`saveRespToCache` stores) either allocates a new one (`copyQ = true`, the regenerated fact `c03CacheStoreCopiesQuestion`)
or shares the one of the live reply (`copyQ = false`); in the second case the in-place restore of a redirect ABOVE the
cache also renames the stored entry. An entry remembers in `shared` the cell it shares its question with. -/
namespace Model.C03Store

structure Resp where
  id : Nat
  qname : Bytes
  rcode : Nat
  obj : Nat        -- identity of the message object (`cachedResp != r` in cache.Exec is a pointer comparison)
  qcell : Nat      -- identity of the backing array of its Question slice
  deriving DecidableEq, Repr

structure Entry where
  cache : Nat               -- which cache plugin of the chain
  key : Bytes × Bool        -- getMsgKey: question name as asked (case kept), CD (type, class, DO are fixed per history)
  qname : Bytes             -- the stored message's question name
  rcode : Nat
  shared : Option Nat       -- the cell its Question slice shares with a live reply, if any
  deriving DecidableEq, Repr

inductive Plug where
  | redirect (pattern target : Bytes)   -- a `full` rule, pattern in FQDN form
  | cache (i : Nat)
  | accept                              -- `matches: has_resp, exec: accept`
  deriving DecidableEq, Repr

structure Ctx where
  qid : Nat
  qname : Bytes
  cd : Bool
  resp : Option Resp
  deriving DecidableEq, Repr

structure World where
  entries : List Entry := []   -- newest first
  fresh : Nat := 0
  deriving DecidableEq, Repr

def lower (b : Bytes) : Bytes := b.map (fun c => if 65 ≤ c ∧ c ≤ 90 then c + 32 else c)

def lookup (w : World) (i : Nat) (key : Bytes × Bool) : Option Entry :=
  w.entries.find? (fun e => e.cache == i && e.key == key)

/-- the in-place restore of the reply's question: every stored entry that shares the cell is renamed with it -/
def renameShared (cell : Nat) (name : Bytes) (es : List Entry) : List Entry :=
  es.map (fun e => if e.shared = some cell then { e with qname := name } else e)

/-- the copy of a stored message a hit puts into the context: new objects, the ID of the query -/
def hitResp (c : Ctx) (w : World) (e : Entry) : Resp :=
  { id := c.qid, qname := e.qname, rcode := e.rcode, obj := w.fresh, qcell := w.fresh + 1 }

def store (copyQ : Bool) (i : Nat) (key : Bytes × Bool) (r : Resp) (w : World) : World :=
  { w with entries := { cache := i, key := key, qname := r.qname, rcode := r.rcode,
                        shared := if copyQ then none else some r.qcell } :: w.entries }

/-- the end of `cache.Exec`: the response the context holds when the rest of the chain has returned is stored under the
key unless it is the object `before` (a pointer comparison) -/
def finishCache (copyQ : Bool) (i : Nat) (key : Bytes × Bool) (before : Option Nat) (res : Ctx × World) : Ctx × World :=
  match res.1.resp with
  | some r => if before = some r.obj then res else (res.1, store copyQ i key r res.2)
  | none => res

/-- one query through the chain; the last plugin (the empty chain) is an upstream that echoes the question and leaves an
existing response alone (`matches: "!has_resp"` + forward).

`storeNew` is the regenerated fact `c03CacheStoresOnlyNewResponse`: `cache.Exec` compares the final response with the
response the context held immediately before the rest of the chain ran (`rBefore`: its own hit, or what a plugin in
front of it had set); `false` is the code before F16, which compared with its own hit only (`cachedResp != r`), so a
miss stored whatever response the context held - also one that a plugin in front of the cache had produced for another
question. -/
def run (copyQ storeNew : Bool) : List Plug → Ctx → World → Ctx × World
  | [], c, w =>
    if c.resp.isSome then (c, w)
    else ({ c with resp := some { id := c.qid, qname := c.qname, rcode := 0, obj := w.fresh, qcell := w.fresh + 1 } },
          { w with fresh := w.fresh + 2 })
  | .accept :: rest, c, w => if c.resp.isSome then (c, w) else run copyQ storeNew rest c w
  | .redirect pat target :: rest, c, w =>
    if lower c.qname = lower pat then
      let org := c.qname
      let (c2, w2) := run copyQ storeNew rest { c with qname := target } w
      match c2.resp with
      | some r =>
        if r.qname = target then
          ({ c2 with qname := org, resp := some { r with qname := org } },
           { w2 with entries := renameShared r.qcell org w2.entries })
        else ({ c2 with qname := org }, w2)
      | none => ({ c2 with qname := org }, w2)
    else run copyQ storeNew rest c w
  | .cache i :: rest, c, w =>
    match lookup w i (c.qname, c.cd) with
    | some e =>
      finishCache copyQ i (c.qname, c.cd) (some w.fresh)
        (run copyQ storeNew rest { c with resp := some (hitResp c w e) } { w with fresh := w.fresh + 2 })
    | none =>
      finishCache copyQ i (c.qname, c.cd) (if storeNew then c.resp.map (·.obj) else none) (run copyQ storeNew rest c w)

/-- what the handler sends for the query: (id, question name, rcode); REFUSED built from the query without a response -/
def replyOf (c : Ctx) : Nat × Bytes × Nat :=
  match c.resp with
  | some r => (r.id, r.qname, r.rcode)
  | none => (c.qid, c.qname, 5)

/-- a history of queries (id, name, CD) to one chain; the replies in order -/
def history (copyQ storeNew : Bool) (chain : List Plug) : List (Nat × Bytes × Bool) → World → List (Nat × Bytes × Nat)
  | [], _ => []
  | (id, name, cd) :: qs, w =>
    let r := run copyQ storeNew chain { qid := id, qname := name, cd := cd, resp := none } w
    replyOf r.1 :: history copyQ storeNew chain qs r.2

/-- The background refresh of a lazy cache `i` that had a stale hit for the question of `c` (`doLazyUpdate`): the plugins
BEHIND the cache (`rest`) run on a copy of the context - `Context.Copy` copies the response too, so a response the
context carried when it reached the cache (the hit of a cache in front of a redirect) is in the copy, as a new object -
and the response the copy holds afterwards is stored under the key. `storeNewLazy` is the regenerated fact
`c03LazyUpdateStoresOnlyNewResponse` (`rBefore := qCtx.R()` immediately before `next.ExecNext` in the refresh, the only
`saveRespToCache` under `r != nil && rBefore != r`); `false` is the code before F17 (`r != nil`). The caches' contents
after the refresh. -/
def lazyRefresh (storeNewLazy : Bool) (i : Nat) (rest : List Plug) (c : Ctx) (w : World) : World :=
  let cc : Ctx := { c with resp := c.resp.map (fun r => { r with obj := w.fresh, qcell := w.fresh + 1 }) }
  (finishCache true i (c.qname, c.cd) (if storeNewLazy then cc.resp.map (·.obj) else none)
    (run true true rest cc { w with fresh := w.fresh + 2 })).2

end Model.C03Store
