import MosdnsVerif.Base.Go

/-! Model of upstream address handling (C18). Strings are byte lists.
`net.SplitHostPort` and `strconv.ParseUint(·,10,16)` are parameters of the
hand-written mirrors of `trySplitHostPort`, `parseDialAddr`, `tryRemovePort`;
an executable model of both is given for the driver and validated against the
Go standard library by the correspondence. -/
namespace Model.C18

abbrev colon : UInt8 := 58
abbrev lbr : UInt8 := 91
abbrev rbr : UInt8 := 93

/-- mirror of `trySplitHostPort` -/
def trySplitHostPort (split : Bytes → Option (Bytes × Bytes)) (parse : Bytes → Option UInt16)
    (s : Bytes) : Except Unit (Bytes × UInt16) :=
  match split s with
  | some (h, p) =>
    match parse p with
    | some n => .ok (h, n)
    | none => .error ()
  | none => .ok (s, 0)

/-- mirror of `parseDialAddr` -/
def parseDialAddr (split : Bytes → Option (Bytes × Bytes)) (parse : Bytes → Option UInt16)
    (urlHost dialAddr : Bytes) (defaultPort : UInt16) : Except Unit (Bytes × UInt16) :=
  let addr := if dialAddr.length > 0 then dialAddr else urlHost
  match trySplitHostPort split parse addr with
  | .error e => .error e
  | .ok (h, p) => .ok (h, if p = 0 then defaultPort else p)

/-- mirror of `tryRemovePort` -/
def tryRemovePort (split : Bytes → Option (Bytes × Bytes)) (s : Bytes) : Bytes :=
  match split s with
  | some (h, _) => h
  | none => s

/-- mirror of `tryTrimIpv6Brackets` in natural-number indices (the regenerated
`Gen.tryTrimIpv6Brackets` is proved equal to it in `Refine.C18`) -/
def trimBrackets (s : Bytes) : Bytes :=
  if s.length < 2 then s
  else if s.getD 0 0 = lbr ∧ s.getD (s.length - 1) 0 = rbr then (s.drop 1).take (s.length - 2)
  else s

/-! Executable models of the two library functions (for the driver). -/

def indexOf (c : UInt8) : Bytes → Option Nat
  | [] => none
  | x :: xs => if x = c then some 0 else (indexOf c xs).map (· + 1)

def lastIndexOf (c : UInt8) (s : Bytes) : Option Nat :=
  (indexOf c s.reverse).map (fun i => s.length - 1 - i)

/-- `net.SplitHostPort` (Go 1.23), `none` = any error. -/
def splitHostPort (s : Bytes) : Option (Bytes × Bytes) :=
  match lastIndexOf colon s with
  | none => none
  | some i =>
    if s.head? = some lbr then
      match indexOf rbr s with
      | none => none
      | some e =>
        if e + 1 = s.length then none
        else if e + 1 = i then
          let host := (s.take e).drop 1
          if (indexOf lbr (s.drop 1)).isSome then none
          else if (indexOf rbr (s.drop (e + 1))).isSome then none
          else some (host, s.drop (i + 1))
        else none
    else
      let host := s.take i
      if (indexOf colon host).isSome then none
      else if (indexOf lbr s).isSome then none
      else if (indexOf rbr s).isSome then none
      else some (host, s.drop (i + 1))

/-- `strconv.ParseUint(s, 10, 16)`: decimal digits only ('_' and signs are
rejected with base 10), value ≤ 65535. -/
def parseUint16 (s : Bytes) : Option UInt16 :=
  if s.isEmpty then none else
  let r := s.foldl (fun (acc : Option Nat) (c : UInt8) =>
    match acc with
    | none => none
    | some v => if 48 ≤ c ∧ c ≤ 57 then (let v' := v * 10 + (c.toNat - 48); if v' > 65535 then none else some v') else none) (some 0)
  r.map UInt16.ofNat

/-! ## Host names resolved through a bootstrap server

An upstream whose dial host is a name and that has `Opt.Bootstrap` set holds a
`bootstrap.Bootstrap`. At dial time the Bootstrap asks the bootstrap server for
its name and joins the answer with its port. A process creates any number of
upstreams one after the other; the model keeps the Bootstraps created so far,
so that "which Bootstrap does upstream number i hold" is a question about the
whole history. What `bootstrap.New` and `updateAddr` do is read from the source
(facts `c18BootNewPerCall`, `c18BootAddrOwnPort`); where a fact does not hold
the model knows nothing and an arbitrary function stands for the code. -/

abbrev dot : UInt8 := 46

/-- `dns.Fqdn` (names without escapes): add the root dot unless it is there -/
def fqdn (h : Bytes) : Bytes := if h.getLast? = some dot then h else h ++ [dot]

/-- a `bootstrap.Bootstrap`: the name it asks for and the port it appends -/
structure Boot where
  fqdn : Bytes
  port : UInt16
deriving DecidableEq, Repr

/-- `bootstrap.New(host, port, ..)`, `reg` = the Bootstraps created earlier in
this process. With `perCall` the call builds its own Bootstrap from its own
arguments; otherwise `other` (unknown). -/
def bootNew (perCall : Bool) (other : List Boot → Bytes → UInt16 → Boot)
    (reg : List Boot) (host : Bytes) (port : UInt16) : Boot :=
  if perCall then { fqdn := fqdn host, port := port } else other reg host port

/-- The Bootstraps held by the upstreams of one process, created in list
order from their dial targets (host, port). -/
def createAll (perCall : Bool) (other : List Boot → Bytes → UInt16 → Boot) :
    List Boot → List (Bytes × UInt16) → List Boot
  | _, [] => []
  | reg, (h, p) :: rest =>
    let b := bootNew perCall other reg h p
    b :: createAll perCall other (b :: reg) rest

/-- What a dial through Bootstrap `b` does: (name asked at the bootstrap
server, port joined to the resolved address). With `ownPort` the port is the
Bootstrap's own; otherwise `otherPort` (unknown). -/
def bootDial (ownPort : Bool) (otherPort : Boot → UInt16) (b : Boot) : Bytes × UInt16 :=
  (b.fqdn, if ownPort then b.port else otherPort b)

/-! ## DoH / HTTP3: what Go's HTTP clients derive from the endpoint URL

For `https` / `h3` mosdns does not compute a server name itself: it hands an
endpoint URL to `net/http` (or quic-go's http3), which verify the certificate
against, and send as SNI, `URL.Hostname()` of the request URL, and send the
URL's host as `Host` / `:authority`. `urlHostname` models `URL.Hostname()`
(`net/url` `splitHostPort` + bracket stripping); which host the endpoint URL
carries is read from the source (facts `c18DohEndpointIsAddrUrl`,
`c18DohRequestKeepsEndpointHost`, `c18DohRestoresV6Brackets`); where the first
two do not hold the model knows nothing and an arbitrary function stands for
the code. `netip.ParseAddr(..).Is6()` is a parameter (`isV6`). -/

def isDigit (b : UInt8) : Bool := decide (48 ≤ b) && decide (b ≤ 57)

/-- `net/url` `validOptionalPort`: empty, or a colon followed by decimal digits only -/
def validOptionalPort : Bytes → Bool
  | [] => true
  | c :: rest => c == colon && rest.all isDigit

/-- split at the last colon: (what is before it, the rest from the colon on) -/
def splitLastColon : Bytes → Option (Bytes × Bytes)
  | [] => none
  | c :: rest =>
    match splitLastColon rest with
    | some (a, b) => some (c :: a, b)
    | none => if c = colon then some ([], c :: rest) else none

/-- `net/url` `splitHostPort`, first half: cut a valid optional port off -/
def stripPort (hp : Bytes) : Bytes :=
  match splitLastColon hp with
  | some (a, b) => if validOptionalPort b then a else hp
  | none => hp

/-- `(*url.URL).Hostname()` of a URL whose Host is `hp` -/
def urlHostname (hp : Bytes) : Bytes := trimBrackets (stripPort hp)

/-- The Host of the URL the DoH requests are sent to, for an upstream whose
address has URL host `urlHost`. With `keeps` it is the URL host as written,
except that - with `restores` - an IPv6 literal written without brackets
(`isV6`: `netip.ParseAddr` succeeds with an IPv6 address) gets its brackets
back; without `keeps` it is `other` (unknown). -/
def dohEndpointHost (keeps restores : Bool) (other : Bytes → Bytes) (isV6 : Bytes → Bool)
    (urlHost : Bytes) : Bytes :=
  if keeps then (if restores && isV6 urlHost then lbr :: urlHost ++ [rbr] else urlHost)
  else other urlHost

/-- the TLS server name of a DoH / HTTP3 upstream -/
def dohServerName (keeps restores : Bool) (other : Bytes → Bytes) (isV6 : Bytes → Bool)
    (urlHost : Bytes) : Bytes :=
  urlHostname (dohEndpointHost keeps restores other isV6 urlHost)

/-! ## SOCKS5: what the proxy is asked to connect to

A stream upstream (tcp, tls, https and the pipeline aliases) with `Opt.Socks5`
hands its dial target to the proxy. With `asWritten` (fact
`c18Socks5ConnectsToTarget`: the proxy branch of `newTcpDialer` comes before
the ip / bootstrap decision tree and passes `JoinHostPort(host, port)`) the
CONNECT request names the target as `parseDialAddr` gave it; otherwise `other`
(unknown) decides - it may look at what a configured bootstrap server answers
for the name (`resolved`). -/

/-- (host, port) of the CONNECT request for dial target `t` -/
def connectTarget (asWritten : Bool) (other : Bytes × UInt16 → Option Bytes → Bytes × UInt16)
    (resolved : Option Bytes) (t : Bytes × UInt16) : Bytes × UInt16 :=
  if asWritten then t else other t resolved

/-! ## Upstreams created from the forward plugin's configuration

`forward.NewForward` walks the configured entries; position `i` of its upstream
list is what queries routed to entry `i` (by tag, or by the pick) are sent
through. An entry is (URL host of `addr`, `dial_addr`, scheme default port).
With `perEntry` (fact `c18FwdUpstreamPerEntry`) every entry gets an upstream
created from its own `addr` and `dial_addr`; otherwise `other` (unknown) says
which configuration the upstream of an entry was really created from, given
the ones made so far. -/

abbrev FwdCfg := Bytes × Bytes × UInt16

/-- the configurations the upstreams of a forward were created from, in list order -/
def fwdUpstreams (perEntry : Bool) (other : List FwdCfg → FwdCfg → FwdCfg) :
    List FwdCfg → List FwdCfg → List FwdCfg
  | _, [] => []
  | made, c :: rest =>
    let u := if perEntry then c else other made c
    u :: fwdUpstreams perEntry other (u :: made) rest

end Model.C18
