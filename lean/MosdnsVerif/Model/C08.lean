/-! Model of the retry loops of `ReuseConnTransport.ExchangeContext` and
`PipelineTransport.ExchangeContext` (C08).

The environment (server, network, other callers) is a list of what happens at
each turn of the loop; `allow retry` is the loop's own test whether another
attempt is made after a failure on a reused connection (`retry <= maxRetry`
for reuse, `retry < maxRetry` for pipeline - regenerated facts). -/
namespace Model.C08

inductive Turn where
  | closed                         -- the transport was closed: getIdleConn / getReservedExchanger fails
  | dialFail                       -- no reusable connection and the dial fails (nothing is transmitted)
  | cannotReserve                  -- pipeline: a new connection refuses the reservation
  | fresh (ok : Bool)              -- attempt on a connection opened for this call
  | pooled (ok : Bool) (ctxEnded : Bool)   -- attempt on a connection that was idle / already in use;
                                           --   ctxEnded: the caller's context has ended when it fails (pipeline looks at it)
  deriving DecidableEq, Repr

inductive Outcome where
  | ok
  | errClosed | errDial | errReserve
  | errFresh            -- the attempt on a connection opened for the call failed
  | errGaveUp           -- a reused connection failed and no further attempt is allowed
  | stuck               -- the environment list ended (not a behaviour of the code)
  deriving DecidableEq, Repr

structure Res where
  outcome : Outcome
  attempts : Nat          -- connections the query was transmitted on
  lastPooledCtxEnded : Bool := false
  deriving DecidableEq, Repr

/-- the loop; `checksCtx` = the pipeline variant (`&& ctx.Err() == nil`) -/
def loop (allow : Nat → Bool) (checksCtx : Bool) : List Turn → Nat → Nat → Res
  | [], _, n => ⟨.stuck, n, false⟩
  | .closed :: _, _, n => ⟨.errClosed, n, false⟩
  | .dialFail :: _, _, n => ⟨.errDial, n, false⟩
  | .cannotReserve :: _, _, n => ⟨.errReserve, n, false⟩
  | .fresh true :: _, _, n => ⟨.ok, n + 1, false⟩
  | .fresh false :: _, _, n => ⟨.errFresh, n + 1, false⟩
  | .pooled true _ :: _, _, n => ⟨.ok, n + 1, false⟩
  | .pooled false ce :: rest, retry, n =>
    if allow retry && !(checksCtx && ce) then loop allow checksCtx rest (retry + 1) (n + 1)
    else ⟨.errGaveUp, n + 1, ce⟩

/-- A server whose idle connections are silently dead: `stale` pooled
connections fail one after the other, a fresh connection works. -/
def staleThenFresh (stale : Nat) : List Turn := List.replicate stale (.pooled false false) ++ [.fresh true]

end Model.C08

/-! ### The hand-over of the queries queued on a dialing pipeline connection

While a pipeline connection is being dialed, queries queue up on it (the first of them opened it). When
the dial has succeeded each queued query does two things, in the order the source says
(`reserveFirst`, a regenerated fact): it takes its slot on the dialed connection and it leaves the wait
group. A caller that arrives after the dial (`late`) waits for the wait group to be empty before it
reserves (`lateWaits`, a regenerated fact). Counters only; every guarded section is one step. A queued
query that finds no slot fails with nothing transmitted although no connection failed - for the query
that opened the connection that failure is final (its turn is `fresh`). -/
namespace Model.C08.Handoff

structure St where
  todo : Nat      -- queued queries that have done neither step
  mid : Nat       -- queued queries between their two steps
  free : Nat      -- free slots of the dialed connection
  refused : Nat   -- queued queries that found no slot
  lateIn : Nat    -- late callers admitted by the dialed connection
  deriving DecidableEq, Repr

inductive Ev where
  | first | second     -- a queued query does its first / second step
  | late               -- a caller that arrived after the dial tries to reserve
  | reply              -- the server answers a query: its slot is free again
  deriving DecidableEq, Repr

def take (s : St) : St :=
  if s.free = 0 then { s with refused := s.refused + 1 } else { s with free := s.free - 1 }

/-- the wait group: queued queries that have not called `Done` yet -/
def wg (reserveFirst : Bool) (s : St) : Nat := if reserveFirst then s.todo + s.mid else s.todo

def step (reserveFirst lateWaits : Bool) (cap : Nat) (s : St) : Ev → St
  | .first =>
    if s.todo = 0 then s else
      let s' := { s with todo := s.todo - 1, mid := s.mid + 1 }
      if reserveFirst then take s' else s'
  | .second =>
    if s.mid = 0 then s else
      let s' := { s with mid := s.mid - 1 }
      if reserveFirst then s' else take s'
  | .late =>
    if lateWaits && wg reserveFirst s != 0 then s        -- blocked in Wait(): not enabled
    else if s.free = 0 then s else { s with free := s.free - 1, lateIn := s.lateIn + 1 }
  | .reply => if s.free < cap then { s with free := s.free + 1 } else s

def run (reserveFirst lateWaits : Bool) (cap : Nat) (evs : List Ev) (s : St) : St :=
  evs.foldl (step reserveFirst lateWaits cap) s

/-- `n` queries queued behind the dial of a connection that takes `cap` queries at a time -/
def init (n cap : Nat) : St := ⟨n, 0, cap, 0, 0⟩

/-- The schedule the harness enforces: one queued query is descheduled at the entry of its reservation on the
dialed connection (whatever it does before that has happened), the others run to the end, `k` late callers
try, the held query goes on, `k` callers try again (those that were blocked). -/
def gateSchedule (reserveFirst : Bool) (n k : Nat) : List Ev :=
  (if reserveFirst then [] else [.first]) ++
  (List.replicate (n - 1) [Ev.first, Ev.second]).flatten ++
  List.replicate k .late ++
  (if reserveFirst then [.first, .second] else [.second]) ++
  List.replicate k .late

/-- worst case for the retry loop: the query that found no slot is the one that opened the connection -/
def openerTurn (s : St) : Turn := .fresh (s.refused == 0)

end Model.C08.Handoff

/-! ### What the dialing branch of the reuse loop is handed

`ReuseConnTransport.ExchangeContext` labels whatever `getNewConn` returns as a connection opened for this
call (`isNewConn = true`: its failure is final). `dialedOnly` (a regenerated fact) says that `getNewConn`
returns the connection its own dial produced and nothing else. Without it a connection that went idle
while the dial was running (it carried another query; `idle = some ok`: what the server does with the
next query on it) may be handed out under the label "new". -/
namespace Model.C08.DialHandOver

/-- the turn the loop sees on its dialing branch: `own` = does the connection opened for this call work -/
def dialTurn (dialedOnly : Bool) (idle : Option Bool) (own : Bool) : Turn :=
  match dialedOnly, idle with
  | false, some ok => .fresh ok      -- a pooled connection under the label "new"
  | _, _ => .fresh own

end Model.C08.DialHandOver
