/-! Model of the retry loops of `ReuseConnTransport.ExchangeContext` and
`PipelineTransport.ExchangeContext` (C08).

The environment (server, network, other callers) is a list of what happens at
each turn of the loop; `allow retry` is the loop's own test whether another
attempt is made after a failure on a reused connection (`retry <= maxRetry`
for reuse, `retry < maxRetry` for pipeline - regenerated facts). -/
namespace Model.C08

inductive Turn where
  | closed                         -- the transport was closed: getIdleConn / getReservedExchanger fails
  | dialFail                       -- no reusable connection and the dial fails (nothing is transmitted)
  | cannotReserve                  -- pipeline: a new connection refuses the reservation
  | fresh (ok : Bool)              -- attempt on a connection opened for this call
  | pooled (ok : Bool) (ctxEnded : Bool)   -- attempt on a connection that was idle / already in use;
                                           --   ctxEnded: the caller's context has ended when it fails (pipeline looks at it)
  deriving DecidableEq, Repr

inductive Outcome where
  | ok
  | errClosed | errDial | errReserve
  | errFresh            -- the attempt on a connection opened for the call failed
  | errGaveUp           -- a reused connection failed and no further attempt is allowed
  | stuck               -- the environment list ended (not a behaviour of the code)
  deriving DecidableEq, Repr

structure Res where
  outcome : Outcome
  attempts : Nat          -- connections the query was transmitted on
  lastPooledCtxEnded : Bool := false
  deriving DecidableEq, Repr

/-- the loop; `checksCtx` = the pipeline variant (`&& ctx.Err() == nil`) -/
def loop (allow : Nat → Bool) (checksCtx : Bool) : List Turn → Nat → Nat → Res
  | [], _, n => ⟨.stuck, n, false⟩
  | .closed :: _, _, n => ⟨.errClosed, n, false⟩
  | .dialFail :: _, _, n => ⟨.errDial, n, false⟩
  | .cannotReserve :: _, _, n => ⟨.errReserve, n, false⟩
  | .fresh true :: _, _, n => ⟨.ok, n + 1, false⟩
  | .fresh false :: _, _, n => ⟨.errFresh, n + 1, false⟩
  | .pooled true _ :: _, _, n => ⟨.ok, n + 1, false⟩
  | .pooled false ce :: rest, retry, n =>
    if allow retry && !(checksCtx && ce) then loop allow checksCtx rest (retry + 1) (n + 1)
    else ⟨.errGaveUp, n + 1, ce⟩

/-- A server whose idle connections are silently dead: `stale` pooled
connections fail one after the other, a fresh connection works. -/
def staleThenFresh (stale : Nat) : List Turn := List.replicate stale (.pooled false false) ++ [.fresh true]

end Model.C08
