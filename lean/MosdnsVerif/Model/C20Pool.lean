import MosdnsVerif.Model.C20

/-! Model of the pooled threshold timer of `fallback.doFallback` (C20).

The secondary goroutine borrows its threshold timer from `pkg/pool`:
`timer := pool.GetTimer(threshold)` ... `defer pool.ReleaseTimer(timer)`. The
pool is process-wide, so what one call leaves in the timer is what a later
call (of any fallback instance) finds. `Model.C20.init` starts a call with
`timer = false` ("no tick can be received from `timer.C`"); this file says
where that comes from.

A `*time.Timer` of a module whose `go` directive is below 1.23 (mosdns: 1.22)
has a channel with a one-element buffer: when the timer fires the runtime puts
a tick into it whether or not anybody is receiving, and neither `Stop` nor
`Reset` takes it out again. -/
namespace Model.C20Pool

structure PTimer where
  armed : Bool         -- the runtime timer is pending
  tick : Bool          -- a tick sits in the buffer of `timer.C`
  deriving DecidableEq, Repr

/-- `time.NewTimer(d)` -/
def new : PTimer := ⟨true, false⟩

/-- What can happen to the timer while a call holds it. -/
inductive Use where
  | fire               -- the duration passes (nothing happens if the timer is not pending)
  | recv               -- a select of the holder takes the tick (a no-op when there is none: the case is not ready)
  deriving DecidableEq, Repr

def use (t : PTimer) : Use → PTimer
  | .fire => if t.armed then ⟨false, true⟩ else t
  | .recv => { t with tick := false }

/-- `pool.ReleaseTimer`. `Stop` reports whether the timer was still pending.
`drains = true` is `if !timer.Stop() { select { case <-timer.C: default: } }`
(regenerated fact `c20ReleaseTimerDrains`); `false` is a bare `timer.Stop()`. -/
def release (drains : Bool) (t : PTimer) : PTimer :=
  ⟨false, if t.armed then t.tick else (t.tick && !drains)⟩

/-- `pool.GetTimer` on a pooled timer: `timer.Reset(d)` and nothing else
(regenerated fact `c20GetTimerOnlyResets`). -/
def reset (t : PTimer) : PTimer := { t with armed := true }

/-- The timer as `GetTimer` hands it out after the given earlier borrows of the
same timer (most recent first; each borrow is what happened while it was
held). No earlier borrow: a new timer. -/
def handedOut (drains : Bool) : List (List Use) → PTimer
  | [] => new
  | us :: older => reset (release drains (us.foldl use (handedOut drains older)))

/-- The state in which a call of `doFallback` starts when its threshold timer is `t`. -/
def initOf (t : PTimer) : Model.C20.St := { Model.C20.init with timer := t.tick }

end Model.C20Pool
