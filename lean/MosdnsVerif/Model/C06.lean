/-! Model of the sequence plugin (C06).

`execNext` mirrors `ChainWalker.ExecNext` and the built-in actions of
`built_in.go`: a walker is the rest of the current chain plus the stack of
pending jump returns (`jumpBack` pointers); `run` is the continuation
semantics written from the property statement. Matchers, plain actions and
wrapping plugins are parameters acting on an abstract state `St` (query
context + whatever they log); `E` is the error type. -/
namespace Model.C06

mutual
inductive Action where
  | plain (a : Nat)                 -- Executable
  | wrap (w : Nat)                  -- RecursiveExecutable supplied by a plugin
  | accept
  | reject (rcode : Nat)
  | ret
  | jump (target : List Rule)
  | goto (target : List Rule)
inductive Rule where
  | mk (matchers : List (Bool × Nat)) (action : Action)   -- Bool: written with '!'
end

def Rule.matchers : Rule → List (Bool × Nat) | .mk m _ => m
def Rule.action : Rule → Action | .mk _ a => a

/-- The semantic parameters. -/
structure Sem (St E : Type) where
  matchFn : Nat → St → Except E (Bool × St)
  execFn : Nat → St → Except E St
  wrapFn : Nat → (St → Except E St) → St → Except E St
  setResp : Nat → St → St            -- reject: SetReply + rcode

variable {St E : Type}

/-- Matchers of one rule, left to right; stops at the first that is false
after applying `!`; an error aborts. -/
def evalMatchers (sem : Sem St E) : List (Bool × Nat) → St → Except E (Bool × St)
  | [], s => .ok (true, s)
  | (rev, m) :: ms, s =>
    match sem.matchFn m s with
    | .error e => .error e
    | .ok (b, s') => if (b != rev) then evalMatchers sem ms s' else .ok (false, s')

/-- sum of the sizes of the chains on the jump-back stack -/
noncomputable def stackSize : List (List Rule) → Nat
  | [] => 0
  | c :: st => sizeOf c + stackSize st

/-- `ChainWalker.ExecNext` with `rest = w.chain[w.p:]` and `stack` = the chain
of `jumpBack` walkers (each reduced to its remaining rules). -/
def execNext (sem : Sem St E) (rest : List Rule) (stack : List (List Rule)) (s : St) : Except E St :=
  match rest with
  | [] =>
    match stack with
    | [] => .ok s                                   -- EoC
    | c :: st => execNext sem c st s                -- w.jumpBack.ExecNext
  | .mk ms act :: rs =>
    match evalMatchers sem ms s with
    | .error e => .error e
    | .ok (false, s') => execNext sem rs stack s'
    | .ok (true, s') =>
      match act with
      | .plain a =>
        match sem.execFn a s' with
        | .error e => .error e
        | .ok s'' => execNext sem rs stack s''
      | .wrap w => sem.wrapFn w (fun t => execNext sem rs stack t) s'   -- next = {p+1, chain, jumpBack}
      | .accept => .ok s'
      | .reject rc => .ok (sem.setResp rc s')
      | .ret =>
        match stack with
        | [] => .ok s'
        | c :: st => execNext sem c st s'
      | .jump t => execNext sem t (rs :: stack) s'   -- NewChainWalker(To, &next)
      | .goto t => execNext sem t [] s'              -- NewChainWalker(To, nil)
termination_by sizeOf rest + stackSize stack
decreasing_by
  all_goals simp_wf
  all_goals (try simp only [stackSize])
  all_goals omega

/-- The property's own reading: a sequence is run against a continuation `k`
(what happens after it returns). -/
def run (sem : Sem St E) (rules : List Rule) (k : St → Except E St) (s : St) : Except E St :=
  match rules with
  | [] => k s
  | .mk ms act :: rs =>
    match evalMatchers sem ms s with
    | .error e => .error e
    | .ok (false, s') => run sem rs k s'
    | .ok (true, s') =>
      match act with
      | .plain a =>
        match sem.execFn a s' with
        | .error e => .error e
        | .ok s'' => run sem rs k s''
      | .wrap w => sem.wrapFn w (run sem rs k) s'
      | .accept => .ok s'
      | .reject rc => .ok (sem.setResp rc s')
      | .ret => k s'
      | .jump t => run sem t (run sem rs k) s'
      | .goto t => run sem t .ok s'
termination_by sizeOf rules
decreasing_by
  all_goals simp_wf
  all_goals omega

/-- meaning of the jump-back stack -/
def denote (sem : Sem St E) : List (List Rule) → St → Except E St
  | [] => .ok
  | c :: st => run sem c (denote sem st)

/-! ### From the configured rules to the chain that is executed

`NewSequence` parses the rule texts and `buildChain` turns them into the chain
`Sequence.Exec` walks. What T2 reads from that code: how many nodes the loop
over the rules appends per rule, how many statements elsewhere in the
package write a chain or the fields of a node after `newNode` made it, and how
many returns of `newMatcher` can deliver a matcher without passing the wiring
of '!'. -/
structure Build where
  appendsPerRule : Nat
  rewrites : Nat
  /-- returns of `newMatcher` that can deliver a matcher and sit before its
  final `if mc.Reverse { m = reverseMatcher(m) }; return m, nil` -/
  earlyMatcherReturns : Nat

/-- What `newMatcher` leaves in the node for the configured matchers of rule
`ri` (from position `mi` on). When every path that delivers a matcher passes
the reverse wiring, the node holds `m` negated iff it was written with '!'. A
return ahead of the wiring hands `m` out as it is, whatever was written; which
occurrences leave that way (`early`, by rule and matcher position - e.g. "every
occurrence after the first of the same text", when matchers are memoised) is
unknown. -/
def Build.wireMatchers (b : Build) (early : Nat → Nat → Bool) (ri : Nat) :
    Nat → List (Bool × Nat) → List (Bool × Nat)
  | _, [] => []
  | mi, (rev, m) :: ms =>
    ((if b.earlyMatcherReturns = 0 then rev else (rev && !early ri mi)), m) ::
      wireMatchers b early ri (mi + 1) ms

/-- `newNode` for every rule from index `ri` on: the rule's matchers as wired
by `newMatcher`, the rule's own action. -/
def Build.wireRules (b : Build) (early : Nat → Nat → Bool) : Nat → List Rule → List Rule
  | _, [] => []
  | ri, .mk ms act :: rs => .mk (b.wireMatchers early ri 0 ms) act :: wireRules b early (ri + 1) rs

/-- The chain left in the `Sequence`: `appendsPerRule` nodes for every rule, in
rule order, each with the matchers as `newMatcher` wired them; if any other
code writes the chain or its nodes, what it does is unknown (`rewrite`, an
arbitrary function). -/
def Build.chain (b : Build) (rewrite : List Rule → List Rule) (early : Nat → Nat → Bool)
    (rules : List Rule) : List Rule :=
  let c := (b.wireRules early 0 rules).flatMap (fun r => List.replicate b.appendsPerRule r)
  if b.rewrites = 0 then c else rewrite c

end Model.C06
