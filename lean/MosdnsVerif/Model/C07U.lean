/-! Model for C07 at the upstream level: an upstream that `NewUpstream` composes out of transports
(`udpWithFallback`: the UDP exchange, then the TCP retry after a truncated reply; `dohWithClose`; a transport
used directly is the one-phase case).

A call on such a wrapper is a sequence of inner exchanges ("phases"). Each inner exchange is given a context;
`ph : List Nat` is, per phase in source order, the regenerated relation of that context to the caller's
(`Gen.Facts.c07UpstreamCtxArgs`): 0 the caller's own, 1 derived from it (ends whenever the caller's ends),
anything else: not tied to it.

What the transports guarantee for ONE exchange (parts A-E, the wait-covers-all facts) enters as the step `wake`:
an inner exchange whose own context has ended returns, and the wrapper returns its error. Whether the end of the
CALLER's context is the end of the inner exchange's context is exactly what `ph` says. -/
namespace Model.C07U

/-- the context of a phase with this code ends whenever the caller's context ends -/
def tied (code : Nat) : Bool := code == 0 || code == 1

/-- code of phase `i`; outside the list: not tied -/
def codeAt : List Nat → Nat → Nat
  | [], _ => 2
  | c :: _, 0 => c
  | _ :: t, i + 1 => codeAt t i

structure W where
  phase : Nat := 0          -- index of the inner exchange in progress
  ctxDone : Bool := false   -- the caller's context has been cancelled / has timed out
  returned : Bool := false
  deriving DecidableEq, Repr

inductive WLabel where
  | next     -- the inner exchange in progress ends and the wrapper goes on to the next one (e.g. a truncated reply)
  | final    -- the inner exchange in progress ends by itself (reply, connection failure, liveness timeout): the wrapper returns
  | ctxEnd   -- environment: the caller's context ends
  | wake     -- the inner exchange in progress sees the end of ITS context and returns; the wrapper returns the error
  deriving DecidableEq, Repr

def W.step (ph : List Nat) (s : W) : WLabel → Option W
  | .next => if s.returned = false ∧ s.phase + 1 < ph.length then some { s with phase := s.phase + 1 } else none
  | .final => if s.returned = false ∧ s.phase < ph.length then some { s with returned := true } else none
  | .ctxEnd => if s.ctxDone = false then some { s with ctxDone := true } else none
  | .wake => if s.returned = false ∧ s.ctxDone = true ∧ tied (codeAt ph s.phase) = true then some { s with returned := true } else none

def W.run (ph : List Nat) (s : W) : List WLabel → Option W
  | [] => some s
  | l :: ls => (s.step ph l).bind (fun s' => W.run ph s' ls)

/-- a call is in progress in some phase of the wrapper -/
def W.Inv (ph : List Nat) (s : W) : Prop := s.returned = false → s.phase < ph.length

/-- the phases of the wrapper `name` as regenerated; a wrapper that is not in the list has a single unknown phase -/
def phasesOf (facts : Option (List (String × List Nat))) (name : String) : List Nat :=
  match facts with
  | none => [2]
  | some l => match l.find? (fun e => e.1 == name) with
    | some e => e.2
    | none => [2]

end Model.C07U
