import MosdnsVerif.Base.Go

/-! Model of the hand-off of one reply between the connection reader and the
caller of `exchange` (C02), for the pipelined/UDP connection
(`TraditionalDnsConn`) and the reused connection (`reusableConn`).

One outstanding query; labels are the steps the reader, the caller, the peer
and the clock can take; any label sequence whose steps are enabled is a
schedule. Parameters (regenerated facts): the capacity of the per-query reply
channel, whether the caller's final `select` looks at the reply channel
before honouring the close notification, and whether the context that select
waits on is the caller's own (handed on unchanged by every layer above it).

`Model.C02.Doh` (below) is the DoH counterpart of "the reply was received":
the HTTP response body reaches the client as an arbitrary sequence of pieces. -/
namespace Model.C02

structure Cfg where
  cap : Nat            -- capacity of the reply channel (`make(chan *[]byte, cap)`)
  drainFirst : Bool    -- on closeNotify the caller first tries a non-blocking receive
  ownCtx : Bool        -- every layer between the caller and the final select (transport, lazy connection,
                       -- reserved exchanger) hands the caller's context on unchanged; `false`: some layer waits
                       -- on a context of its own making, which can end while the caller's has not
  deriving DecidableEq, Repr

inductive Phase where
  | sending      -- entry installed in the waiter table, `Write` not yet returned
  | waiting      -- parked in the final select
  | gotReply | gotCloseErr | gotCtxErr
  deriving DecidableEq, Repr

structure St where
  phase : Phase := .sending
  buffered : Bool := false    -- a reply sits in the channel
  closed : Bool := false      -- closeNotify is closed
  ctxDone : Bool := false     -- the caller's context ended
  innerDone : Bool := false   -- a context substituted by a layer below the caller ended (only if `!ownCtx`)
  -- ghosts
  arrived : Bool := false     -- the reader read the reply from the connection (before the deadline)
  dropped : Bool := false     -- ... and released it because the hand-off did not succeed
  deriving DecidableEq, Repr

inductive Label where
  | readerDeliver     -- readLoop: lookup + `select { case resChan <- r: default: release }`
  | readerClose       -- readLoop: read error / EOF -> CloseWithErr
  | writeReturns      -- the caller's Write returns; it proceeds to the final select
  | pickReply | pickClose | pickCtx   -- the final select takes a ready case
  | ctxExpire
  | innerExpire       -- a substituted context's own timer fires
  deriving DecidableEq, Repr

def Label.all : List Label := [.readerDeliver, .readerClose, .writeReturns, .pickReply, .pickClose, .pickCtx, .ctxExpire, .innerExpire]

def step (c : Cfg) (s : St) : Label → Option St
  | .readerDeliver =>
    if s.arrived || s.closed then none      -- one reply per query in this model
    else
      -- a send on a channel succeeds without blocking iff there is buffer room,
      -- or (capacity 0) a receiver is parked on it right now
      let room := (decide (0 < c.cap) && !s.buffered) || (c.cap == 0 && s.phase == .waiting)
      if room then
        if c.cap == 0 then some { s with arrived := true, phase := .gotReply }   -- direct hand-off to the parked receiver
        else some { s with arrived := true, buffered := true }
      else some { s with arrived := true, dropped := true }
  | .readerClose => if s.closed then none else some { s with closed := true }
  | .writeReturns => if s.phase == .sending then some { s with phase := .waiting } else none
  | .pickReply => if s.phase == .waiting && s.buffered then some { s with phase := .gotReply, buffered := false } else none
  | .pickClose =>
    if s.phase == .waiting && s.closed then
      if c.drainFirst && s.buffered then some { s with phase := .gotReply, buffered := false }
      else some { s with phase := .gotCloseErr }
    else none
  | .pickCtx => if s.phase == .waiting && (s.ctxDone || s.innerDone) then some { s with phase := .gotCtxErr } else none
  | .ctxExpire => if s.ctxDone then none else some { s with ctxDone := true }
  | .innerExpire => if c.ownCtx || s.innerDone then none else some { s with innerDone := true }

def run (c : Cfg) : St → List Label → Option St
  | s, [] => some s
  | s, l :: ls => match step c s l with
    | none => none
    | some s' => run c s' ls

/-- Invariant for cap ≥ 1, drainFirst and ownCtx. -/
def inv (s : St) : Bool :=
  !s.dropped && !s.innerDone &&
  (!s.arrived || s.buffered || s.phase == .gotReply) &&
  (!s.buffered || s.arrived) &&
  (!(s.phase == .gotCloseErr) || (!s.arrived && s.closed)) &&
  (!(s.phase == .gotCtxErr) || s.ctxDone) &&
  (!(s.phase == .gotReply) || s.arrived)

/-- What the property says about a state: a reply that was read from the
connection is never thrown away; a caller that returned with the close error
or the context error did so only when no reply had arrived / the context had ended. -/
def good (s : St) : Bool :=
  !s.dropped &&
  (!(s.phase == .gotCloseErr) || !s.arrived) &&
  (!(s.phase == .gotCtxErr) || s.ctxDone) &&
  -- and a parked caller whose reply has arrived can take it
  (!(s.phase == .waiting && s.arrived) || s.buffered)

end Model.C02

/-! ## DoH: the reply is the body of the HTTP response

`resp.Body` is an `io.Reader`: every `Read` returns the next piece of the body
(whatever has arrived: one TCP segment / TLS record / h2 or h3 DATA frame, or
part of it), then EOF. A `Go.Stream` is the list of those pieces; every
chunking of the same bytes is a possible body. `doh.(*Upstream).exchange`
reads it with `bb.ReadFrom(io.LimitReader(resp.Body, dns.MaxMsgSize))`. -/
namespace Model.C02.Doh

/-- `bytes.Buffer.ReadFrom(io.LimitReader(body, lim))`: `Read` is called until EOF; a call returns (a prefix
of) the next piece, capped by what is left of the limit; with nothing left the limited reader reports EOF. -/
def readToEOF : Go.Stream → Nat → Bytes → Bytes
  | [], _, acc => acc
  | chunk :: rest, lim, acc =>
    if lim = 0 then acc
    else if chunk.length ≤ lim then readToEOF rest (lim - chunk.length) (acc ++ chunk)
    else acc ++ chunk.take lim

/-- What a single `Read` into a buffer of `n` bytes returns. -/
def singleRead : Go.Stream → Nat → Bytes
  | [], _ => []
  | chunk :: _, n => chunk.take n

inductive Res where
  | reply (m : Bytes)
  | tooSmall            -- dnsutils.ErrPayloadTooSmall
  deriving DecidableEq, Repr

def maxMsgSize : Nat := 65535
def headerLen : Nat := 12

/-- `exchange` followed by the id restoration of `ExchangeContext` (`binary.BigEndian.PutUint16(*r, id of q)`),
for a 200 response whose body arrives as `body`. `toEOF` is the regenerated fact "the body is read until EOF";
`false` stands for a reader that takes what one `Read` call returns. `qid`: the two id bytes of the caller's query. -/
def exchange (toEOF : Bool) (qid : Bytes) (body : Go.Stream) : Res :=
  let b := if toEOF then readToEOF body maxMsgSize [] else singleRead body maxMsgSize
  if b.length < headerLen then .tooSmall else .reply (qid ++ b.drop 2)

end Model.C02.Doh

/-! ## The layer between the transports and the socket (pkg/upstream: the event observer's `connWrapper`)

`io.Reader` allows a `Read` to return data together with an error (`crypto/tls` does when a close_notify alert
sits right behind the data): the stream readers (`io.ReadFull` in `dnsutils.ReadRawMsgFromTCP`) use the bytes first.
A layer in between keeps that only if its `Read` hands on what it got. -/
namespace Model.C02.Wrap

/-- What one `Read` call returns: the bytes handed out and whether an error (EOF, reset) came with them. -/
structure Rd where
  data : Bytes
  err : Bool
  deriving DecidableEq, Repr

/-- The `Read` of the layer. `keeps = true` (regenerated fact `c02ObserverLayerKeepsRead`): the wrapped connection's
own `Read` (embedded `net.Conn`); `false`: a `Read` that answers an error with `(0, err)`. -/
def wrap (keeps : Bool) (r : Rd) : Rd := if r.err && !keeps then ⟨[], true⟩ else r

/-- `io.ReadFull` with `need` bytes still missing over the results of the successive `Read` calls (a call is offered
at most `need` bytes): `some` the bytes once they are there - an error that comes with the last missing bytes is
dropped (`io.ReadAtLeast`: `if n >= min { err = nil }`) -, `none` if an error or the end of the script comes first. -/
def readFull : List Rd → Nat → Bytes → Option Bytes
  | [], need, acc => if need = 0 then some acc else none
  | r :: rs, need, acc =>
    if need = 0 then some acc
    else if need ≤ r.data.length then some (acc ++ r.data.take need)
    else if r.err then none
    else readFull rs (need - r.data.length) (acc ++ r.data)

end Model.C02.Wrap

/-! ## The waiter table of a pipelined / UDP connection (`TraditionalDnsConn.queue`) over the life of the connection

Every query takes the next value of the connection's id counter (`nextQid`, a `uintN`: it wraps at `2^bits`); the low 16
bits go on the wire and come back in the reply. `addQueueC` registers the waiter under some key, the reader
(`popQueueC`) and the caller's cleanup (`deleteQueueC`) look under `uint32` of the 16-bit wire id. -/
namespace Model.C02.Ids

/-- the id that goes on the wire for the `ctr`-th value of the counter -/
def wire (ctr : Nat) : Nat := ctr % 65536

/-- the value the counter field holds after `ctr` increments -/
def held (bits ctr : Nat) : Nat := ctr % 2 ^ bits

/-- The key `addQueueC` registers the waiter under. `keyIsWire = true` (regenerated fact `c02TdcWaiterKeyIsWireId`):
`uint32` of the id it returns for the wire; `false`: the counter field's own value. -/
def regKey (keyIsWire : Bool) (bits ctr : Nat) : Nat := if keyIsWire then wire (held bits ctr) else held bits ctr

/-- the key the reader looks up for a reply carrying wire id `w` -/
def lookupKey (w : Nat) : Nat := w

/-- the reply to the `ctr`-th query of the connection finds the waiter registered for it -/
def finds (keyIsWire : Bool) (bits ctr : Nat) : Bool := regKey keyIsWire bits ctr == lookupKey (wire (held bits ctr))

end Model.C02.Ids

/-!
## The datagram reader (`readMsgUdp`)

A udp socket hands the reader one datagram per `Read`, cut to the buffer it was given. Datagrams shorter than a dns
header are skipped. The model keeps the length of the buffer the next `Read` gets: `full = true` is a reader that
leaves the buffer alone when it skips a datagram (every `Read` gets the whole buffer), `full = false` one that
re-slices the buffer to what it just read before it decides to skip it.
-/
namespace Model.C02.Udp

def headerLen : Nat := 12

/-- `readMsg full buf ds`: `ds` are the lengths of the datagrams in the socket, `buf` the length of the buffer the next
`Read` gets; the result is the length of the message the reader returns (`none`: nothing returned, the reader is still
reading when the datagrams are used up). -/
def readMsg (full : Bool) : Nat → List Nat → Option Nat
  | _, [] => none
  | buf, d :: ds =>
    let n := min buf d
    if headerLen ≤ n then some n else readMsg full (if full then buf else n) ds

end Model.C02.Udp
