/-! Model of the hand-off of one reply between the connection reader and the
caller of `exchange` (C02), for the pipelined/UDP connection
(`TraditionalDnsConn`) and the reused connection (`reusableConn`).

One outstanding query; labels are the steps the reader, the caller, the peer
and the clock can take; any label sequence whose steps are enabled is a
schedule. Parameters (regenerated facts): the capacity of the per-query reply
channel and whether the caller's final `select` looks at the reply channel
before honouring the close notification. -/
namespace Model.C02

structure Cfg where
  cap : Nat            -- capacity of the reply channel (`make(chan *[]byte, cap)`)
  drainFirst : Bool    -- on closeNotify the caller first tries a non-blocking receive
  deriving DecidableEq, Repr

inductive Phase where
  | sending      -- entry installed in the waiter table, `Write` not yet returned
  | waiting      -- parked in the final select
  | gotReply | gotCloseErr | gotCtxErr
  deriving DecidableEq, Repr

structure St where
  phase : Phase := .sending
  buffered : Bool := false    -- a reply sits in the channel
  closed : Bool := false      -- closeNotify is closed
  ctxDone : Bool := false
  -- ghosts
  arrived : Bool := false     -- the reader read the reply from the connection (before the deadline)
  dropped : Bool := false     -- ... and released it because the hand-off did not succeed
  deriving DecidableEq, Repr

inductive Label where
  | readerDeliver     -- readLoop: lookup + `select { case resChan <- r: default: release }`
  | readerClose       -- readLoop: read error / EOF -> CloseWithErr
  | writeReturns      -- the caller's Write returns; it proceeds to the final select
  | pickReply | pickClose | pickCtx   -- the final select takes a ready case
  | ctxExpire
  deriving DecidableEq, Repr

def Label.all : List Label := [.readerDeliver, .readerClose, .writeReturns, .pickReply, .pickClose, .pickCtx, .ctxExpire]

def step (c : Cfg) (s : St) : Label → Option St
  | .readerDeliver =>
    if s.arrived || s.closed then none      -- one reply per query in this model
    else
      -- a send on a channel succeeds without blocking iff there is buffer room,
      -- or (capacity 0) a receiver is parked on it right now
      let room := (decide (0 < c.cap) && !s.buffered) || (c.cap == 0 && s.phase == .waiting)
      if room then
        if c.cap == 0 then some { s with arrived := true, phase := .gotReply }   -- direct hand-off to the parked receiver
        else some { s with arrived := true, buffered := true }
      else some { s with arrived := true, dropped := true }
  | .readerClose => if s.closed then none else some { s with closed := true }
  | .writeReturns => if s.phase == .sending then some { s with phase := .waiting } else none
  | .pickReply => if s.phase == .waiting && s.buffered then some { s with phase := .gotReply, buffered := false } else none
  | .pickClose =>
    if s.phase == .waiting && s.closed then
      if c.drainFirst && s.buffered then some { s with phase := .gotReply, buffered := false }
      else some { s with phase := .gotCloseErr }
    else none
  | .pickCtx => if s.phase == .waiting && s.ctxDone then some { s with phase := .gotCtxErr } else none
  | .ctxExpire => if s.ctxDone then none else some { s with ctxDone := true }

def run (c : Cfg) : St → List Label → Option St
  | s, [] => some s
  | s, l :: ls => match step c s l with
    | none => none
    | some s' => run c s' ls

/-- Invariant for cap ≥ 1 and drainFirst. -/
def inv (s : St) : Bool :=
  !s.dropped &&
  (!s.arrived || s.buffered || s.phase == .gotReply) &&
  (!s.buffered || s.arrived) &&
  (!(s.phase == .gotCloseErr) || (!s.arrived && s.closed)) &&
  (!(s.phase == .gotCtxErr) || s.ctxDone) &&
  (!(s.phase == .gotReply) || s.arrived)

/-- What the property says about a state: a reply that was read from the
connection is never thrown away; a caller that returned with the close error
or the context error did so only when no reply had arrived / the context had ended. -/
def good (s : St) : Bool :=
  !s.dropped &&
  (!(s.phase == .gotCloseErr) || !s.arrived) &&
  (!(s.phase == .gotCtxErr) || s.ctxDone) &&
  -- and a parked caller whose reply has arrived can take it
  (!(s.phase == .waiting && s.arrived) || s.buffered)

end Model.C02
