/-! Model of `fallback.doFallback` (C20): the primary goroutine, the secondary
goroutine, the collecting caller, the threshold timer and the two contexts as
a labelled transition system. Every label is one step one of them can take;
the scheduler / environment chooses the label, so an execution is any label
sequence whose steps are all enabled.

`respChan` (capacity 2, one send per worker) is a FIFO: it is represented by
who has sent (derived from the program counters), who sent first, and how
many items the caller has received. `primDone` / `primFailed` are closed
exactly when the primary has passed the corresponding statement, so they are
derived from its program counter too. -/
namespace Model.C20

inductive Res where | none | prim | sec | failed | ctx
  deriving DecidableEq, Repr

/-- Fixed for one call. -/
structure Cfg where
  pAns : Bool          -- the primary produces an answer (else: error or no answer)
  sAns : Bool          -- the secondary produces an answer
  standby : Bool       -- always_standby
  sendFirst : Bool     -- primary queues its answer before closing primDone (regenerated fact)
  deriving DecidableEq, Repr

structure St where
  pPc : Fin 4          -- primary: 0 running Exec, 1 Exec returned, 2 first of (send, close) done, 3 both done
  sPc : Fin 5          -- secondary: 0 at the first select / not started, 1 returned without running,
                       --   2 running Exec, 3 Exec returned (second select when standby and answer), 4 sent
  pFirst : Bool        -- the primary's send came before the secondary's (meaningful once the primary has sent)
  recvd : Fin 3        -- items the caller has received
  result : Res         -- set when the caller returns
  timer : Bool         -- threshold timer fired
  ctxDone : Bool       -- the caller's context ended
  secCtx : Bool        -- the secondary's own deadline context ended
  sqExcuse : Bool      -- ghost: when the secondary queued its answer, the primary had failed / the timer
                       --   had fired / its own deadline had passed
  deriving DecidableEq, Repr

def init : St := ⟨0, 0, false, 0, .none, false, false, false, false⟩

/-- the primary has sent on `respChan` (its answer, or nil) -/
def pSent (c : Cfg) (s : St) : Bool :=
  if c.pAns && c.sendFirst then decide (2 ≤ s.pPc.val) else s.pPc.val == 3
def primDone (c : Cfg) (s : St) : Bool :=
  c.pAns && (if c.sendFirst then s.pPc.val == 3 else decide (2 ≤ s.pPc.val))
def primFailed (c : Cfg) (s : St) : Bool := !c.pAns && decide (2 ≤ s.pPc.val)
def sSent (s : St) : Bool := s.sPc.val == 4
def secStarted (s : St) : Bool := decide (2 ≤ s.sPc.val)

inductive Label where
  | pFinish                 -- primary.Exec returns
  | pOp                     -- next of the primary's two signalling operations
  | sPickDone | sPickFailed | sPickTimer          -- first select of the secondary (no standby)
  | sStart                  -- standby: the secondary starts at once
  | sFinish                 -- secondary.Exec returns
  | sSend                   -- the secondary sends without waiting (nil result, or no standby)
  | sWaitCtx | sWaitDone | sWaitFailed | sWaitTimer   -- second select (standby and answer), then send
  | timerFire | ctxCancel | secCtxFire
  | mRecv | mCtx            -- the caller: receive from respChan / ctx.Done
  deriving DecidableEq, Repr

def Label.all : List Label :=
  [.pFinish, .pOp, .sPickDone, .sPickFailed, .sPickTimer, .sStart, .sFinish, .sSend,
   .sWaitCtx, .sWaitDone, .sWaitFailed, .sWaitTimer, .timerFire, .ctxCancel, .secCtxFire, .mRecv, .mCtx]

def sendSec (c : Cfg) (s : St) : St :=
  { s with sPc := 4, sqExcuse := c.sAns && (primFailed c s || s.timer || s.secCtx) }

/-- the primary's next operation; when that is its send, remember the order -/
def primOp (c : Cfg) (s : St) (next : Fin 4) : St :=
  let s' := { s with pPc := next }
  if pSent c s' && !pSent c s then { s' with pFirst := !sSent s } else s'

/-- the item the caller receives next, if any: `some true` = the primary's -/
def nextItem (c : Cfg) (s : St) : Option Bool :=
  if s.recvd.val = 0 then
    if pSent c s && sSent s then some s.pFirst
    else if pSent c s then some true
    else if sSent s then some false
    else none
  else if s.recvd.val = 1 then
    if pSent c s && sSent s then some (!s.pFirst) else none
  else none

/-- One step; `none` = the label is not enabled. -/
def step (c : Cfg) (s : St) : Label → Option St
  | .pFinish => if s.pPc.val = 0 then some { s with pPc := 1 } else none
  | .pOp =>
    if s.pPc.val = 1 then some (primOp c s 2)
    else if s.pPc.val = 2 then some (primOp c s 3)
    else none
  | .sPickDone => if !c.standby && s.sPc.val = 0 && primDone c s then some { s with sPc := 1 } else none
  | .sPickFailed => if !c.standby && s.sPc.val = 0 && primFailed c s then some { s with sPc := 2 } else none
  | .sPickTimer => if !c.standby && s.sPc.val = 0 && s.timer then some { s with sPc := 2 } else none
  | .sStart => if c.standby && s.sPc.val = 0 then some { s with sPc := 2 } else none
  | .sFinish => if s.sPc.val = 2 then some { s with sPc := 3 } else none
  | .sSend => if s.sPc.val = 3 && !(c.standby && c.sAns) then some (sendSec c s) else none
  | .sWaitCtx => if s.sPc.val = 3 && c.standby && c.sAns && s.secCtx then some (sendSec c s) else none
  | .sWaitDone => if s.sPc.val = 3 && c.standby && c.sAns && primDone c s then some (sendSec c s) else none
  | .sWaitFailed => if s.sPc.val = 3 && c.standby && c.sAns && primFailed c s then some (sendSec c s) else none
  | .sWaitTimer => if s.sPc.val = 3 && c.standby && c.sAns && s.timer then some (sendSec c s) else none
  | .timerFire => if !s.timer then some { s with timer := true } else none
  | .ctxCancel => if !s.ctxDone then some { s with ctxDone := true } else none
  | .secCtxFire => if !s.secCtx then some { s with secCtx := true } else none
  | .mRecv =>
    if s.result = .none then
      match nextItem c s with
      | none => none
      | some fromPrimary =>
        let ans := if fromPrimary then c.pAns else c.sAns
        if ans then some { s with recvd := s.recvd + 1, result := if fromPrimary then .prim else .sec }
        else if s.recvd.val = 1 then some { s with recvd := 2, result := .failed }
        else some { s with recvd := s.recvd + 1 }
    else none
  | .mCtx => if s.result = .none && s.ctxDone then some { s with result := .ctx } else none

def run (c : Cfg) : St → List Label → Option St
  | s, [] => some s
  | s, l :: ls => match step c s l with
    | none => none
    | some s' => run c s' ls

/-- breadth-first closure, for exploration and for the search tier (not used in proofs) -/
def explore (c : Cfg) : Nat → List St → List St → List St
  | 0, seen, _ => seen
  | fuel + 1, seen, frontier =>
    let next := (frontier.flatMap (fun s => Label.all.filterMap (step c s))).eraseDups
    let fresh := next.filter (fun s => !seen.contains s)
    if fresh.isEmpty then seen else explore c fuel (seen ++ fresh) fresh

/-- What the property says about a state: the secondary's answer is the result
only with an excuse; an error only if both fail; an answer is an answer. -/
def good (c : Cfg) (s : St) : Bool :=
  (s.result != .sec || s.sqExcuse) &&
  (s.result != .failed || (!c.pAns && !c.sAns)) &&
  (s.result != .prim || c.pAns) && (s.result != .sec || c.sAns)

/-- ... and about a step: the secondary is started only when always_standby is
on, the primary has failed, or the threshold timer has fired. -/
def goodStart (c : Cfg) (s s' : St) : Bool :=
  !(!secStarted s && secStarted s') || c.standby || primFailed c s || s.timer

/-- The inductive invariant (found by hand, checked for inductiveness by the kernel). -/
def inv (c : Cfg) (s : St) : Bool :=
  -- a non-standby secondary runs only after the primary failed or the timer fired
  (c.standby || !secStarted s || primFailed c s || s.timer) &&
  -- when it queued an answer it had an excuse, or the primary's answer was already queued
  (!(sSent s && c.sAns) || s.sqExcuse || (pSent c s && s.pFirst && c.pAns)) &&
  -- order flag: the primary alone in the queue was first
  (!(pSent c s && !sSent s) || s.pFirst) &&
  -- the caller received only what was sent
  (s.recvd.val == 0 || pSent c s || sSent s) && (s.recvd.val != 2 || (pSent c s && sSent s)) &&
  (s.recvd.val != 0 || s.result == .none || s.result == .ctx) &&
  -- results
  (s.result != .prim || (c.pAns && pSent c s)) &&
  (s.result != .sec || (c.sAns && sSent s && !(c.pAns && pSent c s && s.pFirst))) &&
  (s.result != .failed || (!c.pAns && !c.sAns && s.recvd.val == 2)) &&
  -- a caller still collecting after one item received a nil from the one who sent first
  (!((s.result == .none || s.result == .ctx) && s.recvd.val == 1) ||
    (if pSent c s && (!sSent s || s.pFirst) then !c.pAns else !c.sAns)) &&
  (!(s.result == .none && s.recvd.val == 2))

end Model.C20
