import MosdnsVerif.Model.C01
import Std.Data.HashMap

/-! Executable refinement of `Model.C01.Pipe`: the partial functions of the
model are hash maps here, so that the driver can follow histories with 10^5
operations (a full turn of the 16-bit counter). `Refine.C01` proves that every
step commutes with the abstraction `XPipe.abs`. -/
namespace Model.C01

abbrev Tbl := Std.HashMap Nat Nat

def Tbl.fn (t : Tbl) : Nat → Option Nat := fun k => t[k]?

def Tbl.upd (t : Tbl) (k : Nat) : Option Nat → Tbl
  | some v => t.insert k v
  | none => t.erase k

structure XPipe where
  next : Nat := 0
  table : Tbl := {}
  nextCaller : Nat := 0
  widOf : Tbl := {}
  lastUser : Tbl := {}
  log : List (Nat × Nat) := []

def XPipe.abs (x : XPipe) : Pipe :=
  { next := x.next, table := x.table.fn, nextCaller := x.nextCaller, widOf := x.widOf.fn, lastUser := x.lastUser.fn, log := x.log }

def XPipe.step (tries : Nat) (x : XPipe) : Label → Option XPipe
  | .add =>
    let c := x.nextCaller
    match alloc x.table.fn tries x.next with
    | (none, next') => some { x with next := next', nextCaller := c + 1 }
    | (some qid, next') =>
      some { x with next := next', nextCaller := c + 1, table := x.table.upd qid (some c),
                    widOf := x.widOf.upd c (some qid), lastUser := x.lastUser.upd qid (some c) }
  | .reply w origin =>
    if x.abs.replyEnabled w origin then
      match x.table.fn w with
      | some c => some { x with table := x.table.upd w none, log := (c, origin) :: x.log }
      | none => some x
    else none
  | .leave c =>
    match x.widOf.fn c with
    | some w => if x.table.fn w = some c then some { x with table := x.table.upd w none } else some x
    | none => some x

end Model.C01
