import MosdnsVerif.Model.C08
import MosdnsVerif.Base.Facts
import MosdnsVerif.Gen.Facts

/-! The two instances of the retry loop: the loop's own test is read from the
source on every run (comparison operator and `maxRetry` constant). -/
namespace Model.C08Inst
open Base

def reuseAllow (r : Nat) : Bool := Gen.Facts.c08ReuseCmp.eval r (Gen.Facts.c08ReuseMaxRetry.getD 0)
def pipelineAllow (r : Nat) : Bool := Gen.Facts.c08PipelineCmp.eval r (Gen.Facts.c08PipelineMaxRetry.getD 0)

def reuseLoop (ts : List Model.C08.Turn) : Model.C08.Res := Model.C08.loop reuseAllow false ts 0 0
def pipelineLoop (ts : List Model.C08.Turn) : Model.C08.Res := Model.C08.loop pipelineAllow true ts 0 0

end Model.C08Inst
