import MosdnsVerif.Model.Handler

/-! Model of what `Model.Handler` abstracts away: the query is a heap OBJECT.

`EntryHandler.Handle` keeps the pointer `q` it received; `NewContext(q)` stores the same pointer in the
context, so at first `qCtx.Q()` and `q` are one object. `redirect` writes the question name through the
pointer it read from the context when it was entered and restores it (deferred) through that same pointer.
The dual-stack selector, on its pass paths, overwrites the whole context with the deep copy on which it ran
the client's query (`*qCtx = *qCtxOrg`): from then on `qCtx.Q()` is ANOTHER object than the one the handler
and the plugins in front of the selector hold, and a restore done through an old pointer no longer reaches it.

Objects are numbered; object 0 is the received message. `c.q` is the content of the object the context
points to (`ptr`); `dead` are the objects the context pointed to earlier (somebody may still hold a pointer
to them). `fresh` is the highest number in use. -/
namespace Model.C03Sel
open Model.Handler

structure St where
  c : Ctx
  ptr : Nat := 0
  dead : List (Nat × Msg) := []
  fresh : Nat := 0
  deriving DecidableEq, Repr

def lookup (id : Nat) : List (Nat × Msg) → Option Msg
  | [] => none
  | (i, m) :: t => if i = id then some m else lookup id t

/-- content of object `id` -/
def St.obj (s : St) (id : Nat) : Option Msg := if s.ptr = id then some s.c.q else lookup id s.dead

/-- the message the handler holds -/
def St.recv (s : St) : Option Msg := s.obj 0

/-- a write through a pointer to object `id` -/
def St.write (s : St) (id : Nat) (f : Msg → Msg) : St :=
  if s.ptr = id then { s with c := { s.c with q := f s.c.q } }
  else { s with dead := s.dead.map (fun p => if p.1 = id then (p.1, f p.2) else p) }

/-- `Context.Copy`, made the current context: the old query object stays behind -/
def St.fork (s : St) : St :=
  { s with ptr := s.fresh + 1, dead := (s.ptr, s.c.q) :: s.dead, fresh := s.fresh + 1 }

def initial (q : Msg) : St := { c := newContext q }

def setName (n : Bytes) (m : Msg) : Msg := { m with question := m.question.map (fun x => { x with name := n }) }

/-- The deferred function of `redirect.Exec`. `p`: the pointer read on entry. `both` (fact
`c03RedirectRestoresCurrentQuery`, finding F13): the name is also restored on the object the context points
to NOW, if that is another object with one question that carries the target - a plugin below (the dual-stack
selector) replaced the context by a copy. -/
def restore (both : Bool) (p : Nat) (target org : Bytes) (s : St) : St :=
  let s4 := s.write p (setName org)
  if both && s4.ptr != p then
    match s4.c.q.question with
    | [y] => if y.name = target then s4.write s4.ptr (setName org) else s4
    | _ => s4
  else s4

/-- `redirect.Exec`: `rule` is the plugin's matcher applied to the question it finds (`none`: no rule for this
name, or the class is not IN). The name is written through the pointer read on entry and restored by
`restore`; names in the reply equal to the target are restored, a CNAME is put in front. -/
def redirect (both : Bool) (rule : Question → Option Bytes) (next : St → St × Bool) (s : St) : St × Bool :=
  match s.c.q.question with
  | [qq] =>
    match rule qq with
    | none => next s
    | some target =>
      let p := s.ptr
      let r := next (s.write p (setName target))
      let s3 : St := match r.1.c.resp with
        | some m => { r.1 with c := { r.1.c with resp := some { renameQ m target qq.name with answer := .rr qq.name 5 1 0 :: m.answer } } }
        | none => r.1
      (restore both p target qq.name s3, r.2)
  | _ => next s

def hasRR (m : Option Msg) (t : Nat) : Bool :=
  match m with
  | some r => r.answer.any (fun x => match x with | .rr _ rt _ _ => rt == t | .opt _ => false)
  | none => false

/-- `dual_selector.Exec` without its memory and timers: a query of the other address type is run twice on
copies, once with the preferred type (the reference); if the reference found a record of the preferred type
the selector answers itself (empty reply built from the query), else the context is REPLACED by the copy
on which the query itself was run. `known`: the selector remembers that the name has the preferred type. -/
def selector (prefer : Nat) (known : Bool) (next : St → St × Bool) (s : St) : St × Bool :=
  match s.c.q.question with
  | [qq] =>
    if qq.qtype ≠ 1 ∧ qq.qtype ≠ 28 then next s
    else if qq.qtype = prefer then next s
    else
      let block : St × Bool := ({ s with c := localAnswer 0 [] [] s.c }, false)
      if known then block else
      let ref := next (s.fork.write (s.fresh + 1) (fun m => { m with question := [{ qq with qtype := prefer }] }))
      if !ref.2 && hasRR ref.1.c.resp prefer then block
      else next s.fork
  | _ => next s

/-- the response `Handle` starts from. `fromRecv`: SERVFAIL / REFUSED are built from the received message
(`resp.SetReply(q)`, fact `c03ServfailRefusedFromQuery`); otherwise from whatever the context points to. -/
def baseS (fromRecv : Bool) (s : St) (failed : Bool) : Msg :=
  let src := if fromRecv then s.recv.getD s.c.q else s.c.q
  if failed then { setReply src with rcode := 2 }
  else match s.c.resp with
    | some r => r
    | none => { setReply src with rcode := 5 }

def replyS (fromRecv : Bool) (entry : St → St × Bool) (truncate : Msg → Nat → Msg) (fromUDP : Bool) (q : Msg) : Option Msg :=
  if !validQuery q then none else
  let r := entry (initial q)
  some (finish truncate fromUDP r.1.c (baseS fromRecv r.1 r.2))

/-! ### Chains: plugins that wrap the rest of the chain, in front of a last plugin -/

/-- a plugin that neither touches the query nor replaces the context (ttl, ecs_handler, ...): it may rewrite
the response; `upstream`: the last plugin as a function of the context -/
inductive Plug where
  | redirect (rule : Question → Option Bytes)
  | selector (prefer : Nat) (known : Bool)
  | mapResp (f : Msg → Msg)
  | localAns (rcode : Nat) (answer ns : List RR)

def last (up : Ctx → Ctx × Bool) (s : St) : St × Bool :=
  let r := up s.c
  ({ s with c := { r.1 with q := s.c.q } }, r.2)

def runChain (both : Bool) (up : Ctx → Ctx × Bool) : List Plug → St → St × Bool
  | [] => last up
  | .redirect t :: rest => redirect both t (runChain both up rest)
  | .selector p k :: rest => selector p k (runChain both up rest)
  | .mapResp f :: rest => fun s => runChain both up rest { s with c := { s.c with resp := s.c.resp.map f } }
  | .localAns rc an ns :: rest => fun s => runChain both up rest { s with c := localAnswer rc an ns s.c }

/-- two rules of a sequence one after the other: `f` RETURNS (as a sequence invoked as a plugin, `exec: $sub`,
does), then, unless it failed, `g` runs on the context `f` left behind -/
def seq (f g : St → St × Bool) (s : St) : St × Bool :=
  let r := f s
  if r.2 then r else g r.1

/-- a locally generated answer (`reject n`, hosts, black_hole, arbitrary) as a rule of its own -/
def localRule (rcode : Nat) (answer ns : List RR) (s : St) : St × Bool :=
  ({ s with c := localAnswer rcode answer ns s.c }, false)

end Model.C03Sel
