/-! Model of message ownership around the cache (C10).

Messages are handles into a heap: a handle is the list of the locations
reachable from it (question elements, resource records and what hangs off
them). A deep copy allocates fresh locations with the same contents, a shallow
copy (struct copy, re-slice) shares them. Callers mutate the heap only
through handles they hold. Which kind of copy the store path and the two hit
paths make is a parameter (regenerated facts). -/
namespace Model.C10

-- locations are natural numbers

structure Heap where
  cells : Nat → Nat := fun _ => 0
  next : Nat := 0

def Heap.read (h : Heap) (ls : List Nat) : List Nat := ls.map h.cells

def Heap.write (h : Heap) (l : Nat) (v : Nat) : Heap := { h with cells := fun x => if x = l then v else h.cells x }

/-- allocate fresh locations holding `vals` -/
def Heap.alloc (h : Heap) : List Nat → Heap × List Nat
  | [] => (h, [])
  | v :: vs =>
    let l := h.next
    let h1 : Heap := { cells := fun x => if x = l then v else h.cells x, next := h.next + 1 }
    let (h2, ls) := Heap.alloc h1 vs
    (h2, l :: ls)

structure Cfg where
  storeDeep : Bool      -- saveRespToCache stores copyNoOpt(r): new Question slice, dns.Copy of every RR
  hitDeep : Bool        -- getRespFromCache, fresh entry: v.resp.Copy()
  lazyHitDeep : Bool    -- getRespFromCache, stale entry served by the lazy cache: v.resp.Copy()
  missPrivate : Bool    -- Exec on a miss: the query walks the rest of the chain itself (next.ExecNext with its own qCtx) and keeps
                        -- what that produced; it is never handed (a struct copy of) another in-flight query's response
  deriving DecidableEq, Repr

structure Entry where
  key : Nat
  locs : List Nat
  snap : List Nat        -- ghost: contents at the time of the store
  deriving Repr

structure St where
  heap : Heap := {}
  cache : List Entry := []          -- newest first; lookup takes the first entry of the key
  callers : List (List Nat) := []   -- handles held outside the cache (responses produced, hits served)

inductive Op where
  | produce (vals : List Nat)          -- some plugin builds a response
  | store (key : Nat) (c : Nat)        -- the cache stores the caller's c-th handle under key
  | hit (key : Nat) (lazy : Bool) (qid : Nat)   -- a query is served from the cache (fresh or stale entry)
  | mutate (c i v : Nat)               -- whoever holds handle c overwrites its i-th location
  deriving Repr

structure Out where
  served : Option (Nat × List Nat)     -- id and contents handed out by a hit
  expected : Option (List Nat)         -- ghost: contents of the latest store under that key
  deriving Repr

def lookup (cache : List Entry) (k : Nat) : Option Entry := cache.find? (·.key == k)

def St.step (cfg : Cfg) (s : St) : Op → St × Out
  | .produce vals =>
    let (h, ls) := s.heap.alloc vals
    ({ s with heap := h, callers := s.callers ++ [ls] }, ⟨none, none⟩)
  | .store k c =>
    match s.callers[c]? with
    | none => (s, ⟨none, none⟩)
    | some ls =>
      let vals := s.heap.read ls
      if cfg.storeDeep then
        let (h, new) := s.heap.alloc vals
        ({ s with heap := h, cache := ⟨k, new, vals⟩ :: s.cache }, ⟨none, none⟩)
      else ({ s with cache := ⟨k, ls, vals⟩ :: s.cache }, ⟨none, none⟩)
  | .hit k lazy qid =>
    match lookup s.cache k with
    | none => (s, ⟨none, none⟩)
    | some e =>
      let deep := if lazy then cfg.lazyHitDeep else cfg.hitDeep
      if deep then
        let (h, new) := s.heap.alloc (s.heap.read e.locs)
        ({ s with heap := h, callers := s.callers ++ [new] }, ⟨some (qid, h.read new), some e.snap⟩)
      else ({ s with callers := s.callers ++ [e.locs] }, ⟨some (qid, s.heap.read e.locs), some e.snap⟩)
  | .mutate c i v =>
    match s.callers[c]? with
    | none => (s, ⟨none, none⟩)
    | some ls =>
      match ls[i]? with
      | none => (s, ⟨none, none⟩)
      | some l => ({ s with heap := s.heap.write l v }, ⟨none, none⟩)

def St.run (cfg : Cfg) : St → List Op → St × List Out
  | s, [] => (s, [])
  | s, op :: ops =>
    let (s1, o) := s.step cfg op
    let (s2, os) := St.run cfg s1 ops
    (s2, o :: os)

def allDeep : Cfg := ⟨true, true, true, true⟩

structure St.Inv (s : St) : Prop where
  cacheOk : ∀ e ∈ s.cache, s.heap.read e.locs = e.snap ∧ (∀ l ∈ e.locs, l < s.heap.next) ∧ (∀ c ∈ s.callers, ∀ l ∈ e.locs, l ∉ c)
  callersOk : ∀ c ∈ s.callers, ∀ l ∈ c, l < s.heap.next

/-! ## queries that miss, and what a caller sees through a handle it holds -/

inductive XOp where
  | base (op : Op)
  /-- a query for `k` misses and goes through `Exec`; its upstream would answer `vals`; `inflight` is the handle of the
  response of another query for the same key that is still on its way -/
  | miss (k qid : Nat) (vals : List Nat) (inflight : Option Nat)
  | look (c : Nat)                     -- the holder of handle c reads its message
  deriving Repr

structure XOut where
  out : Out
  seen : Option (List Nat)
  deriving Repr

def St.xstep (cfg : Cfg) (s : St) : XOp → St × XOut
  | .base op => ((s.step cfg op).1, ⟨(s.step cfg op).2, none⟩)
  | .miss k qid vals inflight =>
    match (if cfg.missPrivate then none else inflight.bind (fun c => s.callers[c]?)) with
    | none =>
      -- the query's own exchange produced its response; Exec stores it
      let s1 := (s.step cfg (.produce vals)).1
      ((s1.step cfg (.store k s.callers.length)).1, ⟨⟨some (qid, (s.heap.alloc vals).1.read (s.heap.alloc vals).2), some vals⟩, none⟩)
    | some ls =>
      -- the query is handed a struct copy of the in-flight response: the same locations
      let s1 : St := { s with callers := s.callers ++ [ls] }
      ((s1.step cfg (.store k s.callers.length)).1, ⟨⟨some (qid, s.heap.read ls), some vals⟩, none⟩)
  | .look c => (s, ⟨⟨none, none⟩, (s.callers[c]?).map s.heap.read⟩)

def St.xrun (cfg : Cfg) : St → List XOp → St × List XOut
  | s, [] => (s, [])
  | s, op :: ops =>
    let (s1, o) := s.xstep cfg op
    let (s2, os) := St.xrun cfg s1 ops
    (s2, o :: os)

/-- handles held outside the cache are pairwise disjoint -/
def St.Disj (s : St) : Prop := s.callers.Pairwise (fun a b => ∀ l ∈ a, l ∉ b)

end Model.C10
