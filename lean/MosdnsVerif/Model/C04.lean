import MosdnsVerif.Base.Types

/-! Hand-written model of the cache key (C04). `Refine/C04.lean` proves the
regenerated `Gen.getMsgKey` equal to `Model.C04.msgKey`. -/
namespace Model.C04
open Base

/-- Queries the cache handles at all (others bypass it with an empty key). -/
def cacheable (q : Query) : Bool := !q.response && q.opcode == 0 && q.nQuestion == 1

def flags (q : Query) : UInt8 :=
  (if q.ad then 1 else 0) ||| (if q.cd then 2 else 0) ||| (if q.dnssecOk then 4 else 0)

def msgKey (q : Query) : Bytes :=
  if cacheable q then
    flags q :: (q.qtype >>> 8).toUInt8 :: q.qtype.toUInt8 ::
      (q.qclass >>> 8).toUInt8 :: q.qclass.toUInt8 :: Go.int8 q.name.length :: q.name
  else []

/-- What "the same question" means in the property. -/
def SameQuestion (a b : Query) : Prop :=
  a.name = b.name ∧ a.qtype = b.qtype ∧ a.qclass = b.qclass ∧
  a.ad = b.ad ∧ a.cd = b.cd ∧ a.dnssecOk = b.dnssecOk

/-! A key-value store that behaves like the cache backend as far as keys are
concerned (exactness of the real store is C11): association list, last write
wins. Each entry remembers (ghost) the query whose answer it holds. -/
structure Entry (α : Type) where
  storedBy : Query
  val : α
  deriving DecidableEq

abbrev Store (α : Type) := List (Bytes × Entry α)

inductive Op (α : Type) where
  | store (q : Query) (v : α)   -- cache miss path: answer for q is saved under msgKey q
  | flush

def step {α} (s : Store α) : Op α → Store α
  | .store q v => if msgKey q = [] then s else (msgKey q, ⟨q, v⟩) :: s.filter (fun p => p.1 != msgKey q)
  | .flush => []

def lookup {α} (s : Store α) (q : Query) : Option (Entry α) :=
  if msgKey q = [] then none else (s.find? (fun p => p.1 == msgKey q)).map (·.2)

/-! ## Cache lives: dump and load

`writeDump` walks the store and records every live entry with a key; `readDump`
stores every recorded entry, last write wins, into the instance it runs on (a
fresh one at start-up with `dump_file`, any instance with `POST /load_dump`).
What the two do with the key is read from the source (facts `c04DumpWritesKey`,
`c04DumpLoadKeepsKey`): the entry's own key is written and the dumped key bytes
are the key it is stored under, untransformed; for any other reading no load key
function is known. -/
def dumpLoadKey (writesKey loadKeepsKey : Option Bool) : Option (Bytes → Bytes) :=
  if writesKey = some true ∧ loadKeepsKey = some true then some (fun k => k) else none

/-- `readDump` on a store `s` with the dumped entries `d` (in the order of the dump). -/
def loadDump {α} (loadKey : Bytes → Bytes) (s : Store α) (d : List (Bytes × Entry α)) : Store α :=
  d.foldl (fun s p => (loadKey p.1, p.2) :: s.filter (fun x => x.1 != loadKey p.1)) s

/-- The stores a cache plugin can be in over any number of lives: it starts empty,
stores and flushes, and may at any time load a dump `d` of some reachable store `s₀`
(itself earlier, another instance). A dump holds entries of `s₀` in any order; it may
leave entries out (expired ones are skipped). -/
inductive Reach {α : Type} (loadKey : Bytes → Bytes) : Store α → Prop
  | fresh : Reach loadKey []
  | op (s : Store α) (o : Op α) : Reach loadKey s → Reach loadKey (step s o)
  | load (s s₀ : Store α) (d : List (Bytes × Entry α)) : Reach loadKey s → Reach loadKey s₀ →
      (∀ p ∈ d, p ∈ s₀) → Reach loadKey (loadDump loadKey s d)

/-- A load-time "upgrade" of keys that look like an older layout
(`bits, 0, type, len, name`, no class): such a key gets class IN spliced in. Used
only as a counterexample (`Props.C04.guessed_layout_is_wrong`). -/
def upgradeOld : Bytes → Bytes
  | f :: 0 :: t :: l :: rest => if l.toNat = rest.length then f :: 0 :: t :: 0 :: 1 :: l :: rest else f :: 0 :: t :: l :: rest
  | k => k

/-! ## Plugin chains: several cache plugins, the question may change between them

What travels along a chain, as far as C04 is concerned: the question the next
plugin sees, and whatever else the query context carries (stored values, marks),
which `Context.Copy` duplicates and which no plugin that rewrites the question
(`redirect`, `prefer_ipv4` / `prefer_ipv6` on a copy) resets. -/
structure Ctx where
  q : Query
  carried : List Bytes
  deriving DecidableEq

/-- The key `Cache.Exec` looks up and stores under, as a function of the context
it is handed. The regenerated fact says whether it is `getMsgKey(qCtx.Q())`,
evaluated by this `Exec` and used for every access; for any other reading no
key function is known. -/
def execKey (keyOfCurrentQuery singleKey : Option Bool) : Option (Ctx → Bytes) :=
  if keyOfCurrentQuery = some true ∧ singleKey = some true then some (fun ctx => msgKey ctx.q) else none

/-- What is observable at the cache plugins of a chain. The contexts of two
events are unrelated: between two cache plugins the question may be rewritten in
place or on a copy in any way. -/
inductive Ev where
  | store (cache : Nat) (ctx : Ctx) (v : Nat)  -- miss path: `cache` saved answer `v` as the answer of `ctx`
  | hit (cache : Nat) (ctx : Ctx) (v : Nat)    -- `cache` answered `ctx` with the stored answer `v`
  deriving DecidableEq

structure Rec where
  cache : Nat
  key : Bytes
  storedBy : Query
  val : Nat
  deriving DecidableEq

/-- Trace acceptor. Every stored answer is remembered (expiry, eviction and the
order of two concurrent stores under one key are C05 / C11 matters): a hit is
accepted iff this cache instance has at some point stored that answer under the
key of the context that is being served. -/
def accept (keyFn : Ctx → Bytes) (s : List Rec) : Ev → Option (List Rec)
  | .store c ctx v => if keyFn ctx = [] then some s else some (⟨c, keyFn ctx, ctx.q, v⟩ :: s)
  | .hit c ctx v =>
    if keyFn ctx != [] && s.any (fun r => r.cache == c && r.key == keyFn ctx && r.val == v) then some s else none

def acceptAll (keyFn : Ctx → Bytes) : List Rec → List Ev → Option (List Rec)
  | s, [] => some s
  | s, e :: es => match accept keyFn s e with
    | some s' => acceptAll keyFn s' es
    | none => none

/-- Index of the first event the acceptor refuses. -/
def firstRejected (keyFn : Ctx → Bytes) : List Rec → List Ev → Nat → Option Nat
  | _, [], _ => none
  | s, e :: es, i => match accept keyFn s e with
    | some s' => firstRejected keyFn s' es (i + 1)
    | none => some i

/-- What `Cache.Exec` stores when the rest of the sequence has returned. Responses
are compared by identity: `before` is the response in the context when the rest
started (this cache's own hit, or whatever a plugin in front of it - another cache
whose hit travels on - had put there), `after` the one in the context when the rest
returned. The regenerated fact says whether the source compares exactly these
two; for any other reading no store function is known. A `store` event of the
trace acceptor stands for such a store. -/
def execStores (storesOnlyNewResponse : Option Bool) : Option (Option Nat → Option Nat → Option Nat) :=
  if storesOnlyNewResponse = some true then some (fun before after => if after = before then none else after) else none

/-- The earlier condition: only this cache's own hit is left out. -/
def execStoresUnlessOwnHit (ownHit _before after : Option Nat) : Option Nat :=
  if after = ownHit then none else after

end Model.C04
