import MosdnsVerif.Base.Types

/-! Hand-written model of the cache key (C04). `Refine/C04.lean` proves the
regenerated `Gen.getMsgKey` equal to `Model.C04.msgKey`. -/
namespace Model.C04
open Base

/-- Queries the cache handles at all (others bypass it with an empty key). -/
def cacheable (q : Query) : Bool := !q.response && q.opcode == 0 && q.nQuestion == 1

def flags (q : Query) : UInt8 :=
  (if q.ad then 1 else 0) ||| (if q.cd then 2 else 0) ||| (if q.dnssecOk then 4 else 0)

def msgKey (q : Query) : Bytes :=
  if cacheable q then
    flags q :: (q.qtype >>> 8).toUInt8 :: q.qtype.toUInt8 ::
      (q.qclass >>> 8).toUInt8 :: q.qclass.toUInt8 :: Go.int8 q.name.length :: q.name
  else []

/-- What "the same question" means in the property. -/
def SameQuestion (a b : Query) : Prop :=
  a.name = b.name ∧ a.qtype = b.qtype ∧ a.qclass = b.qclass ∧
  a.ad = b.ad ∧ a.cd = b.cd ∧ a.dnssecOk = b.dnssecOk

/-! A key-value store that behaves like the cache backend as far as keys are
concerned (exactness of the real store is C11): association list, last write
wins. Each entry remembers (ghost) the query whose answer it holds. -/
structure Entry (α : Type) where
  storedBy : Query
  val : α
  deriving DecidableEq

abbrev Store (α : Type) := List (Bytes × Entry α)

inductive Op (α : Type) where
  | store (q : Query) (v : α)   -- cache miss path: answer for q is saved under msgKey q
  | flush

def step {α} (s : Store α) : Op α → Store α
  | .store q v => if msgKey q = [] then s else (msgKey q, ⟨q, v⟩) :: s.filter (fun p => p.1 != msgKey q)
  | .flush => []

def lookup {α} (s : Store α) (q : Query) : Option (Entry α) :=
  if msgKey q = [] then none else (s.find? (fun p => p.1 == msgKey q)).map (·.2)

end Model.C04
