/-! Who holds which timer of the process-wide timer pool (C20).

`Model.C20Pool` / `Model.C20Hold` follow ONE pooled timer. The pool has many
timers and several kinds of client (fallback's secondary worker, the sleep
step, dual_selector). Two fallback calls that overlap in time each need a
threshold timer of their own: if both got the same `*time.Timer`, the release
of the first call would stop the threshold of the second. This file models the
pool as a table: for every timer ever created, how many times it lies in the
pool and how many borrowers currently hold it.

`exactlyOnce` is the regenerated fact `c20PoolClientsReleaseOnce` (together with
`c20ThresholdTimerFromPool` for fallback itself): a client hands a timer back
only while it holds it, and then no longer holds it. With `false` a client may
hand back a timer it has already handed back (`again`). -/
namespace Model.C20Share

/-- per timer: (copies lying in the pool, borrowers holding it) -/
abbrev St := List (Nat × Nat)

def init : St := []

inductive Ev where
  | fresh                 -- `GetTimer` on an empty pool: `time.NewTimer`
  | get (i : Nat)         -- `GetTimer` hands out timer i, which lies in the pool
  | release (i : Nat)     -- a borrower of timer i runs `ReleaseTimer` on it
  | again (i : Nat)       -- a client runs `ReleaseTimer` on timer i once more, after having handed it back
  deriving DecidableEq, Repr

def upd (f : Nat × Nat → Nat × Nat) : St → Nat → St
  | [], _ => []
  | x :: xs, 0 => f x :: xs
  | x :: xs, n + 1 => x :: upd f xs n

def at? : St → Nat → Option (Nat × Nat)
  | [], _ => none
  | x :: _, 0 => some x
  | _ :: xs, n + 1 => at? xs n

def step (exactlyOnce : Bool) (s : St) : Ev → Option St
  | .fresh => some (s ++ [(0, 1)])
  | .get i =>
    match at? s i with
    | some (p, _) => if p > 0 then some (upd (fun x => (x.1 - 1, x.2 + 1)) s i) else none
    | none => none
  | .release i =>
    match at? s i with
    | some (_, h) => if h > 0 then some (upd (fun x => (x.1 + 1, x.2 - 1)) s i) else none
    | none => none
  | .again i =>
    if exactlyOnce then none
    else match at? s i with
      | some _ => some (upd (fun x => (x.1 + 1, x.2)) s i)
      | none => none

def run (exactlyOnce : Bool) : St → List Ev → Option St
  | s, [] => some s
  | s, e :: es =>
    match step exactlyOnce s e with
    | none => none
    | some s' => run exactlyOnce s' es

/-- every timer is in exactly one place: in the pool once, or with one borrower -/
def inv (s : St) : Prop := ∀ x, x ∈ s → x.1 + x.2 = 1

end Model.C20Share
