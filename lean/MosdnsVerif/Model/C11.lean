/-! Model of the cache store (C11): `pkg/cache.Cache` over
`pkg/concurrent_map.Map` (64 independently locked shards with a per-shard
maximum). Each shard operation runs under the shard's lock (regenerated
facts), so a concurrent history is an interleaving of the atomic operations
below; the victims of an eviction are chosen by Go's map iteration order and
are an input of the model. -/
namespace Model.C11

def shardCount : Nat := 64

structure Entry where
  key : Nat
  val : Nat
  exp : Nat          -- expiration time
  deriving DecidableEq, Repr

abbrev Shard := List Entry      -- at most one entry per key

def Shard.lookup (s : Shard) (k : Nat) : Option Entry := s.find? (·.key == k)
def Shard.remove (s : Shard) (k : Nat) : Shard := s.filter (·.key != k)

/-- `shard.set`'s eviction loop: while `len+1 > max`, delete some key (the next
victim named by the environment if it is present, else the first key) -/
def evict (max : Nat) : Nat → Shard → List Nat → Shard
  | 0, s, _ => s
  | fuel + 1, s, victims =>
    if s.length + 1 > max then
      match s with
      | [] => s
      | e :: _ =>
        match victims with
        | v :: vs => if (s.lookup v).isSome then evict max fuel (s.remove v) vs else evict max fuel (s.remove e.key) vs
        | [] => evict max fuel (s.remove e.key) []
    else s

def Shard.set (max : Nat) (s : Shard) (e : Entry) (victims : List Nat) : Shard :=
  let s1 := if max > 0 && s.length + 1 > max then evict max s.length s victims else s
  e :: s1.remove e.key

structure Cache where
  perShard : Nat                    -- max of every shard (0 = unlimited)
  shards : Nat → Shard              -- shard i, i < shardCount

def clampSize (minSize : Nat) (size : Int) : Nat := if size < (minSize : Int) then minSize else size.toNat

def Cache.new (minSize : Nat) (size : Int) : Cache :=
  ⟨clampSize minSize size / shardCount, fun _ => []⟩

/-- the shard of a key: `key.Sum() % MapShardSize`; `sumOf` is the key type's hash -/
def shardOf (sumOf : Nat → Nat) (key : Nat) : Nat := sumOf key % shardCount

inductive Op where
  | store (key val exp now : Nat) (victims : List Nat)
  | get (key now : Nat)
  | flush
  | gc (now : Nat)
  | len
  deriving Repr

inductive Ret where
  | none | hit (val exp : Nat) | miss | len (n : Nat)
  deriving DecidableEq, Repr

def modifyShard (c : Cache) (i : Nat) (f : Shard → Shard) : Cache :=
  { c with shards := fun j => if j = i then f (c.shards j) else c.shards j }

def Cache.len (c : Cache) : Nat := ((List.range shardCount).map (fun i => (c.shards i).length)).sum

def Cache.step (sumOf : Nat → Nat) (c : Cache) : Op → Cache × Ret
  | .store key val exp now victims =>
    if now > exp then (c, .none)
    else (modifyShard c (shardOf sumOf key) (fun s => s.set c.perShard ⟨key, val, exp⟩ victims), .none)
  | .get key now =>
    match (c.shards (shardOf sumOf key)).lookup key with
    | some e => if e.exp < now then (modifyShard c (shardOf sumOf key) (·.remove key), .miss) else (c, .hit e.val e.exp)
    | none => (c, .miss)
  | .flush => ({ c with shards := fun _ => [] }, .none)
  | .gc now => ({ c with shards := fun i => (c.shards i).filter (fun e => !(decide (now > e.exp))) }, .none)
  | .len => (c, .len c.len)

def Cache.run (sumOf : Nat → Nat) (c : Cache) : List Op → Cache × List Ret
  | [] => (c, [])
  | op :: ops =>
    let (c1, r) := c.step sumOf op
    let (c2, rs) := Cache.run sumOf c1 ops
    (c2, r :: rs)

/-! ## where the map comes from after a `Flush`

The capacity lives in the map object (every shard's maximum, fixed when the map
is created from the normalised size). `Cache.step` empties the shards and leaves
`perShard` alone: that is `Flush` emptying the one map made in `New`. The other
possibility is a `Flush` that puts a newly made map there,
`NewMapCache(size)` for whatever `size` it has at hand (not normalised; `0` for
a field that was never filled in). Which one the code does is a regenerated fact. -/

/-- `rebuild = none`: empty the map in place; `rebuild = some size`: replace it by `NewMapCache(size)` -/
def Cache.flushIn (rebuild : Option Int) (c : Cache) : Cache :=
  match rebuild with
  | none => { c with shards := fun _ => [] }
  | some size => ⟨size.toNat / shardCount, fun _ => []⟩

def Cache.stepIn (rebuild : Option Int) (sumOf : Nat → Nat) (c : Cache) : Op → Cache × Ret
  | .flush => (c.flushIn rebuild, .none)
  | op => c.step sumOf op

def Cache.runIn (rebuild : Option Int) (sumOf : Nat → Nat) (c : Cache) : List Op → Cache × List Ret
  | [] => (c, [])
  | op :: ops =>
    let (c1, r) := c.stepIn rebuild sumOf op
    let (c2, rs) := Cache.runIn rebuild sumOf c1 ops
    (c2, r :: rs)

/-- the specification: what was last stored under a key and not flushed since -/
def specStep(spec : Nat → Option Entry) : Op → (Nat → Option Entry)
  | .store key val exp now _ => if now > exp then spec else fun k => if k = key then some ⟨key, val, exp⟩ else spec k
  | .flush => fun _ => none
  | _ => spec

def specRun (spec : Nat → Option Entry) : List Op → (Nat → Option Entry)
  | [] => spec
  | op :: ops => specRun (specStep spec op) ops

/-! ## elems behind pointers

The shard map holds pointers to elems. `Cache.Get` fetches the pointer under the
shard's read lock, releases the lock and only then reads the elem's fields, so
any number of operations of other goroutines run between the fetch and the
read. `Cache.step` above treats the lookup as one atomic step; that is sound
exactly when an elem is never written after it was put into the map. Whether
the code writes to elems anywhere but at their creation is a regenerated fact
(`recycle` below is its negation). -/

structure Cell where
  val : Nat
  exp : Nat
  deriving DecidableEq, Repr

structure ElemHeap where
  cell : Nat → Cell        -- contents of the elem at an address
  next : Nat               -- addresses from `next` on were never handed out
  pool : List Nat          -- swept elems waiting to be reused (stays empty unless `recycle`)

/-- what other goroutines do to the elems between a lookup's fetch and its read -/
inductive HOp where
  | store (val exp : Nat)  -- `Store`: obtain an elem and fill it (its address then goes into the map)
  | sweep (a : Nat)        -- the expiry sweep removes the map entry pointing to `a`
  deriving Repr

def ElemHeap.write (h : ElemHeap) (a : Nat) (c : Cell) : ElemHeap := { h with cell := fun x => if x = a then c else h.cell x }

def ElemHeap.step (recycle : Bool) (h : ElemHeap) : HOp → ElemHeap
  | .store v e =>
    match (if recycle then h.pool else []) with
    | a :: rest => { h.write a ⟨v, e⟩ with pool := rest }
    | [] => { h.write h.next ⟨v, e⟩ with next := h.next + 1 }
  | .sweep a => if recycle then { h.write a ⟨0, (h.cell a).exp⟩ with pool := a :: h.pool } else h

def ElemHeap.run (recycle : Bool) (h : ElemHeap) (ops : List HOp) : ElemHeap := ops.foldl (ElemHeap.step recycle) h

/-- the second half of `Cache.Get`: read the fetched elem after `between` ran, hide it if expired -/
def readFetched (recycle : Bool) (h : ElemHeap) (a : Nat) (between : List HOp) (now : Nat) : Ret :=
  let c := ((h.run recycle between).cell a)
  if c.exp < now then .miss else .hit c.val c.exp

/-! ## `RangeDo` on the shard map (pkg/concurrent_map)

`Map.RangeDo` visits every shard; per shard the callback sees each entry and
answers keep / set a new value / delete. The callbacks of the harness are
first-order: entries whose `key % m = r` get `act`, the others are kept.
`Shard.rangeDo` is the shard method as one critical section. Whether the code
does run it as one critical section is a regenerated fact; `Shard.rangeDoIn`
also describes the other possibility (decisions collected from the content seen,
lock released, decisions applied later with plain map writes), with the
operations other goroutines get in between as the function `between`. -/

inductive Act where
  | setAdd (d : Nat)     -- setV with newV = v + d
  | del                  -- delV
  | delOdd               -- delV when the value is odd, else keep (a sweep that looks at the value)
  deriving DecidableEq, Repr

structure RangeF where
  m : Nat
  r : Nat
  act : Act
  deriving DecidableEq, Repr

/-- the callback's answer for one entry: `none` = keep, `some none` = delete, `some (some e')` = set -/
def RangeF.answer (f : RangeF) (e : Entry) : Option (Option Entry) :=
  if e.key % f.m == f.r then
    match f.act with
    | .setAdd d => some (some { e with val := e.val + d })
    | .del => some none
    | .delOdd => if e.val % 2 == 1 then some none else none
  else none

def Shard.rangeDo (f : RangeF) (s : Shard) : Shard :=
  s.filterMap (fun e => match f.answer e with | none => some e | some r => r)

/-- the modifications a pass over the shard asks for -/
def Shard.collect (f : RangeF) (s : Shard) : List (Nat × Option Entry) :=
  s.filterMap (fun e => (f.answer e).map (fun r => (e.key, r)))

/-- applying collected modifications later: plain `m.m[k] = v` / `delete(m.m, k)` (no eviction) -/
def Shard.applyMods (s : Shard) : List (Nat × Option Entry) → Shard
  | [] => s
  | (k, some e) :: ms => Shard.applyMods (e :: s.remove k) ms
  | (k, none) :: ms => Shard.applyMods (s.remove k) ms

def Shard.rangeDoIn (oneSection : Bool) (f : RangeF) (s : Shard) (between : Shard → Shard) : Shard :=
  if oneSection then between (s.rangeDo f) else (between s).applyMods (s.collect f)

/-- `shard.set` seen as two steps with other goroutines' operations on the shard (`between`) in the middle: first a
look at the shard ("is the key stored?"), then the insert. `decidesWhenInserting = true` is the method as built: what the
shard looked like earlier plays no role, the eviction is decided on the shard as it is when the entry goes in (one
critical section). `false`: a key that was seen stored earlier is written without making room. -/
def Shard.setIn (decidesWhenInserting : Bool) (max : Nat) (s : Shard) (e : Entry) (victims : List Nat) (between : Shard → Shard) : Shard :=
  let seenStored := (s.lookup e.key).isSome
  let s' := between s
  if !decidesWhenInserting && seenStored then e :: s'.remove e.key else s'.set max e victims

/-- operations of `concurrent_map.Map` (no expiry at this level: entries carry `exp = 0`) -/
inductive MOp where
  | base (op : Op)                       -- set (= store at time 0), get, flush, len
  | del (key : Nat)
  | range (f : RangeF)                   -- returns the number of entries the callback saw
  | tas (key : Nat) (act : Act)          -- TestAndSet with the same kind of answer (a missing key: `setAdd d` stores d)
  deriving Repr

def Cache.mstep (sumOf : Nat → Nat) (c : Cache) : MOp → Cache × Ret
  | .base op => c.step sumOf op
  | .del key => (modifyShard c (shardOf sumOf key) (·.remove key), .none)
  | .range f => ({ c with shards := fun i => (c.shards i).rangeDo f }, .len c.len)
  | .tas key act =>
    let i := shardOf sumOf key
    match (c.shards i).lookup key with
    | some e =>
      match RangeF.answer ⟨1, 0, act⟩ e with
      | none => (c, .none)
      | some none => (modifyShard c i (·.remove key), .none)
      | some (some e') => (modifyShard c i (fun s => e' :: s.remove key), .none)
    | none => (c, .none)      -- the harness's TestAndSet callbacks leave a missing key alone

def Cache.mrun (sumOf : Nat → Nat) (c : Cache) : List MOp → Cache × List Ret
  | [] => (c, [])
  | op :: ops =>
    let (c1, r) := c.mstep sumOf op
    let (c2, rs) := Cache.mrun sumOf c1 ops
    (c2, r :: rs)

/-- the specification at this level: a pass (or TestAndSet) replaces what is stored under a key by the callback's answer
for exactly that stored value -/
def applyAnswer (f : RangeF) : Option Entry → Option Entry
  | some e => (match f.answer e with | none => some e | some r => r)
  | none => none

def mspecStep (spec : Nat → Option Entry) : MOp → (Nat → Option Entry)
  | .base op => specStep spec op
  | .del key => fun k => if k = key then none else spec k
  | .range f => fun k => applyAnswer f (spec k)
  | .tas key act => fun k => if k = key then applyAnswer ⟨1, 0, act⟩ (spec k) else spec k

def mspecRun (spec : Nat → Option Entry) : List MOp → (Nat → Option Entry)
  | [] => spec
  | op :: ops => mspecRun (mspecStep spec op) ops

/-! ## pkg/lru.LRU and pkg/concurrent_lru

An LRU is the list of its entries, oldest first. `ConcurrentLRU` is an LRU
behind one mutex (every method one critical section: regenerated fact), a
`ShardedLRU` is `n` of them selected by `key.Sum() % n`. `stores` says whether
the update branch of `Add` writes the value before anything else can happen
(regenerated fact); `stores = false` describes an `Add` that returns early when
the key is already the newest entry. -/

structure KV where
  key : Nat
  val : Nat
  deriving DecidableEq, Repr

abbrev Lru := List KV

def Lru.lookup (q : Lru) (k : Nat) : Option KV := q.find? (·.key == k)
def Lru.without (q : Lru) (k : Nat) : Lru := q.filter (·.key != k)

/-- `LRU.Add`: new state and what `onEvict` was called with, in order -/
def Lru.add (stores : Bool) (max : Nat) (q : Lru) (k v : Nat) : Lru × List KV :=
  match q.lookup k with
  | some e =>
    if !stores && q.getLast? == some e then (q, [])
    else (q.without k ++ [⟨k, v⟩], [])
  | none =>
    let o := q.length + 1 - max
    (q.drop o ++ [⟨k, v⟩], q.take o)

inductive LOp where
  | add (k v : Nat)
  | get (k : Nat)
  | del (k : Nat)
  | pop                      -- `PopOldest` (plain LRU only: shard 0)
  | clean (m r : Nat)        -- `Clean` with the predicate `(key + value) % m = r`
  | flush
  | len
  deriving Repr

inductive LRet where
  | evicted (l : List KV)    -- what `onEvict` got (for `pop`: what was returned)
  | hit (v : Nat)
  | miss
  | len (n : Nat)
  | none
  deriving DecidableEq, Repr

def cleanPred (m r : Nat) (e : KV) : Bool := (e.key + e.val) % m == r

structure SLru where
  n : Nat                    -- number of shards
  max : Nat                  -- maximum of every shard
  shards : Nat → Lru

def SLru.new (n max : Nat) : SLru := ⟨n, max, fun _ => []⟩

def SLru.shardOf (sumOf : Nat → Nat) (c : SLru) (k : Nat) : Nat := sumOf k % c.n

def SLru.modify (c : SLru) (i : Nat) (q : Lru) : SLru :=
  { c with shards := fun j => if j = i then q else c.shards j }

def SLru.len (c : SLru) : Nat := ((List.range c.n).map (fun i => (c.shards i).length)).sum

def SLru.step (stores : Bool) (sumOf : Nat → Nat) (c : SLru) : LOp → SLru × LRet
  | .add k v =>
    let i := c.shardOf sumOf k
    let r := (c.shards i).add stores c.max k v
    (c.modify i r.1, .evicted r.2)
  | .get k =>
    let i := c.shardOf sumOf k
    match (c.shards i).lookup k with
    | some e => (c.modify i ((c.shards i).without k ++ [e]), .hit e.val)
    | none => (c, .miss)
  | .del k =>
    let i := c.shardOf sumOf k
    match (c.shards i).lookup k with
    | some e => (c.modify i ((c.shards i).without k), .evicted [e])
    | none => (c, .evicted [])
  | .pop =>
    match c.shards 0 with
    | e :: rest => (c.modify 0 rest, .evicted [e])
    | [] => (c, .evicted [])
  | .clean m r =>
    ({ c with shards := fun i => (c.shards i).filter (fun e => !cleanPred m r e) },
     .evicted (((List.range c.n).map (fun i => (c.shards i).filter (cleanPred m r))).flatten))
  | .flush => ({ c with shards := fun _ => [] }, .none)
  | .len => (c, .len c.len)

def SLru.run (stores : Bool) (sumOf : Nat → Nat) (c : SLru) : List LOp → SLru × List LRet
  | [] => (c, [])
  | op :: ops =>
    let (c1, r) := c.step stores sumOf op
    let (c2, rs) := SLru.run stores sumOf c1 ops
    (c2, r :: rs)

/-- the specification: the value last added under a key and not flushed since -/
def lspecStep (spec : Nat → Option Nat) : LOp → (Nat → Option Nat)
  | .add k v => fun x => if x = k then some v else spec x
  | .flush => fun _ => none
  | _ => spec

def lspecRun (spec : Nat → Option Nat) : List LOp → (Nat → Option Nat)
  | [] => spec
  | op :: ops => lspecRun (lspecStep spec op) ops

end Model.C11
