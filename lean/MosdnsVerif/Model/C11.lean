/-! Model of the cache store (C11): `pkg/cache.Cache` over
`pkg/concurrent_map.Map` (64 independently locked shards with a per-shard
maximum). Each shard operation runs under the shard's lock (regenerated
facts), so a concurrent history is an interleaving of the atomic operations
below; the victims of an eviction are chosen by Go's map iteration order and
are an input of the model. -/
namespace Model.C11

def shardCount : Nat := 64

structure Entry where
  key : Nat
  val : Nat
  exp : Nat          -- expiration time
  deriving DecidableEq, Repr

abbrev Shard := List Entry      -- at most one entry per key

def Shard.lookup (s : Shard) (k : Nat) : Option Entry := s.find? (·.key == k)
def Shard.remove (s : Shard) (k : Nat) : Shard := s.filter (·.key != k)

/-- `shard.set`'s eviction loop: while `len+1 > max`, delete some key (the next
victim named by the environment if it is present, else the first key) -/
def evict (max : Nat) : Nat → Shard → List Nat → Shard
  | 0, s, _ => s
  | fuel + 1, s, victims =>
    if s.length + 1 > max then
      match s with
      | [] => s
      | e :: _ =>
        match victims with
        | v :: vs => if (s.lookup v).isSome then evict max fuel (s.remove v) vs else evict max fuel (s.remove e.key) vs
        | [] => evict max fuel (s.remove e.key) []
    else s

def Shard.set (max : Nat) (s : Shard) (e : Entry) (victims : List Nat) : Shard :=
  let s1 := if max > 0 && s.length + 1 > max then evict max s.length s victims else s
  e :: s1.remove e.key

structure Cache where
  perShard : Nat                    -- max of every shard (0 = unlimited)
  shards : Nat → Shard              -- shard i, i < shardCount

def clampSize (minSize : Nat) (size : Int) : Nat := if size < (minSize : Int) then minSize else size.toNat

def Cache.new (minSize : Nat) (size : Int) : Cache :=
  ⟨clampSize minSize size / shardCount, fun _ => []⟩

/-- the shard of a key: `key.Sum() % MapShardSize`; `sumOf` is the key type's hash -/
def shardOf (sumOf : Nat → Nat) (key : Nat) : Nat := sumOf key % shardCount

inductive Op where
  | store (key val exp now : Nat) (victims : List Nat)
  | get (key now : Nat)
  | flush
  | gc (now : Nat)
  | len
  deriving Repr

inductive Ret where
  | none | hit (val exp : Nat) | miss | len (n : Nat)
  deriving DecidableEq, Repr

def modifyShard (c : Cache) (i : Nat) (f : Shard → Shard) : Cache :=
  { c with shards := fun j => if j = i then f (c.shards j) else c.shards j }

def Cache.len (c : Cache) : Nat := ((List.range shardCount).map (fun i => (c.shards i).length)).sum

def Cache.step (sumOf : Nat → Nat) (c : Cache) : Op → Cache × Ret
  | .store key val exp now victims =>
    if now > exp then (c, .none)
    else (modifyShard c (shardOf sumOf key) (fun s => s.set c.perShard ⟨key, val, exp⟩ victims), .none)
  | .get key now =>
    match (c.shards (shardOf sumOf key)).lookup key with
    | some e => if e.exp < now then (modifyShard c (shardOf sumOf key) (·.remove key), .miss) else (c, .hit e.val e.exp)
    | none => (c, .miss)
  | .flush => ({ c with shards := fun _ => [] }, .none)
  | .gc now => ({ c with shards := fun i => (c.shards i).filter (fun e => !(decide (now > e.exp))) }, .none)
  | .len => (c, .len c.len)

def Cache.run (sumOf : Nat → Nat) (c : Cache) : List Op → Cache × List Ret
  | [] => (c, [])
  | op :: ops =>
    let (c1, r) := c.step sumOf op
    let (c2, rs) := Cache.run sumOf c1 ops
    (c2, r :: rs)

/-- the specification: what was last stored under a key and not flushed since -/
def specStep (spec : Nat → Option Entry) : Op → (Nat → Option Entry)
  | .store key val exp now _ => if now > exp then spec else fun k => if k = key then some ⟨key, val, exp⟩ else spec k
  | .flush => fun _ => none
  | _ => spec

def specRun (spec : Nat → Option Entry) : List Op → (Nat → Option Entry)
  | [] => spec
  | op :: ops => specRun (specStep spec op) ops

/-! ## elems behind pointers

The shard map holds pointers to elems. `Cache.Get` fetches the pointer under the
shard's read lock, releases the lock and only then reads the elem's fields, so
any number of operations of other goroutines run between the fetch and the
read. `Cache.step` above treats the lookup as one atomic step; that is sound
exactly when an elem is never written after it was put into the map. Whether
the code writes to elems anywhere but at their creation is a regenerated fact
(`recycle` below is its negation). -/

structure Cell where
  val : Nat
  exp : Nat
  deriving DecidableEq, Repr

structure ElemHeap where
  cell : Nat → Cell        -- contents of the elem at an address
  next : Nat               -- addresses from `next` on were never handed out
  pool : List Nat          -- swept elems waiting to be reused (stays empty unless `recycle`)

/-- what other goroutines do to the elems between a lookup's fetch and its read -/
inductive HOp where
  | store (val exp : Nat)  -- `Store`: obtain an elem and fill it (its address then goes into the map)
  | sweep (a : Nat)        -- the expiry sweep removes the map entry pointing to `a`
  deriving Repr

def ElemHeap.write (h : ElemHeap) (a : Nat) (c : Cell) : ElemHeap := { h with cell := fun x => if x = a then c else h.cell x }

def ElemHeap.step (recycle : Bool) (h : ElemHeap) : HOp → ElemHeap
  | .store v e =>
    match (if recycle then h.pool else []) with
    | a :: rest => { h.write a ⟨v, e⟩ with pool := rest }
    | [] => { h.write h.next ⟨v, e⟩ with next := h.next + 1 }
  | .sweep a => if recycle then { h.write a ⟨0, (h.cell a).exp⟩ with pool := a :: h.pool } else h

def ElemHeap.run (recycle : Bool) (h : ElemHeap) (ops : List HOp) : ElemHeap := ops.foldl (ElemHeap.step recycle) h

/-- the second half of `Cache.Get`: read the fetched elem after `between` ran, hide it if expired -/
def readFetched (recycle : Bool) (h : ElemHeap) (a : Nat) (between : List HOp) (now : Nat) : Ret :=
  let c := ((h.run recycle between).cell a)
  if c.exp < now then .miss else .hit c.val c.exp

end Model.C11
