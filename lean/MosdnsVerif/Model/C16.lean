import MosdnsVerif.Base.Go

/-! Model of RFC 1035 section 4.2.2 stream framing as mosdns implements it (C16). -/
namespace Model.C16
open Go

/-- Two-byte big-endian length. -/
def hdr (n : Nat) : Bytes := [UInt8.ofNat (n / 256), UInt8.ofNat (n % 256)]

/-- What is handed to the single `Write`: `none` = refused before writing. -/
def frame (m : Bytes) : Option Bytes :=
  if m.length > 65535 then none else some (hdr m.length ++ m)

/-- The length a two-byte header announces. -/
def announced (h : Bytes) : Nat := (h.getD 0 0).toNat * 256 + (h.getD 1 0).toNat

/-- Read one frame from a chunked stream. -/
def readRaw (c : Stream) : Except ReadErr (Bytes × Stream) :=
  match readFull c 2 with
  | .error e => .error e
  | .ok (h, c) => if announced h < 12 then .error .tooSmall else readFull c (announced h)

/-- Decode frames until the stream is exhausted (fuel = an upper bound on the
number of frames; the byte count of the stream always suffices). -/
def decodeAll : Nat → Stream → List Bytes × Option ReadErr
  | 0, _ => ([], none)
  | fuel + 1, c =>
    if c.flatten.isEmpty then ([], none) else
    match readRaw c with
    | .error e => ([], some e)
    | .ok (m, c') => let (ms, e) := decodeAll fuel c'; (m :: ms, e)

/-! ### The connection loop of `ServeTCP` under read deadlines

What the server reads from one connection is a list of *segments*: a segment is the chunked stream that arrives
before a read deadline fires; the next segment is what arrives afterwards (the client went on sending). Where the
deadlines fall is up to the environment (any list of segments with the same bytes). `io.ReadFull` has no memory: a
read that is cut short by the deadline has consumed the bytes of its segment and they are gone.

`serve resume` is the loop `for { set deadline; req, err := ReadMsgFromTCP(c); if err != nil { ... }; go handle(req) }`
and returns the messages handed to the handler, in order. On an error: `ErrPayloadTooSmall` always ends the
connection; running out of bytes inside the segment is `io.EOF` if nothing follows and a deadline error otherwise:
with `resume = false` (the source: fact `c16ReadErrEndsConn`) the loop returns, with `resume = true` it starts a new
read at the current position of the stream. -/
def serve (resume : Bool) : Nat → List Stream → List Bytes
  | 0, _ => []
  | _, [] => []
  | fuel + 1, seg :: rest =>
    match readRaw seg with
    | .ok (m, seg') => m :: serve resume fuel (seg' :: rest)
    | .error .tooSmall => []
    | .error _ => if resume && !rest.isEmpty then serve resume fuel rest else []

/-- The byte stream a client produces for a list of messages. -/
def enc (ms : List Bytes) : Bytes := (ms.map (fun m => hdr m.length ++ m)).flatten

/-! ### One stream of `ServeDoQ`: the reply under the stream deadline and the client's flow control

`ServeDoQ` arms one deadline when it accepts a stream (`limit` ms, never re-armed), reads the query, runs the handler
(done `tHandler` ms after the accept), hands the reply frame to one `stream.Write` and closes the stream (FIN at the
offset reached). A QUIC `Write` puts bytes on the stream as the client's flow control lets them through: the credit
is a list of grants `(t, n)`: from `t` ms after the accept on, `n` more bytes may go. A `Write` that starts at `t0` uses
a grant at `max t t0`; a write deadline `d` makes the `Write` return at `d`, so only grants usable before `d` count.
Whether the deadline of the stream bounds writes at all is the question (`SetReadDeadline` vs `SetDeadline`: fact
`c16DoqStreamDeadlineReadOnly`). -/
abbrev Grants := List (Nat × Nat)

def usable (deadline : Option Nat) (t0 : Nat) (g : Nat × Nat) : Bool :=
  match deadline with
  | none => true
  | some d => decide (max g.1 t0 < d)

def credit (deadline : Option Nat) (t0 : Nat) (gs : Grants) : Nat :=
  ((gs.filter (usable deadline t0)).map (·.2)).sum

/-- What `stream.Write b`, started at `t0`, has put on the stream when it returns. -/
def doqWrite (deadline : Option Nat) (t0 : Nat) (gs : Grants) (b : Bytes) : Bytes := b.take (credit deadline t0 gs)

/-- The bytes the client finds on the stream before FIN. -/
def doqStream (writeBounded : Bool) (limit tHandler : Nat) (gs : Grants) (reply : Bytes) : Bytes :=
  match frame reply with
  | none => []
  | some f => doqWrite (if writeBounded then some limit else none) tHandler gs f

end Model.C16
