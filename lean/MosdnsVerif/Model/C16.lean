import MosdnsVerif.Base.Go

/-! Model of RFC 1035 section 4.2.2 stream framing as mosdns implements it (C16). -/
namespace Model.C16
open Go

/-- Two-byte big-endian length. -/
def hdr (n : Nat) : Bytes := [UInt8.ofNat (n / 256), UInt8.ofNat (n % 256)]

/-- What is handed to the single `Write`: `none` = refused before writing. -/
def frame (m : Bytes) : Option Bytes :=
  if m.length > 65535 then none else some (hdr m.length ++ m)

/-- The length a two-byte header announces. -/
def announced (h : Bytes) : Nat := (h.getD 0 0).toNat * 256 + (h.getD 1 0).toNat

/-- Read one frame from a chunked stream. -/
def readRaw (c : Stream) : Except ReadErr (Bytes × Stream) :=
  match readFull c 2 with
  | .error e => .error e
  | .ok (h, c) => if announced h ≤ 12 then .error .tooSmall else readFull c (announced h)

/-- Decode frames until the stream is exhausted (fuel = an upper bound on the
number of frames; the byte count of the stream always suffices). -/
def decodeAll : Nat → Stream → List Bytes × Option ReadErr
  | 0, _ => ([], none)
  | fuel + 1, c =>
    if c.flatten.isEmpty then ([], none) else
    match readRaw c with
    | .error e => ([], some e)
    | .ok (m, c') => let (ms, e) := decodeAll fuel c'; (m :: ms, e)

end Model.C16
