/-! Model of the capacity accounting of one connection (C09).

`Tdc`: an established pipelined / UDP connection (`TraditionalDnsConn`):
`reservedQuery`, `len(queue)` and the limit `maxCq`. `Lazy`: a connection that
is still dialing (`lazyDnsConn`): `reservedQuery`, `earlyReserveCallWg`, the
limit `maxConcurrentQuery`.

Counters are `Int` as in the code (Go `int`): nothing in the model stops them
from going negative, the theorems show they never do. Callers are ghost
counters: how many hold a reservation, how many are inside `exchange` with
their entry still in the waiter table, how many with the entry already popped.
A label sequence whose steps are enabled is a history of the connection. -/
namespace Model.C09

inductive Out where
  | none | admitted | refused | closed
  deriving DecidableEq, Repr

/-! ### established connection -/

structure Tdc where
  max : Nat
  reserved : Int := 0     -- dc.reservedQuery
  queued : Int := 0       -- len(dc.queue)
  closed : Bool := false
  -- ghosts
  h : Nat := 0            -- callers holding a reservation, not yet in exchange
  e1 : Nat := 0           -- callers in exchange whose query is unanswered (entry in the table)
  e0 : Nat := 0           -- callers in exchange whose entry was popped by the reader
  nres : Nat := 0         -- reservations admitted so far
  deriving DecidableEq, Repr

inductive TLabel where
  | reserve                 -- ReserveNewQuery
  | withdraw                -- WithdrawReserved (by a holder)
  | enter (qidOk : Bool)    -- a holder calls ExchangeReserved: closed -> withdraw; else addQueueC (qid found or not)
  | reply                   -- the reader pops the entry of an unanswered query
  | stray                   -- the reader pops nothing (unknown / duplicate id)
  | exit1                   -- an exchange whose entry is still in the table returns (ctx, close, write error): deleteQueueC
  | exit0                   -- an exchange whose entry was popped returns: deleteQueueC removes nothing
  | close
  deriving DecidableEq, Repr

def Tdc.step (s : Tdc) : TLabel → Option (Tdc × Out)
  | .reserve =>
    if s.closed then some (s, .closed)
    else if s.queued + s.reserved ≥ (s.max : Int) then some (s, .refused)
    else some ({ s with reserved := s.reserved + 1, h := s.h + 1, nres := s.nres + 1 }, .admitted)
  | .withdraw =>
    if s.h = 0 then none else some ({ s with reserved := s.reserved - 1, h := s.h - 1 }, .none)
  | .enter qidOk =>
    if s.h = 0 then none
    else if s.closed then some ({ s with reserved := s.reserved - 1, h := s.h - 1 }, .closed)
    else if qidOk then some ({ s with reserved := s.reserved - 1, h := s.h - 1, queued := s.queued + 1, e1 := s.e1 + 1 }, .admitted)
    else some ({ s with reserved := s.reserved - 1, h := s.h - 1 }, .refused)
  | .reply =>
    if s.e1 = 0 || s.closed then none else some ({ s with queued := s.queued - 1, e1 := s.e1 - 1, e0 := s.e0 + 1 }, .none)
  | .stray => if s.closed then none else some (s, .none)
  | .exit1 => if s.e1 = 0 then none else some ({ s with queued := s.queued - 1, e1 := s.e1 - 1 }, .none)
  | .exit0 => if s.e0 = 0 then none else some ({ s with e0 := s.e0 - 1 }, .none)
  | .close => if s.closed then none else some ({ s with closed := true }, .none)

def Tdc.run : Tdc → List TLabel → Option Tdc
  | s, [] => some s
  | s, l :: ls => match s.step l with
    | none => none
    | some (s', _) => Tdc.run s' ls

def Tdc.init (max : Nat) : Tdc := { max := max }

/-- how many further reservations the connection admits right now (what a prober sees) -/
def Tdc.free (s : Tdc) : Int := if s.closed then 0 else (s.max : Int) - (s.queued + s.reserved)

structure Tdc.Inv (s : Tdc) : Prop where
  res : s.reserved = s.h
  que : s.queued = s.e1
  lim : s.h + s.e1 ≤ s.max
  cnt : s.h + s.e1 ≤ s.nres

/-! ### connection that is still dialing -/

inductive Dial where
  | dialing | ok | failed
  deriving DecidableEq, Repr

structure Lazy where
  max : Nat
  reserved : Int := 0     -- lc.reservedQuery
  wg : Int := 0           -- lc.earlyReserveCallWg
  dial : Dial := .dialing
  -- ghosts
  eh : Nat := 0           -- early callers holding a reservation, ExchangeReserved not yet called
  ew : Nat := 0           -- early callers parked in ExchangeReserved's select
  ex : Nat := 0           -- early callers that passed the select and are on the real connection (deferred decrement pending)
  rereserved : Nat := 0   -- early callers that re-reserved on the real connection
  deriving DecidableEq, Repr

inductive LLabel where
  | reserve               -- ReserveNewQuery while dialing
  | withdraw              -- WithdrawReserved of an early reservation
  | enter                 -- an early holder calls ExchangeReserved and parks
  | ctxDone               -- a parked early caller's context ends
  | dialOk | dialFail     -- the dial goroutine finishes / Close cancels the dial
  | proceed               -- a parked early caller sees dialFinished
  | finish                -- a proceeded early caller returns (deferred reservedQuery--)
  deriving DecidableEq, Repr

def Lazy.step (s : Lazy) : LLabel → Option (Lazy × Out)
  | .reserve =>
    match s.dial with
    | .dialing =>
      if s.reserved ≥ (s.max : Int) then some (s, .refused)
      else some ({ s with reserved := s.reserved + 1, wg := s.wg + 1, eh := s.eh + 1 }, .admitted)
    | .failed => some (s, .closed)
    | .ok => if s.wg = 0 then some (s, .none) else none     -- waits for the early callers, then goes to the real connection
  | .withdraw => if s.eh = 0 then none else some ({ s with wg := s.wg - 1, reserved := s.reserved - 1, eh := s.eh - 1 }, .none)
  | .enter => if s.eh = 0 then none else some ({ s with eh := s.eh - 1, ew := s.ew + 1 }, .none)
  | .ctxDone => if s.ew = 0 then none else some ({ s with wg := s.wg - 1, reserved := s.reserved - 1, ew := s.ew - 1 }, .none)
  | .dialOk => if s.dial = .dialing then some ({ s with dial := .ok }, .none) else none
  | .dialFail => if s.dial = .dialing then some ({ s with dial := .failed }, .none) else none
  | .proceed =>
    if s.ew = 0 then none
    else match s.dial with
      | .dialing => none
      | .ok => some ({ s with wg := s.wg - 1, ew := s.ew - 1, ex := s.ex + 1, rereserved := s.rereserved + 1 }, .admitted)
      | .failed => some ({ s with ew := s.ew - 1, ex := s.ex + 1 }, .closed)      -- wg is not released; nobody waits on it after a failed dial
  | .finish => if s.ex = 0 then none else some ({ s with reserved := s.reserved - 1, ex := s.ex - 1 }, .none)

def Lazy.run : Lazy → List LLabel → Option Lazy
  | s, [] => some s
  | s, l :: ls => match s.step l with
    | none => none
    | some (s', _) => Lazy.run s' ls

def Lazy.init (max : Nat) : Lazy := { max := max }

def Lazy.free (s : Lazy) : Int := (s.max : Int) - s.reserved

structure Lazy.Inv (s : Lazy) : Prop where
  res : s.reserved = s.eh + s.ew + s.ex
  wgOk : s.dial ≠ .failed → s.wg = s.eh + s.ew
  wgGe : (s.eh : Int) + s.ew ≤ s.wg
  lim : s.eh + s.ew + s.ex ≤ s.max
  exDial : s.dial = .dialing → s.ex = 0 ∧ s.rereserved = 0
  rer : s.rereserved + s.eh + s.ew ≤ s.max

/-! ### non-pipelined reused connection -/

structure Reuse where
  idle : Bool := false        -- member of t.idleConns
  holder : Bool := true       -- a caller took the connection (dialed it or got it from the idle set) and has not written yet
  waiting : Bool := false     -- c.waitingResp != nil: a query was written and its reply has not been read
  closed : Bool := false
  outstanding : Nat := 0      -- ghost: queries written and not answered
  deriving DecidableEq, Repr

inductive RLabel where
  | take        -- getIdleConn picks it
  | send        -- the holder's exchange installs waitingResp and writes
  | reply       -- readLoop reads a reply: waiting -> clear, setIdle; not waiting -> close (unexpected reply)
  | close
  deriving DecidableEq, Repr

def Reuse.step (s : Reuse) : RLabel → Option Reuse
  | .take => if s.idle && !s.closed then some { s with idle := false, holder := true } else none
  | .send => if s.holder && !s.closed then some { s with holder := false, waiting := true, outstanding := s.outstanding + 1 } else none
  | .reply =>
    if s.closed then none
    else if s.waiting then some { s with waiting := false, idle := true, outstanding := s.outstanding - 1 }
    else some { s with closed := true, idle := false }
  | .close => if s.closed then none else some { s with closed := true, idle := false }

def Reuse.run : Reuse → List RLabel → Option Reuse
  | s, [] => some s
  | s, l :: ls => match s.step l with
    | none => none
    | some s' => Reuse.run s' ls

def Reuse.inv (s : Reuse) : Bool :=
  decide (s.outstanding ≤ 1) && (s.waiting == decide (s.outstanding = 1)) &&
  (!s.idle || (!s.holder && !s.waiting)) && (!s.holder || !s.waiting)

/-! ### a dialing connection together with the connection it becomes -/

structure Sys where
  lz : Lazy
  tdc : Tdc
  deriving DecidableEq, Repr

inductive SLabel where
  | lz (l : LLabel)       -- a step of the dialing wrapper; `proceed` after a successful dial re-reserves on the real connection,
                          --   `reserve` after a successful dial (once all early callers are through) goes to the real connection
  | tdc (l : TLabel)      -- any step of the real connection other than `reserve` (callers reach it only through the wrapper)
  deriving DecidableEq, Repr

def Sys.step (s : Sys) : SLabel → Option (Sys × Out)
  | .lz l =>
    match s.lz.step l with
    | none => none
    | some (lz', o) =>
      match l, s.lz.dial with
      | .proceed, .ok => match s.tdc.step .reserve with
        | some (t', o') => some (⟨lz', t'⟩, o')
        | none => none
      | .reserve, .ok => match s.tdc.step .reserve with
        | some (t', o') => some (⟨lz', t'⟩, o')
        | none => none
      | _, _ => some (⟨lz', s.tdc⟩, o)
  | .tdc l =>
    if l = .reserve ∨ s.lz.dial ≠ .ok then none
    else match s.tdc.step l with
      | none => none
      | some (t', o) => some (⟨s.lz, t'⟩, o)

def Sys.run : Sys → List SLabel → Option Sys
  | s, [] => some s
  | s, l :: ls => match s.step l with
    | none => none
    | some (s', _) => Sys.run s' ls

def Sys.init (lazyMax tdcMax : Nat) : Sys := ⟨Lazy.init lazyMax, Tdc.init tdcMax⟩

/-! ### the transport's pick among its connections (`PipelineTransport.getReservedExchanger`)

A connection is seen here only through its room: how many further reservations
it admits (`Tdc.free` / `Lazy.free` of the models above; 0 = it refuses). The
list is the order in which the loop visits the connections (Go's map order:
any list). `stop`: the loop leaves at the first reservation it obtains
(regenerated fact `c09PipelinePickStopsAtFirstReservation`); if it went on, a
later reservation would replace the one it holds, which is then neither used
nor withdrawn. `att` counts the refusals met so far (the loop gives up after
more than `maxAttempt` of them), `i` is the position of the head of the list.
Result: the rooms afterwards and the position of the connection whose
reservation is handed to the caller (`none`: the transport dials a new connection). -/
def pickGo (stop : Bool) (maxAttempt : Nat) : Nat → Nat → Option Nat → List Nat → List Nat × Option Nat
  | _, _, cur, [] => ([], cur)
  | att, i, cur, r :: rs =>
    if r = 0 then
      if att + 1 > maxAttempt then (r :: rs, cur)
      else ((r :: (pickGo stop maxAttempt (att + 1) (i + 1) cur rs).1), (pickGo stop maxAttempt (att + 1) (i + 1) cur rs).2)
    else if stop then ((r - 1) :: rs, some i)
    else (((r - 1) :: (pickGo stop maxAttempt att (i + 1) (some i) rs).1), (pickGo stop maxAttempt att (i + 1) (some i) rs).2)

def pick (stop : Bool) (maxAttempt : Nat) (rooms : List Nat) : List Nat × Option Nat := pickGo stop maxAttempt 0 0 none rooms

def total : List Nat → Nat
  | [] => 0
  | r :: rs => r + total rs

/-- reservations handed to the caller by one pick -/
def handed : Option Nat → Nat
  | none => 0
  | some _ => 1

/-- `n` queries one after the other, none of them finished: how many got a reservation, and the rooms left -/
def pickN (stop : Bool) (maxAttempt : Nat) : Nat → List Nat → Nat × List Nat
  | 0, rooms => (0, rooms)
  | n + 1, rooms =>
    match pick stop maxAttempt rooms with
    | (rooms', some _) => ((pickN stop maxAttempt n rooms').1 + 1, (pickN stop maxAttempt n rooms').2)
    | (rooms', none) => pickN stop maxAttempt n rooms'

end Model.C09
