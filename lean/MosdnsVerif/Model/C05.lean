/-! Model of cache admission, ageing and expiry (C05).
Times are natural numbers of nanoseconds; TTLs are `UInt32` seconds. -/
namespace Model.C05

structure RR where
  isOpt : Bool
  ttl : UInt32
  deriving DecidableEq, Repr

structure Msg where
  rcode : Nat
  tc : Bool
  answer : List RR
  ns : List RR
  extra : List RR
  deriving DecidableEq, Repr

def Msg.rrs (m : Msg) : List RR := m.answer ++ m.ns ++ m.extra

/-- `dnsutils.GetMinimalTTL`: minimum over non-OPT records of all sections, 0 if none. -/
def minTTL (m : Msg) : UInt32 :=
  match (m.rrs.filter (fun r => !r.isOpt)).map (·.ttl) with
  | [] => 0
  | t :: ts => ts.foldl (fun a b => if b < a then b else a) t

/-- `dnsutils.SubtractTTL` on one record -/
def subRR (delta : UInt32) (r : RR) : RR :=
  if r.isOpt then r else if r.ttl > delta then { r with ttl := r.ttl - delta } else { r with ttl := 1 }

/-- `dnsutils.SetTTL` on one record -/
def setRR (t : UInt32) (r : RR) : RR := if r.isOpt then r else { r with ttl := t }

def Msg.mapRR (m : Msg) (f : RR → RR) : Msg :=
  { m with answer := m.answer.map f, ns := m.ns.map f, extra := m.extra.map f }

/-- `copyNoOpt`: what is stored -/
def Msg.noOpt (m : Msg) : Msg :=
  { m with answer := m.answer.filter (fun r => !r.isOpt), ns := m.ns.filter (fun r => !r.isOpt),
           extra := m.extra.filter (fun r => !r.isOpt) }

/-- Lifetimes `(msgTtl, cacheTtl)` in seconds that `saveRespToCache` computes
(before the `<= 0` test). `lazyTtl` is the configured `lazy_cache_ttl`. -/
def lifetimes (lazyTtl : Int) (m : Msg) : Int × Int :=
  if m.rcode = 3 then (30, 30)
  else if m.rcode = 2 then (5, 5)
  else if m.rcode = 0 then
    let t : Int := (minTTL m).toNat
    if m.answer.length = 0 then (min t 300, min t 300)
    else (t, if lazyTtl > 0 then lazyTtl else t)
  else (0, 0)

/-- `saveRespToCache`: `none` = not stored. -/
def admission (lazyTtl : Int) (m : Msg) : Option (Nat × Nat) :=
  if m.tc then none else
  let (a, b) := lifetimes lazyTtl m
  if a ≤ 0 ∨ b ≤ 0 then none else some (a.toNat, b.toNat)

def sec : Nat := 1000000000

structure Item where
  msg : Msg          -- stored copy (no OPT)
  stored : Nat       -- ns
  msgExp : Nat       -- ns
  cacheExp : Nat     -- ns
  deriving DecidableEq, Repr

/-- store at time `now` -/
def store (lazyTtl : Int) (m : Msg) (now : Nat) : Option Item :=
  (admission lazyTtl m).map (fun (a, b) => ⟨m.noOpt, now, now + a * sec, now + b * sec⟩)

inductive Served where
  | miss
  | fresh (m : Msg)
  | stale (m : Msg)   -- lazy hit: a background refresh is requested
  deriving DecidableEq, Repr

/-- `cache.Get` at `t1` followed by `getRespFromCache` at `t2 ≥ t1`.
`cache.Get` hides an entry whose expiry is before `t1`; the answer is fresh
while `t2` is before the message expiry; elapsed whole seconds are
`⌊(t2 - stored) / 1 s⌋` as a `uint32`. -/
def serve (lazy : Bool) (staleTtl : UInt32) (it : Item) (t1 t2 : Nat) : Served :=
  if it.cacheExp < t1 then .miss
  else if t2 < it.msgExp then
    .fresh (it.msg.mapRR (subRR (UInt32.ofNat ((t2 - it.stored) / sec))))
  else if lazy then .stale (it.msg.mapRR (setRR staleTtl))
  else .miss

/-! Background refresh de-duplication (`doLazyUpdate` + singleflight). -/

structure SF where
  inMap : List Nat       -- keys singleflight currently knows (a call is registered)
  running : List Nat     -- keys of refresh goroutines that have started and not finished
  deriving Repr

inductive SFOp where
  | staleHit (k : Nat)   -- DoChan(k, fn)
  | finish (k : Nat)     -- a running fn for k returns

/-- `forgetAtStart = false` is the code as written (`defer Forget`): the key
leaves the map only when the function returns. -/
def sfStep (forgetAtStart : Bool) (s : SF) : SFOp → SF
  | .staleHit k =>
    if k ∈ s.inMap then s
    else if forgetAtStart then { s with running := k :: s.running }
    else { inMap := k :: s.inMap, running := k :: s.running }
  | .finish k =>
    if k ∈ s.running then { inMap := s.inMap.filter (· ≠ k), running := s.running.erase k } else s

/-! Lazy refresh (`Cache.Exec` lazy-hit path + `doLazyUpdate`). -/

/-- The rest of the chain behind the cache plugin, seen as what it does to the
response slot of the context it runs on (`none` = no response). A failing
upstream, an upstream that yields nothing: `id`; an upstream that answers `m`:
`fun _ => some m`; "only forward when there is no response yet" (a `has_resp`
guard in front of the upstream): `guarded m`. -/
abbrev Chain := Option Msg → Option Msg

def guarded (m : Msg) : Chain
  | some x => some x
  | none => some m

/-- The response slot of the context copy handed to the background refresh.
`copyBeforeSet = true` is the code as written: `doLazyUpdate` (whose first
statement copies the context) is called before the stale answer is put into
the client's context, so the copy carries no response. -/
def refreshInitial (copyBeforeSet : Bool) (served : Msg) : Option Msg :=
  if copyBeforeSet then none else some served

/-- The function `doLazyUpdate` hands to singleflight, run at `now`: the chain
runs on the copy; whatever response the copy holds afterwards goes through
`saveRespToCache`; nothing is stored when there is none (or it is not admitted). -/
def refresh (copyBeforeSet : Bool) (lazyTtl : Int) (staleTtl : UInt32) (it : Item) (chain : Chain) (now : Nat) : Item :=
  match chain (refreshInitial copyBeforeSet (it.msg.mapRR (setRR staleTtl))) with
  | none => it
  | some m => (store lazyTtl m now).getD it

/-- One question asked at the given times (lazy caching on), every stale hit
followed by a refresh that runs to completion before the next query. The run
ends with the first miss (the client's own query then goes upstream). -/
def lazyRun (copyBeforeSet : Bool) (lazyTtl : Int) (staleTtl : UInt32) (chain : Chain) : Item → List Nat → List Served
  | _, [] => []
  | it, t :: ts =>
    match serve true staleTtl it t t with
    | .miss => [.miss]
    | .fresh m => .fresh m :: lazyRun copyBeforeSet lazyTtl staleTtl chain it ts
    | .stale m => .stale m :: lazyRun copyBeforeSet lazyTtl staleTtl chain (refresh copyBeforeSet lazyTtl staleTtl it chain t) ts

/-! Ownership of the record objects (`copyNoOpt` on the store path, `v.resp.Copy()` on the hit path).

A record is an object that the stored message and the reply travelling on through the query context may or
may not share. Whoever holds the reply after the plugin returned (a `ttl` plugin behind `exec: $sequence`, a
wrapper plugin in front of the cache, the server) may rewrite its records in place. -/

/-- One entry's history after it was stored: in-place rewrites of the records of the reply the plugin handed
on last (first: the reply of the miss that stored the entry), and queries. -/
inductive Ev where
  | rewrite (f : RR → RR)
  | hit (t : Nat)

/-- What an in-place rewrite of the live reply does to the entry: nothing, unless the records are shared. -/
def liveRewrite (aliased : Bool) (f : RR → RR) (it : Item) : Item :=
  if aliased then { it with msg := it.msg.mapRR f } else it

/-- `storeCopies = true`, `hitCopies = true` is the code as written: `copyNoOpt` stores `dns.Copy` of every
record, a hit works on and hands out `v.resp.Copy()`. The flag carried along says whether the live reply
shares its records with the entry. With `hitCopies = false` the hit's own TTL arithmetic is done on the
stored records. The run ends with the first miss (the client's query then goes upstream and a new entry is
stored); refreshes are the subject of `lazyRun`, not of this run. -/
def aliasRun (storeCopies hitCopies lazy : Bool) (staleTtl : UInt32) : Bool → Item → List Ev → List Served
  | _, _, [] => []
  | al, it, .rewrite f :: es => aliasRun storeCopies hitCopies lazy staleTtl al (liveRewrite al f it) es
  | al, it, .hit t :: es =>
    match serve lazy staleTtl it t t with
    | .miss => [.miss]
    | .fresh m => .fresh m :: aliasRun storeCopies hitCopies lazy staleTtl (!hitCopies) (if hitCopies then it else { it with msg := m }) es
    | .stale m => .stale m :: aliasRun storeCopies hitCopies lazy staleTtl (!hitCopies) (if hitCopies then it else { it with msg := m }) es

/-- The same queries on an entry nobody touches. -/
def hitsOnly (lazy : Bool) (staleTtl : UInt32) (it : Item) : List Ev → List Served
  | [] => []
  | .rewrite _ :: es => hitsOnly lazy staleTtl it es
  | .hit t :: es =>
    match serve lazy staleTtl it t t with
    | .miss => [.miss]
    | .fresh m => .fresh m :: hitsOnly lazy staleTtl it es
    | .stale m => .stale m :: hitsOnly lazy staleTtl it es

/-- `ttl` plugin rewrites, per record: `dnsutils.ApplyMinimalTTL` then `ApplyMaximumTTL` (0 = off). -/
def clampRR (lo hi : UInt32) (r : RR) : RR :=
  if r.isOpt then r else
  let t := if lo > 0 ∧ r.ttl < lo then lo else r.ttl
  { r with ttl := if hi > 0 ∧ t > hi then hi else t }

/-! Dump and reload (`writeDump` / `readDump`, `dump_file` + restart, `/dump` + `/load_dump`). -/

/-- What `writeDump` writes for an entry: the three times as Unix seconds. -/
def dumpEntry (it : Item) : Item :=
  { it with stored := it.stored / sec * sec, msgExp := it.msgExp / sec * sec, cacheExp := it.cacheExp / sec * sec }

/-- `readDump` for one dumped entry `d` at `now`, in an instance configured with `lazyTtl`.
`keepsTimes = true` is the code as written: the entry is stored with the dumped cache expiry. With
`keepsTimes = false` the cache expiry is derived again from the local configuration (what `saveRespToCache`
would choose for a positive answer). `cache.Store` refuses an entry whose expiry lies before `now`. -/
def loadEntry (keepsTimes : Bool) (lazyTtl : Int) (d : Item) (now : Nat) : Option Item :=
  let ce := if keepsTimes then d.cacheExp else if lazyTtl > 0 then d.stored + lazyTtl.toNat * sec else d.msgExp
  if ce < now then none else some { d with cacheExp := ce }

/-- An answer stored at `t0` by an instance running with `writerLazy`, dumped, loaded at `tl` by an instance
running with `readerLazy`, asked at `t`. `none`: never stored. -/
def reloadRun (keepsTimes : Bool) (writerLazy readerLazy : Int) (staleTtl : UInt32) (m : Msg) (t0 tl t : Nat) : Option Served :=
  (store writerLazy m t0).map fun it =>
    match loadEntry keepsTimes readerLazy (dumpEntry it) tl with
    | none => .miss
    | some d => serve (decide (readerLazy > 0)) staleTtl d t t

end Model.C05
