/-! Model of `pkg/matcher/netlist.List` (C13).

Addresses are natural numbers below 2^128 (IPv4 addresses are mapped to
`0xffff·2^32 + x` first, as `to6` does). A stored prefix is a pair
`(base, bits)`; the model of `Sort`'s merge loop and of `Contains` is written
over *intervals* `[lo, hi)` so that the order reasoning is separate from the
bit arithmetic (`Iv.ofPrefix`). -/
namespace Model.C13

structure Iv where
  lo : Nat
  hi : Nat
  deriving DecidableEq, Repr

def Iv.covers (p : Iv) (a : Nat) : Bool := p.lo ≤ a && a < p.hi

/-- One iteration of the loop in `List.Sort`; `out` is kept reversed (its head
is the Go code's `lv`, the last element appended). The three cases are the
three arms of the `switch`:
same base: keep the shorter prefix (= the larger interval);
base not inside the last kept prefix: append; otherwise drop. -/
def mergeStep (out : List Iv) (n : Iv) : List Iv :=
  match out with
  | [] => [n]
  | lv :: rest =>
    if n.lo = lv.lo then (if lv.hi < n.hi then n :: rest else lv :: rest)
    else if lv.covers n.lo then lv :: rest
    else n :: lv :: rest

/-- `Sort` after `sort.Sort`: fold of `mergeStep`, result reversed. -/
def mergeRev (l : List Iv) : List Iv := l.foldl mergeStep []

/-- `Contains` on the merged list: the last element whose base is ≤ the
address (what the binary search finds on a list sorted by base) decides.
On the reversed list that is the first such element. -/
def containsRev (outRev : List Iv) (a : Nat) : Bool :=
  match outRev.find? (fun p => p.lo ≤ a) with
  | none => false
  | some p => p.covers a

def contains (l : List Iv) (a : Nat) : Bool := containsRev (mergeRev l) a

/-! Bit-level view. -/

/-- A masked prefix of `bits ≤ 128` leading bits. -/
structure Prefix where
  base : Nat
  bits : Nat
  deriving DecidableEq, Repr

def Prefix.size (p : Prefix) : Nat := 2 ^ (128 - p.bits)

/-- `netip.Prefix.Masked`: clear the host bits. -/
def Prefix.masked (p : Prefix) : Prefix := { p with base := p.base / p.size * p.size }

/-- `netip.Prefix.Contains` for a 128-bit address: the leading `bits` bits agree. -/
def Prefix.covers (p : Prefix) (a : Nat) : Bool := a / p.size == p.base / p.size

def Iv.ofPrefix (p : Prefix) : Iv := ⟨p.base, p.base + p.size⟩

def v4mapped (x : Nat) : Nat := 0xffff * 2 ^ 32 + x

/-- `List.Append` for an IPv4 prefix `(x, n)`, `n ≤ 32`. -/
def appendV4 (x n : Nat) : Prefix := (Prefix.mk (v4mapped x) (n + 96)).masked

/-- `List.Append` for an IPv6 prefix. -/
def appendV6 (x n : Nat) : Prefix := (Prefix.mk x n).masked

/-! Text loading. A parsed, zone-free `netip.Addr` is a pair `(is6, value)`:
`is6` = `Addr.Is6()`, the 16-byte form (an IPv4-mapped `::ffff:a.b.c.d` is one of
them), value `< 2^128`; otherwise the 4-byte form, value `< 2^32`. -/

abbrev PAddr := Bool × Nat

/-- `to6`: the 128-bit number `Append` and `Contains` work with. -/
def PAddr.to6 (a : PAddr) : Nat := if a.1 then a.2 else v4mapped a.2

def PAddr.Valid (a : PAddr) : Prop := if a.1 then a.2 < 2 ^ 128 else a.2 < 2 ^ 32

/-- `List.Append(netip.PrefixFrom(a, bits))`: `+96` only for the 4-byte form. -/
def append (a : PAddr) (bits : Nat) : Prefix := if a.1 then appendV6 a.2 bits else appendV4 a.2 bits

/-- The prefix length a line without `/` gets: the full length of the address *form*. -/
def hostBits (a : PAddr) : Int := if a.1 then 128 else 32

/-- What `LoadFromText` (list files) and `ip_set.parseNetipPrefix` (inline `ips`) hand to
`Append` for one line: a CIDR line is taken as parsed, a single address gets `hostBits`. -/
def loadLine (hasSlash : Bool) (parsedPrefix : Option (PAddr × Int)) (parsedAddr : Option PAddr) : Option (PAddr × Int) :=
  if hasSlash then parsedPrefix else parsedAddr.map (fun a => (a, hostBits a))

/-- The stored prefix for a loaded line. -/
def storeLine (r : PAddr × Int) : Prefix := append r.1 r.2.toNat

/-- Sorting by base: insertion sort (any stable or unstable sort yields a
list the theorems cover; this one is for the driver). -/
def insertSorted (p : Iv) : List Iv → List Iv
  | [] => [p]
  | q :: t => if p.lo ≤ q.lo then p :: q :: t else q :: insertSorted p t

def sortByLo (l : List Iv) : List Iv := l.foldr insertSorted []

end Model.C13
