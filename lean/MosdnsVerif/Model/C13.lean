/-! Model of `pkg/matcher/netlist.List` (C13).

Addresses are natural numbers below 2^128 (IPv4 addresses are mapped to
`0xffff·2^32 + x` first, as `to6` does). A stored prefix is a pair
`(base, bits)`; the model of `Sort`'s merge loop and of `Contains` is written
over *intervals* `[lo, hi)` so that the order reasoning is separate from the
bit arithmetic (`Iv.ofPrefix`). -/
namespace Model.C13

structure Iv where
  lo : Nat
  hi : Nat
  deriving DecidableEq, Repr

def Iv.covers (p : Iv) (a : Nat) : Bool := p.lo ≤ a && a < p.hi

/-- One iteration of the loop in `List.Sort`; `out` is kept reversed (its head
is the Go code's `lv`, the last element appended). The three cases are the
three arms of the `switch`:
same base: keep the shorter prefix (= the larger interval);
base not inside the last kept prefix: append; otherwise drop. -/
def mergeStep (out : List Iv) (n : Iv) : List Iv :=
  match out with
  | [] => [n]
  | lv :: rest =>
    if n.lo = lv.lo then (if lv.hi < n.hi then n :: rest else lv :: rest)
    else if lv.covers n.lo then lv :: rest
    else n :: lv :: rest

/-- `Sort` after `sort.Sort`: fold of `mergeStep`, result reversed. -/
def mergeRev (l : List Iv) : List Iv := l.foldl mergeStep []

/-- `Contains` on the merged list: the last element whose base is ≤ the
address (what the binary search finds on a list sorted by base) decides.
On the reversed list that is the first such element. -/
def containsRev (outRev : List Iv) (a : Nat) : Bool :=
  match outRev.find? (fun p => p.lo ≤ a) with
  | none => false
  | some p => p.covers a

def contains (l : List Iv) (a : Nat) : Bool := containsRev (mergeRev l) a

/-! Bit-level view. -/

/-- A masked prefix of `bits ≤ 128` leading bits. -/
structure Prefix where
  base : Nat
  bits : Nat
  deriving DecidableEq, Repr

def Prefix.size (p : Prefix) : Nat := 2 ^ (128 - p.bits)

/-- `netip.Prefix.Masked`: clear the host bits. -/
def Prefix.masked (p : Prefix) : Prefix := { p with base := p.base / p.size * p.size }

/-- `netip.Prefix.Contains` for a 128-bit address: the leading `bits` bits agree. -/
def Prefix.covers (p : Prefix) (a : Nat) : Bool := a / p.size == p.base / p.size

def Iv.ofPrefix (p : Prefix) : Iv := ⟨p.base, p.base + p.size⟩

def v4mapped (x : Nat) : Nat := 0xffff * 2 ^ 32 + x

/-- `List.Append` for an IPv4 prefix `(x, n)`, `n ≤ 32`. -/
def appendV4 (x n : Nat) : Prefix := (Prefix.mk (v4mapped x) (n + 96)).masked

/-- `List.Append` for an IPv6 prefix. -/
def appendV6 (x n : Nat) : Prefix := (Prefix.mk x n).masked

/-! Text loading. A parsed, zone-free `netip.Addr` is a pair `(is6, value)`:
`is6` = `Addr.Is6()`, the 16-byte form (an IPv4-mapped `::ffff:a.b.c.d` is one of
them), value `< 2^128`; otherwise the 4-byte form, value `< 2^32`. -/

abbrev PAddr := Bool × Nat

/-- `to6`: the 128-bit number `Append` and `Contains` work with. -/
def PAddr.to6 (a : PAddr) : Nat := if a.1 then a.2 else v4mapped a.2

def PAddr.Valid (a : PAddr) : Prop := if a.1 then a.2 < 2 ^ 128 else a.2 < 2 ^ 32

/-- `List.Append(netip.PrefixFrom(a, bits))`: `+96` only for the 4-byte form. -/
def append (a : PAddr) (bits : Nat) : Prefix := if a.1 then appendV6 a.2 bits else appendV4 a.2 bits

/-- The prefix length a line without `/` gets: the full length of the address *form*. -/
def hostBits (a : PAddr) : Int := if a.1 then 128 else 32

/-- What `LoadFromText` (list files) and `ip_set.parseNetipPrefix` (inline `ips`) hand to
`Append` for one line: a CIDR line is taken as parsed, a single address gets `hostBits`. -/
def loadLine (hasSlash : Bool) (parsedPrefix : Option (PAddr × Int)) (parsedAddr : Option PAddr) : Option (PAddr × Int) :=
  if hasSlash then parsedPrefix else parsedAddr.map (fun a => (a, hostBits a))

/-- The stored prefix for a loaded line. -/
def storeLine (r : PAddr × Int) : Prefix := append r.1 r.2.toNat

/-- Sorting by base: insertion sort (any stable or unstable sort yields a
list the theorems cover; this one is for the driver). -/
def insertSorted (p : Iv) : List Iv → List Iv
  | [] => [p]
  | q :: t => if p.lo ≤ q.lo then p :: q :: t else q :: insertSorted p t

def sortByLo (l : List Iv) : List Iv := l.foldr insertSorted []

/-! ### Sets of sets: `ip_set` plugins with `sets:` references

A configuration is a list of `ip_set` plugins in the order they are built; every reference is the
index of a plugin built earlier. A built plugin is what it answers: `Nat → Bool`. -/

/-- One `ip_set` plugin: the stored prefixes of its own rules (`ips`, `files`) and the sets named under `sets:`. -/
structure SetDef where
  own : List Prefix
  refs : List Nat
  deriving Repr

/-- The plugin's own `netlist.List` after `Sort`. -/
def ownMatch (own : List Prefix) (a : Nat) : Bool := contains (sortByLo (own.map Iv.ofPrefix)) a

/-- `MatcherGroup.Match`: the members are asked in order, the first `true` wins, otherwise `false`. -/
def groupMatch (ms : List (Nat → Bool)) (a : Nat) : Bool := ms.any (fun m => m a)

/-- The loop of `NewIPSet` over `sets:`: every tag appends that plugin's matcher; an unknown tag is an error. -/
def addSets (built : List (Nat → Bool)) : List (Nat → Bool) → List Nat → Option (List (Nat → Bool))
  | mg, [] => some mg
  | mg, j :: js => match built[j]? with
    | none => none
    | some m => addSets built (mg ++ [m]) js

/-- `NewIPSet`: the own list is the first member when it is not empty, then the referenced sets. -/
def newIPSet (built : List (Nat → Bool)) (d : SetDef) : Option (Nat → Bool) :=
  (addSets built (if d.own.isEmpty then [] else [ownMatch d.own]) d.refs).map groupMatch

/-- Building the plugins of a configuration in order. -/
def buildSets : List (Nat → Bool) → List SetDef → Option (List (Nat → Bool))
  | built, [] => some built
  | built, d :: ds => match newIPSet built d with
    | none => none
    | some m => buildSets (built ++ [m]) ds

/-- The property's right-hand side for a set of sets: every prefix loaded into it, its own and
(transitively) those of the sets it references. -/
def loadedInto (loaded : List (List Prefix)) (d : SetDef) : List Prefix :=
  d.own ++ d.refs.flatMap (fun j => loaded[j]?.getD [])

def loadedAll : List (List Prefix) → List SetDef → List (List Prefix)
  | loaded, [] => loaded
  | loaded, d :: ds => loadedAll (loaded ++ [loadedInto loaded d]) ds

/-! ### Go slices: who shares a backing array with whom

`IPSet.mg` is a Go slice: a view `(array, len, cap)` of a backing array. `append(s, x)` writes into the
array of `s` when `len < cap` - visible to every other slice of that array - and copies to a new array
otherwise. `GetIPMatcher` hands out the plugin's own slice, so whether a later `NewIPSet` can disturb an
earlier plugin is a question about arrays, not about values. -/

structure Slice where
  arr : Nat
  len : Nat
  cap : Nat
  deriving DecidableEq, Repr

/-- Backing arrays by number; `next` = the number the next allocation gets. -/
structure Heap (α : Type) where
  cell : Nat → Nat → Option α
  next : Nat

def nilSlice : Slice := ⟨0, 0, 0⟩

/-- What a slice shows now. -/
def Heap.read {α : Type} (h : Heap α) (s : Slice) : List (Option α) := (List.range s.len).map (h.cell s.arr)

/-- Go's `append(s, x)`; `grow` = the spare capacity a new array gets (whatever the runtime chooses). -/
def Heap.append {α : Type} (grow : Nat → Nat) (h : Heap α) (s : Slice) (x : α) : Heap α × Slice :=
  if s.len < s.cap then
    ({ h with cell := fun a i => if a = s.arr ∧ i = s.len then some x else h.cell a i }, { s with len := s.len + 1 })
  else
    ({ cell := fun a i => if a = h.next then (if i < s.len then h.cell s.arr i else if i = s.len then some x else none) else h.cell a i,
       next := h.next + 1 },
     ⟨h.next, s.len + 1, s.len + 1 + grow s.len⟩)

/-- `p.mg = append(p.mg, x)` for every `x` of `xs`, in order. -/
def Heap.appendAll {α : Type} (grow : Nat → Nat) (h : Heap α) (s : Slice) : List α → Heap α × Slice
  | [] => (h, s)
  | x :: xs => let r := h.append grow s x; Heap.appendAll grow r.1 r.2 xs

/-- `NewIPSet` as far as slices go: `p := &IPSet{}` (a nil slice), then only self-appends. The members may
depend on the slices of the plugins built so far (a referenced plugin hands out its own slice). -/
def Heap.buildAll {α : Type} (grow : Nat → Nat) (h : Heap α) (built : List Slice) : List (List Slice → List α) → Heap α × List Slice
  | [] => (h, built)
  | d :: ds => let r := h.appendAll grow nilSlice (d built); Heap.buildAll grow r.1 (built ++ [r.2]) ds

end Model.C13
