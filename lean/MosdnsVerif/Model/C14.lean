/-! Model of `Forward.exchange` (C14): concurrency clamp, cyclic selection,
and the collection loop over the results in their order of arrival. -/
namespace Model.C14

/-- what one queried upstream's exchange ends with, as the collection loop sees it -/
inductive Res where
  | reply (rcode : Nat) (from_ : Nat)   -- a reply that unpacks; `from_` identifies the upstream
  | fail                                -- the exchange failed, or the reply does not unpack
  deriving DecidableEq, Repr

/-- an event at the collection loop's select -/
inductive Ev where
  | res (r : Res)
  | ctxDone
  deriving DecidableEq, Repr

inductive Out where
  | reply (rcode : Nat) (from_ : Nat)
  | errAllFailed
  | errCtx
  | pending             -- the event list ended: the loop is still waiting
  deriving DecidableEq, Repr

def clamp (maxC : Nat) (c : Int) : Nat :=
  if c ≤ 0 then 1 else if c > (maxC : Int) then maxC else c.toNat

/-- indices of the queried upstreams: `c` cyclically consecutive positions starting at `r` -/
def pick (n r c : Nat) : List Nat := (List.range c).map (fun i => (r + i) % n)

def good (rcode : Nat) : Bool := rcode == 0 || rcode == 3

/-- the collection loop: iteration `i` of `c` -/
def collect (c : Nat) : Nat → List Ev → Out
  | i, [] => if i < c then .pending else .errAllFailed
  | i, ev :: rest =>
    if i < c then
      match ev with
      | .ctxDone => .errCtx
      | .res .fail => collect c (i + 1) rest
      | .res (.reply rc f) => if i < c - 1 && !good rc then collect c (i + 1) rest else .reply rc f
    else .errAllFailed

def exchange (maxC : Nat) (n : Nat) (conc : Int) (r : Nat) (evs : List Ev) : List Nat × Out :=
  let c := clamp maxC conc
  (pick n r c, collect c 0 evs)

/-! ## which servers a query reaches: construction of `U` (`NewForward`) and tag subsets -/

/-- The upstream list `U` that `NewForward` builds: `targets[i]` is the server that the options of the
configured entry `i` designate (addr, dial_addr, socks5, bootstrap ...). `perEntry` stands for the
regenerated facts "every entry gets its own upstream, created from its own options, at its own position";
without them the model does not say what `U` is. -/
def build (perEntry : Bool) (targets : List Nat) : Option (List Nat) :=
  if perEntry then some targets else none

/-- the list in use: all of `U`, or the upstreams of the named entries, in the order of the tags
(`QuickConfigureExec`); `idx` are positions of `U` -/
def inUse (u : List Nat) : Option (List Nat) → List Nat
  | none => u
  | some idx => idx.map (fun i => u.getD i 0)

/-- the servers one query is sent to, in the order in which the helpers are started -/
def contacted (maxC : Nat) (s : List Nat) (conc : Int) (r : Nat) : List Nat :=
  (pick s.length r (clamp maxC conc)).map (fun p => s.getD p 0)

/-! ## what stands between a helper and the upstream of its position (`upstreamWrapper.ExchangeContext`) -/

/-- A per-upstream wrapper seen as a gate in front of the upstream. `cap = none`: no gate at all (one
unconditional call of the upstream - what the regenerated fact `c14WrapperTransparent` says of the source).
`cap = some n`: at most `n` slots; `releaseOnFail` says whether a failed exchange gives its slot back. -/
structure Wrap where
  cap : Option Nat
  releaseOnFail : Bool
  deriving DecidableEq, Repr

/-- Exchanges issued one after the other through one wrapper (nothing in flight concurrently); `true` = the
upstream's exchange succeeds, `false` = it fails. Result: slots held at the end, and for every exchange whether
it was handed to the upstream at all (an exchange that finds no slot waits for its timeout and is never sent). -/
def Wrap.run (w : Wrap) : Nat → List Bool → Nat × List Bool
  | held, [] => (held, [])
  | held, ok :: rest =>
    let admitted := match w.cap with
      | none => true
      | some n => decide (held < n)
    let held' := if admitted && !(ok || w.releaseOnFail) then held + 1 else held
    let (h, adm) := w.run held' rest
    (h, admitted :: adm)

/-- the wrapper of the source, as far as the regenerated fact describes it -/
def wrapOf (transparent : Bool) : Option Wrap :=
  if transparent then some ⟨none, true⟩ else none

/-! ## what the call leaves in the query context (`Forward.Exec`, the executable of `QuickConfigureExec`) -/

/-- the response slot of a query context: rcode and origin of the response it holds, if any -/
abbrev Slot := Option (Nat × Nat)

/-- `Exec` after `exchange`. `keep prev rc` says whether the code leaves the context alone when `exchange` chose a
reply of rcode `rc` and the context already holds `prev` (the source: never - regenerated fact
`c14ExecInstallsReply`). Result: the response slot after the call, and whether the call returned nil. -/
def execWith (keep : Slot → Nat → Bool) (prev : Slot) : Out → Slot × Bool
  | .reply rc f => (if keep prev rc then prev else some (rc, f), true)
  | _ => (prev, false)

/-- the `keep` of the source, as far as the regenerated fact describes it -/
def keepOf (installs : Bool) : Option (Slot → Nat → Bool) :=
  if installs then some (fun _ _ => false) else none

end Model.C14
