import MosdnsVerif.Model.Handler
import MosdnsVerif.Gen.Facts

/-! Model of one cache entry across successive client transactions (C15): every transaction goes through
`EntryHandler.Handle` and a chain made of `forward_edns0opt` / `ttl` plugins around one `cache` plugin in front of a
scripted upstream. What `Handle` does to the response *after* the chain returned (RA, the appended response OPT) is
visible in the cache entry exactly when the entry is the same object as the live response; whether `copyNoOpt` may hand
back its argument is the parameter `aliases` (a regenerated fact, `Gen.Facts.c15CopyNoOptAliasPaths`). -/
namespace Model.C15
open Model.Handler

inductive Plugin where
  | fwd (codes : List Nat)      -- forward_edns0opt <codes>
  | cache
  | ttl                          -- rewrites TTLs of non-OPT records: nothing this model looks at
  deriving Repr, DecidableEq

/-- what the scripted upstream does when it is reached without a response in the context -/
inductive Up where
  | ans (rcode nAns : Nat) (extra : List RR)
  | none
  | err
  deriving Repr

def Up.extra : Up → List RR
  | .ans _ _ ex => ex
  | _ => []

/-- the cache's entry for the question of the scenario -/
inductive Slot where
  | empty
  | own (m : Msg)     -- a message of the cache's own
  | live              -- the entry is the very object the context holds as its response
  deriving Repr

/-- `copyNoOpt` as a function on values -/
def copyNoOpt (m : Msg) : Msg := { m with extra := m.extra.filter (fun r => !r.isOpt) }

/-- `saveRespToCache`: not truncated; NXDOMAIN / SERVFAIL; NOERROR with records (all TTLs of the scenario are positive) -/
def cacheable (r : Msg) : Bool :=
  !r.tc && (r.rcode == 3 || r.rcode == 2 || (r.rcode == 0 && !r.answer.isEmpty))

/-- `forward_edns0opt`, query side: the client's options with a listed code are appended to the query's OPT -/
def addQOpts (codes : List Nat) (c : Ctx) : Ctx :=
  match c.clientOpt with
  | none => c
  | some co =>
    let add := co.options.filter (fun p => codes.contains p.1)
    { c with q := { c.q with extra := c.q.extra.map (fun r => match r with
        | .opt o => .opt { o with options := o.options ++ add }
        | x => x) } }

/-- `forward_edns0opt`, reply side: the upstream OPT's options with a listed code are appended to the response OPT -/
def fwdBack (codes : List Nat) (c : Ctx) : Ctx :=
  match c.upstreamOpt, c.respOpt with
  | some uo, some ro => { c with respOpt := some { ro with options := ro.options ++ uo.options.filter (fun p => codes.contains p.1) } }
  | _, _ => c

structure Res where
  c : Ctx
  failed : Bool
  slot : Slot
  upQ : Msg        -- the query the upstream plugin was handed (the chain always walks to its end)
  deriving Repr

def exec (aliases : Msg → Bool) (up : Up) : List Plugin → Ctx → Slot → Res
  | [], c, s =>
    match c.resp, up with     -- the scripted upstream leaves an existing response alone
    | some _, _ => ⟨c, false, s, c.q⟩
    | none, .ans rc n ex =>
      ⟨upstreamAnswer { setReply c.q with rcode := rc, answer := (List.range n).map (fun i => RR.rr [97] 1 300 i), extra := ex } c, false, s, c.q⟩
    | none, .none => ⟨c, false, s, c.q⟩
    | none, .err => ⟨c, true, s, c.q⟩
  | .ttl :: rest, c, s => exec aliases up rest c s
  | .fwd codes :: rest, c, s =>
    let r := exec aliases up rest (addQOpts codes c) s
    if r.failed then r else { r with c := fwdBack codes r.c }
  | .cache :: rest, c, s =>
    let hit := match s with | .own m => some m | _ => none
    let c1 := match hit with | some m => cacheHit m c | none => c
    let r := exec aliases up rest c1 s
    match hit, r.c.resp with
    | none, some m => if cacheable m then { r with slot := if aliases m then .live else .own (copyNoOpt m) } else r
    | _, _ => r

/-- the chain as an entry of `Model.Handler.reply` -/
def entry (aliases : Msg → Bool) (up : Up) (chain : List Plugin) (s : Slot) (c : Ctx) : Ctx × Bool :=
  let r := exec aliases up chain c s
  (r.c, r.failed)

structure Tx where
  reply : Option Msg     -- what `Handle` hands to the packer
  slot : Slot            -- the entry after `Handle` returned
  upQ : Option Msg
  deriving Repr

/-- One client transaction over TCP (no truncation). A `live` entry is the response object itself, so it is read after
`Handle` has finished with that object. -/
def transact (aliases : Msg → Bool) (chain : List Plugin) (up : Up) (q : Msg) (s : Slot) : Tx :=
  if !validQuery q then ⟨none, s, none⟩ else
  let r := exec aliases up chain (newContext q) s
  let out := finish (fun m _ => m) false r.c (base r.c r.failed)
  let s' := match r.slot with
    | .live => if r.failed then (match r.c.resp with | some m => .own m | none => .empty) else .own out
    | x => x
  ⟨some out, s', some r.upQ⟩

/-- "cached answers never contain an OPT" -/
def Slot.ok : Slot → Prop
  | .empty => True
  | .own m => (m.extra.filter RR.isOpt).length = 0
  | .live => False

/-- Whether `copyNoOpt` may hand back its argument, from the regenerated count of such paths in
`plugin/executable/cache/utils.go` (results other than `nil` / its own `new(dns.Msg)`, re-pointing of that local). -/
def copyAliases (_ : Msg) : Bool := Gen.Facts.c15CopyNoOptAliasPaths != some 0

instance (s : Slot) : Decidable s.ok := by
  cases s <;> unfold Slot.ok <;> infer_instance

def plugCodes : List Plugin → List Nat
  | [] => []
  | .fwd cs :: rest => cs ++ plugCodes rest
  | _ :: rest => plugCodes rest

end Model.C15
