import MosdnsVerif.Model.Handler
import MosdnsVerif.Gen.Facts

/-! Model of one cache entry across successive client transactions (C15): every transaction goes through
`EntryHandler.Handle` and a chain made of `forward_edns0opt` / `ttl` plugins around one `cache` plugin in front of a
scripted upstream. What `Handle` does to the response *after* the chain returned (RA, the appended response OPT) is
visible in the cache entry exactly when the entry is the same object as the live response; whether `copyNoOpt` may hand
back its argument is the parameter `aliases` (a regenerated fact, `Gen.Facts.c15CopyNoOptAliasPaths`).

`ecs_handler` is a plugin of the chain too: what `addECS` puts into the query and when `Exec` copies the upstream's
client-subnet option back (parameter `ecsLoose`, regenerated fact `c15EcsForwardedLoosePaths`). `fork` models the plugins
that run sub-chains on copies of the context and throw some of them away (fallback, dual_selector, the lazy cache's
refresh); whether a copy's response OPT is the original's object is the parameter `copyShares` (regenerated fact
`c15CopyToRespOptDeep`). -/
namespace Model.C15
open Model.Handler

/-- what the model takes from the code as regenerated facts (`genCode`); `clean` is what the theorems need -/
structure Code where
  aliases : Msg → Bool     -- may `copyNoOpt` hand back its argument
  ecsLoose : Bool          -- may ecs_handler copy the upstream's option back although it sent an option of its own making
  copyShares : Bool        -- is the response OPT of a context copy the original's object

def clean : Code := ⟨fun _ => false, false, false⟩

inductive Plugin where
  | fwd (codes : List Nat)      -- forward_edns0opt <codes>
  | cache
  | ttl                          -- rewrites TTLs of non-OPT records: nothing this model looks at
  | ecs (forward : Bool) (own : Option Nat)  -- ecs_handler; `own` = payload of the option it makes itself (preset, else `send`)
  deriving Repr, DecidableEq

/-- what the scripted upstream does when it is reached without a response in the context -/
inductive Up where
  | ans (rcode nAns : Nat) (extra : List RR)
  | none
  | err
  deriving Repr

def Up.extra : Up → List RR
  | .ans _ _ ex => ex
  | _ => []

/-- the cache's entry for the question of the scenario -/
inductive Slot where
  | empty
  | own (m : Msg)     -- a message of the cache's own
  | live              -- the entry is the very object the context holds as its response
  deriving Repr

/-- `copyNoOpt` as a function on values -/
def copyNoOpt (m : Msg) : Msg := { m with extra := m.extra.filter (fun r => !r.isOpt) }

/-- `saveRespToCache`: not truncated; NXDOMAIN / SERVFAIL; NOERROR with records (all TTLs of the scenario are positive) -/
def cacheable (r : Msg) : Bool :=
  !r.tc && (r.rcode == 3 || r.rcode == 2 || (r.rcode == 0 && !r.answer.isEmpty))

/-- `forward_edns0opt`, query side: the client's options with a listed code are appended to the query's OPT -/
def addQOpts (codes : List Nat) (c : Ctx) : Ctx :=
  match c.clientOpt with
  | none => c
  | some co =>
    let add := co.options.filter (fun p => codes.contains p.1)
    { c with q := { c.q with extra := c.q.extra.map (fun r => match r with
        | .opt o => .opt { o with options := o.options ++ add }
        | x => x) } }

/-- `forward_edns0opt`, reply side: the upstream OPT's options with a listed code are appended to the response OPT -/
def fwdBack (codes : List Nat) (c : Ctx) : Ctx :=
  match c.upstreamOpt, c.respOpt with
  | some uo, some ro => { c with respOpt := some { ro with options := ro.options ++ uo.options.filter (fun p => codes.contains p.1) } }
  | _, _ => c

/-- append options to the query's OPT -/
def appendQ (add : List (Nat × Nat)) (c : Ctx) : Ctx :=
  { c with q := { c.q with extra := c.q.extra.map (fun r => match r with
      | .opt o => .opt { o with options := o.options ++ add }
      | x => x) } }

def qOptions (c : Ctx) : List (Nat × Nat) :=
  c.q.extra.flatMap (fun r => match r with | .opt o => o.options | _ => [])

def isEcs (p : Nat × Nat) : Bool := p.1 == 8

/-- the query is not of class IN (RFC 7871: client-subnet is defined for IN only) -/
def notIN (c : Ctx) : Bool :=
  match c.q.question with
  | qq :: _ => qq.qclass != 1
  | [] => false

/-- the client's own client-subnet option, looked at only with `forward` -/
def clientEcs (forward : Bool) (c : Ctx) : Option (Nat × Nat) :=
  if forward then c.clientOpt.bind (fun co => co.options.find? isEcs) else none

/-- `ECSHandler.addECS`: nothing if the query already has a client-subnet option or is not class IN; with `forward` the
client's own option if it sent one (reported as forwarded); otherwise the option of the handler's own making. -/
def addECS (loose forward : Bool) (own : Option Nat) (c : Ctx) : Ctx × Bool :=
  if (qOptions c).any isEcs || notIN c then (c, false) else
  match clientEcs forward c with
  | some o => (appendQ [o] c, true)
  | none =>
    match own with
    | some p => (appendQ [(8, p)] c, loose && forward)
    | none => (c, false)

/-- `ECSHandler.Exec`, reply side, `if forwarded`: the upstream's (first) client-subnet option is appended to the response OPT -/
def ecsBack (c : Ctx) : Ctx :=
  match c.respOpt, c.upstreamOpt with
  | some ro, some uo =>
    match uo.options.find? isEcs with
    | some o => { c with respOpt := some { ro with options := ro.options ++ [o] } }
    | none => c
  | _, _ => c

structure Res where
  c : Ctx
  failed : Bool
  slot : Slot
  upQ : Msg        -- the query the upstream plugin was handed (the chain always walks to its end)
  deriving Repr

def exec (k : Code) (up : Up) : List Plugin → Ctx → Slot → Res
  | [], c, s =>
    match c.resp, up with     -- the scripted upstream leaves an existing response alone
    | some _, _ => ⟨c, false, s, c.q⟩
    | none, .ans rc n ex =>
      ⟨upstreamAnswer { setReply c.q with rcode := rc, answer := (List.range n).map (fun i => RR.rr [97] 1 300 i), extra := ex } c, false, s, c.q⟩
    | none, .none => ⟨c, false, s, c.q⟩
    | none, .err => ⟨c, true, s, c.q⟩
  | .ttl :: rest, c, s => exec k up rest c s
  | .fwd codes :: rest, c, s =>
    let r := exec k up rest (addQOpts codes c) s
    if r.failed then r else { r with c := fwdBack codes r.c }
  | .ecs fw own :: rest, c, s =>
    let a := addECS k.ecsLoose fw own c
    let r := exec k up rest a.1 s
    if r.failed then r else if a.2 then { r with c := ecsBack r.c } else r
  | .cache :: rest, c, s =>
    let hit := match s with | .own m => some m | _ => none
    let c1 := match hit with | some m => cacheHit m c | none => c
    let r := exec k up rest c1 s
    match hit, r.c.resp with
    | none, some m => if cacheable m then { r with slot := if k.aliases m then .live else .own (copyNoOpt m) } else r
    | _, _ => r

/-- the chain as an entry of `Model.Handler.reply` -/
def entry (k : Code) (up : Up) (chain : List Plugin) (s : Slot) (c : Ctx) : Ctx × Bool :=
  let r := exec k up chain c s
  (r.c, r.failed)

structure Tx where
  reply : Option Msg     -- what `Handle` hands to the packer
  slot : Slot            -- the entry after `Handle` returned
  upQ : Option Msg
  deriving Repr

/-- One client transaction over TCP (no truncation). A `live` entry is the response object itself, so it is read after
`Handle` has finished with that object. -/
def transact (k : Code) (chain : List Plugin) (up : Up) (q : Msg) (s : Slot) : Tx :=
  if !validQuery q then ⟨none, s, none⟩ else
  let r := exec k up chain (newContext q) s
  let out := finish (fun m _ => m) false r.c (base r.c r.failed)
  let s' := match r.slot with
    | .live => if r.failed then (match r.c.resp with | some m => .own m | none => .empty) else .own out
    | x => x
  ⟨some out, s', some r.upQ⟩

/-- "cached answers never contain an OPT" -/
def Slot.ok : Slot → Prop
  | .empty => True
  | .own m => (m.extra.filter RR.isOpt).length = 0
  | .live => False

/-- Whether `copyNoOpt` may hand back its argument, from the regenerated count of such paths in
`plugin/executable/cache/utils.go` (results other than `nil` / its own `new(dns.Msg)`, re-pointing of that local). -/
def copyAliases (_ : Msg) : Bool := Gen.Facts.c15CopyNoOptAliasPaths != some 0

instance (s : Slot) : Decidable s.ok := by
  cases s <;> unfold Slot.ok <;> infer_instance

def plugCodes : List Plugin → List Nat
  | [] => []
  | .fwd cs :: rest => cs ++ plugCodes rest
  | _ :: rest => plugCodes rest

/-- does an ecs_handler of the chain have `forward` set -/
def ecsForwards : List Plugin → Bool
  | [] => false
  | .ecs fw _ :: rest => fw || ecsForwards rest
  | _ :: rest => ecsForwards rest

/-- `Gen.Facts.c15EcsForwardedLoosePaths`: 0 = `addECS` reports "forwarded" only when the client's own option went upstream -/
def ecsLoose : Bool := Gen.Facts.c15EcsForwardedLoosePaths != some 0

/-- `Gen.Facts.c15CopyToRespOptDeep`: `Context.CopyTo` gives the copy a response OPT of its own -/
def copyShares : Bool := Gen.Facts.c15CopyToRespOptDeep != some true

/-- the model with the regenerated facts as its parameters -/
def genCode : Code := ⟨copyAliases, ecsLoose, copyShares⟩

/-! ### Sub-queries on copies of the context (fallback, dual_selector, lazy cache refresh) -/

/-- a sub-chain run on a copy of the context, in front of its own scripted upstream -/
structure Branch where
  chain : List Plugin
  up : Up
  deriving Repr

def runOn (k : Code) (b : Branch) (c : Ctx) : Res := exec k b.up b.chain c .empty

inductive Adopt where
  | fallback               -- `qCtx.SetResponse(r)` with the winner's response; no winner: ErrFailed
  | selector               -- `*qCtx = *qCtxOrg`: the parent becomes the winner's context; no winner: blocked with an empty reply
  | lazy (stored : Msg)    -- the parent takes the stale entry and walks the rest of the chain itself (the "winner")
  deriving Repr

/-- A plugin that runs sub-chains on copies of the context. The discarded sub-queries (the losing fallback branch,
dual_selector's reference query, the lazy refresh) run to their end, post-processing included, before the reply is made -
the interleaving that exposes a shared response OPT; with a copy that has a response OPT of its own (`copyShares = false`)
nothing they do reaches the parent. -/
def fork (k : Code) (mode : Adopt) (discarded : List Branch) (winner : Option Branch) (c : Ctx) : Ctx × Bool :=
  let ro := discarded.foldl (fun ro b => if k.copyShares then (runOn k b { c with respOpt := ro }).c.respOpt else ro) c.respOpt
  let c := { c with respOpt := ro }
  match mode, winner with
  | .fallback, none => (c, true)
  | .fallback, some b =>
    let r := runOn k b c
    let c' := { c with respOpt := if k.copyShares then r.c.respOpt else c.respOpt }
    match r.failed, r.c.resp with
    | false, some m => (c'.setResponse (some m), false)
    | _, _ => (c', true)
  | .selector, none => (localAnswer 0 [] [] c, false)
  | .selector, some b => let r := runOn k b c; (r.c, r.failed)
  | .lazy stored, w => let r := runOn k (w.getD ⟨[], .none⟩) (cacheHit stored c); (r.c, r.failed)

end Model.C15
