/-! Model of the read loop of `server.ServeUDP` (`pkg/server/udp.go`), for C03's "arrival over UDP".

The listener owns ONE receive buffer. Each iteration of the loop stores the next datagram in it and
starts a goroutine that runs the handler and writes the reply to the datagram's source address. What
the goroutine is given is the point of the model: either the message the loop unpacked from the buffer
before `go` (`inLoop = true`, the code as regenerated: fact `c03UdpUnpackInReadLoop`), or nothing but
the shared buffer, which it unpacks when it gets to run (`inLoop = false`). Goroutines run in any
order and at any time relative to the loop: a schedule is a list of events.

`D` are datagrams, `M` unpacked messages, `unpack` is `(*dns.Msg).Unpack` (`none`: not a message). -/
namespace Model.C03Udp

/-- what the goroutine started for a datagram holds -/
inductive Src (M : Type) where
  | msg (m : M)   -- the message the loop unpacked
  | buffer        -- a reference to the listener's receive buffer
  deriving DecidableEq, Repr

structure Job (M : Type) where
  addr : Nat      -- remoteAddr (a per-iteration variable)
  src : Src M
  deriving DecidableEq, Repr

structure St (D M : Type) where
  buf : Option D := none               -- content of the receive buffer
  tasks : List (Job M) := []          -- goroutines started, not yet run
  handled : List (Nat × M) := []       -- (address a reply is written to, query it was computed from)
  deriving DecidableEq, Repr

inductive Ev (D : Type) where
  | recv (addr : Nat) (d : D)   -- `ReadMsgUDPAddrPort` returns: datagram `d` from `addr` is now in the buffer
  | run (i : Nat)               -- the i-th pending goroutine runs to its end (Handle, WriteMsgUDPAddrPort)
  deriving DecidableEq, Repr

variable {D M : Type}

def step (unpack : D → Option M) (inLoop : Bool) (s : St D M) : Ev D → St D M
  | .recv a d =>
    if inLoop then
      match unpack d with
      | some m => { s with buf := some d, tasks := s.tasks ++ [⟨a, .msg m⟩] }
      | none => { s with buf := some d }                 -- "invalid msg": `continue`
    else { s with buf := some d, tasks := s.tasks ++ [⟨a, .buffer⟩] }
  | .run i =>
    match s.tasks[i]? with
    | none => s
    | some t =>
      match t.src with
      | .msg m => { s with tasks := s.tasks.eraseIdx i, handled := s.handled ++ [(t.addr, m)] }
      | .buffer =>
        match s.buf.bind unpack with
        | some m => { s with tasks := s.tasks.eraseIdx i, handled := s.handled ++ [(t.addr, m)] }
        | none => { s with tasks := s.tasks.eraseIdx i }

def run (unpack : D → Option M) (inLoop : Bool) (evs : List (Ev D)) : St D M :=
  evs.foldl (step unpack inLoop) {}

/-- a datagram that is a message, with its sender -/
def arrival (unpack : D → Option M) : Ev D → Option (Nat × M)
  | .recv a d => (unpack d).map (a, ·)
  | .run _ => none

/-- the (sender, message) pairs of the datagrams that are messages, in order of arrival -/
def received (unpack : D → Option M) (evs : List (Ev D)) : List (Nat × M) := evs.filterMap (arrival unpack)

/-- what a pending goroutine was started with -/
def held (t : Job M) : Option (Nat × M) :=
  match t.src with
  | .msg m => some (t.addr, m)
  | .buffer => none

def pending (ts : List (Job M)) : List (Nat × M) := ts.filterMap held

end Model.C03Udp
