/-! Model of the queries the two fallback workers run on (C20, mechanism "workers run on
copies of the query context").

`doFallback` gives the primary `qCtx.Copy()` and the secondary another `qCtx.Copy()`. What a
copy shares with its origin is decided by `Context.CopyTo`: with `d.query = ctx.query.Copy()`
(`dns.Msg.Copy`, a deep copy) every context has an OPT record of its own; with a copy that keeps
the records of the additional section, the caller, the primary and the secondary hold the same
`*dns.OPT` and an edit by one of them (`ecs_handler`, `forward_edns0opt` append to
`qCtx.QOpt().Option`) is an edit of all three. `deep` is that choice (a regenerated fact).

A query is represented by the option codes of its OPT record, in order. The environment chooses
any sequence of events: a worker edits the options of ITS query, or looks at its query (sends it
upstream, answers as a function of it). -/
namespace Model.C20Copy

abbrev Opts := List Nat

inductive Who where | prim | sec
  deriving DecidableEq, Repr

inductive Edit where
  | add (code : Nat)      -- append an option (ecs_handler, forward_edns0opt)
  | del (code : Nat)      -- remove the options with that code
  | clear                 -- drop all options
  deriving DecidableEq, Repr

def Edit.apply : Edit → Opts → Opts
  | .add c, o => o ++ [c]
  | .del c, o => o.filter (· != c)
  | .clear, _ => []

inductive Ev where
  | edit (w : Who) (e : Edit)   -- `w` edits the OPT of its own query context
  | look (w : Who)              -- `w` reads its query
  deriving DecidableEq, Repr

/-- the options of the caller's, the primary's and the secondary's query -/
structure Cells where
  caller : Opts
  prim : Opts
  sec : Opts
  deriving DecidableEq, Repr

def Cells.get (c : Cells) : Who → Opts
  | .prim => c.prim
  | .sec => c.sec

/-- an edit by `w`: of its own record when the copies are deep, of the one record all three
contexts hold otherwise -/
def Cells.edit (deep : Bool) (c : Cells) (w : Who) (e : Edit) : Cells :=
  if deep then
    match w with
    | .prim => { c with prim := e.apply c.prim }
    | .sec => { c with sec := e.apply c.sec }
  else ⟨e.apply c.caller, e.apply c.prim, e.apply c.sec⟩

/-- `qCtxP := qCtx.Copy(); qCtxS := qCtx.Copy()` on a caller's query with options `q` -/
def fork (q : Opts) : Cells := ⟨q, q, q⟩

/-- what `w` reads at each of its looks, oldest first -/
def sees (deep : Bool) (w : Who) : Cells → List Ev → List Opts
  | _, [] => []
  | c, .edit w' e :: evs => sees deep w (c.edit deep w' e) evs
  | c, .look w' :: evs => if w' = w then c.get w :: sees deep w c evs else sees deep w c evs

/-- the three queries after all events -/
def final (deep : Bool) : Cells → List Ev → Cells
  | c, [] => c
  | c, .edit w e :: evs => final deep (c.edit deep w e) evs
  | c, .look _ :: evs => final deep c evs

/-- what `w` reads when it is the only one who ever touches the query `q`: the other worker's
events are ignored -/
def solo (w : Who) : Opts → List Ev → List Opts
  | _, [] => []
  | q, .edit w' e :: evs => solo w (if w' = w then e.apply q else q) evs
  | q, .look w' :: evs => if w' = w then q :: solo w q evs else solo w q evs

end Model.C20Copy
