/-! Who holds the pooled threshold timer of `fallback.doFallback`, and who waits on it (C20).

`Model.C20` has one timer per call: its `timerFire` is what enables `sPickTimer` /
`sWaitTimer` of THAT call. The real timer is a `*time.Timer` borrowed from the
process-wide `pkg/pool`, and the workers of a call outlive the call when the
caller's context ends (they run on contexts of their own). So "this call's
tick releases this call's secondary" needs that nobody else is still waiting
on the timer a call borrows. This file models exactly that: one pooled timer,
the call that currently holds it, and the goroutines blocked in a select on
its channel (oldest first: a tick goes to the longest-waiting receiver).

`readerHolds` is the regenerated fact `c20TimerHeldByItsReader`: borrow,
deferred release and every receive are in ONE goroutine, so the release runs
when that goroutine ends, i.e. when it is not blocked on the channel. With
`false` the caller borrows and releases while a goroutine it started waits. -/
namespace Model.C20Hold

structure St where
  holder : Option Nat        -- the call whose `GetTimer` handed the timer out and which has not released it
  armed : Bool
  waiters : List Nat         -- calls whose secondary goroutine is blocked on `<-timer.C`, oldest first
  deriving DecidableEq, Repr

def init : St := ⟨none, false, []⟩

inductive Ev where
  | borrow (c : Nat)         -- `pool.GetTimer` in call c (the pool hands out a timer nobody holds)
  | wait (c : Nat)           -- the secondary goroutine of call c blocks in a select with `<-timer.C`
  | leave (c : Nat)          -- another case of that select fires (primDone / primFailed / its context)
  | release (c : Nat)        -- `pool.ReleaseTimer` of call c
  | fire                     -- the duration passes
  deriving DecidableEq, Repr

/-- One step; the second component is the call whose goroutine received the tick. -/
def step (readerHolds : Bool) (s : St) : Ev → Option (St × Option Nat)
  | .borrow c => if s.holder = none then some (⟨some c, true, s.waiters⟩, none) else none
  | .wait c => if s.holder = some c || !readerHolds then some ({ s with waiters := s.waiters ++ [c] }, none) else none
  | .leave c => some ({ s with waiters := s.waiters.filter (· != c) }, none)
  | .release c =>
    if s.holder = some c && (!readerHolds || !s.waiters.contains c) then some (⟨none, false, s.waiters⟩, none) else none
  | .fire =>
    if s.armed then
      match s.waiters with
      | [] => some ({ s with armed := false }, none)
      | w :: ws => some (⟨s.holder, false, ws⟩, some w)
    else none

/-- Run a list of events; returns the final state and who received the ticks (in order). -/
def run (readerHolds : Bool) : St → List Ev → Option (St × List Nat)
  | s, [] => some (s, [])
  | s, e :: es =>
    match step readerHolds s e with
    | none => none
    | some (s', o) =>
      match run readerHolds s' es with
      | none => none
      | some (s'', got) => some (s'', o.toList ++ got)

/-- Every goroutine waiting on the timer belongs to the call that holds it. -/
def inv (s : St) : Prop := ∀ w, w ∈ s.waiters → s.holder = some w

end Model.C20Hold
