import MosdnsVerif.Base.Go

/-! Model of the cache dump format and its loader (C19).

The gzip layer and protobuf are parameters:
* the loader sees the *decompressed* bytes `p` it can obtain and a flag
  `clean` that says whether the compressed stream ended properly (trailer
  present). A truncated file gives a prefix of the plaintext with
  `clean = false` (the Go gzip reader then reports `io.ErrUnexpectedEOF`).
* `enc`/`dec` are protobuf Marshal/Unmarshal of one `CacheDumpBlock`.
-/
namespace Model.C19

/-- 8-byte big-endian length (`binary.BigEndian.PutUint64`). -/
def be64 (n : Nat) : Bytes :=
  [UInt8.ofNat (n / 256 ^ 7 % 256), UInt8.ofNat (n / 256 ^ 6 % 256), UInt8.ofNat (n / 256 ^ 5 % 256),
   UInt8.ofNat (n / 256 ^ 4 % 256), UInt8.ofNat (n / 256 ^ 3 % 256), UInt8.ofNat (n / 256 ^ 2 % 256),
   UInt8.ofNat (n / 256 % 256), UInt8.ofNat (n % 256)]

/-- `binary.BigEndian.Uint64` of (at least) 8 bytes -/
def unbe64 (b : Bytes) : Nat := (b.take 8).foldl (fun acc x => acc * 256 + x.toNat) 0

def maxBlock : Nat := 2 ^ 20

inductive RErr where
  | eofClean     -- io.EOF: nothing left and the stream ended properly
  | unexpected   -- io.ErrUnexpectedEOF (short read, or truncated compressed stream)
  deriving DecidableEq, Repr

/-- `io.ReadFull(gr, buf)` with `len(buf) = n` on the remaining plaintext `p`. -/
def readN (p : Bytes) (clean : Bool) (n : Nat) : Except RErr (Bytes × Bytes) :=
  if n ≤ p.length then .ok (p.take n, p.drop n)
  else if p.isEmpty && clean then .error .eofClean
  else .error .unexpected

variable {E : Type}

/-- What `writeDump` emits (before gzip) for the blocks it formed. -/
def plain (enc : List E → Bytes) (blocks : List (List E)) : Bytes :=
  (blocks.map (fun b => be64 (enc b).length ++ enc b)).flatten

/-- `readDump`'s loop: entries handed to `Store`, and whether an error is returned. -/
def load (dec : Bytes → Option (List E)) : Nat → Bytes → Bool → List E × Bool
  | 0, _, _ => ([], true)
  | fuel + 1, p, clean =>
    match readN p clean 8 with
    | .error .eofClean => ([], false)           -- errReadHeaderEOF: the expected end
    | .error .unexpected => ([], true)
    | .ok (h, rest) =>
      if unbe64 h > maxBlock then ([], true)    -- refused before any buffer of that size is requested
      else match readN rest clean (unbe64 h) with
        | .error _ => ([], true)
        | .ok (body, rest') =>
          match dec body with
          | none => ([], true)
          | some es =>
            let r := load dec fuel rest' clean
            (es ++ r.1, r.2)

/-- The blocks wholly contained in a prefix `p` of the plaintext. -/
def whole (enc : List E → Bytes) : List (List E) → Bytes → List (List E)
  | [], _ => []
  | b :: bs, p =>
    let f := be64 (enc b).length ++ enc b
    if f.length ≤ p.length then b :: whole enc bs (p.drop f.length) else []

/-- `writeDump` forms blocks of `n` entries (the last one may be shorter). -/
def chunk (n : Nat) : Nat → List E → List (List E)
  | 0, _ => []
  | fuel + 1, es => if es.isEmpty then [] else es.take n :: chunk n fuel (es.drop n)

/-! ### Overlapping dumps of one cache

`writeDump` has three callers that are not serialised against each other (the
periodic dump, `Close`, `GET /dump`). One `writeBlock` is three steps that
other dumps can interleave with: marshal the block, `gw.Write(l)` (may block on
the consumer), `gw.Write(b)`. Where the marshaled bytes live between the steps
is the parameter `localBuf` (regenerated fact `c19WriterStateLocal`): a slice
owned by this call, or a scratch buffer kept on the `Cache`. -/

/-- One `writeDump` call in flight. -/
structure Dump (E : Type) where
  todo : List (List E)   -- blocks still to be written (the head is the one being written)
  pc   : Nat             -- 0: before Marshal; 1: marshaled, `gw.Write(l)` pending; ≥ 2: `gw.Write(b)` pending
  buf  : Bytes           -- the call's own slice `b`
  len  : Nat             -- `len(b)` as this call sees it
  out  : Bytes           -- plaintext handed to the compressor so far

structure World (E : Type) where
  dumps   : Nat → Dump E
  scratch : Bytes        -- backing array of a buffer shared through the `Cache` (unused when `localBuf`)

def Dump.fresh (blocks : List (List E)) : Dump E := ⟨blocks, 0, [], 0, []⟩

def World.set (w : World E) (i : Nat) (d : Dump E) : World E :=
  { w with dumps := fun j => if j = i then d else w.dumps j }

/-- `MarshalAppend(buf[:0], …)` into an array that still holds older bytes. -/
def overlay (new old : Bytes) : Bytes := new ++ old.drop new.length

/-- Dump `i` takes its next step. -/
def step (enc : List E → Bytes) (localBuf : Bool) (w : World E) (i : Nat) : World E :=
  let d := w.dumps i
  match d.pc with
  | 0 =>
    match d.todo with
    | [] => w
    | b :: _ =>
      if localBuf then w.set i { d with pc := 1, buf := enc b, len := (enc b).length }
      else { (w.set i { d with pc := 1, len := (enc b).length }) with scratch := overlay (enc b) w.scratch }
  | 1 => w.set i { d with pc := 2, out := d.out ++ be64 d.len }
  | _ + 2 =>
    let body := if localBuf then d.buf else w.scratch.take d.len
    w.set i { d with pc := 0, todo := d.todo.tail, out := d.out ++ body }

/-- A schedule names the dump that moves next. -/
def run (enc : List E → Bytes) (localBuf : Bool) : List Nat → World E → World E
  | [], w => w
  | i :: s, w => run enc localBuf s (step enc localBuf w i)

/-- What dump `d` still has to emit (when its buffer is its own). -/
def Dump.rest (enc : List E → Bytes) (d : Dump E) : Bytes :=
  match d.pc with
  | 0 => plain enc d.todo
  | 1 => be64 d.len ++ (d.buf ++ plain enc d.todo.tail)
  | _ + 2 => d.buf ++ plain enc d.todo.tail

def Dump.finished (d : Dump E) : Bool := d.pc == 0 && d.todo.isEmpty

/-! ### The key field of a dumped entry

A cache key is binary (`getMsgKey`: flags, qtype, qclass, length octet, name).
Which protobuf field kind carries it in the dump is the parameter `FieldKind`
(regenerated fact `c19KeyFieldIsBytes`): proto3 `bytes` takes any octets; a
proto3 `string` makes `proto.Marshal` (and `Unmarshal`) fail unless the value
is valid UTF-8 (`utf8.Valid`). `writeDump` returns at the first block that does
not marshal: that block and all later ones are never written. -/

inductive FieldKind where
  | bytes   -- opaque octets
  | utf8    -- proto3 `string`: validated on Marshal / Unmarshal
  deriving DecidableEq, Repr

def inR (lo hi : Nat) (b : UInt8) : Bool := lo ≤ b.toNat && b.toNat ≤ hi

/-- Go's `utf8.Valid` (well-formed UTF-8, Unicode table 3-7), with fuel. -/
def validUtf8Aux : Nat → Bytes → Bool
  | _, [] => true
  | 0, _ :: _ => false
  | f + 1, a :: rest =>
    if a.toNat < 0x80 then validUtf8Aux f rest
    else if inR 0xC2 0xDF a then
      match rest with
      | b :: r => inR 0x80 0xBF b && validUtf8Aux f r
      | _ => false
    else if inR 0xE0 0xEF a then
      match rest with
      | b :: c :: r =>
        inR (if a.toNat = 0xE0 then 0xA0 else 0x80) (if a.toNat = 0xED then 0x9F else 0xBF) b &&
          inR 0x80 0xBF c && validUtf8Aux f r
      | _ => false
    else if inR 0xF0 0xF4 a then
      match rest with
      | b :: c :: d :: r =>
        inR (if a.toNat = 0xF0 then 0x90 else 0x80) (if a.toNat = 0xF4 then 0x8F else 0xBF) b &&
          inR 0x80 0xBF c && inR 0x80 0xBF d && validUtf8Aux f r
      | _ => false
    else false

def validUtf8 (bs : Bytes) : Bool := validUtf8Aux bs.length bs

/-- Does `proto.Marshal` accept this value in a field of this kind? -/
def marshals : FieldKind → Bytes → Bool
  | .bytes, _ => true
  | .utf8, k => validUtf8 k

/-- `getMsgKey`: flag bits, qtype, qclass (big-endian), `byte(len(name))`, name. -/
def msgKey (flags qtype qclass : Nat) (name : Bytes) : Bytes :=
  UInt8.ofNat flags :: UInt8.ofNat (qtype / 256) :: UInt8.ofNat qtype :: UInt8.ofNat (qclass / 256) ::
    UInt8.ofNat qclass :: UInt8.ofNat name.length :: name

/-- The blocks `writeDump` gets written (it stops at the first block that does
not marshal) and whether it returns an error. -/
def written (kind : FieldKind) (keyOf : E → Bytes) : List (List E) → List (List E) × Bool
  | [] => ([], false)
  | b :: bs =>
    if b.all (fun e => marshals kind (keyOf e)) then
      let r := written kind keyOf bs
      (b :: r.1, r.2)
    else ([], true)

/-! ### What the plugin lets into the store, and whether `writeDump` can pack it -/

/-- miekg `Msg.Pack`: an rcode above 15 needs an OPT record for its upper bits
(`dns: bad extended rcode` otherwise). -/
def packs (rcode : Nat) (hasOpt : Bool) : Bool := decide (rcode < 16) || hasOpt

/-- `saveRespToCache`: a response is stored only if an arm of `switch r.Rcode`
gives it a ttl; `maxArm` is the largest rcode an arm names (`none`: a default
arm, every rcode may be stored). -/
def admitted (maxArm : Option Nat) (rcode : Nat) : Prop :=
  match maxArm with
  | none => True
  | some m => rcode ≤ m

/-- `writeDump` packs every stored message - stored without OPT (`copyNoOpt`) -
and gives up at the first that does not pack. `true` = the dump goes through. -/
def dumpPacks (rcodes : List Nat) : Bool := rcodes.all (fun rc => packs rc false)

/-- `POST /load_dump`: `readDump` on the request body; a handler that caps the
body at `l` octets hands a longer dump over as its first `l` octets followed by
a read error. -/
def apiLoad (dec : Bytes → Option (List E)) (fuel : Nat) (limit : Option Nat) (p : Bytes) : List E × Bool :=
  match limit with
  | none => load dec fuel p true
  | some l => if p.length ≤ l then load dec fuel p true else load dec fuel (p.take l) false

/-- The cap of the handler as the regenerated fact describes it. -/
def apiLimit (wholeBody : Option Bool) (l : Nat) : Option Nat :=
  if wholeBody = some true then none else some l

end Model.C19
