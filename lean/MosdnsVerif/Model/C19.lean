import MosdnsVerif.Base.Go

/-! Model of the cache dump format and its loader (C19).

The gzip layer and protobuf are parameters:
* the loader sees the *decompressed* bytes `p` it can obtain and a flag
  `clean` that says whether the compressed stream ended properly (trailer
  present). A truncated file gives a prefix of the plaintext with
  `clean = false` (the Go gzip reader then reports `io.ErrUnexpectedEOF`).
* `enc`/`dec` are protobuf Marshal/Unmarshal of one `CacheDumpBlock`.
-/
namespace Model.C19

/-- 8-byte big-endian length (`binary.BigEndian.PutUint64`). -/
def be64 (n : Nat) : Bytes :=
  [UInt8.ofNat (n / 256 ^ 7 % 256), UInt8.ofNat (n / 256 ^ 6 % 256), UInt8.ofNat (n / 256 ^ 5 % 256),
   UInt8.ofNat (n / 256 ^ 4 % 256), UInt8.ofNat (n / 256 ^ 3 % 256), UInt8.ofNat (n / 256 ^ 2 % 256),
   UInt8.ofNat (n / 256 % 256), UInt8.ofNat (n % 256)]

/-- `binary.BigEndian.Uint64` of (at least) 8 bytes -/
def unbe64 (b : Bytes) : Nat := (b.take 8).foldl (fun acc x => acc * 256 + x.toNat) 0

def maxBlock : Nat := 2 ^ 20

inductive RErr where
  | eofClean     -- io.EOF: nothing left and the stream ended properly
  | unexpected   -- io.ErrUnexpectedEOF (short read, or truncated compressed stream)
  deriving DecidableEq, Repr

/-- `io.ReadFull(gr, buf)` with `len(buf) = n` on the remaining plaintext `p`. -/
def readN (p : Bytes) (clean : Bool) (n : Nat) : Except RErr (Bytes × Bytes) :=
  if n ≤ p.length then .ok (p.take n, p.drop n)
  else if p.isEmpty && clean then .error .eofClean
  else .error .unexpected

variable {E : Type}

/-- What `writeDump` emits (before gzip) for the blocks it formed. -/
def plain (enc : List E → Bytes) (blocks : List (List E)) : Bytes :=
  (blocks.map (fun b => be64 (enc b).length ++ enc b)).flatten

/-- `readDump`'s loop: entries handed to `Store`, and whether an error is returned. -/
def load (dec : Bytes → Option (List E)) : Nat → Bytes → Bool → List E × Bool
  | 0, _, _ => ([], true)
  | fuel + 1, p, clean =>
    match readN p clean 8 with
    | .error .eofClean => ([], false)           -- errReadHeaderEOF: the expected end
    | .error .unexpected => ([], true)
    | .ok (h, rest) =>
      if unbe64 h > maxBlock then ([], true)    -- refused before any buffer of that size is requested
      else match readN rest clean (unbe64 h) with
        | .error _ => ([], true)
        | .ok (body, rest') =>
          match dec body with
          | none => ([], true)
          | some es =>
            let r := load dec fuel rest' clean
            (es ++ r.1, r.2)

/-- The blocks wholly contained in a prefix `p` of the plaintext. -/
def whole (enc : List E → Bytes) : List (List E) → Bytes → List (List E)
  | [], _ => []
  | b :: bs, p =>
    let f := be64 (enc b).length ++ enc b
    if f.length ≤ p.length then b :: whole enc bs (p.drop f.length) else []

/-- `writeDump` forms blocks of `n` entries (the last one may be shorter). -/
def chunk (n : Nat) : Nat → List E → List (List E)
  | 0, _ => []
  | fuel + 1, es => if es.isEmpty then [] else es.take n :: chunk n fuel (es.drop n)

end Model.C19
