/-! Models for C07 (exchanges always terminate; Close releases everything).

Part A, `Conn`: the read-deadline discipline of `TraditionalDnsConn`: the reader
arms the waiting-reply deadline or the idle deadline from the emptiness of the
waiter table (under `queueMu`), a caller that has written its query arms the
waiting-reply deadline unless `waitingResp` says it is armed already. Time is
abstract: `Dl` is the kind of deadline in force, and `readerFail` covers the
expiry of whatever deadline is in force as well as read errors and EOF.

Part B, `Sys`: the lock protocols around Close. Threads are straight-line
programs over mutexes, `sync.Once` and one `sync.WaitGroup`; a state in which
some thread is unfinished and no thread can move is a deadlock. -/
namespace Model.C07

/-! ## Part A -/

inductive Dl where
  | none | idle | short
  deriving DecidableEq, Repr

inductive Rd where
  | top | blocked | exited
  deriving DecidableEq, Repr

structure Conn where
  queue : Nat := 0          -- len(dc.queue)
  waitingResp : Bool := false
  dl : Dl := .none          -- read deadline in force on the socket
  rd : Rd := .top           -- reader: at the top of its loop / blocked in Read / returned
  closed : Bool := false
  -- ghosts: callers
  unarmed : Nat := 0        -- entry in the table, have not yet reached the arming step (writing)
  parked : Nat := 0         -- entry in the table, armed, waiting in the final select
  late : Nat := 0           -- their reply was popped before they reached the arming step
  deriving DecidableEq, Repr

inductive CLabel where
  | readerArm            -- top of readLoop: lock, choose deadline from len(queue), unlock, call Read
  | readerGotParked      -- a reply for a parked caller: popQueueC, hand-off
  | readerGotUnarmed     -- a reply for a caller still writing
  | readerGotStray       -- a reply nobody waits for
  | readerFail           -- Read returns an error: EOF, reset, garbage frame, or the deadline in force expired
  | callerAdd            -- addQueueC
  | callerWriteFail      -- Write fails: CloseWithErr, deferred deleteQueueC
  | callerArm            -- after Write: `if !waitingResp { waitingResp = true; SetReadDeadline(short) }`
  | callerArmLate        -- the same step by a caller whose reply is already in its channel
  | callerLeave          -- a parked caller returns without a reply (context, close): deleteQueueC
  | callerLeaveUnarmed   -- (not in the code: kept disabled) 
  deriving DecidableEq, Repr

def arm (s : Conn) : Conn := if s.waitingResp then s else { s with waitingResp := true, dl := .short }

def Conn.step (s : Conn) : CLabel → Option Conn
  | .readerArm =>
    if s.rd = .top then
      if s.queue > 0 then some { s with waitingResp := true, dl := .short, rd := .blocked }
      else some { s with waitingResp := false, dl := .idle, rd := .blocked }
    else none
  | .readerGotParked =>
    if s.rd = .blocked ∧ s.closed = false ∧ s.parked > 0 then some { s with rd := .top, parked := s.parked - 1, queue := s.queue - 1 } else none
  | .readerGotUnarmed =>
    if s.rd = .blocked ∧ s.closed = false ∧ s.unarmed > 0 then some { s with rd := .top, unarmed := s.unarmed - 1, late := s.late + 1, queue := s.queue - 1 } else none
  | .readerGotStray => if s.rd = .blocked ∧ s.closed = false then some { s with rd := .top } else none
  | .readerFail => if s.rd = .blocked then some { s with rd := .exited, closed := true } else none
  | .callerAdd => if s.closed then none else some { s with queue := s.queue + 1, unarmed := s.unarmed + 1 }
  | .callerWriteFail => if s.unarmed > 0 then some { s with closed := true, unarmed := s.unarmed - 1, queue := s.queue - 1 } else none
  | .callerArm => if s.unarmed > 0 then some { arm s with unarmed := s.unarmed - 1, parked := s.parked + 1 } else none
  | .callerArmLate => if s.late > 0 then some { arm s with late := s.late - 1 } else none
  | .callerLeave => if s.parked > 0 then some { s with parked := s.parked - 1, queue := s.queue - 1 } else none
  | .callerLeaveUnarmed => none

def Conn.run : Conn → List CLabel → Option Conn
  | s, [] => some s
  | s, l :: ls => match s.step l with
    | none => none
    | some s' => Conn.run s' ls

structure Conn.Inv (s : Conn) : Prop where
  q : s.queue = s.unarmed + s.parked
  flag : s.waitingResp = true → s.dl = .short
  blk : s.rd = .blocked → s.dl ≠ .none ∧ (s.parked > 0 → s.dl = .short)
  ex : s.rd = .exited → s.closed = true

/-- the variant with the sticky flag (the reader never clears `waitingResp`) -/
def stickyArm (s : Conn) : Conn :=
  if s.queue > 0 then { s with waitingResp := true, dl := .short, rd := .blocked }
  else { s with dl := .idle, rd := .blocked }

/-! ## Part B -/

inductive Act where
  | lock (m : Nat) | unlock (m : Nat)
  | onceBegin (o : Nat) (len : Nat)     -- `once.Do(f)`: f is the next `len` actions, followed by `onceEnd`
  | onceEnd (o : Nat)
  | wgDone | wgWait
  deriving DecidableEq, Repr

structure Sys where
  pcs : List Nat        -- per thread: index of its next action
  owners : List Nat     -- per mutex: 0 = free, t + 1 = held by thread t
  onces : List Nat      -- per Once: 0 = fresh, 1 = running, 2 = done
  wg : Nat
  deriving DecidableEq, Repr

def setAt (l : List Nat) (i v : Nat) : List Nat := l.set i v

/-- the move of thread `t` (none: finished or blocked) -/
def Sys.move (progs : List (List Act)) (s : Sys) (t : Nat) : Option Sys :=
  let pc := s.pcs.getD t 0
  match (progs.getD t []).drop pc |>.head? with
  | none => none
  | some a =>
    let adv (k : Nat) (s : Sys) : Sys := { s with pcs := setAt s.pcs t (pc + k) }
    match a with
    | .lock m => if s.owners.getD m 0 = 0 then some (adv 1 { s with owners := setAt s.owners m (t + 1) }) else none
    | .unlock m => some (adv 1 { s with owners := setAt s.owners m 0 })
    | .onceBegin o len =>
      match s.onces.getD o 0 with
      | 0 => some (adv 1 { s with onces := setAt s.onces o 1 })
      | 1 => none
      | _ => some (adv (len + 2) s)
    | .onceEnd o => some (adv 1 { s with onces := setAt s.onces o 2 })
    | .wgDone => some (adv 1 { s with wg := s.wg - 1 })
    | .wgWait => if s.wg = 0 then some (adv 1 s) else none

def Sys.finished (progs : List (List Act)) (s : Sys) (t : Nat) : Bool := (progs.getD t []).length ≤ s.pcs.getD t 0

def threads (progs : List (List Act)) : List Nat := List.range progs.length

def Sys.next (progs : List (List Act)) (s : Sys) : List Sys := (threads progs).filterMap (s.move progs)

def Sys.deadlocked (progs : List (List Act)) (s : Sys) : Bool :=
  (s.next progs).isEmpty && (threads progs).any (fun t => !s.finished progs t)

def Sys.init (progs : List (List Act)) (mutexes onces wg : Nat) : Sys :=
  ⟨List.replicate progs.length 0, List.replicate mutexes 0, List.replicate onces 0, wg⟩

/-- breadth-first closure -/
def explore (progs : List (List Act)) : Nat → List Sys → List Sys → List Sys
  | 0, _, seen => seen
  | fuel + 1, frontier, seen =>
    let new := (frontier.flatMap (·.next progs)).foldl (fun acc s => if acc.contains s || seen.contains s then acc else s :: acc) []
    if new.isEmpty then seen else explore progs fuel new (new ++ seen)

def Sys.run (progs : List (List Act)) : Sys → List Nat → Option Sys
  | s, [] => some s
  | s, t :: ts => match s.move progs t with
    | none => none
    | some s' => Sys.run progs s' ts

/-! ### the programs -/

/- reuse.go: mutex 0 = ReuseConnTransport.m, once 0 = reusableConn.closeOnce -/
def reuseClose : List Act := [.lock 0, .onceBegin 0 0, .onceEnd 0, .unlock 0]                -- Close: holds t.m, closeWithErrByTransport
def reuseFail : List Act := [.lock 0, .unlock 0, .onceBegin 0 0, .onceEnd 0]                -- closeWithErr: pool delete, then the Once
def reuseFailOld : List Act := [.onceBegin 0 2, .lock 0, .unlock 0, .onceEnd 0]             -- before the repair: pool delete inside the Once
def reusePool : List Act := [.lock 0, .unlock 0]                                            -- getIdleConn / setIdle / newReusableConn

def reuseProgs : List (List Act) := [reuseClose, reuseFail, reuseFail, reusePool]
def reuseProgsOld : List (List Act) := [reuseClose, reuseFailOld, reusePool]

/- pipeline.go + conn_lazy_dial.go + conn_traditional.go after a successful dial:
   mutex 0 = PipelineTransport.m, 1 = lazyDnsConn.mu, 2 = TraditionalDnsConn.queueMu, once 0 = closeOnce,
   the wait group = earlyReserveCallWg with one count per early caller -/
def pipeLateReserve : List Act := [.lock 0, .lock 1, .wgWait, .lock 2, .unlock 2, .unlock 1, .unlock 0]
def pipeEarlyProceed : List Act := [.lock 2, .unlock 2, .wgDone, .lock 2, .unlock 2, .lock 1, .unlock 1]   -- re-reserve, Done, exchange, deferred decrement
def pipeEarlyCancelled : List Act := [.wgDone, .lock 1, .unlock 1]
def pipeEarlyCancelledLeaky : List Act := [.lock 1, .unlock 1]                                 -- the seeded defect: no wg.Done on the context arm
def pipeClose : List Act := [.lock 0, .lock 1, .unlock 1, .unlock 0]                            -- Close: t.m, then lazyDnsConn.Close (the inner Close takes no mutex)

def pipeProgs : List (List Act) := [pipeLateReserve, pipeEarlyProceed, pipeEarlyCancelled, pipeClose]
def pipeProgsLeaky : List (List Act) := [pipeLateReserve, pipeEarlyProceed, pipeEarlyCancelledLeaky, pipeClose]

end Model.C07
