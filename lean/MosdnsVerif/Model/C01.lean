/-! Model of reply dispatch on one connection (C01).

`Pipe`: a pipelined / UDP connection (`TraditionalDnsConn`): the waiter table
`queue` (wire id -> waiting caller), the 16-bit counter `nextQid`, allocation
in `addQueueC` (at most 100 tries, ids still in the table are skipped), the
reader's `popQueueC`, the caller's conditional `deleteQueueC`.

Callers are numbered in the order they enter. Ghost state records with which
wire id each caller's query was written and who was the latest to use each wire
id. The server is the environment: a `reply w origin` step is a reply carrying
wire id `w` that the server produced for the query of caller `origin`. It is
enabled only when `origin`'s query was written with `w` and either `origin` is
still waiting or nobody has used `w` since (the 16-bit scope of the property). -/
namespace Model.C01

def idSpace : Nat := 65536

structure Pipe where
  next : Nat := 0                                -- dc.nextQid
  table : Nat → Option Nat := fun _ => none      -- dc.queue
  nextCaller : Nat := 0
  -- ghosts
  widOf : Nat → Option Nat := fun _ => none      -- wire id a caller's query was written with
  lastUser : Nat → Option Nat := fun _ => none   -- latest caller whose query used a wire id
  log : List (Nat × Nat) := []                   -- deliveries: (caller that received it, caller it was produced for)

/-- `addQueueC`'s search: returns the id found (if any) and the new counter -/
def alloc (table : Nat → Option Nat) : Nat → Nat → Option Nat × Nat
  | 0, next => (none, next)
  | k + 1, next =>
    let qid := next
    let next' := (next + 1) % idSpace
    if (table qid).isSome then alloc table k next' else (some qid, next')

inductive Label where
  | add                      -- a new caller enters exchange: addQueueC + write
  | reply (w origin : Nat)   -- the reader reads a reply with wire id w that the server produced for origin's query
  | leave (c : Nat)          -- caller c returns (context, close, error): deleteQueueC(qid, its channel)
  deriving DecidableEq, Repr

def upd (f : Nat → Option Nat) (k : Nat) (v : Option Nat) : Nat → Option Nat := fun x => if x = k then v else f x

def Pipe.replyEnabled (s : Pipe) (w origin : Nat) : Bool :=
  s.widOf origin == some w && (s.table w == some origin || s.lastUser w == some origin)

def Pipe.step (tries : Nat) (s : Pipe) : Label → Option Pipe
  | .add =>
    let c := s.nextCaller
    match alloc s.table tries s.next with
    | (none, next') => some { s with next := next', nextCaller := c + 1 }     -- ErrTDCTooManyQueries
    | (some qid, next') =>
      some { s with next := next', nextCaller := c + 1, table := upd s.table qid (some c),
                    widOf := upd s.widOf c (some qid), lastUser := upd s.lastUser qid (some c) }
  | .reply w origin =>
    if s.replyEnabled w origin then
      match s.table w with
      | some c => some { s with table := upd s.table w none, log := (c, origin) :: s.log }   -- popQueueC + hand-off
      | none => some s                                                                         -- released, never delivered
    else none
  | .leave c =>
    match s.widOf c with
    | some w => if s.table w = some c then some { s with table := upd s.table w none } else some s
    | none => some s

def Pipe.run (tries : Nat) : Pipe → List Label → Option Pipe
  | s, [] => some s
  | s, l :: ls => match s.step tries l with
    | none => none
    | some s' => Pipe.run tries s' ls

structure Pipe.Inv (s : Pipe) : Prop where
  latest : ∀ w c, s.table w = some c → s.lastUser w = some c ∧ s.widOf c = some w
  fresh : ∀ c, s.nextCaller ≤ c → s.widOf c = none
  log : ∀ p ∈ s.log, p.1 = p.2

/-! ### restoring the caller's id -/

/-- a message: 16-bit id and the rest (question, answer, ...) -/
structure Msg where
  id : Nat
  body : Nat
  deriving DecidableEq, Repr

/-- what the caller gets back: the reply with the id of its own query put back -/
def restore (q reply : Msg) : Msg := { reply with id := q.id }

/-- what goes on the wire: the query with the assigned id (0 for DoH / DoQ) -/
def rewrite (q : Msg) (wid : Nat) : Msg := { q with id := wid }

/-! ### DoH: one HTTP request per query

Every exchange builds an `http.Request` from the upstream's request template, writes its own query string
(`dns=<base64 of the query, id 0>`) into the request's URL and hands the request to the `http.RoundTripper`.
The transport reads the URL when it serialises the request, which may be long after `RoundTrip` was entered
(connection dial, TLS handshake, stream slot) and after any number of other exchanges have built theirs.
`perCall` (regenerated: `Gen.Facts.c01DohRequestPerCall`): the URL written into belongs to this call alone;
otherwise it is the one URL of the template, shared by all calls of the upstream. Calls are numbered; the
server answers the query it finds in the request, the reply travels back on that request. -/

structure Doh where
  tmpl : Option Nat := none                    -- whose query string the URL of the template holds
  own : Nat → Option Nat := fun _ => none      -- whose query string the URL private to call c holds
  built : List Nat := []                       -- calls that have built their request
  log : List (Nat × Nat) := []                 -- (call the request belongs to, call whose query the server found in it)

inductive DLabel where
  | build (c : Nat)      -- call c builds its request and writes its query string
  | serve (c : Nat)      -- the transport serialises c's request; the server answers what it carries; c gets that reply
  deriving DecidableEq, Repr

def Doh.step (perCall : Bool) (s : Doh) : DLabel → Option Doh
  | .build c =>
    if perCall then some { s with own := upd s.own c (some c), built := c :: s.built }
    else some { s with tmpl := some c, built := c :: s.built }
  | .serve c =>
    if s.built.contains c then
      match (if perCall then s.own c else s.tmpl) with
      | some o => some { s with log := (c, o) :: s.log }
      | none => none
    else none

def Doh.run (perCall : Bool) : Doh → List DLabel → Option Doh
  | s, [] => some s
  | s, l :: ls => match s.step perCall l with
    | none => none
    | some s' => Doh.run perCall s' ls

structure Doh.Inv (s : Doh) : Prop where
  own : ∀ c o, s.own c = some o → o = c
  log : ∀ p ∈ s.log, p.1 = p.2

/-! ### non-pipelined reused connection -/

structure Reuse where
  slot : Option Nat := none      -- c.waitingResp belongs to this caller
  owed : Option Nat := none      -- the server has received this caller's query and not answered it yet
  idle : Bool := false
  closed : Bool := false
  holder : Option Nat := some 0  -- caller that took the connection and has not written yet
  nextCaller : Nat := 1
  log : List (Nat × Nat) := []

inductive RLabel where
  | take            -- getIdleConn hands the connection to a new caller
  | send            -- the holder installs its channel and writes
  | reply           -- the server answers the query it owes (one reply per query); the reader dispatches it
  | surplus         -- any other reply
  | leave           -- the waiting caller gives up; its channel stays installed
  | close
  deriving DecidableEq, Repr

def Reuse.step (s : Reuse) : RLabel → Option Reuse
  | .take => if s.idle && !s.closed then some { s with idle := false, holder := some s.nextCaller, nextCaller := s.nextCaller + 1 } else none
  | .send => match s.holder with
    | some c => if s.closed then none else some { s with holder := none, slot := some c, owed := some (s.owed.getD c) }   -- the server answers in order: an older owed reply comes first
    | none => none
  | .reply => match s.owed with
    | none => none
    | some o =>
      if s.closed then none
      else match s.slot with
        | some c => some { s with slot := none, owed := none, idle := true, log := (c, o) :: s.log }
        | none => some { s with owed := none, closed := true, idle := false }
  | .surplus =>
    if s.closed then none
    else match s.slot with
      | some _ => none        -- outside the property's scope: the server sends one reply per query
      | none => some { s with closed := true, idle := false }
  | .leave => some s
  | .close => some { s with closed := true, idle := false }

def Reuse.run : Reuse → List RLabel → Option Reuse
  | s, [] => some s
  | s, l :: ls => match s.step l with
    | none => none
    | some s' => Reuse.run s' ls

structure Reuse.Inv (s : Reuse) : Prop where
  owedSlot : ∀ o, s.owed = some o → s.slot = some o
  idleFree : s.idle = true → s.slot = none ∧ s.owed = none ∧ s.holder = none
  holderFree : ∀ c, s.holder = some c → s.slot = none ∧ s.owed = none
  log : ∀ p ∈ s.log, p.1 = p.2

/-! ### ownership of pooled reply buffers inside a function that hands a reply to its caller

`udpWithFallback.ExchangeContext` receives pooled buffers from its two transports. The events on those buffers
along one control-flow path of the function are regenerated from the source (`Gen.Facts.c01FallbackBufPaths`).
`pool` is the free list as this call leaves it: a buffer that is in it can be handed to any reader by the next
`GetBuf`, a buffer that is in it twice will be handed to two of them. Deferred releases run after the result
has been fixed. -/

inductive BufEv where
  | got (v : Nat)            -- v, err := <exchange>
  | lost (v : Nat)           -- the `err != nil` branch behind it: v is nil
  | use (v : Nat)            -- v is read
  | release (v : Nat)        -- pool.ReleaseBuf(v)
  | deferRelease (v : Nat)   -- defer pool.ReleaseBuf(v)
  | ret (v : Nat)            -- return v, ...
  | retOther                 -- return nil / the result of another call
  deriving DecidableEq, Repr

def BufEv.ofCode : Nat × Nat → Option BufEv
  | (0, v) => some (.got v) | (1, v) => some (.lost v) | (2, v) => some (.use v) | (3, v) => some (.release v)
  | (4, v) => some (.deferRelease v) | (5, v) => some (.ret v) | (6, _) => some .retOther | _ => none

structure Own where
  pool : List Nat := []        -- buffers this call has put back into the free list
  deferred : List Nat := []    -- releases that will run when the function returns
  out : Option Nat := none     -- the buffer handed to the caller
  stale : Bool := false        -- a buffer was read or handed out after it had gone back to the free list

def Own.ev (s : Own) : BufEv → Own
  | .got _ => s
  | .lost _ => s
  | .use v => { s with stale := s.stale || s.pool.contains v }
  | .release v => { s with pool := v :: s.pool }
  | .deferRelease v => { s with deferred := v :: s.deferred }
  | .ret v => { s with out := some v, stale := s.stale || s.pool.contains v }
  | .retOther => s

/-- the function returns: the deferred releases run -/
def Own.exit (s : Own) : Own := { s with pool := s.deferred ++ s.pool, deferred := [] }

def runPath (p : List BufEv) : Own := (p.foldl Own.ev {}).exit

def nodupB : List Nat → Bool
  | [] => true
  | x :: xs => !xs.contains x && nodupB xs

/-- what the caller and every later user of the pool rely on: the reply handed to the caller is not in the
free list (no reader can be given it while the caller looks at it), no buffer is in the free list twice, and
nothing was read after it went back -/
def Own.safe (s : Own) : Bool :=
  nodupB s.pool && (match s.out with | some b => !s.pool.contains b | none => true) && !s.stale

def decodePath (p : List (Nat × Nat)) : Option (List BufEv) := p.mapM BufEv.ofCode

/-- every regenerated path decodes and leaves the pool safe -/
def pathsSafe : Option (List (List (Nat × Nat))) → Bool
  | none => false
  | some ps => !ps.isEmpty && ps.all fun p => match decodePath p with | some es => (runPath es).safe | none => false

/-! ### the byte pool under every reply buffer: one holder at a time

Buffers and goroutines are numbers. `holder b` is the goroutine that was given buffer `b` by `GetBuf` and has not
released it (`none`: `b` lies in the free list or was never handed out). Callers release only what they hold
(the last-owner discipline of the call sites; for `udpWithFallback` it is `fallback_buffers_single_owner`).
`direct` (regenerated: `Gen.Facts.c01PoolGetIsFreeListGet`): `GetBuf` is the free list's own `Get`, which finds
a free buffer and takes it in one step (`get`). Otherwise `GetBuf` has a place of its own in front of the free
list that it reads with one instruction (`look`: the buffer there is free) and empties with another (`take`),
and any number of steps of other goroutines lie between the two. -/

structure BufPool where
  holder : Nat → Option Nat := fun _ => none        -- buffer -> the goroutine that holds it
  seen : Nat → Option Nat := fun _ => none          -- goroutine -> the buffer it has found free and not yet taken
  clash : List (Nat × Nat × Nat) := []              -- (buffer, its holder, the goroutine GetBuf gave it to as well)

inductive PLabel where
  | get (g b : Nat)        -- GetBuf in goroutine g returns b, found free and taken in one step
  | look (g b : Nat)       -- first half of a two-step GetBuf: g finds b free
  | take (g : Nat)         -- second half: g takes the buffer it found and returns it
  | release (g b : Nat)    -- g gives b back
  deriving DecidableEq, Repr

def BufPool.step (direct : Bool) (s : BufPool) : PLabel → Option BufPool
  | .get g b =>
    if direct && (s.holder b).isNone then some { s with holder := upd s.holder b (some g) } else none
  | .look g b =>
    if !direct && (s.holder b).isNone then some { s with seen := upd s.seen g (some b) } else none
  | .take g =>
    if direct then none else
    match s.seen g with
    | none => none
    | some b =>
      match s.holder b with
      | none => some { s with holder := upd s.holder b (some g), seen := upd s.seen g none }
      | some h => some { s with holder := upd s.holder b (some g), seen := upd s.seen g none, clash := (b, h, g) :: s.clash }
  | .release g b =>
    if s.holder b = some g then some { s with holder := upd s.holder b none } else none

def BufPool.run (direct : Bool) : BufPool → List PLabel → Option BufPool
  | s, [] => some s
  | s, l :: ls => match s.step direct l with
    | none => none
    | some s' => BufPool.run direct s' ls

end Model.C01
