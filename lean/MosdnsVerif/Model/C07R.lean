import MosdnsVerif.Model.C07

/-! More models for C07, kept apart from `Model.C07` so that the kernel-evaluated
lock exploration (`Lemmas.C07Locks`) is not rebuilt when they change.

Part C, `RConn`: the read-deadline discipline of the non-pipelined
`reusableConn` (reuse.go). After a reply was read the reader runs a short
list of actions - set the idle deadline, put the connection back into the idle
pool, hand the reply over - whose ORDER is a regenerated fact; a caller takes
the connection from the pool, installs its reply channel, arms the
waiting-reply deadline (`SetDeadline(now + reuseConnQueryTimeout)`) and writes.
Every action is one step, so the reader's pending actions interleave freely
with the next caller's.

Part D, `PT`: the `closed` flag of `PipelineTransport` against Close: where the
flag is tested relative to taking the transport mutex is a regenerated fact. -/
namespace Model.C07R
open Model.C07

/-! ## Part C -/

/-- what `reusableConn.readLoop` does after it took a reply from the socket (and the waiter's channel) -/
inductive RAct where
  | setIdleDl   -- c.c.SetReadDeadline(now + idleTimeout)   (or any other deadline call)
  | setIdle     -- c.t.setIdle(c): other callers may pick the connection from now on
  | handOver    -- respChan <- resp
  | other
  deriving DecidableEq, Repr

def RAct.ofCode : Nat → RAct
  | 1 => .setIdleDl | 2 => .setIdle | 3 => .handOver | _ => .other

structure RConn where
  rest : List RAct := []     -- reader: [] = in Read, otherwise what is left to do for the reply it holds
  dl : Dl := .none           -- read deadline in force on the socket
  pooled : Bool := true      -- available: in the idle pool (or freshly dialed for the first caller)
  waiter : Bool := false     -- c.waitingResp != nil
  cpc : Nat := 0             -- the caller that owns the connection: 0 none, 1 took it, 2 installed its channel, 3 armed, 4 wrote and waits
  owed : Bool := false       -- ghost: the reader holds a reply for a caller that still waits
  closed : Bool := false
  deriving DecidableEq, Repr

inductive RLabel where
  | callerTake | callerInstall | callerArm | callerWrite
  | callerLeave        -- the waiting caller's context ends: it returns, its channel stays installed, the connection stays out of the pool
  | readerGot          -- a reply arrives for the installed channel (of the waiting caller or of one that left)
  | readerAct          -- the reader's next action
  | readerStray        -- data arrives while no channel is installed: the connection is closed
  | readerFail         -- Read fails: error, EOF, or the deadline in force expired
  deriving DecidableEq, Repr

def RConn.act (s : RConn) (a : RAct) (t : List RAct) : RConn :=
  match a with
  | .setIdleDl => { s with rest := t, dl := .idle }
  | .setIdle => { s with rest := t, pooled := !s.closed }
  | .handOver => { s with rest := t, owed := false }
  | .other => { s with rest := t }

/-- `ord`: the reader's action list (regenerated). Environment assumption: the
server sends a reply only for a query that was written (`cpc = 4`) or whose
caller has left. -/
def RConn.step (ord : List RAct) (s : RConn) : RLabel → Option RConn
  | .callerTake => if s.pooled = true ∧ s.cpc = 0 ∧ s.closed = false then some { s with pooled := false, cpc := 1 } else none
  | .callerInstall => if s.cpc = 1 then some { s with cpc := 2, waiter := true } else none
  | .callerArm => if s.cpc = 2 then some { s with cpc := 3, dl := .short } else none
  | .callerWrite => if s.cpc = 3 then some { s with cpc := 4 } else none
  | .callerLeave => if s.cpc = 4 then some { s with cpc := 0 } else none
  | .readerGot =>
    if s.rest = [] ∧ s.waiter = true ∧ (s.cpc = 4 ∨ s.cpc = 0) ∧ s.closed = false then
      some { s with rest := ord, waiter := false, owed := decide (s.cpc = 4), cpc := 0 }
    else none
  | .readerAct =>
    match s.rest with
    | [] => none
    | a :: t => some (s.act a t)
  | .readerStray => if s.rest = [] ∧ s.waiter = false ∧ s.closed = false then some { s with closed := true, pooled := false } else none
  | .readerFail => if s.rest = [] then some { s with closed := true, pooled := false } else none

def RConn.run (ord : List RAct) : RConn → List RLabel → Option RConn
  | s, [] => some s
  | s, l :: ls => match s.step ord l with
    | none => none
    | some s' => RConn.run ord s' ls

/-- the order is safe when the connection is made available (`setIdle`) only
once and no deadline call follows it -/
def safeRest : List RAct → Bool
  | [] => true
  | .setIdle :: t => !t.contains .setIdleDl && !t.contains .setIdle
  | _ :: t => safeRest t

structure RConn.Inv (s : RConn) : Prop where
  safe : safeRest s.rest = true
  pool : s.pooled = true → RAct.setIdleDl ∉ s.rest ∧ s.waiter = false ∧ s.cpc = 0
  pend : RAct.setIdle ∈ s.rest → s.pooled = false ∧ s.cpc = 0 ∧ s.waiter = false
  act : s.cpc ≥ 1 → RAct.setIdleDl ∉ s.rest
  armed : s.cpc ≥ 3 → s.dl = .short

/-! ### schedules used by the model driver (one harness operation each, run to quiescence) -/

/-- the reader finishes whatever it has left -/
def RConn.drain (ord : List RAct) (s : RConn) : Option RConn := s.run ord (List.replicate s.rest.length .readerAct)

/-- the reader goes on until its next action is a deadline call -/
def RConn.untilDl (ord : List RAct) : Nat → RConn → RConn
  | 0, s => s
  | fuel + 1, s =>
    match s.rest with
    | [] => s
    | .setIdleDl :: _ => s
    | _ :: _ => match s.step ord .readerAct with
      | some s' => RConn.untilDl ord fuel s'
      | none => s

/-- the next caller goes as far as it can -/
def RConn.callerGo (ord : List RAct) (s : RConn) : RConn :=
  [RLabel.callerTake, .callerInstall, .callerArm, .callerWrite].foldl (fun s l => (s.step ord l).getD s) s

/-- a reply arrives; the reader's deadline call is held up (by the harness) for as
long as the code lets anybody else make progress; the caller issues its next
query as soon as it has the reply -/
def RConn.replyThenReuse (ord : List RAct) (s : RConn) : Option RConn :=
  match s.step ord .readerGot with
  | none => none
  | some s1 =>
    let s2 := RConn.untilDl ord (ord.length + 1) s1
    let s3 := if s2.owed then s2 else s2.callerGo ord     -- the caller has its reply only after the hand-over
    match s3.drain ord with
    | none => none
    | some s4 => some (s4.callerGo ord)

/-! ## Part D -/

inductive Pc where
  | start | prechecked | locked | checked | inserted | done | rejected
  deriving DecidableEq, Repr

structure PT where
  owner : Nat := 0            -- t.m: 0 free, 1 Close, i + 2 caller i
  closedFlag : Bool := false
  cpc : Nat := 0              -- Close: 0 not started, 1 has the mutex, 2 marked closed and closed every connection, 3 returned
  pcs : Nat → Pc := fun _ => .start
  openConns : Nat := 0        -- registered connections that nobody closed
  lateInserts : Nat := 0      -- ghost: connections registered after Close returned

inductive PLabel where
  | closeLock | closeMark | closeUnlock
  | callerCheck (i : Nat) | callerLock (i : Nat) | callerInsert (i : Nat) | callerUnlock (i : Nat)
  deriving DecidableEq, Repr

def setPc (f : Nat → Pc) (i : Nat) (p : Pc) : Nat → Pc := fun j => if j = i then p else f j

/-- `underLock`: getReservedExchanger tests `closed` after `t.m.Lock()` (regenerated);
otherwise it tests the flag first and takes the mutex afterwards. -/
def PT.step (underLock : Bool) (s : PT) : PLabel → Option PT
  | .closeLock => if s.cpc = 0 ∧ s.owner = 0 then some { s with cpc := 1, owner := 1 } else none
  | .closeMark => if s.cpc = 1 then some { s with cpc := 2, closedFlag := true, openConns := 0 } else none
  | .closeUnlock => if s.cpc = 2 then some { s with cpc := 3, owner := 0 } else none
  | .callerLock i =>
    if s.owner = 0 then
      if underLock then (if s.pcs i = .start then some { s with owner := i + 2, pcs := setPc s.pcs i .locked } else none)
      else (if s.pcs i = .prechecked then some { s with owner := i + 2, pcs := setPc s.pcs i .checked } else none)
    else none
  | .callerCheck i =>
    if underLock then
      (if s.pcs i = .locked then
        (if s.closedFlag then some { s with owner := 0, pcs := setPc s.pcs i .rejected } else some { s with pcs := setPc s.pcs i .checked })
      else none)
    else
      (if s.pcs i = .start then
        (if s.closedFlag then some { s with pcs := setPc s.pcs i .rejected } else some { s with pcs := setPc s.pcs i .prechecked })
      else none)
  | .callerInsert i =>
    if s.pcs i = .checked then
      some { s with pcs := setPc s.pcs i .inserted, openConns := s.openConns + 1, lateInserts := s.lateInserts + (if s.cpc = 3 then 1 else 0) }
    else none
  | .callerUnlock i => if s.pcs i = .inserted then some { s with owner := 0, pcs := setPc s.pcs i .done } else none

def PT.run (underLock : Bool) : PT → List PLabel → Option PT
  | s, [] => some s
  | s, l :: ls => match s.step underLock l with
    | none => none
    | some s' => PT.run underLock s' ls

structure PT.Inv (s : PT) : Prop where
  flag : s.closedFlag = true ↔ s.cpc ≥ 2
  closeOwns : (s.cpc = 1 ∨ s.cpc = 2) → s.owner = 1
  holder : ∀ i, (s.pcs i = .locked ∨ s.pcs i = .checked ∨ s.pcs i = .inserted) → s.owner = i + 2
  passed : ∀ i, (s.pcs i = .checked ∨ s.pcs i = .inserted) → s.closedFlag = false
  noOpen : s.closedFlag = true → s.openConns = 0
  noLate : s.lateInserts = 0

/-! ## Part E: reading one length-prefixed frame

The reader arms a deadline and calls the frame reader, which blocks twice: for
the 2-byte length header and for the body. Which deadline calls the frame
reader itself makes in between is a regenerated fact (`mid`). -/

inductive FAct where
  | clearDl   -- SetReadDeadline(time.Time{}) / SetDeadline(time.Time{})
  | setDl     -- any deadline call with a time
  | other
  deriving DecidableEq, Repr

def FAct.ofCode : Nat → FAct
  | 0 => .clearDl | 1 => .setDl | _ => .other

structure FRead where
  dl : Dl                    -- read deadline in force on the socket
  phase : Nat := 0           -- 0 blocked for the header, 1 between header and body, 2 blocked for the body, 3 frame complete, 4 failed
  rest : List FAct := []     -- phase 1: what is left to do before the body is read
  deriving DecidableEq, Repr

inductive FLabel where
  | header   -- the length header arrives
  | act      -- the frame reader's next action between header and body (or, when none is left, it starts to read the body)
  | body     -- the rest of the frame arrives
  | expire   -- the deadline in force expires while the reader is blocked: Read fails, the connection is closed
  deriving DecidableEq, Repr

def FRead.step (mid : List FAct) (s : FRead) : FLabel → Option FRead
  | .header => if s.phase = 0 then some { s with phase := 1, rest := mid } else none
  | .act =>
    if s.phase = 1 then
      match s.rest with
      | [] => some { s with phase := 2 }
      | .clearDl :: t => some { s with rest := t, dl := .none }
      | .setDl :: t => some { s with rest := t, dl := .short }
      | .other :: t => some { s with rest := t }
    else none
  | .body => if s.phase = 2 then some { s with phase := 3 } else none
  | .expire => if (s.phase = 0 ∨ s.phase = 2) ∧ s.dl ≠ .none then some { s with phase := 4 } else none

def FRead.run (mid : List FAct) : FRead → List FLabel → Option FRead
  | s, [] => some s
  | s, l :: ls => match s.step mid l with
    | none => none
    | some s' => FRead.run mid s' ls

end Model.C07R
