import MosdnsVerif.Base.Go

/-! Model of `pkg/matcher/domain` (C12). Names and rules are byte strings;
labels are byte strings without dots. The trie mirrors `labelNode`: a value
flag per node and a child table keyed by label (association list, newest
binding first). `add`/`walk` are structurally recursive on the label path,
like the Go loops over `ReverseDomainScanner`. -/
namespace Model.C12

abbrev Label := Bytes
abbrev dot : UInt8 := 46

def lower (b : UInt8) : UInt8 := if 65 ≤ b ∧ b ≤ 90 then b + 32 else b

/-- `TrimDot`: remove one trailing dot. -/
def trimDot (s : Bytes) : Bytes := if s.getLast? = some dot then s.dropLast else s

/-- `NormalizeDomain` (ASCII names). -/
def norm (s : Bytes) : Bytes := (trimDot s).map lower

/-- split at every dot (`"a.b" ↦ ["a","b"]`, `"" ↦ [""]`). -/
def splitDots : Bytes → List Label
  | [] => [[]]
  | c :: cs =>
    if c = dot then [] :: splitDots cs
    else match splitDots cs with
      | [] => [[c]]
      | l :: ls => (c :: l) :: ls

/-- The label sequence `ReverseDomainScanner` yields for `s` (right to left).
The empty string yields nothing; an empty label in front of a leading dot is
not yielded (the scanner stops at offset 0). -/
def scan (s : Bytes) : List Label :=
  let t := trimDot s
  if t.isEmpty then [] else
  let ls := (splitDots t).reverse
  if t.head? = some dot then ls.dropLast else ls

inductive Trie (V : Type) where
  | node (val : Option V) (kids : List (Label × Trie V))

namespace Trie
variable {V : Type}

def empty : Trie V := .node none []
def val : Trie V → Option V | .node v _ => v
def kids : Trie V → List (Label × Trie V) | .node _ k => k

/-- `getChild` -/
def child (t : Trie V) (l : Label) : Option (Trie V) := (t.kids.find? (fun p => p.1 == l)).map (·.2)

/-- replace or add the binding of `l` -/
def setChild (t : Trie V) (l : Label) (c : Trie V) : Trie V :=
  .node t.val ((l, c) :: t.kids.filter (fun p => !(p.1 == l)))

/-- `SubDomainMatcher.Add` along a reversed label path. -/
def add (t : Trie V) : List Label → V → Trie V
  | [], v => .node (some v) t.kids
  | l :: ls, v => t.setChild l (add ((t.child l).getD empty) ls v)

/-- The loop of `SubDomainMatcher.Match`: `acc` is `(v, ok)`; a child that has
a value replaces it, a child without value only moves the cursor, a missing
child ends the walk. -/
def walk (t : Trie V) : List Label → Option V → Option V
  | [], acc => acc
  | l :: ls, acc =>
    match t.child l with
    | none => acc
    | some c => walk c ls (match c.val with | some v => some v | none => acc)

def matchPath (t : Trie V) (path : List Label) : Option V := walk t path t.val

/-- value stored exactly at `path` (none if the node does not exist or has no value) -/
def valueAt (t : Trie V) : List Label → Option V
  | [] => t.val
  | l :: ls => match t.child l with
    | none => none
    | some c => valueAt c ls

end Trie

inductive Kind where | full | domain | regexp | keyword
  deriving DecidableEq, Repr

/-- `strings.Contains` -/
def isInfix (k s : Bytes) : Bool := (List.range (s.length + 1)).any (fun i => (s.drop i).take k.length == k)

/-- The four sub-matchers of `MixMatcher` as rule lists (oldest first) with
values; `re` decides whether a regular expression (given by its source text)
matches a normalised name (the Go regexp engine, a parameter). -/
structure Mix (V : Type) where
  full : List (Bytes × V) := []      -- normalised pattern
  domain : Trie V := Trie.empty
  regexp : List (Bytes × V) := []    -- expression text as written
  keyword : List (Bytes × V) := []   -- normalised keyword

def upsert {V} (l : List (Bytes × V)) (k : Bytes) (v : V) : List (Bytes × V) :=
  if l.any (fun p => p.1 == k) then l.map (fun p => if p.1 == k then (k, v) else p) else l ++ [(k, v)]

def Mix.add {V} (m : Mix V) (k : Kind) (pattern : Bytes) (v : V) : Mix V :=
  match k with
  | .full => { m with full := upsert m.full (norm pattern) v }
  | .domain => { m with domain := m.domain.add (scan (norm pattern)) v }
  | .regexp => { m with regexp := upsert m.regexp pattern v }
  | .keyword => { m with keyword := upsert m.keyword (norm pattern) v }

/-- All values `MixMatcher.Match` may return (map iteration order is random
for regexp and keyword rules): full, else longest domain, else any matching
regexp, else any matching keyword. `[]` = no match. -/
def Mix.candidates {V} (m : Mix V) (re : Bytes → Bytes → Bool) (name : Bytes) : List V :=
  let n := norm name
  match (m.full.find? (fun p => p.1 == n)) with
  | some p => [p.2]
  | none =>
    match m.domain.matchPath (scan n) with
    | some v => [v]
    | none =>
      match (m.regexp.filter (fun p => re p.1 n)).map (·.2) with
      | v :: vs => v :: vs
      | [] => (m.keyword.filter (fun p => isInfix p.1 n)).map (·.2)

/-- `splitTypeAndPattern` + default type. `none` = error. -/
def splitRule (dflt : Option Kind) (s : Bytes) : Option (Kind × Bytes) :=
  match s.idxOf? (58 : UInt8) with
  | none => dflt.map (·, s)
  | some i =>
    let typ := s.take i
    let pat := s.drop (i + 1)
    if typ = [102, 117, 108, 108] then some (.full, pat)
    else if typ = [100, 111, 109, 97, 105, 110] then some (.domain, pat)
    else if typ = [114, 101, 103, 101, 120, 112] then some (.regexp, pat)
    else if typ = [107, 101, 121, 119, 111, 114, 100] then some (.keyword, pat)
    else if typ = [] then dflt.map (·, pat)
    else none

/-! ### Tables of rules that carry values (`hosts`)

A line of a hosts table is `<rule> <address>...`; `hosts.ParseIPs` takes the first blank-separated
field as the rule text and `Load` hands it to `MixMatcher.Add`. `rw` is what the parser does to that
field on the way: the identity on this tree (regenerated fact `c12HostsRuleAsWritten`). -/

/-- the rules a table's first fields stand for (`none`: a line is rejected) -/
def hostsRules (rw : Bytes → Bytes) (dflt : Option Kind) : List Bytes → Option (List (Kind × Bytes))
  | [] => some []
  | f :: fs =>
    match splitRule dflt (rw f), hostsRules rw dflt fs with
    | some r, some rs => some (r :: rs)
    | _, _ => none

/-! ### `data_provider/domain_set`: sets assembled from own rules and other sets

`NewDomainSet` loads the set's expressions and files into one `MixMatcher`
(default type `domain`), keeps it as a member of the set's group if
`m.Len() > 0`, and then appends, for every tag under `sets:`, the matcher of
that plugin (which must exist already: plugins are built in configuration
order). `MatcherGroup.Match` asks the members in turn. -/

mutual
/-- `labelNode.len`: the valued nodes below the node (its own value is not counted). -/
def Trie.len {V : Type} : Trie V → Nat
  | .node _ kids => Trie.lenKids kids
def Trie.lenKids {V : Type} : List (Label × Trie V) → Nat
  | [] => 0
  | p :: ks => Trie.len p.2 + (if (Trie.val p.2).isSome then 1 else 0) + Trie.lenKids ks
end

/-- `SubDomainMatcher.Len`: `labelNode.len` of the root, plus one for a value at the root itself (the
rule for the root domain). `rootCounted = false` is the `Len` of the tree before the fix of finding
F14, which returned `m.root.len()` alone. -/
def Trie.subLen {V : Type} (rootCounted : Bool) (t : Trie V) : Nat :=
  t.len + (if rootCounted && t.val.isSome then 1 else 0)

/-- `MixMatcher.Len` (the maps hold one entry per distinct rule, like `upsert`). -/
def Mix.lenWith {V} (rootCounted : Bool) (m : Mix V) : Nat :=
  m.full.length + m.domain.subLen rootCounted + m.regexp.length + m.keyword.length

def Mix.len {V} (m : Mix V) : Nat := m.lenWith true

/-- does `MixMatcher.Match` report a match -/
def Mix.hit {V} (m : Mix V) (re : Bytes → Bytes → Bool) (name : Bytes) : Bool := !(m.candidates re name).isEmpty

/-- rules (kind, pattern) loaded oldest first -/
def mixOfRules (rs : List (Kind × Bytes)) : Mix Unit := rs.foldl (fun m r => m.add r.1 r.2 ()) {}

/-- A `domain_set` plugin as the constructor sees it: does the `MixMatcher`
holding its own rules match a name, is that matcher kept (`Len() > 0`), and
which earlier plugins `sets:` names (positions in configuration order). -/
structure SetDef where
  own : Bytes → Bool
  kept : Bool
  refs : List Nat

abbrev SetMatcher := Bytes → Bool

/-- `MatcherGroup.Match` -/
def groupMatch (members : List SetMatcher) (name : Bytes) : Bool := members.any (fun f => f name)

/-- the loop over `args.Sets`: the matcher of every named plugin, `none` if one does not exist (yet) -/
def lookupAll (built : List SetMatcher) : List Nat → Option (List SetMatcher)
  | [] => some []
  | j :: js => match built[j]?, lookupAll built js with
    | some m, some ms => some (m :: ms)
    | _, _ => none

/-- `NewDomainSet` given the plugins built so far; `none` = "is not a DomainMatcherProvider". -/
def newSet (built : List SetMatcher) (d : SetDef) : Option SetMatcher :=
  match lookupAll built d.refs with
  | none => none
  | some rs => some (groupMatch ((if d.kept then [d.own] else []) ++ rs))

/-- the plugins of a configuration, built in order -/
def buildSets (built : List SetMatcher) : List SetDef → Option (List SetMatcher)
  | [] => some built
  | d :: ds => match newSet built d with
    | none => none
    | some m => buildSets (built ++ [m]) ds

/-- the `SetDef` of a set given by its own rules (type, pattern) and its `sets:` -/
def defOfRules (re : Bytes → Bytes → Bool) (c : List (Kind × Bytes) × List Nat) : SetDef :=
  { own := (mixOfRules c.1).hit re, kept := decide ((mixOfRules c.1).len > 0), refs := c.2 }

/-- ... given by its rule texts (expressions and file lines; default type `domain`); `none` = a rule is rejected -/
def setOfRules (re : Bytes → Bytes → Bool) (rules : List Bytes) (refs : List Nat) : Option SetDef :=
  (rules.mapM (splitRule (some .domain))).map fun rs => defOfRules re (rs, refs)

end Model.C12
