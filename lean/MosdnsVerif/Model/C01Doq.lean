import MosdnsVerif.Model.C16
import MosdnsVerif.Gen.FnFraming

/-! DoQ (C01): one stream per query. The reply is read from the query's own stream by
`dnsutils.ReadRawMsgFromTCP` (that `quicReservedExchanger.ExchangeReserved` calls exactly this reader is the
regenerated fact `c01DoqIdZeroedAndRestored`; the reader itself is regenerated as `Gen.readRawMsgFromTCP`),
then the caller's id is written over the first two bytes. A stream is a list of chunks: a `Read` returns (a
prefix of) the first chunk, so a reply may arrive in any number of pieces. -/
namespace Model.C01
open Go

/-- what `ExchangeReserved` hands to its caller -/
def doqReturn (idHi idLo : UInt8) (stream : Stream) : Except ReadErr Bytes :=
  match Gen.readRawMsgFromTCP stream with
  | .error e => .error e
  | .ok (b, _) => .ok (idHi :: idLo :: b.drop 2)

/-- a reader that is NOT the one in the code: after the header it issues a single `Read` into a pooled buffer
of the announced length and returns that buffer; what the one `Read` did not fill keeps the bytes the buffer
held before (`stale`: an earlier reply of the same size class) -/
def readOnce (stale : Bytes) (c : Stream) : Except ReadErr Bytes :=
  match readFull c 2 with
  | .error e => .error e
  | .ok (h, c) =>
    let n := Model.C16.announced h
    match c with
    | [] => .error .eof
    | chunk :: _ => .ok (chunk.take n ++ (stale.take n).drop (min chunk.length n))

end Model.C01
