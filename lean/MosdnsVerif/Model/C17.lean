import MosdnsVerif.Base.Go

/-! Model of the plain-UDP upstream with TCP fallback (C17). -/
namespace Model.C17

/-- The TC flag of a DNS header: byte 2 is `QR Opcode(4) AA TC RD`, so TC is
the bit of weight 2 (RFC 1035 section 4.1.1). Written arithmetically, without
reference to how the code tests it. -/
def tcBit (b : Bytes) : Bool := (b.getD 2 0).toNat / 2 % 2 == 1

/-- Outcome of one exchange and whether the TCP transport was used. -/
def exchange (udp tcp : Bytes → Except Nat Bytes) (q : Bytes) : Except Nat Bytes × Bool :=
  match udp q with
  | .error e => (.error e, false)
  | .ok r => if tcBit r then (tcp q, true) else (.ok r, false)

end Model.C17
