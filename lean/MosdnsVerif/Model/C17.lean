import MosdnsVerif.Base.Go

/-! Model of the plain-UDP upstream with TCP fallback (C17). -/
namespace Model.C17

/-- The TC flag of a DNS header: byte 2 is `QR Opcode(4) AA TC RD`, so TC is
the bit of weight 2 (RFC 1035 section 4.1.1). Written arithmetically, without
reference to how the code tests it. -/
def tcBit (b : Bytes) : Bool := (b.getD 2 0).toNat / 2 % 2 == 1

/-- Outcome of one exchange and whether the TCP transport was used. -/
def exchange (udp tcp : Bytes → Except Nat Bytes) (q : Bytes) : Except Nat Bytes × Bool :=
  match udp q with
  | .error e => (.error e, false)
  | .ok r => if tcBit r then (tcp q, true) else (.ok r, false)

/-! ## Where the two halves connect ("to the same server")

`NewUpstream`'s `udp` case builds one dial function for the UDP pipeline and one
for the TCP retry. How each of them reaches the network is read from the source
(T2 facts `c17UdpDialVia` / `c17TcpDialVia`). -/

/-- How a dial function of the udp upstream connects. -/
inductive DialVia where
  /-- `dialer.DialContext(ctx, network, dialAddr)` -/
  | direct
  /-- through `newTcpDialer`: the SOCKS5 proxy when `Opt.Socks5` is set, else the address itself -/
  | tcpHelper
  | unknown
  deriving DecidableEq, Repr

def DialVia.ofFact : Option Nat → DialVia
  | some 0 => .direct
  | some 1 => .tcpHelper
  | _ => .unknown

/-- What the user configured, as far as routing goes. Endpoints are abstract
(`Nat`): `server` is the host:port `parseDialAddr` computes from the URL / `dial_addr`
(that computation is C18's subject), `socks5` is `Opt.Socks5` when non-empty. -/
structure DialCfg where
  server : Nat
  socks5 : Option Nat
  deriving Repr

/-- The endpoint a dial function opens its connection to. -/
def endpoint : DialVia → DialCfg → Option Nat
  | .direct, c => some c.server
  | .tcpHelper, c => some (c.socks5.getD c.server)
  | .unknown, _ => none

/-- One exchange of the upstream on a network in which every endpoint has its own
UDP and TCP behaviour: each half talks to the endpoint its dial function connects to.
Returns the outcome, whether TCP was used, and the endpoint the TCP side connected to. -/
def exchangeRouted (exch : (Bytes → Except Nat Bytes) → (Bytes → Except Nat Bytes) → Bytes → Except Nat Bytes × Bool)
    (udpVia tcpVia : DialVia) (c : DialCfg)
    (udpNet tcpNet : Nat → Bytes → Except Nat Bytes) (q : Bytes) : Option (Except Nat Bytes × Bool × Option Nat) :=
  match endpoint udpVia c, endpoint tcpVia c with
  | some eu, some et =>
    let (res, used) := exch (udpNet eu) (tcpNet et) q
    some (res, used, if used then some et else none)
  | _, _ => none

/-! ## The caller's buffer through failed sends ("the same query")

The UDP side and the TCP retry are handed the same slice. Here the buffer is
state: a send attempt on a socket puts the connection-local id on the wire, and a
failed send is followed by the next attempt (the pipeline transport's retry on
another socket). Whether the UDP side only reads the caller's slice (the id goes
into a copy) is a parameter, read from the source (T2 fact
`c17UdpSideReadsQueryOnly`); the alternative modelled for `readsOnly = false` is
the in-place patch that is not undone when the write fails. -/

/-- `b` with its first two bytes (the DNS id) replaced. -/
def setId (hi lo : UInt8) (b : Bytes) : Bytes := hi :: lo :: b.drop 2

def idOf (b : Bytes) : UInt8 × UInt8 := (b.getD 0 0, b.getD 1 0)

/-- One send attempt: the id the connection assigns and whether the socket write succeeds. -/
structure Attempt where
  hi : UInt8
  lo : UInt8
  writeOk : Bool
  deriving Repr

/-- The UDP side over a list of attempts against a server (wire query to reply): the
outcome for the caller (the reply under the id read from the buffer) and the buffer afterwards. -/
def udpSide (readsOnly : Bool) (srv : Bytes → Except Nat Bytes) : List Attempt → Bytes → Except Nat Bytes × Bytes
  | [], b => (.error 0, b)
  | a :: rest, b =>
    if a.writeOk then
      match srv (setId a.hi a.lo b) with
      | .ok r => (.ok (setId (idOf b).1 (idOf b).2 r), b)
      | .error e => (.error e, b)
    else udpSide readsOnly srv rest (if readsOnly then b else setId a.hi a.lo b)

/-- The exchange with the buffer threaded through: outcome, the frame the TCP side
was given (if any) and the caller's buffer after the call. -/
def exchangeBuf (readsOnly : Bool) (srv tcp : Bytes → Except Nat Bytes) (atts : List Attempt) (q : Bytes) :
    Except Nat Bytes × Option Bytes × Bytes :=
  match udpSide readsOnly srv atts q with
  | (.error e, b) => (.error e, none, b)
  | (.ok r, b) => if tcBit r then (tcp b, some b, b) else (.ok r, none, b)

/-! ## The TCP half: connections that do not match replies to queries

`udpWithFallback.t` is a `ReuseConnTransport`: it does not look at ids, a reply read
from a connection goes to whoever waits on that connection. "The TCP reply is what
the caller gets" therefore rests on: a connection is handed to a caller only when
no reply is owed on it. Below one connection's life: `owed` are the queries written
on it whose reply has not been read yet (oldest first; the server answers in order
and a reply is identified with the query it answers), `waiter` is the query of the
caller waiting on it, `idle` says whether the pool may hand it out. What happens to
the connection when a waiting caller gives up (context ended) is a parameter, read
from the source (T2 fact `c17TcpConnIdleOnlyWhenNothingOwed`). -/

structure TConn where
  owed : List Bytes
  waiter : Option Bytes
  idle : Bool
  deriving Repr

/-- A freshly dialled connection. -/
def TConn.fresh : TConn := ⟨[], none, true⟩

inductive CEv where
  /-- the pool hands the connection to a caller with query `q` (only idle connections are handed out) -/
  | take (q : Bytes)
  /-- the caller waiting on the connection stops waiting (its context ended) -/
  | giveUp
  /-- the reply to the oldest owed query is read from the connection -/
  | reply
  deriving Repr

/-- One event on a connection: the connection afterwards and, when a reply is handed
to a caller, the pair (query of that caller, query the reply answers). -/
def cstep (idleOnGiveUp : Bool) (c : TConn) : CEv → TConn × Option (Bytes × Bytes)
  | .take q => if c.idle then (⟨c.owed ++ [q], some q, false⟩, none) else (c, none)
  | .giveUp =>
    match c.waiter with
    | some _ => (⟨c.owed, none, idleOnGiveUp⟩, none)
    | none => (c, none)
  | .reply =>
    match c.owed with
    | [] => (c, none)
    | o :: rest =>
      match c.waiter with
      | some w => (⟨rest, none, true⟩, some (w, o))
      | none =>
        -- nobody waits: an idle connection is closed (unexpected reply), a busy one
        -- (its caller gave up) becomes idle
        if c.idle then (⟨[], none, false⟩, none) else (⟨rest, none, true⟩, none)

/-- The replies handed to callers over a sequence of events. -/
def crun (idleOnGiveUp : Bool) : TConn → List CEv → List (Bytes × Bytes)
  | _, [] => []
  | c, e :: es => (cstep idleOnGiveUp c e).2.toList ++ crun idleOnGiveUp (cstep idleOnGiveUp c e).1 es

/-- Nothing is owed on an idle connection, and a waiter is owed exactly its own reply. -/
def TConn.ok (c : TConn) : Prop :=
  (c.idle = true → c.owed = [] ∧ c.waiter = none) ∧ (∀ w, c.waiter = some w → c.owed = [w]) ∧ c.owed.length ≤ 1

end Model.C17
