def hello := "world"
