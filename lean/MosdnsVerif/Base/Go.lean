/-
Go-semantics helpers used by the generated (T1) definitions.

`Bytes` models both `[]byte` and `string`. Go `int` is modelled as an
unbounded `Int` (overflow of a 64-bit int is outside every modelled range:
all lengths are < 2^32). Out-of-range indexing, which panics in Go, is
totalised (`Go.idx` returns 0, `Go.set` is the identity); every theorem that
depends on an index being in range states that as a hypothesis.
-/

abbrev Bytes := List UInt8

namespace Go

def make (n : Int) : Bytes := List.replicate n.toNat 0

def idx (b : Bytes) (i : Int) : UInt8 := b.getD i.toNat 0

def set (b : Bytes) (i : Int) (v : UInt8) : Bytes := List.set b i.toNat v

/-- `b[lo:hi]` -/
def slice (b : Bytes) (lo hi : Int) : Bytes := (b.drop lo.toNat).take (hi.toNat - lo.toNat)

/-- `copy(dst[off:], src)`: overwrites `min (len src) (len dst - off)` bytes. -/
def copyAt (dst : Bytes) (off : Int) (src : Bytes) : Bytes :=
  let o := off.toNat
  let n := min src.length (dst.length - o)
  dst.take o ++ src.take n ++ dst.drop (o + n)

def int8 (i : Int) : UInt8 := UInt8.ofNat (i % 256).toNat
def int16 (i : Int) : UInt16 := UInt16.ofNat (i % 65536).toNat
def int32 (i : Int) : UInt32 := UInt32.ofNat (i % 4294967296).toNat

/-- `binary.BigEndian.PutUint16(dst[off:], v)` -/
def putU16 (dst : Bytes) (off : Int) (v : UInt16) : Bytes :=
  set (set dst off (v >>> 8).toUInt8) (off + 1) v.toUInt8

/-- `strings.LastIndexByte` / `bytes.LastIndexByte`: index of the last occurrence of `c`, -1 if none -/
def lastIndexByte : Bytes → UInt8 → Int
  | [], _ => -1
  | x :: xs, c =>
    let r := lastIndexByte xs c
    if r ≥ 0 then r + 1 else if x == c then 0 else -1

/-- `binary.BigEndian.Uint16(b)` -/
def getU16 (b : Bytes) : UInt16 := ((idx b 0).toUInt16 <<< 8) ||| (idx b 1).toUInt16

/-- A byte stream as the reader sees it: a list of chunks; each `Read` call
returns (a prefix of) the first chunk. Any chunking of the same bytes is a
possible stream. The end of the list is EOF. -/
abbrev Stream := List Bytes

inductive ReadErr where
  | eof            -- io.EOF: nothing could be read
  | unexpectedEOF  -- io.ErrUnexpectedEOF: stream ended inside the item
  | tooSmall       -- ErrPayloadTooSmall
  deriving DecidableEq, Repr

/-- `io.ReadFull(c, buf)` with `len(buf) = n`: reads exactly `n` more bytes
across chunk boundaries (`acc` is what was read so far). `io.EOF` if nothing
at all could be read, `io.ErrUnexpectedEOF` if the stream ends inside. -/
def readFullAux (c : Stream) (n : Nat) (acc : Bytes) : Except ReadErr (Bytes × Stream) :=
  match c, n with
  | c, 0 => .ok (acc, c)
  | [], _ + 1 => if acc.isEmpty then .error .eof else .error .unexpectedEOF
  | chunk :: rest, n + 1 =>
    if chunk.length ≤ n + 1 then
      readFullAux rest (n + 1 - chunk.length) (acc ++ chunk)
    else
      .ok (acc ++ chunk.take (n + 1), chunk.drop (n + 1) :: rest)

def readFull (c : Stream) (n : Nat) : Except ReadErr (Bytes × Stream) :=
  readFullAux c n []

/-- A Go `for cond { body }` loop over the loop-carried state `σ`, with an iteration bound: after `fuel`
iterations the state is returned as it is (theorems about generated loops say how much fuel suffices). -/
def loop {σ : Type} (fuel : Nat) (cond : σ → Bool) (body : σ → σ) (s : σ) : σ :=
  match fuel with
  | 0 => s
  | n + 1 => if cond s then loop n cond body (body s) else s

/-- `a.Compare(b)` of two totally ordered values given as naturals (`netip.Addr.Compare` on 128-bit
addresses of the same family): -1, 0, +1. -/
def cmpNat (a b : Nat) : Int := if a < b then -1 else if a = b then 0 else 1

/-- A stored `netip.Prefix` over 128-bit addresses: (base address, prefix length). -/
abbrev Pfx := Nat × Nat

/-- `p.Contains(a)` for a 128-bit address: the leading `bits` bits agree. -/
def pfxContains (p : Pfx) (a : Nat) : Bool := a / 2 ^ (128 - p.2) == p.1 / 2 ^ (128 - p.2)

/-- `e[i]` of a slice of prefixes (out of range, which panics in Go, is totalised to `(0, 0)`). -/
def pfxAt (e : List Pfx) (i : Int) : Pfx := e.getD i.toNat (0, 0)

end Go
