import MosdnsVerif.Base.Go

namespace Base

/-- The fields of a query message that `getMsgKey` reads. `opcode` and
`nQuestion` are Go ints; `dnssecOk` is `q.IsEdns0() != nil && opt.Do()`. -/
structure Query where
  response : Bool
  opcode : Int
  nQuestion : Int
  ad : Bool
  cd : Bool
  dnssecOk : Bool
  qtype : UInt16
  qclass : UInt16
  name : Bytes
  deriving DecidableEq, Repr

end Base
