import MosdnsVerif.Base.Go

/-! Line-protocol helpers for the model driver: hex <-> bytes, field parsing. -/
namespace Hex

def digit (n : Nat) : Char :=
  if n < 10 then Char.ofNat (48 + n) else Char.ofNat (87 + n)

def encode (b : Bytes) : String :=
  if b.isEmpty then "-" else
  String.ofList (b.foldr (fun x acc => digit (x.toNat / 16) :: digit (x.toNat % 16) :: acc) [])

def val (c : Char) : Option Nat :=
  if '0' ≤ c ∧ c ≤ '9' then some (c.toNat - 48)
  else if 'a' ≤ c ∧ c ≤ 'f' then some (c.toNat - 87)
  else if 'A' ≤ c ∧ c ≤ 'F' then some (c.toNat - 55)
  else none

def decodeAux : List Char → Option Bytes
  | [] => some []
  | [_] => none
  | a :: b :: rest => do
    let x ← val a
    let y ← val b
    let r ← decodeAux rest
    pure (UInt8.ofNat (x * 16 + y) :: r)

/-- "-" is the empty byte string. -/
def decode (s : String) : Option Bytes :=
  if s == "-" then some [] else decodeAux s.toList

/-- hexadecimal natural number -/
def nat? (s : String) : Option Nat :=
  if s.isEmpty then none else
  s.toList.foldl (fun acc c => do let a ← acc; let v ← val c; pure (a * 16 + v)) (some 0)

def bool? (s : String) : Option Bool :=
  if s == "1" then some true else if s == "0" then some false else none

def showBool (b : Bool) : String := if b then "1" else "0"

end Hex
