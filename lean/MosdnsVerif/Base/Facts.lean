namespace Base

/-- A comparison operator as written in the source. -/
inductive Cmp where
  | lt | le | gt | ge | eq | ne | unknown
  deriving DecidableEq, Repr

def Cmp.eval (c : Cmp) (a b : Int) : Bool :=
  match c with
  | .lt => a < b | .le => a ≤ b | .gt => a > b | .ge => a ≥ b
  | .eq => a == b | .ne => a != b | .unknown => false

/-- Lock mode taken by a method. -/
inductive LockMode where
  | none | shared | exclusive | unknown
  deriving DecidableEq, Repr

end Base
