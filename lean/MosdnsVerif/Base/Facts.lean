namespace Base

/-- A comparison operator as written in the source. -/
inductive Cmp where
  | lt | le | gt | ge | eq | ne | unknown
  deriving DecidableEq, Repr

def Cmp.eval (c : Cmp) (a b : Nat) : Bool :=
  match c with
  | .lt => Nat.blt a b | .le => Nat.ble a b | .gt => Nat.blt b a | .ge => Nat.ble b a
  | .eq => a == b | .ne => a != b | .unknown => false

theorem Cmp.eval_le (a b : Nat) : Cmp.eval .le a b = true ↔ a ≤ b := by simp [Cmp.eval]
theorem Cmp.eval_lt (a b : Nat) : Cmp.eval .lt a b = true ↔ a < b := by simp [Cmp.eval, Nat.blt]; omega
theorem Cmp.eval_ge (a b : Nat) : Cmp.eval .ge a b = true ↔ a ≥ b := by simp [Cmp.eval]
theorem Cmp.eval_gt (a b : Nat) : Cmp.eval .gt a b = true ↔ a > b := by simp [Cmp.eval, Nat.blt]; omega

/-- Lock mode taken by a method. -/
inductive LockMode where
  | none | shared | exclusive | unknown
  deriving DecidableEq, Repr

end Base
