import MosdnsVerif.Driver.Loop
import MosdnsVerif.Driver.C04
def main : IO Unit := Driver.run Driver.C04.handle
