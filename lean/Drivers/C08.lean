import MosdnsVerif.Driver.Loop
import MosdnsVerif.Driver.C08
def main : IO Unit := Driver.run Driver.C08.handle
