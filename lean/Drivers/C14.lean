import MosdnsVerif.Driver.Loop
import MosdnsVerif.Driver.C14
def main : IO Unit := Driver.run Driver.C14.handle
