import MosdnsVerif.Driver.Loop
import MosdnsVerif.Driver.C15
def main : IO Unit := Driver.run Driver.C15.handle
