import MosdnsVerif.Driver.Loop
import MosdnsVerif.Driver.C01
def main : IO Unit := Driver.run Driver.C01.handle
