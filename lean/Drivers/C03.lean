import MosdnsVerif.Driver.Loop
import MosdnsVerif.Driver.Handler
def main : IO Unit := Driver.run Driver.Handler.handle
