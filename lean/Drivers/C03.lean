import MosdnsVerif.Driver.Loop
import MosdnsVerif.Driver.C03
def main : IO Unit := Driver.run Driver.C03.handle
