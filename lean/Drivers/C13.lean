import MosdnsVerif.Driver.Loop
import MosdnsVerif.Driver.C13
def main : IO Unit := Driver.run Driver.C13.handle
