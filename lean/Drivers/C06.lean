import MosdnsVerif.Driver.Loop
import MosdnsVerif.Driver.C06
def main : IO Unit := Driver.run Driver.C06.handle
