import MosdnsVerif.Driver.Loop
import MosdnsVerif.Driver.C07
def main : IO Unit := Driver.run Driver.C07.handle
