import MosdnsVerif.Driver.Loop
import MosdnsVerif.Driver.C16
def main : IO Unit := Driver.run Driver.C16.handle
