import MosdnsVerif.Driver.Loop
import MosdnsVerif.Driver.C17
def main : IO Unit := Driver.run Driver.C17.handle
