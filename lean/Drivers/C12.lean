import MosdnsVerif.Driver.Loop
import MosdnsVerif.Driver.C12
def main : IO Unit := Driver.run Driver.C12.handle
