import MosdnsVerif.Driver.Loop
import MosdnsVerif.Driver.C18
def main : IO Unit := Driver.run Driver.C18.handle
