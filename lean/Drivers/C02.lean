import MosdnsVerif.Driver.Loop
import MosdnsVerif.Driver.C02
def main : IO Unit := Driver.run Driver.C02.handle
