import MosdnsVerif.Driver.Loop
import MosdnsVerif.Driver.C10
def main : IO Unit := Driver.run Driver.C10.handle
