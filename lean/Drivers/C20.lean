import MosdnsVerif.Driver.Loop
import MosdnsVerif.Driver.C20
def main : IO Unit := Driver.run Driver.C20.handle
