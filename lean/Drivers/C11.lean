import MosdnsVerif.Driver.Loop
import MosdnsVerif.Driver.C11
def main : IO Unit := Driver.run Driver.C11.handle
