import MosdnsVerif.Driver.Loop
import MosdnsVerif.Driver.C19
def main : IO Unit := Driver.run Driver.C19.handle
