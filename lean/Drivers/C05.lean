import MosdnsVerif.Driver.Loop
import MosdnsVerif.Driver.C05
def main : IO Unit := Driver.run Driver.C05.handle
