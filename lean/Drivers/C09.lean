import MosdnsVerif.Driver.Loop
import MosdnsVerif.Driver.C09
def main : IO Unit := Driver.run Driver.C09.handle
