import MosdnsVerif.Base.Go
import MosdnsVerif.Base.Types
import MosdnsVerif.Base.Facts
