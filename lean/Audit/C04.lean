import Audit.Tool
import MosdnsVerif.Props.C04
#audit Props.C04
#audit Refine.C04
