import Lean
open Lean Elab Command

/-- `#audit Ns` lists every theorem whose name starts with `Ns` together with
the axioms it depends on, one `AUDIT` line each. -/
elab "#audit " ns:ident : command => do
  let env ← getEnv
  let pre := ns.getId
  let names := env.constants.fold (fun acc n ci =>
    match ci with
    | .thmInfo _ => if pre.isPrefixOf n && !n.isInternalDetail then n :: acc else acc
    | _ => acc) []
  let names := names.toArray.qsort (fun a b => a.toString < b.toString)
  for n in names do
    let axs ← liftCoreM (collectAxioms n)
    let axs := axs.qsort (fun a b => a.toString < b.toString)
    logInfo m!"AUDIT {n} {axs.toList}"
