#!/bin/bash
# Runs every claimed check (default: quick) on the current /repo and prints one line each.
cd "$(dirname "$0")"
tier=${1:-quick}
rc=0
for p in $(python3 -c "import props; print(' '.join(k for k,v in props.PROPS.items() if not v.get('unclaimed')))"); do
  out=$(./check $p $tier 2>&1 | tail -1)
  echo "$out"
  case "$out" in VIOLATION*) rc=1;; esac
done
exit $rc
