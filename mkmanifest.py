#!/usr/bin/env python3
"""Regenerates MANIFEST.json from props.py (claimed checks) and properties.jsonl."""
import json, os, subprocess
import props
ROOT = os.path.dirname(os.path.abspath(__file__))
ids = [json.loads(l)["id"] for l in open(os.path.join(ROOT, "properties.jsonl"))]
hooks = [l.split()[0] for l in open(os.path.join(ROOT, "MANIFEST.hooks")) if l.strip() and not l.startswith("#")] if os.path.exists(os.path.join(ROOT, "MANIFEST.hooks")) else []
checks = []
for pid in ids:
    c = props.PROPS.get(pid)
    if not c or c.get("unclaimed"):
        continue
    checks.append({
        "property_id": pid,
        "quick_cmd": f"./check {pid} quick",
        "thorough_cmd": f"./check {pid} thorough",
        "evidence_file": f"/verif/evidence/{pid}.json",
        "replay_cmd_template": f"./check {pid} --replay {{path}}",
        "engine": "lean4-proof+correspondence",
        "level_claimed": {
            "category": c.get("level", "proof"),
            "text": c["level_text"],
            "design_ref": f"DESIGN.md section 5 ({pid}: plan) and section 11 (as built)",
        },
        "level_note": c["level_note"],
        "technique": c.get("technique", "Lean 4 theorems over a model regenerated from / corresponded with the Go source"),
    })
na = [{"property_id": pid, "reason": props.NOT_CLAIMED.get(pid, "check not built yet in this round; planned per DESIGN.md section 5")} for pid in ids if pid not in [c["property_id"] for c in checks]]
m = {
    "version": 1,
    "setup_cmd": "./setup.sh",
    "hooks": {
        "guard": "verif",
        "enable": "go build -tags verif (the harness module /verif/go/harness replaces github.com/IrineSistiana/mosdns/v5 by /repo and is built with -tags verif,p<Cxx>)",
        "baseline_off_cmd": "/verif/baseline_off.sh",
        "source_commits": hooks,
        "add_only": True,
    },
    "engines": [{
        "name": "lean4-proof+correspondence",
        "path": "/verif/check",
        "serves_properties": [c["property_id"] for c in checks],
        "kind_free_text": "Lean 4 theorems (lake build + #print axioms audit, leanchecker in the thorough tier) over models tied to /repo by a Go->Lean translator and fact extractor (go/extract, regenerated every run) and by a differential correspondence (go/harness built against /repo with -tags verif vs. the compiled Lean model driver)",
    }],
    "checks": checks,
    "notes": "See DESIGN.md. KNOWN_FINDINGS.txt lists the twelve defects repaired by fix: commits in /repo.",
    "not_applicable": na,
}
json.dump(m, open(os.path.join(ROOT, "MANIFEST.json"), "w"), indent=1)
print(f"MANIFEST.json: {len(checks)} checks, {len(na)} not claimed")
