#!/bin/bash
# Unchanged-tree sweep: every quick check under several seeds; prints only failures. Not a registered check.
cd "$(dirname "$0")"
seeds=${1:-"1 2 3 4 5 6"}
tier=${2:-quick}
for s in $seeds; do
  for p in $(python3 -c "import props; print(' '.join(props.PROPS))"); do
    out=$(VERIF_SEED=$s ./check $p $tier 2>&1)
    if echo "$out" | grep -q VIOLATION; then
      echo "== seed $s $p"; echo "$out" | tail -6 | cut -c1-700
      cp replays/$p/$tier-seed$s.json /tmp/sweep_${p}_$s.json 2>/dev/null
    fi
  done
  echo "seed $s done"
done
