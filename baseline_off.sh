#!/bin/bash
# Runs /repo's own test suite with the `verif` build tag OFF and compares the
# result with the 144 stable test names of /root/.vp/BASELINE.json.
# Prints the raw `go test -json` stream on stdout (what the baseline parser
# expects) and a summary on stderr; exit 0 iff every stable name passed.
export GOFLAGS=-mod=mod GOPROXY=off GOSUMDB=off GOTOOLCHAIN=local
OUT=$(mktemp)
trap 'rm -f "$OUT"' EXIT
(cd /repo && go test -mod=mod -json -vet=off -count=1 -timeout 25m ./...) | tee "$OUT"
python3 - "$OUT" >&2 <<'EOF'
import json, sys
passed = set()
failed = set()
for line in open(sys.argv[1]):
    line = line.strip()
    if not line.startswith('{'):
        continue
    try:
        e = json.loads(line)
    except Exception:
        continue
    if e.get('Test') and e.get('Action') in ('pass', 'fail'):
        name = e['Package'] + '::' + e['Test']
        (passed if e['Action'] == 'pass' else failed).add(name)
try:
    base = json.load(open('/root/.vp/BASELINE.json'))
    stable = set(base['stable_pass'])
except Exception:
    stable = set()
missing = sorted(stable - passed)
print(f"baseline_off: {len(passed)} passed, {len(failed)} failed, stable {len(stable)}, stable-not-passed {len(missing)}")
for m in missing:
    print("  NOT PASSED:", m)
for f in sorted(failed):
    print("  FAILED:", f)
sys.exit(1 if missing else 0)
EOF
